(** C07 — executable statement of the property: acceptance of the constructor forms, exact field
    access/replacement, and the one-leap-second timeline semantics of time-of-day arithmetic
    (Spec/TimeOfDay.v).  Written from the property text and the crate documentation; nothing is
    imported from the model.

    Ops [ndt.*]: date-times follow the same rules with the carry applied to the date (day numbers of
    the proleptic Gregorian calendar, Spec/Gregorian.v); refused exactly when the date leaves the
    representable range. *)
From Coq Require Import ZArith List Bool String.
From V Require Import Base.Int Base.IO Spec.TimeOfDay Spec.Gregorian.
Import ListNotations.
Open Scope Z_scope.

(* durations: exact integer nanosecond counts in the closed TimeDelta range (C06) *)
Definition DMAX := 9223372036854775807000000.
Definition ns_of_arg (v : val) : option Z :=
  match v with
  | VTup [VInt s; VInt n] =>
      let x := s * TG + n in
      if (0 <=? n) && (n <? TG) && (- DMAX <=? x) && (x <=? DMAX) then Some x else None
  | _ => None
  end.
Definition enc_ns (n : Z) : val := VTup [VInt (n / TG); VInt (n mod TG)].

Definition time_of_arg (v : val) : option (Z * Z) :=
  match v with
  | VTup [VInt s; VInt f] => if state_ok s f then Some (s, f) else None
  | _ => None
  end.
Definition enc_t (s f : Z) : val := VTup [VInt s; VInt f].
Definition u32 (v : val) : option Z := match v with VInt z => if in_u32 z then Some z else None | _ => None end.

(* constructors: Some (the reading) exactly when accepted *)
Definition exp_ctor (h m s nano : Z) : val :=
  if accept_hms_nano h m s nano then VSome (enc_t (secs_of_hms h m s) nano) else VNone.

Definition judge_ctor4 (scale : Z) (args : list val) (out : val) : verdict :=
  match args with
  | [a; b; c; d] =>
      match u32 a, u32 b, u32 c, u32 d with
      | Some h, Some m, Some s, Some x => judge_eq (exp_ctor h m s (x * scale)) out
      | _, _, _, _ => JSkip end
  | _ => JSkip
  end.

(* single-field replacement: None exactly when the argument is outside the field's own range,
   otherwise exactly the named field changes *)
Definition exp_with (which : Z) (s f v : Z) : val :=
  let h := hour_of s in let m := minute_of s in let sec := second_of s in
  if which =? 0 then if v <? 24 then VSome (enc_t (secs_of_hms v m sec) f) else VNone
  else if which =? 1 then if v <? 60 then VSome (enc_t (secs_of_hms h v sec) f) else VNone
  else if which =? 2 then if v <? 60 then VSome (enc_t (secs_of_hms h m v) f) else VNone
  else if v <? 2 * TG then VSome (enc_t s v) else VNone.
Definition judge_with (which : Z) (args : list val) (out : val) : verdict :=
  match args with
  | [a; b] => match time_of_arg a, u32 b with
              | Some (s, f), Some v => judge_eq (exp_with which s f v) out
              | _, _ => JSkip end
  | _ => JSkip
  end.

Definition exp_acc (s f : Z) : val :=
  let h := hour_of s in
  VTup [VInt h; VInt (minute_of s); VInt (second_of s); VInt f; VInt s;
        val_of_bool (12 <=? h); VInt (if h mod 12 =? 0 then 12 else h mod 12)].

(* addition/subtraction of a duration of d nanoseconds (sub: sign = -1) *)
Definition exp_add_pair (sign : Z) (s f d : Z) : val :=
  let '((s', f'), carry) := tl_add s f (sign * d) in
  (* overflowing_sub_signed reports the seconds "ignored from the subtraction": t - d = time - carry *)
  VTup [enc_t s' f'; VInt (sign * carry)].
Definition exp_add_time (sign : Z) (s f d : Z) : val :=
  let '((s', f'), _) := tl_add s f (sign * d) in enc_t s' f'.
Definition judge_td (f : Z -> Z -> Z -> val) (args : list val) (out : val) : verdict :=
  match args with
  | [a; b] => match time_of_arg a, ns_of_arg b with
              | Some (s, fr), Some d => judge_eq (f s fr d) out
              | _, _ => JSkip end
  | _ => JSkip
  end.
Definition judge_std (sign : Z) (args : list val) (out : val) : verdict :=
  match args with
  | [a; VInt ds; VInt dn] =>
      match time_of_arg a with
      | Some (s, fr) =>
          if in_u64 ds && (0 <=? dn) && (dn <? TG)
          then judge_eq (exp_add_time sign s fr (ds * TG + dn)) out else JSkip
      | None => JSkip end
  | _ => JSkip
  end.
Definition judge_diff (args : list val) (out : val) : verdict :=
  match args with
  | [a; b] => match time_of_arg a, time_of_arg b with
              | Some (s1, f1), Some (s2, f2) => judge_eq (enc_ns (tl_diff s1 f1 s2 f2)) out
              | _, _ => JSkip end
  | _ => JSkip
  end.
Definition judge_off (sign : Z) (with_days : bool) (args : list val) (out : val) : verdict :=
  match args with
  | [a; VInt off] =>
      match time_of_arg a with
      | Some (s, f) =>
          if (-86400 <? off) && (off <? 86400) then
            let '((s', f'), days) := tl_shift s f (sign * off) in
            judge_eq (if with_days then VTup [enc_t s' f'; VInt days] else enc_t s' f') out
          else JSkip
      | None => JSkip end
  | _ => JSkip
  end.

(* date-times: (year, ordinal, secs, frac) *)
Definition exp_ndt (sign : Z) (y o s f d : Z) : option val :=
  let '((s', f'), carry) := tl_add s f (sign * d) in
  let n := dn_of_yo y o + carry / 86400 in
  if dn_in_range n then let '(y', o') := yo_of_dn n in Some (VTup [VInt y'; VInt o'; VInt s'; VInt f']) else None.
Definition judge_ndt (sign : Z) (op_form : bool) (args : list val) (out : val) : verdict :=
  match args with
  | [VTup [VInt y; VInt o; VInt s; VInt f]; b] =>
      match ns_of_arg b with
      | Some d =>
          if year_in_range y && valid_yo y o && state_ok s f then
            judge_eq (match exp_ndt sign y o s f d with
                      | Some v => if op_form then v else VSome v
                      | None => if op_form then VPanic else VNone end) out
          else JSkip
      | None => JSkip end
  | _ => JSkip
  end.

(* a date-time plus / minus a core::time::Duration (secs : u64, nanos < 10^9): the same rule with the
   duration as a count of nanoseconds; a duration beyond the largest TimeDelta cannot be converted
   and the operator panics (documented for the operator forms) *)
Definition judge_ndt_std (sign : Z) (args : list val) (out : val) : verdict :=
  match args with
  | [VTup [VInt y; VInt o; VInt s; VInt f]; VInt ds; VInt dn] =>
      if in_u64 ds && (0 <=? dn) && (dn <? TG) then
        if year_in_range y && valid_yo y o && state_ok s f then
          let d := ds * TG + dn in
          if d <=? DMAX then
            judge_eq (match exp_ndt sign y o s f d with Some v => v | None => VPanic end) out
          else judge_eq VPanic out
        else JSkip
      else JSkip
  | _ => JSkip
  end.

(* the same accessors and replacements asked of a naive date-time: they concern its time of day, the
   date is carried along unchanged (the date itself is not examined here) *)
Definition with_date (y o : Z) (v : val) : val :=
  match v with
  | VSome (VTup [s; f]) => VSome (VTup [VInt y; VInt o; s; f])
  | _ => v
  end.

(* the panicking twins of the constructors: the same reading, PANIC exactly where nothing is accepted *)
Definition or_panic (v : val) : val := match v with VSome x => x | _ => VPanic end.
Definition judge_pctor4 (scale : Z) (args : list val) (out : val) : verdict :=
  match args with
  | [a; b; c; d] =>
      match u32 a, u32 b, u32 c, u32 d with
      | Some h, Some m, Some s, Some x => judge_eq (or_panic (exp_ctor h m s (x * scale))) out
      | _, _, _, _ => JSkip end
  | _ => JSkip
  end.

(* NaiveDate::and_hms* (deprecated, panicking) on an existing date (year, ordinal): the date is kept, the time
   is the constructor's reading; PANIC exactly where the constructor accepts nothing *)
Definition on_date (y o : Z) (v : val) : val :=
  match v with VSome (VTup [s; f]) => VTup [VInt y; VInt o; s; f] | _ => VPanic end.
Definition judge_dphms (scale : Z) (args : list val) (out : val) : verdict :=
  match args with
  | [VTup [VInt y; VInt o]; a; b; c; d] =>
      match u32 a, u32 b, u32 c, u32 d with
      | Some h, Some m, Some s, Some x =>
          if year_in_range y && valid_yo y o
          then judge_eq (on_date y o (exp_ctor h m s (x * scale))) out else JSkip
      | _, _, _, _ => JSkip end
  | _ => JSkip
  end.

Definition judge (op : bytes) (args : list val) (out : val) : verdict :=
  if op_is op "ndt.add" then judge_ndt 1 false args out
  else if op_is op "ndt.sub" then judge_ndt (-1) false args out
  else if op_is op "ndt.opadd" then judge_ndt 1 true args out
  else if op_is op "ndt.opsub" then judge_ndt (-1) true args out
  else if op_is op "ndt.addstd" then judge_ndt_std 1 args out
  else if op_is op "ndt.substd" then judge_ndt_std (-1) args out
  else if op_is op "ndt.addstd_assign" then judge_ndt_std 1 args out
  else if op_is op "ndt.substd_assign" then judge_ndt_std (-1) args out
  else if op_is op "t.hms" then
    match args with
    | [a; b; c] => match u32 a, u32 b, u32 c with
                   | Some h, Some m, Some s => judge_eq (exp_ctor h m s 0) out
                   | _, _, _ => JSkip end
    | _ => JSkip end
  else if op_is op "t.hms_milli" then judge_ctor4 1000000 args out
  else if op_is op "t.hms_micro" then judge_ctor4 1000 args out
  else if op_is op "t.hms_nano" then judge_ctor4 1 args out
  else if op_is op "t.nsfm" then
    match args with
    | [a; b] => match u32 a, u32 b with
                | Some s, Some n => judge_eq (if accept_secs_nano s n then VSome (enc_t s n) else VNone) out
                | _, _ => JSkip end
    | _ => JSkip end
  else if op_is op "t.acc" then
    match args with
    | [a] => match time_of_arg a with Some (s, f) => judge_eq (exp_acc s f) out | None => JSkip end
    | _ => JSkip end
  else if op_is op "t.with_hour" then judge_with 0 args out
  else if op_is op "t.with_minute" then judge_with 1 args out
  else if op_is op "t.with_second" then judge_with 2 args out
  else if op_is op "t.with_nano" then judge_with 3 args out
  else if op_is op "t.add" then judge_td (exp_add_pair 1) args out
  else if op_is op "t.sub" then judge_td (exp_add_pair (-1)) args out
  else if op_is op "t.opadd" then judge_td (exp_add_time 1) args out
  else if op_is op "t.opsub" then judge_td (exp_add_time (-1)) args out
  else if op_is op "t.opadd_assign" then judge_td (exp_add_time 1) args out
  else if op_is op "t.opsub_assign" then judge_td (exp_add_time (-1)) args out
  else if op_is op "t.diff" then judge_diff args out
  else if op_is op "t.opdiff" then judge_diff args out
  else if op_is op "t.addstd" then judge_std 1 args out
  else if op_is op "t.substd" then judge_std (-1) args out
  else if op_is op "t.addstd_assign" then judge_std 1 args out
  else if op_is op "t.substd_assign" then judge_std (-1) args out
  else if op_is op "t.addoff" then judge_off 1 false args out
  else if op_is op "t.suboff" then judge_off (-1) false args out
  else if op_is op "t.addoffd" then judge_off 1 true args out
  else if op_is op "t.suboffd" then judge_off (-1) true args out
  else if op_is op "ndt.tacc" then
    match args with
    | [VTup [VInt y; VInt o; s; f]] =>
        match time_of_arg (VTup [s; f]) with Some (s, f) => judge_eq (exp_acc s f) out | None => JSkip end
    | _ => JSkip end
  else if op_is op "ndt.twith" then
    match args with
    | [VInt which; VTup [VInt y; VInt o; s; f]; b] =>
        match time_of_arg (VTup [s; f]), u32 b with
        | Some (s, f), Some v =>
            if (0 <=? which) && (which <=? 3) then judge_eq (with_date y o (exp_with which s f v)) out else JSkip
        | _, _ => JSkip end
    | _ => JSkip end
  else if op_is op "t.phms" then
    match args with
    | [a; b; c] => match u32 a, u32 b, u32 c with
                   | Some h, Some m, Some s => judge_eq (or_panic (exp_ctor h m s 0)) out
                   | _, _, _ => JSkip end
    | _ => JSkip end
  else if op_is op "t.phms_milli" then judge_pctor4 1000000 args out
  else if op_is op "t.phms_micro" then judge_pctor4 1000 args out
  else if op_is op "t.phms_nano" then judge_pctor4 1 args out
  else if op_is op "t.pnsfm" then
    match args with
    | [a; b] => match u32 a, u32 b with
                | Some s, Some n => judge_eq (if accept_secs_nano s n then enc_t s n else VPanic) out
                | _, _ => JSkip end
    | _ => JSkip end
  else if op_is op "ndt.phms" then
    match args with
    | [VTup [VInt y; VInt o]; a; b; c] =>
        match u32 a, u32 b, u32 c with
        | Some h, Some m, Some s =>
            if year_in_range y && valid_yo y o then judge_eq (on_date y o (exp_ctor h m s 0)) out else JSkip
        | _, _, _ => JSkip end
    | _ => JSkip end
  else if op_is op "ndt.phms_milli" then judge_dphms 1000000 args out
  else if op_is op "ndt.phms_micro" then judge_dphms 1000 args out
  else if op_is op "ndt.phms_nano" then judge_dphms 1 args out
  else JSkip.
