(** C09 -- executable statement of the property "default text forms parse back to the same value",
    written from the property text, the documentation of the Display / Debug / FromStr impls and
    Spec/Gregorian.v; nothing is imported from the model or the generated data.

    Documented shapes (doc comments of the impls):
      NaiveDate      "%Y-%m-%d": year as 4 digits for 0..9999, otherwise an explicit sign and at
                     least 4 digits ("-0001-01-01", "+10000-12-31"); Display = Debug
      NaiveTime      "%H:%M:%S%.f": fraction omitted when zero, else the fewest of 3 / 6 / 9 digits
                     that lose nothing; a leap second prints second 60 ("06:59:60.500")
      NaiveDateTime  Debug "<date>T<time>", Display "<date> <time>"
      DateTime<Tz>   Debug "<local date>T<local time><offset>", Display "<date> <time> <offset>";
                     the offset of FixedOffset is "+hh:mm" / "-hh:mm", Utc prints "Z" (Debug) and
                     "UTC" (Display)
      FixedOffset    "+hh:mm" / "-hh:mm"
      Weekday        "Mon" .. "Sun" (both forms);  Month  "January" .. "December" (Debug only)

    tx.show ty form v   the text must be exactly the documented shape
    tx.rt   ty form v   parse (show v) must be v
    tx.parse ty s       only when [s] is the documented text of the value that came out: ok;
                        the property says nothing about other strings (skip)
    Domain (property text): every representable date (years -262143..262142), every time of day
    with a leap-second fraction only on second 59, their product, date-times in UTC or with a
    whole-minute offset, whole-minute offsets, weekdays, months.  Outside: skip. *)
From Coq Require Import ZArith List Bool String.
From V Require Import Base.Int Base.IO Spec.Gregorian.
Import ListNotations.
Open Scope Z_scope.

(** ** decimal text *)
Definition pad_dec (w : nat) (n : Z) : bytes :=
  let d := dec_of_Z n in repeat 48 (w - List.length d)%nat ++ d.

Definition year_text (y : Z) : bytes :=
  if (0 <=? y) && (y <=? 9999) then pad_dec 4 y
  else (if y <? 0 then B"-" else B"+") ++ pad_dec 4 (Z.abs y).
(* a date given as (year, ordinal) *)
Definition date_text (y o : Z) : bytes :=
  let '(m, d) := md_of_ordinal (is_leap y) o in
  year_text y ++ B"-" ++ pad_dec 2 m ++ B"-" ++ pad_dec 2 d.

(* the fewest of 0, 3, 6, 9 fraction digits that lose nothing *)
Definition frac_digits (sub : Z) : Z :=
  match find (fun nd => sub mod 10 ^ (9 - nd) =? 0) [0; 3; 6; 9] with Some nd => nd | None => 9 end.
Definition frac_text (sub : Z) : bytes :=
  let nd := frac_digits sub in
  if nd =? 0 then [] else B"." ++ pad_dec (Z.to_nat nd) (sub / 10 ^ (9 - nd)).
(* a time given as (second of day, nanosecond field); field >= 10^9 = leap second: second 60 *)
Definition time_text (s f : Z) : bytes :=
  let leap := 1000000000 <=? f in
  let sub := if leap then f - 1000000000 else f in
  pad_dec 2 (s / 3600) ++ B":" ++ pad_dec 2 (s / 60 mod 60) ++ B":"
  ++ pad_dec 2 (s mod 60 + (if leap then 1 else 0)) ++ frac_text sub.
(* a whole-minute offset, seconds east *)
Definition offset_text (off : Z) : bytes :=
  let a := Z.abs off in
  (if off <? 0 then B"-" else B"+") ++ pad_dec 2 (a / 3600) ++ B":" ++ pad_dec 2 (a / 60 mod 60).

(* wall clock of the UTC reading (y, o, s) at offset off: (year, ordinal, second of day) *)
Definition wall (y o s off : Z) : Z * Z * Z :=
  let t := dn_of_yo y o * 86400 + s + off in
  let '(ly, lo) := yo_of_dn (t / 86400) in (ly, lo, t mod 86400).

Definition weekday_names : list bytes := [B"Mon"; B"Tue"; B"Wed"; B"Thu"; B"Fri"; B"Sat"; B"Sun"].
Definition month_names : list bytes :=
  [B"January"; B"February"; B"March"; B"April"; B"May"; B"June"; B"July"; B"August"; B"September";
   B"October"; B"November"; B"December"].

(** ** the domain, and the documented text of a value *)
Definition valid_date (y o : Z) : bool := year_in_range y && valid_yo y o.
Definition valid_time (s f : Z) : bool :=
  (0 <=? s) && (s <? 86400) && (0 <=? f) && (f <? 2000000000).
(* leap-second fraction only on second 59 *)
Definition time_in_domain (s f : Z) : bool := (f <? 1000000000) || (s mod 60 =? 59).
Definition valid_offset (off : Z) : bool := (-86400 <? off) && (off <? 86400).

Inductive cls := InDom (text : bytes) | OutDom | BadArg.

(* ty, form (0 Display, 1 Debug), value -> documented text *)
Definition spec_text (ty form : Z) (v : val) : cls :=
  if negb ((form =? 0) || (form =? 1)) then BadArg else
  let dbg := form =? 1 in
  if ty =? 0 then
    match v with
    | VTup [VInt y; VInt o] => if valid_date y o then InDom (date_text y o) else BadArg
    | _ => BadArg end
  else if ty =? 1 then
    match v with
    | VTup [VInt s; VInt f] =>
        if valid_time s f then (if time_in_domain s f then InDom (time_text s f) else OutDom) else BadArg
    | _ => BadArg end
  else if ty =? 2 then
    match v with
    | VTup [VInt y; VInt o; VInt s; VInt f] =>
        if valid_date y o && valid_time s f then
          if time_in_domain s f then
            InDom (date_text y o ++ (if dbg then B"T" else B" ") ++ time_text s f)
          else OutDom
        else BadArg
    | _ => BadArg end
  else if (ty =? 3) || (ty =? 4) then
    match v with
    | VTup [VInt y; VInt o; VInt s; VInt f; VInt off] =>
        if valid_date y o && valid_time s f && valid_offset off && ((ty =? 3) || (off =? 0)) then
          if time_in_domain s f && (off mod 60 =? 0) then
            let '(ly, lo, ls) := wall y o s off in
            let zone := if ty =? 3 then offset_text off else if dbg then B"Z" else B"UTC" in
            InDom (date_text ly lo ++ (if dbg then B"T" else B" ") ++ time_text ls f
                   ++ (if dbg then [] else B" ") ++ zone)
          else OutDom
        else BadArg
    | _ => BadArg end
  else if ty =? 5 then
    match v with
    | VInt off => if valid_offset off then (if off mod 60 =? 0 then InDom (offset_text off) else OutDom) else BadArg
    | _ => BadArg end
  else if ty =? 6 then
    match v with
    | VInt w => if (0 <=? w) && (w <=? 6) then InDom (nth (Z.to_nat w) weekday_names []) else BadArg
    | _ => BadArg end
  else if ty =? 7 then
    match v with
    | VInt m => if (1 <=? m) && (m <=? 12) && dbg then InDom (nth (Z.to_nat (m - 1)) month_names []) else BadArg
    | _ => BadArg end
  else BadArg.

Definition judge_show (ty form : Z) (v out : val) : verdict :=
  match spec_text ty form v with
  | InDom t => judge_eq (VStr t) out
  | _ => JSkip
  end.
Definition judge_rt (ty form : Z) (v out : val) : verdict :=
  match spec_text ty form v with
  | InDom _ => judge_eq v out
  | _ => JSkip
  end.
(* the property speaks about printed forms only: a parse result is checked when the input is the
   documented text (either form) of the value that came out *)
Definition is_text_of (ty : Z) (s : bytes) (out : val) : bool :=
  match spec_text ty 0 out, spec_text ty 1 out with
  | InDom a, InDom b => bytes_eqb a s || bytes_eqb b s
  | InDom a, _ => bytes_eqb a s
  | _, InDom b => bytes_eqb b s
  | _, _ => false
  end.
Definition judge_parse (ty : Z) (s : bytes) (out : val) : verdict :=
  if is_text_of ty s out then JOk else JSkip.

Definition judge (op : bytes) (args : list val) (out : val) : verdict :=
  if op_is op "tx.show" then
    match args with [VInt ty; VInt form; v] => judge_show ty form v out | _ => JSkip end
  else if op_is op "tx.rt" then
    match args with [VInt ty; VInt form; v] => judge_rt ty form v out | _ => JSkip end
  else if op_is op "tx.parse" then
    match args with [VInt ty; VStr s] => judge_parse ty s out | _ => JSkip end
  else JSkip.
