(** C10 -- executable statement of the property "RFC 3339 output is conformant and input acceptance
    is exact", written from the property text, RFC 3339 section 5.6 and the crate documentation
    (Spec/Rfc3339.v, Spec/Gregorian.v); nothing is imported from the model or the generated data.

    r3.parse <bytes>            output must be the denoted value iff the recogniser accepts and the
                                fields are valid; otherwise an error value (never PANIC).
    r3.write Z secform usez     output text must be in the strict grammar, show the wall-clock fields
    r3.show Z  (= AutoSi, no Z) exactly, the fraction truncated to the printed precision, 'Z' iff
                                requested and the offset is zero, the offset exactly; and denote the
                                same instant (truncated) and offset.
    r3.rt Z secform usez        parse (write v) must be v truncated to the printed precision.
    Domain of the writer claims: wall-clock year 0..9999, whole-minute offset, a leap-second
    nanosecond field only on second 59 (outside: skip). *)
From Coq Require Import ZArith List Bool String.
From V Require Import Base.Int Base.IO Base.Utf8 Spec.Gregorian Spec.Rfc3339.
Import ListNotations.
Open Scope Z_scope.

Definition enc5 (v : Z * Z * Z * Z * Z) : val :=
  let '(y, o, s, f, off) := v in VTup [VInt y; VInt o; VInt s; VInt f; VInt off].

Definition judge_parse (s : bytes) (out : val) : verdict :=
  if negb (utf8_valid s) then JSkip else
  match accepts s with
  | Some v => judge_eq (enc5 v) out
  | None =>
      match out with
      | VErr n => if bytes_eqb n B"BADARGS" || bytes_eqb n B"NOOP" then JBad B"not-run" else JOk
      | _ => JBad B"string-outside-the-grammar-must-be-rejected-with-an-error"
      end
  end.

(** a value of the case protocol that is a date-time in chrono's range *)
Definition dec5 (v : val) : option (Z * Z * Z * Z * Z) :=
  match v with
  | VTup [VInt y; VInt o; VInt s; VInt f; VInt off] =>
      if year_in_range y && valid_yo y o && (0 <=? s) && (s <? 86400) && (0 <=? f) && (f <? 2000000000)
         && (-86400 <? off) && (off <? 86400)
      then Some (y, o, s, f, off) else None
  | _ => None
  end.
(** the writer domain of the property *)
Definition in_writer_domain (v : Z * Z * Z * Z * Z) : bool :=
  let '(y, o, s, f, off) := v in
  let '(ly, _) := yo_of_dn (wall_dn y o s off) in
  (off mod 60 =? 0) && (0 <=? ly) && (ly <=? 9999)
  && ((f <? 1000000000) || (s mod 60 =? 59)).
(** the value after truncation to the printed precision *)
Definition truncated (v : Z * Z * Z * Z * Z) (secform : Z) : Z * Z * Z * Z * Z :=
  let '(y, o, s, f, off) := v in (y, o, s, truncated_frac secform f, off).

Fixpoint list_eqb (a b : list Z) : bool :=
  match a, b with
  | [], [] => true
  | x :: a', y :: b' => (x =? y) && list_eqb a' b'
  | _, _ => false
  end.

Definition judge_text (v : Z * Z * Z * Z * Z) (secform : Z) (use_z : bool) (t : bytes) : verdict :=
  let '(y, o, s, f, off) := v in
  match recognise t with
  | None => JBad B"output-not-in-the-rfc3339-grammar"
  | Some g =>
    if negb (valid g) then JBad B"output-fields-not-valid" else
    if negb (strict g) then JBad B"output-not-in-strict-form" else
    let e := fields_of y o s f off secform use_z in
    if negb ((f_year g =? f_year e) && (f_month g =? f_month e) && (f_day g =? f_day e)) then JBad B"date-fields-differ" else
    if negb ((f_hour g =? f_hour e) && (f_minute g =? f_minute e) && (f_second g =? f_second e)) then JBad B"time-fields-differ" else
    if negb (list_eqb (f_frac g) (f_frac e)) then JBad B"fraction-digits-differ" else
    if negb (match f_zone g with Zulu _ => use_z && (off =? 0) | Numeric _ _ _ => negb (use_z && (off =? 0)) end)
    then JBad B"Z-used-wrongly" else
    if negb (zone_offset (f_zone g) =? off) then JBad B"offset-differs" else
    judge_eq (enc5 (truncated v secform)) (enc5 (denote g))
  end.

Definition judge_write (args : list val) (secform : option Z) (usez : option Z) (out : val) : verdict :=
  match args with
  | z :: _ =>
    match dec5 z, secform, usez with
    | Some v, Some sf, Some uz =>
        if negb ((0 <=? sf) && (sf <=? 4) && ((uz =? 0) || (uz =? 1))) then JSkip else
        if negb (in_writer_domain v) then JSkip else
        match out with
        | VStr t => judge_text v sf (uz =? 1) t
        | _ => JBad B"writer-must-produce-text"
        end
    | _, _, _ => JSkip
    end
  | [] => JSkip
  end.

Definition judge (op : bytes) (args : list val) (out : val) : verdict :=
  if op_is op "r3.parse" then
    match args with [VStr s] => judge_parse s out | _ => JSkip end
  else if op_is op "r3.write" then
    match args with
    | [z; VInt sf; VInt uz] => judge_write args (Some sf) (Some uz) out
    | _ => JSkip end
  else if op_is op "r3.show" then
    match args with [z] => judge_write args (Some 4) (Some 0) out | _ => JSkip end
  else if op_is op "r3.rt" then
    match args with
    | [z; VInt sf; VInt uz] =>
        match dec5 z with
        | Some v =>
            if negb ((0 <=? sf) && (sf <=? 4) && ((uz =? 0) || (uz =? 1))) then JSkip else
            if negb (in_writer_domain v) then JSkip else
            judge_eq (enc5 (truncated v sf)) out
        | None => JSkip
        end
    | _ => JSkip end
  else JSkip.
