(** C06 — executable statement of the property: a duration is an exact integer number of
    nanoseconds in [-(2^63-1) ms, +(2^63-1) ms].  Everything here is plain arithmetic on that
    integer; nothing is imported from the model or from the generated constants. *)
From Coq Require Import ZArith List Bool String.
From V Require Import Base.Int Base.IO.
Import ListNotations.
Open Scope Z_scope.

Definition G := 1000000000.                                  (* ns per second *)
Definition RMAX := 9223372036854775807000000.                (* (2^63-1) ms in ns *)
Definition RMIN := -9223372036854775807000000.
Definition in_rng (n : Z) : bool := (RMIN <=? n) && (n <=? RMAX).

(* canonical encoding of an integer nanosecond count: floor seconds + non-negative nanos *)
Definition enc_ns (n : Z) : val := VTup [VInt (n / G); VInt (n mod G)].
Definition exp_opt (n : Z) : val := if in_rng n then VSome (enc_ns n) else VNone.
Definition exp_or_panic (n : Z) : val := if in_rng n then enc_ns n else VPanic.

(* a valid duration argument and its nanosecond count *)
Definition ns_of_arg (v : val) : option Z :=
  match v with
  | VTup [VInt s; VInt n] =>
      if (0 <=? n) && (n <? G) && in_rng (s * G + n) then Some (s * G + n) else None
  | _ => None
  end.
Definition ns_of_out (v : val) : option Z := ns_of_arg v.

Definition opt_i64 (z : Z) : val := if in_i64 z then VSome (VInt z) else VNone.

(* exact decimal text of |n|/10^9 seconds *)
Fixpoint strip_zeros_rev (l : bytes) : bytes :=
  match l with 48 :: r => strip_zeros_rev r | _ => l end.
Definition pad9 (s : bytes) : bytes := repeat 48 (9 - List.length s)%nat ++ s.
Definition exp_display (n : Z) : bytes :=
  let a := Z.abs n in
  let sign := if n <? 0 then B"-" else [] in
  if a =? 0 then sign ++ B"P0D" else
  let frac := rev (strip_zeros_rev (rev (pad9 (dec_of_Z (a mod G))))) in
  sign ++ B"PT" ++ dec_of_Z (a / G) ++ (match frac with [] => [] | _ => B"." ++ frac end) ++ B"S".

Definition exp_acc (n : Z) : val :=
  let q u := Z.quot n u in
  let sub := Z.rem n G in
  VTup [VInt (q (604800 * G)); VInt (q (86400 * G)); VInt (q (3600 * G)); VInt (q (60 * G));
        VInt (q G); VInt (q 1000000); opt_i64 (q 1000); opt_i64 n;
        VInt (Z.quot sub 1000000); VInt (Z.quot sub 1000); VInt sub; val_of_bool (n =? 0)].

Fixpoint exp_sum (l : list val) (acc : Z) : option val :=
  match l with
  | [] => Some (enc_ns acc)
  | v :: r => match ns_of_arg v with
              | Some n => if in_rng (acc + n) then exp_sum r (acc + n) else Some VPanic
              | None => None
              end
  end.

(* the panicking unit constructors: exact value, or the documented panic exactly out of range *)
Definition punit_ctor (per : Z) (args : list val) (out : val) : verdict :=
  match args with
  | [VInt z] => if in_i64 z then judge_eq (exp_or_panic (z * per)) out else JSkip
  | _ => JSkip
  end.
Definition unit_ctor (per : Z) (args : list val) (out : val) : verdict :=
  match args with
  | [VInt z] => if in_i64 z then judge_eq (exp_opt (z * per)) out else JSkip
  | _ => JSkip
  end.
Definition bin (f : Z -> Z -> val) (args : list val) (out : val) : verdict :=
  match args with
  | [a; b] => match ns_of_arg a, ns_of_arg b with
              | Some x, Some y => judge_eq (f x y) out
              | _, _ => JSkip end
  | _ => JSkip
  end.
Definition un (f : Z -> val) (args : list val) (out : val) : verdict :=
  match args with
  | [a] => match ns_of_arg a with Some x => judge_eq (f x) out | None => JSkip end
  | _ => JSkip
  end.
Definition bin_k (f : Z -> Z -> val -> verdict) (args : list val) (out : val) : verdict :=
  match args with
  | [a; VInt k] => match ns_of_arg a with
                   | Some x => if in_i32 k then f x k out else JSkip
                   | None => JSkip end
  | _ => JSkip
  end.

(* division: within two nanoseconds of the exact quotient, and inside the range *)
Definition div_ok (x k : Z) (r : Z) : bool := Z.abs (r * k - x) <? 2 * Z.abs k.
Definition judge_div (panic_on_zero : bool) (x k : Z) (out : val) : verdict :=
  if k =? 0 then judge_eq (if panic_on_zero then VPanic else VNone) out else
  let got := if panic_on_zero then Some out else match out with VSome v => Some v | _ => None end in
  match got with
  | Some v => match ns_of_out v with
              | Some r => if div_ok x k r then JOk else JBad B"quotient-off-by-2ns-or-more"
              | None => JBad B"result-not-a-valid-duration"
              end
  | None => JBad B"division-by-nonzero-refused"
  end.

Definition judge (op : bytes) (args : list val) (out : val) : verdict :=
  if op_is op "td.new" then
    match args with
    | [VInt s; VInt n] =>
        if in_i64 s && in_u32 n then
          judge_eq (if n <? G then exp_opt (s * G + n) else VNone) out
        else JSkip
    | _ => JSkip end
  else if op_is op "td.weeks" then unit_ctor (604800 * G) args out
  else if op_is op "td.days" then unit_ctor (86400 * G) args out
  else if op_is op "td.hours" then unit_ctor (3600 * G) args out
  else if op_is op "td.minutes" then unit_ctor (60 * G) args out
  else if op_is op "td.seconds" then unit_ctor G args out
  else if op_is op "td.millis" then unit_ctor 1000000 args out
  else if op_is op "td.micros" then
    match args with [VInt z] => if in_i64 z then judge_eq (enc_ns (z * 1000)) out else JSkip | _ => JSkip end
  else if op_is op "td.nanos" then
    match args with [VInt z] => if in_i64 z then judge_eq (enc_ns z) out else JSkip | _ => JSkip end
  else if op_is op "td.acc" then un exp_acc args out
  else if op_is op "td.add" then bin (fun x y => exp_opt (x + y)) args out
  else if op_is op "td.sub" then bin (fun x y => exp_opt (x - y)) args out
  else if op_is op "td.mul" then bin_k (fun x k o => judge_eq (exp_opt (x * k)) o) args out
  else if op_is op "td.div" then bin_k (judge_div false) args out
  else if op_is op "td.neg" then un (fun x => enc_ns (- x)) args out
  else if op_is op "td.abs" then un (fun x => enc_ns (Z.abs x)) args out
  else if op_is op "td.cmp" then bin (fun x y => VInt (cmpZ x y)) args out
  else if op_is op "td.fromstd" then
    match args with
    | [VInt s; VInt n] =>
        if in_u64 s && (0 <=? n) && (n <? G) then judge_eq (exp_opt (s * G + n)) out else JSkip
    | _ => JSkip end
  else if op_is op "td.tostd" then
    un (fun x => if x <? 0 then VNone else VSome (VTup [VInt (x / G); VInt (x mod G)])) args out
  else if op_is op "td.disp" then un (fun x => VStr (exp_display x)) args out
  else if op_is op "td.pweeks" then punit_ctor (604800 * G) args out
  else if op_is op "td.pdays" then punit_ctor (86400 * G) args out
  else if op_is op "td.phours" then punit_ctor (3600 * G) args out
  else if op_is op "td.pminutes" then punit_ctor (60 * G) args out
  else if op_is op "td.pseconds" then punit_ctor G args out
  else if op_is op "td.pmillis" then punit_ctor 1000000 args out
  else if op_is op "td.opadd" then bin (fun x y => exp_or_panic (x + y)) args out
  else if op_is op "td.opsub" then bin (fun x y => exp_or_panic (x - y)) args out
  else if op_is op "td.opmul" then bin_k (fun x k o => judge_eq (exp_or_panic (x * k)) o) args out
  else if op_is op "td.opdiv" then bin_k (judge_div true) args out
  else if op_is op "td.sum" then
    match args with
    | [VTup l] => match exp_sum l 0 with Some e => judge_eq e out | None => JSkip end
    | _ => JSkip end
  else if op_is op "td.opaddasg" then bin (fun x y => exp_or_panic (x + y)) args out
  else if op_is op "td.opsubasg" then bin (fun x y => exp_or_panic (x - y)) args out
  else if op_is op "td.sumv" then
    match args with
    | [VTup l] => match exp_sum l 0 with Some e => judge_eq e out | None => JSkip end
    | _ => JSkip end
  else if op_is op "td.consts" then
    (* the closed range is -(2^63-1) ms .. +(2^63-1) ms; zero is the empty duration *)
    match args with
    | [] => judge_eq (VTup [enc_ns RMIN; enc_ns RMAX; enc_ns 0; enc_ns RMIN; enc_ns RMAX]) out
    | _ => JSkip end
  else JSkip.
