(** C19 — executable statement of the property, from the text and plain mathematics only:
    weekdays are Z/7 (Monday = 0), months are Z/12 presented as 1..12, names are the English names,
    a weekday set is a subset of {0..6} (here: a membership function [Z -> bool]); the integer that
    carries a set in the case protocol has bit i set iff weekday i is a member.
    Nothing is imported from the model or from generated tables.

    Readings fixed here: the numeric conversions of a weekday invert "days from Monday" (0..6,
    the documented integer representation), those of a month invert "number from month" (1..12);
    "case-insensitive" is ASCII case-insensitivity of the English names (a Unicode look-alike such
    as U+017F or U+212A is a different string). *)
From Coq Require Import ZArith List Bool String.
From V Require Import Base.Int Base.IO.
Import ListNotations.
Open Scope Z_scope.

(** ** names *)
Definition weekday_names : list bytes :=
  [B"Monday"; B"Tuesday"; B"Wednesday"; B"Thursday"; B"Friday"; B"Saturday"; B"Sunday"].
Definition month_names : list bytes :=
  [B"January"; B"February"; B"March"; B"April"; B"May"; B"June"; B"July"; B"August"; B"September";
   B"October"; B"November"; B"December"].
Definition short (n : bytes) : bytes := firstn 3 n.
Definition lower (c : Z) : Z := if (65 <=? c) && (c <=? 90) then c + 32 else c.
Definition same_nocase (a b : bytes) : bool := bytes_eqb (map lower a) (map lower b).
Definition names_x (n s : bytes) : bool := same_nocase s n || same_nocase s (short n).
(* index (from 0) of the first name that s denotes *)
Fixpoint denoted (names : list bytes) (s : bytes) (i : Z) : option Z :=
  match names with
  | [] => None
  | n :: r => if names_x n s then Some i else denoted r s (i + 1)
  end.
Definition name_at (names : list bytes) (i : Z) : bytes := nth (Z.to_nat i) names [].

(** ** finite sets of weekdays *)
Definition week : list Z := [0; 1; 2; 3; 4; 5; 6].
Definition mem (s : Z) (i : Z) : bool := Z.odd (s / 2 ^ i).
Definition code (f : Z -> bool) : Z := fold_right (fun i acc => acc + (if f i then 2 ^ i else 0)) 0 week.
Definition members (f : Z -> bool) : list Z := filter f week.
Definition card (f : Z -> bool) : Z := Z.of_nat (List.length (members f)).
(* the week in cyclic order beginning at [start] *)
Definition cyc (start : Z) : list Z := map (fun k => (start + k) mod 7) week.
Definition cyc_members (f : Z -> bool) (start : Z) : list Z := filter f (cyc start).
Definition vwd (o : option Z) : val := match o with Some w => VSome (VInt w) | None => VNone end.
Definition vb (b : bool) : val := VInt (if b then 1 else 0).

(* a double-ended walk over the members in cyclic order: 'f' takes the first remaining member,
   'b' the last remaining one; each step also reports how many remain *)
Fixpoint walk (sched : bytes) (rem : list Z) : option (list val) :=
  match sched with
  | [] => Some []
  | c :: r =>
      if c =? 102 then
        match rem with
        | [] => option_map (cons (VTup [VNone; VInt 0])) (walk r [])
        | x :: rem' => option_map (cons (VTup [VSome (VInt x); VInt (Z.of_nat (List.length rem'))])) (walk r rem')
        end
      else if c =? 98 then
        match rev rem with
        | [] => option_map (cons (VTup [VNone; VInt 0])) (walk r [])
        | x :: rr => option_map (cons (VTup [VSome (VInt x); VInt (Z.of_nat (List.length rr))])) (walk r (rev rr))
        end
      else None
  end.

Fixpoint wd_list (l : list val) : option (list Z) :=
  match l with
  | [] => Some []
  | VInt w :: r => if (0 <=? w) && (w <=? 6) then option_map (cons w) (wd_list r) else None
  | _ => None
  end.

Fixpoint join (sep : bytes) (l : list bytes) : bytes :=
  match l with [] => [] | [a] => a | a :: r => a ++ sep ++ join sep r end.

(** ** argument classes *)
Definition is_wd (v : val) : option Z := match v with VInt w => if (0 <=? w) && (w <=? 6) then Some w else None | _ => None end.
Definition is_mo (v : val) : option Z := match v with VInt m => if (1 <=? m) && (m <=? 12) then Some m else None | _ => None end.
Definition is_set (v : val) : option Z := match v with VInt s => if (0 <=? s) && (s <=? 127) then Some s else None | _ => None end.

Definition on1 {A} (dec : val -> option A) (args : list val) (out : val) (f : A -> val) : verdict :=
  match args with
  | [a] => match dec a with Some x => judge_eq (f x) out | None => JSkip end
  | _ => JSkip
  end.
Definition on2 {X Y} (da : val -> option X) (db : val -> option Y) (args : list val) (out : val) (f : X -> Y -> val) : verdict :=
  match args with
  | [a; b] => match da a, db b with Some x, Some y => judge_eq (f x y) out | _, _ => JSkip end
  | _ => JSkip
  end.
(* a numeric conversion from the integer type with range [lo, hi]: succeeds exactly on the valid
   numbers [first .. last]; the value with number n is carried by n itself in the case protocol
   (weekday = days from Monday, month = number from month) *)
Definition conv (lo hi first last : Z) (args : list val) (out : val) : verdict :=
  match args with
  | [VInt n] =>
      if (lo <=? n) && (n <=? hi) then
        judge_eq (if (first <=? n) && (n <=? last) then VSome (VInt n) else VNone) out
      else JSkip
  | _ => JSkip
  end.
(* integer types by name suffix *)
Definition int_range (ty : bytes) : option (Z * Z) :=
  if bytes_eqb ty B"i8" then Some (i8_min, i8_max) else if bytes_eqb ty B"u8" then Some (0, u8_max)
  else if bytes_eqb ty B"i16" then Some (i16_min, i16_max) else if bytes_eqb ty B"u16" then Some (0, u16_max)
  else if bytes_eqb ty B"i32" then Some (i32_min, i32_max) else if bytes_eqb ty B"u32" then Some (0, u32_max)
  else if bytes_eqb ty B"i64" then Some (i64_min, i64_max) else if bytes_eqb ty B"u64" then Some (0, u64_max)
  else if bytes_eqb ty B"isize" then Some (i64_min, i64_max) else if bytes_eqb ty B"usize" then Some (0, u64_max)
  else if bytes_eqb ty B"i128" then Some (i128_min, i128_max)
  else if bytes_eqb ty B"u128" then Some (0, i128_max)   (* the protocol carries u128 values up to i128::MAX *)
  else None.

Definition prefix_is (op : bytes) (p : string) : bool :=
  match strip_prefix (bytes_of_string p) op with Some _ => true | None => false end.

Definition is_badargs (out : val) : bool :=
  match out with VErr e => bytes_eqb e B"BADARGS" | _ => false end.
Definition parse_judge (names : list bytes) (first : Z) (err : string) (args : list val) (out : val) : verdict :=
  match args with
  | [VStr s] =>
      if is_badargs out then JSkip   (* not a str (invalid UTF-8): outside the argument type *)
      else judge_eq (match denoted names s first with Some i => VInt i | None => VErr (bytes_of_string err) end) out
  | _ => JSkip
  end.

Definition set_of_list (l : list Z) : Z -> bool := fun i => existsb (Z.eqb i) l.
Definition ws_text (s : Z) : bytes :=
  B"[" ++ join B", " (map (fun w => short (name_at weekday_names w)) (members (mem s))) ++ B"]".

(* adaptors over the same walk: the members in cyclic order from the start day are L; count = |L|,
   last = last of L, nth k / nth_back k = the k-th from the front / from the back, rev() = L reversed,
   collecting gives L, the length of the reversed iterator is |L|.  The size hint is only required
   to be a true bound: lower <= |L| <= upper (absent upper = no bound). *)
Definition j_adapt (s w k : Z) (out : val) : verdict :=
  let l := cyc_members (mem s) w in
  let n := Z.of_nat (List.length l) in
  let wds x := VTup (map VInt x) in
  match out with
  | VTup [VInt lo; hi; cnt; lst; nthf; nthb; rnth; coll; rcoll; rlen] =>
      let hint_ok := (0 <=? lo) && (lo <=? n) &&
                     match hi with VNone => true | VSome (VInt h) => n <=? h | _ => false end in
      if negb hint_ok then JBad B"size-hint-not-a-bound"
      else judge_eq (VTup [VInt n; vwd (List.last (map Some l) None); vwd (nth_error l (Z.to_nat k));
                           vwd (nth_error (rev l) (Z.to_nat k)); vwd (nth_error (rev l) (Z.to_nat k));
                           wds l; wds (rev l); VInt n])
                    (VTup [cnt; lst; nthf; nthb; rnth; coll; rcoll; rlen])
  | _ => JBad B"shape"
  end.

Definition judge (op : bytes) (args : list val) (out : val) : verdict :=
  (* ---- Weekday: Z/7 *)
  if op_is op "wd.succ" then on1 is_wd args out (fun w => VInt ((w + 1) mod 7))
  else if op_is op "wd.pred" then on1 is_wd args out (fun w => VInt ((w - 1) mod 7))
  else if op_is op "wd.nfm" then on1 is_wd args out (fun w => VInt (w + 1))
  else if op_is op "wd.nfs" then on1 is_wd args out (fun w => VInt ((w + 1) mod 7 + 1))
  else if op_is op "wd.ndfm" then on1 is_wd args out (fun w => VInt w)
  else if op_is op "wd.ndfs" then on1 is_wd args out (fun w => VInt ((w + 1) mod 7))
  else if op_is op "wd.since" then on2 is_wd is_wd args out (fun a b => VInt ((a - b) mod 7))
  else if op_is op "wd.disp" then on1 is_wd args out (fun w => VStr (short (name_at weekday_names w)))
  else if op_is op "wd.try" then
    match args with
    | [VInt n] => if (0 <=? n) && (n <=? u8_max) then
                    judge_eq (if n <=? 6 then VInt n else VErr B"OutOfRange") out else JSkip
    | _ => JSkip end
  else if op_is op "wd.parse" then parse_judge weekday_names 0 "ParseWeekdayError" args out
  else if prefix_is op "wd.f" then
    match int_range (skipn 4 op) with Some (lo, hi) => conv lo hi 0 6 args out | None => JSkip end
  (* ---- Month: Z/12 presented as 1..12 *)
  else if op_is op "mo.succ" then on1 is_mo args out (fun m => VInt (m mod 12 + 1))
  else if op_is op "mo.pred" then on1 is_mo args out (fun m => VInt ((m - 2) mod 12 + 1))
  else if op_is op "mo.num" then on1 is_mo args out (fun m => VInt m)
  else if op_is op "mo.name" then on1 is_mo args out (fun m => VStr (name_at month_names (m - 1)))
  else if op_is op "mo.cmp" then on2 is_mo is_mo args out (fun a b => VInt (cmpZ a b))
  else if op_is op "mo.try" then
    match args with
    | [VInt n] => if (0 <=? n) && (n <=? u8_max) then
                    judge_eq (if (1 <=? n) && (n <=? 12) then VInt n else VErr B"OutOfRange") out else JSkip
    | _ => JSkip end
  else if op_is op "mo.parse" then parse_judge month_names 1 "ParseMonthError" args out
  else if prefix_is op "mo.f" then
    match int_range (skipn 4 op) with Some (lo, hi) => conv lo hi 1 12 args out | None => JSkip end
  (* ---- WeekdaySet: subsets of {0..6} *)
  else if op_is op "ws.consts" then
    match args with [] => judge_eq (VTup [VInt (code (fun _ => false)); VInt (code (fun _ => true))]) out | _ => JSkip end
  else if op_is op "ws.single" then on1 is_wd args out (fun w => VInt (code (Z.eqb w)))
  else if op_is op "ws.single_day" then
    on1 is_set args out (fun s => match members (mem s) with [w] => VSome (VInt w) | _ => VNone end)
  else if op_is op "ws.fromarr" || op_is op "ws.collect" then
    on1 (fun v => match v with VTup l => wd_list l | _ => None end) args out (fun l => VInt (code (set_of_list l)))
  else if op_is op "ws.insert" then
    on2 is_set is_wd args out (fun s w => VTup [VInt (code (fun i => mem s i || (i =? w))); vb (negb (mem s w))])
  else if op_is op "ws.remove" then
    on2 is_set is_wd args out (fun s w => VTup [VInt (code (fun i => mem s i && negb (i =? w))); vb (mem s w)])
  else if op_is op "ws.contains" then on2 is_set is_wd args out (fun s w => vb (mem s w))
  else if op_is op "ws.subset" then
    on2 is_set is_set args out (fun a b => vb (forallb (fun i => implb (mem a i) (mem b i)) week))
  else if op_is op "ws.inter" then on2 is_set is_set args out (fun a b => VInt (code (fun i => mem a i && mem b i)))
  else if op_is op "ws.union" then on2 is_set is_set args out (fun a b => VInt (code (fun i => mem a i || mem b i)))
  else if op_is op "ws.symdiff" then on2 is_set is_set args out (fun a b => VInt (code (fun i => xorb (mem a i) (mem b i))))
  else if op_is op "ws.diff" then on2 is_set is_set args out (fun a b => VInt (code (fun i => mem a i && negb (mem b i))))
  else if op_is op "ws.first" then on1 is_set args out (fun s => vwd (hd_error (members (mem s))))
  else if op_is op "ws.last" then on1 is_set args out (fun s => vwd (hd_error (rev (members (mem s)))))
  else if op_is op "ws.empty" then on1 is_set args out (fun s => vb (card (mem s) =? 0))
  else if op_is op "ws.len" then on1 is_set args out (fun s => VInt (card (mem s)))
  else if op_is op "ws.disp" then on1 is_set args out (fun s => VStr (ws_text s))
  else if op_is op "ws.iter" then
    match args with
    | [a; b; VStr sched] =>
        match is_set a, is_wd b, walk sched (match is_set a, is_wd b with
                                           | Some s, Some w => cyc_members (mem s) w | _, _ => [] end) with
        | Some _, Some _, Some steps => judge_eq (VTup steps) out
        | _, _, _ => JSkip
        end
    | _ => JSkip end
  else if op_is op "ws.adapt" then
    match args with
    | [a; b; VInt k] =>
        match is_set a, is_wd b with
        | Some s, Some w => if (0 <=? k) && (k <=? 9) then j_adapt s w k out else JSkip
        | _, _ => JSkip
        end
    | _ => JSkip end
  else JSkip.
