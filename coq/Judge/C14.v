(** C14 -- executable statement of the property "field resolution never returns a value that
    contradicts a supplied field", written from the property text and the documentation of
    [format::Parsed] (doc comments of the setters and of the to_* methods) on top of the calendar
    mathematics of Spec/Gregorian.v.  Nothing is imported from the model.

    A case is a state of the 21 fields (reached through the documented setters, or written
    directly) and a resolution target.  The verdict has three parts:
    * a panic is never an acceptable outcome;
    * SOUNDNESS, for a successful result v: v is a well-formed value and every supplied field that
      the target covers equals the corresponding field of v (century / two-digit-year fields exist
      only for years >= 0; second 60 is the leap representation; a supplied timestamp is the
      value's own count of non-leap seconds, or one more for a leap-second value);
    * COMPLETENESS / error classes: from the documented sufficient combinations the judge computes
      the candidate values; if a candidate agrees with every supplied field, with every year group
      read as documented, that value is the only acceptable outcome; if no candidate agrees even
      weakly a success is rejected; an error must be of a class that applies: 'not enough' when no
      documented combination is present or a year group is indeterminate, 'impossible'/'out of
      range' (one class, as in the property text) when supplied values contradict each other, do
      not exist or lie outside their documented ranges.  Where the documentation leaves the
      outcome open (a century field without a two-digit year, a two-digit year whose pivot reading
      differs from the value, a timestamp one above a leap-second value) both outcomes are accepted. *)
From Coq Require Import ZArith List Bool String.
From V Require Import Base.Int Base.IO Spec.Gregorian.
Import ListNotations.
Open Scope Z_scope.

Definition G := 1000000000.

(** * Field state: 21 optional integers, numbered
    0 year 1 year_div_100 2 year_mod_100 3 isoyear 4 isoyear_div_100 5 isoyear_mod_100 6 quarter
    7 month 8 week_from_sun 9 week_from_mon 10 isoweek 11 weekday (from Monday) 12 ordinal 13 day
    14 hour_div_12 15 hour_mod_12 16 minute 17 second 18 nanosecond 19 timestamp 20 offset *)
Definition state := list (option Z).
Definition st_empty : state := repeat None 21.
Definition getf (st : state) (k : Z) : option Z := nth (Z.to_nat k) st None.
Fixpoint put_nat (st : state) (n : nat) (v : option Z) : state :=
  match st, n with
  | _ :: r, O => v :: r
  | x :: r, S n' => x :: put_nat r n' v
  | [], _ => []
  end.
Definition putf (st : state) (k : Z) (v : Z) : state := put_nat st (Z.to_nat k) (Some v).

(** * The documented setters (numbering of the case protocol: 0..13 set field 0..13, 14 ampm,
    15 hour12, 16 hour (24-hour clock: both hour fields), 17 minute, 18 second, 19 nanosecond,
    20 timestamp, 21 offset) *)
Definition setter_range (k : Z) : Z * Z :=
  if (k =? 0) || (k =? 3) || (k =? 21) then (i32_min, i32_max)
  else if (k =? 1) || (k =? 4) then (0, i32_max)
  else if (k =? 2) || (k =? 5) then (0, 99)
  else if k =? 6 then (1, 4)
  else if k =? 7 then (1, 12)
  else if (k =? 8) || (k =? 9) then (0, 53)
  else if k =? 10 then (1, 53)
  else if k =? 11 then (0, 6)
  else if k =? 12 then (1, 366)
  else if k =? 13 then (1, 31)
  else if k =? 14 then (0, 1)
  else if k =? 15 then (1, 12)
  else if k =? 16 then (0, 23)
  else if k =? 17 then (0, 59)
  else if k =? 18 then (0, 60)
  else if k =? 19 then (0, 999999999)
  else (i64_min, i64_max).
Definition setter_field (k : Z) : Z := if k <=? 15 then k else k - 1.

(** outcome of one documented setter call: new state, and when the call must fail the pair
    (out-of-range applies, impossible applies); [unspec]: the documentation does not fix the
    state afterwards (a 24-hour set that fails on its second field) *)
Record step_res := mk_step { s_state : state; s_fail : option (bool * bool); s_unspec : bool }.
Definition set1 (st : state) (f v : Z) : step_res :=
  match getf st f with
  | None => mk_step (putf st f v) None false
  | Some old => if old =? v then mk_step st None false else mk_step st (Some (false, true)) false
  end.
Definition is_some {A} (o : option A) : bool := match o with Some _ => true | None => false end.
Definition step (st : state) (k v : Z) : step_res :=
  let '(lo, hi) := setter_range k in
  if negb (in_range lo hi v) then
    let was_set := if k =? 16 then is_some (getf st 14) || is_some (getf st 15)
                   else is_some (getf st (setter_field k)) in
    mk_step st (Some (true, was_set)) false
  else if k =? 15 then set1 st 15 (v mod 12)
  else if k =? 16 then
    let a := set1 st 14 (v / 12) in
    match s_fail a with
    | Some _ => a
    | None =>
      let b := set1 (s_state a) 15 (v mod 12) in
      match s_fail b with
      | Some _ => mk_step (s_state b) (s_fail b) (negb (is_some (getf st 14)))
      | None => b
      end
    end
  else set1 st (setter_field k) v.

Definition valid_setter_arg (k v : Z) : bool :=
  in_range 0 21 k && in_i64 v
  && (if k =? 11 then in_range 0 6 v else true) && (if k =? 14 then in_range 0 1 v else true).
Fixpoint dec_pairs (l : list val) : option (list (Z * Z)) :=
  match l with
  | [] => Some []
  | VTup [VInt k; VInt v] :: r =>
      if valid_setter_arg k v then
        match dec_pairs r with Some ps => Some ((k, v) :: ps) | None => None end
      else None
  | _ => None
  end.
(** the 24-hour setter's documentation only says it "may" reject 24 ..= u32::MAX *)
Definition hour_may_zone (k v : Z) : bool := (k =? 16) && (24 <=? v) && (v <=? u32_max).

Definition err_kind (out : val) : option bytes := match out with VErr s => Some s | _ => None end.
Definition kind_is (s : bytes) (name : string) : bool := bytes_eqb s (bytes_of_string name).
(** the error of a failing setter, against the classes that apply *)
Definition judge_set_err (suffix : string) (fl : bool * bool) (out : val) : verdict :=
  let '(oor, imp) := fl in
  match err_kind out with
  | Some s =>
      if (oor && kind_is s (String.append "OutOfRange" suffix)) || (imp && kind_is s (String.append "Impossible" suffix))
      then JOk else JBad B"setter-error-of-a-class-that-does-not-apply"
  | None => JBad B"setter-accepted-a-value-it-must-reject"
  end.

(** * Fields of actual values (the mathematics) *)
Definition weeks_from_start (o dstart : Z) : Z :=
  let s := o - dstart in if s <=? 0 then 0 else (s - 1) / 7 + 1.
(** expected value per date field; [None] = the field does not exist for this value *)
Definition date_fields (dn : Z) : list (Z * option Z) :=
  let '(y, o) := yo_of_dn dn in
  let '(m, d) := md_of_ordinal (is_leap y) o in
  let wd := weekday_of_dn dn in
  let '(iy, iw) := iso_of_dn dn in
  [(0, Some y); (1, if 0 <=? y then Some (y / 100) else None); (2, if 0 <=? y then Some (y mod 100) else None);
   (3, Some iy); (4, if 0 <=? iy then Some (iy / 100) else None); (5, if 0 <=? iy then Some (iy mod 100) else None);
   (6, Some ((m - 1) / 3 + 1)); (7, Some m);
   (8, Some (weeks_from_start o ((wd + 1) mod 7))); (9, Some (weeks_from_start o wd));
   (10, Some iw); (11, Some wd); (12, Some o); (13, Some d)].
Definition time_fields (secs frac : Z) : list (Z * option Z) :=
  let h := secs / 3600 in
  [(14, Some (h / 12)); (15, Some (h mod 12)); (16, Some ((secs / 60) mod 60));
   (17, Some (secs mod 60 + (if G <=? frac then 1 else 0))); (18, Some (frac mod G))].
(** first supplied field that differs from the value's field *)
Fixpoint first_disagree (st : state) (l : list (Z * option Z)) : option Z :=
  match l with
  | [] => None
  | (k, e) :: r =>
      match getf st k, e with
      | None, _ => first_disagree st r
      | Some v, Some x => if v =? x then first_disagree st r else Some k
      | Some _, None => Some k
      end
  end.
Definition agrees (st : state) (l : list (Z * option Z)) : bool :=
  match first_disagree st l with None => true | Some _ => false end.

(** a year group (full, century, two-digit) read as documented *)
Inductive gstat := GAbsent | GIndet | GVal (y : Z) | GBad.
Definition group_status (y q r : option Z) : gstat :=
  let r_oor := match r with Some v => negb (in_range 0 99 v) | None => false end in
  let q_neg := match q with Some v => v <? 0 | None => false end in
  match y, q, r with
  | None, Some _, None => GIndet
  | _, _, _ =>
  if r_oor || q_neg then GBad else
  match y, q, r with
  | None, None, None => GAbsent
  | Some yv, None, None => GVal yv
  | Some yv, _, _ =>
      if yv <? 0 then GBad
      else if (match q with Some v => v =? yv / 100 | None => true end)
              && (match r with Some v => v =? yv mod 100 | None => true end) then GVal yv else GBad
  | None, Some qv, Some rv => if in_i32 (qv * 100 + rv) then GVal (qv * 100 + rv) else GBad
  | None, None, Some rv => GVal (if rv <? 70 then 2000 + rv else 1900 + rv)
  | None, Some _, None => GIndet
  end
  end.
(** a part of the group lies outside its documented range *)
Definition group_oor (q r : option Z) : bool :=
  match r with Some v => negb (in_range 0 99 v) | None => false end
  || match q with Some v => v <? 0 | None => false end.
Definition g_indet (g : gstat) : bool := match g with GIndet => true | _ => false end.
Definition g_bad (g : gstat) : bool := match g with GBad => true | _ => false end.
Definition g_matches (g : gstat) (actual : Z) : bool := match g with GVal y => y =? actual | _ => true end.

(** candidate dates of the documented sufficient combinations *)
Inductive cand := CNone | CMissing | CDate (dn : Z).
Definition cand_of (ok : bool) (dn : Z) : cand := if ok && dn_in_range dn then CDate dn else CMissing.
Definition week_date (y w wd dstart_of_wd first_start_wd : Z) : cand :=
  (* ordinal of the first day of week 1: first [first_start_wd] weekday of the year *)
  let wd1 := weekday_of_dn (dn_of_yo y 1) in
  let fs := 1 + (first_start_wd - wd1) mod 7 in
  let o := fs + 7 * (w - 1) + dstart_of_wd in
  cand_of (year_in_range y && in_range 0 53 w && in_range 0 6 wd && valid_yo y o) (dn_of_yo y o).
Definition candidates (st : state) (gy gi : gstat) : list cand :=
  let f := getf st in
  [ match gy, f 7, f 13 with
    | GVal y, Some m, Some d => cand_of (year_in_range y && valid_ymd y m d) (dn_of_ymd y m d)
    | _, _, _ => CNone end;
    match gy, f 12 with
    | GVal y, Some o => cand_of (year_in_range y && valid_yo y o) (dn_of_yo y o)
    | _, _ => CNone end;
    match gy, f 8, f 11 with
    | GVal y, Some w, Some wd => week_date y w wd ((wd + 1) mod 7) 6
    | _, _, _ => CNone end;
    match gy, f 9, f 11 with
    | GVal y, Some w, Some wd => week_date y w wd wd 0
    | _, _, _ => CNone end;
    match gi, f 10, f 11 with
    | GVal iy, Some w, Some wd =>
        cand_of (in_range (MIN_YEAR - 1) (MAX_YEAR + 1) iy && valid_isoywd iy w wd) (dn_of_isoywd iy w wd)
    | _, _, _ => CNone end ].

Definition date_field_ranges : list (Z * (Z * Z)) :=
  [(6, (1, 4)); (7, (1, 12)); (8, (0, 53)); (9, (0, 53)); (10, (1, 53)); (11, (0, 6)); (12, (1, 366)); (13, (1, 31))].
Definition any_out_of_range (st : state) (l : list (Z * (Z * Z))) : bool :=
  existsb (fun '(k, (lo, hi)) => match getf st k with Some v => negb (in_range lo hi v) | None => false end) l.

(** * What a resolution may return *)
Record acc (A : Type) := mk_acc {
  a_strict : option A;   (* the only acceptable success, when the documentation determines it *)
  a_weak : list A;       (* successes accepted where the documentation leaves the outcome open *)
  a_ne : bool;           (* 'not enough' applies *)
  a_io : bool }.         (* 'impossible' / 'out of range' applies *)
Arguments mk_acc {A}. Arguments a_strict {A}. Arguments a_weak {A}. Arguments a_ne {A}. Arguments a_io {A}.

(** candidate dates agreeing with every supplied date field; [true] = also with the documented
    reading of both year groups *)
Definition date_options (st : state) : list (Z * bool) * (bool * bool * bool * bool) :=
  let gy := group_status (getf st 0) (getf st 1) (getf st 2) in
  let gi := group_status (getf st 3) (getf st 4) (getf st 5) in
  let cs := candidates st gy gi in
  let present := existsb (fun c => match c with CNone => false | _ => true end) cs in
  let opts := flat_map (fun c => match c with
     | CDate dn => if agrees st (date_fields dn)
                   then [(dn, g_matches gy (year_of_dn dn) && g_matches gi (fst (iso_of_dn dn)))] else []
     | _ => [] end) cs in
  (opts, (present, g_indet gy || g_indet gi,
          g_bad gy || g_bad gi || group_oor (getf st 1) (getf st 2) || group_oor (getf st 4) (getf st 5),
          any_out_of_range st date_field_ranges)).

Definition judge_date (st : state) : acc Z :=
  let '(opts, (present, indet, gbad, oor)) := date_options st in
  let strong := find (fun x => snd x) opts in
  match strong with
  | Some (dn, _) =>
      if gbad then mk_acc None (map fst opts) (negb present || indet) true
      else mk_acc (Some dn) (map fst opts) indet false
  | None => mk_acc None (map fst opts) (negb present || indet) (present || gbad || oor)
  end.

Definition time_field_ranges : list (Z * (Z * Z)) :=
  [(14, (0, 1)); (15, (0, 11)); (16, (0, 59)); (17, (0, 60)); (18, (0, 999999999))].
(** (secs, frac) *)
Definition judge_time (st : state) : acc (Z * Z) :=
  let f := getf st in
  let missing := negb (is_some (f 14)) || negb (is_some (f 15)) || negb (is_some (f 16))
                 || (is_some (f 18) && negb (is_some (f 17))) in
  let oor := any_out_of_range st time_field_ranges in
  if negb missing && negb oor then
    match f 14, f 15, f 16 with
    | Some hd, Some hm, Some mi =>
      let s := match f 17 with Some v => v | None => 0 end in
      let n := match f 18 with Some v => v | None => 0 end in
      let secs := (hd * 12 + hm) * 3600 + mi * 60 + (if s =? 60 then 59 else s) in
      mk_acc (Some (secs, if s =? 60 then G + n else n)) [] false false
    | _, _, _ => mk_acc None [] true false
    end
  else mk_acc None [] missing oor.

(** naive date-time values: (dn, secs, frac) *)
Definition ndtv := (Z * Z * Z)%type.
Definition ndtv_eqb (a b : ndtv) : bool :=
  let '(d1, s1, f1) := a in let '(d2, s2, f2) := b in (d1 =? d2) && (s1 =? s2) && (f1 =? f2).
Definition is_leap_frac (frac : Z) : bool := G <=? frac.
(** does a supplied timestamp fit the local value read with offset [off]?  0 no, 1 exactly, 2 one above a leap value *)
Definition ts_fit (v : ndtv) (off ts : Z) : Z :=
  let '(dn, secs, frac) := v in
  let t := unix_secs dn secs - off in
  if ts =? t then 1 else if is_leap_frac frac && (ts =? t + 1) then 2 else 0.
Definition ndtv_fields (v : ndtv) : list (Z * option Z) :=
  let '(dn, secs, frac) := v in date_fields dn ++ time_fields secs frac.
(** local seconds since the epoch -> value *)
Definition ndtv_of_local (l frac : Z) : ndtv := (l / 86400 + EPOCH_DN, l mod 86400, frac).

Definition judge_ndt (st : state) (off : Z) : acc ndtv :=
  let '(opts, (present, indet, gbad, doo)) := date_options st in
  let jd := judge_date st in
  let jt := judge_time st in
  let ts := getf st 19 in
  (* from date and time fields *)
  let a_cands : list (ndtv * bool) :=
    match a_strict jt with
    | Some (secs, frac) =>
        flat_map (fun '(dn, strong) =>
          let v := (dn, secs, frac) in
          match ts with
          | None => [(v, strong)]
          | Some t => let k := ts_fit v off t in
                      if k =? 1 then [(v, strong)] else if k =? 2 then [(v, false)] else []
          end) opts
    | None => []
    end in
  (* from the timestamp *)
  let b_cands : list (ndtv * bool) :=
    match ts with
    | None => []
    | Some t =>
      let l := t + off in
      let n := match getf st 18 with Some v => v | None => 0 end in
      let base : list (ndtv * bool) :=
        match getf st 17 with
        | Some 60 =>
            if l mod 60 =? 59 then [(ndtv_of_local l (G + n), true)]
            else if l mod 60 =? 0 then [(ndtv_of_local (l - 1) (G + n), false)]
            else []
        | _ => [(ndtv_of_local l n, true)]
        end in
      flat_map (fun '(v, strong) =>
        let '(dn, _, _) := v in
        if dn_in_range dn && in_range 0 999999999 n && agrees st (ndtv_fields v) then
          let gy := group_status (getf st 0) (getf st 1) (getf st 2) in
          let gi := group_status (getf st 3) (getf st 4) (getf st 5) in
          [(v, strong && g_matches gy (year_of_dn dn) && g_matches gi (fst (iso_of_dn dn)))]
        else []) base
    end in
  let date_and_time_determined := is_some (a_strict jd) && negb (a_ne jd) && is_some (a_strict jt) in
  let date_or_time_undetermined :=
    match opts with [] => true | _ => false end || negb (is_some (a_strict jt)) in
  let clean := negb indet && negb gbad in
  let strict : option ndtv :=
    if clean && date_and_time_determined then
      match a_cands with (v, true) :: _ => Some v | _ => None end
    else if clean && date_or_time_undetermined then
      match b_cands with (v, true) :: _ => Some v | _ => None end
    else None in
  let weak := map fst a_cands ++ map fst b_cands in
  match strict with
  | Some v => mk_acc (Some v) weak false false
  | None =>
    match ts with
    | None => mk_acc None weak (a_ne jd || a_ne jt) (a_io jd || a_io jt || negb (is_some (a_strict jd)) && present)
    | Some _ => mk_acc None weak indet true
    end
  end.

(** date-time values with offset: (utc value, offset) *)
Definition dtzv := (ndtv * Z)%type.
Definition dtzv_eqb (a b : dtzv) : bool := ndtv_eqb (fst a) (fst b) && (snd a =? snd b).
Definition offset_valid (o : Z) : bool := (-86400 <? o) && (o <? 86400).
Definition local_to_utc (v : ndtv) (off : Z) : option ndtv :=
  let '(dn, secs, frac) := v in
  let l := dn * 86400 + secs - off in
  let u := (l / 86400, l mod 86400, frac) in
  if dn_in_range (l / 86400) then Some u else None.
Definition utc_to_local (u : ndtv) (off : Z) : ndtv :=
  let '(dn, secs, frac) := u in
  let l := dn * 86400 + secs + off in (l / 86400, l mod 86400, frac).
(** lift an accepted set of local values to values in the zone [off]; [extra_ok]: a further
    documented consistency requirement (the supplied offset equals the zone's) *)
Definition lift_zone (a : acc ndtv) (off : Z) (extra_ok : bool) : acc dtzv :=
  let conv (v : ndtv) : option dtzv :=
    if offset_valid off && extra_ok then
      match local_to_utc v off with Some u => Some (u, off) | None => None end
    else None in
  let weak := flat_map (fun v => match conv v with Some x => [x] | None => [] end) (a_weak a) in
  match a_strict a with
  | Some v =>
      match conv v with
      | Some x => mk_acc (Some x) weak (a_ne a) (a_io a)
      | None => mk_acc None weak (a_ne a) true
      end
  | None => mk_acc None weak (a_ne a) (a_io a || negb (offset_valid off) || negb extra_ok)
  end.

Definition judge_datetime (st : state) : acc dtzv :=
  match getf st 20, getf st 19 with
  | None, None =>
      let jd := judge_date st in let jt := judge_time st in
      mk_acc None [] true (a_io jd || a_io jt)
  | Some o, _ => lift_zone (judge_ndt st o) o true
  | None, Some _ => lift_zone (judge_ndt st 0) 0 true
  end.
Definition judge_datetime_tz (st : state) (tz : Z) : acc dtzv :=
  let off_ok := match getf st 20 with Some o => o =? tz | None => true end in
  lift_zone (judge_ndt st tz) tz off_ok.
Definition judge_offset (st : state) : acc Z :=
  match getf st 20 with
  | None => mk_acc None [] true false
  | Some o => if offset_valid o then mk_acc (Some o) [] false false else mk_acc None [] false true
  end.

(** * Decoding of outputs and soundness *)
Definition dec_date_out (y o : Z) : option Z :=
  if year_in_range y && valid_yo y o then Some (dn_of_yo y o) else None.
Definition time_ok (s f : Z) : bool :=
  in_range 0 86399 s && in_range 0 1999999999 f && (if G <=? f then s mod 60 =? 59 else true).
(** a date-time with offset is given by its UTC reading: the leap second sits on second 59 of the
    local reading (offsets need not be whole minutes) *)
Definition time_ok_zone (s f off : Z) : bool :=
  in_range 0 86399 s && in_range 0 1999999999 f && (if G <=? f then (s + off) mod 60 =? 59 else true).
Definition field_name (k : Z) : bytes := B"supplied-field-contradicted:" ++ dec_of_Z k.
Definition sound_fields (st : state) (l : list (Z * option Z)) : verdict :=
  match first_disagree st l with Some k => JBad (field_name k) | None => JOk end.
Definition vand (a b : verdict) : verdict := match a with JOk => b | _ => a end.
Definition sound_ts (st : state) (u : ndtv) : verdict :=
  (* u is the UTC reading *)
  match getf st 19 with
  | Some t => if ts_fit u 0 t =? 0 then JBad (field_name 19) else JOk
  | None => JOk
  end.

(** verdict for an outcome against an accepted set *)
Definition decide {A} (eqb : A -> A -> bool) (a : acc A) (got : option A) (out : val) : verdict :=
  match got with
  | Some v =>
      match a_strict a with
      | Some e => if eqb e v then JOk else JBad B"success-with-a-value-other-than-the-one-the-fields-determine"
      | None => if existsb (eqb v) (a_weak a) then JOk
                else JBad B"success-although-the-fields-are-insufficient-or-contradictory"
      end
  | None =>
      match err_kind out with
      | Some s =>
          if kind_is s "NotEnough" then
            if a_ne a then JOk else JBad B"not-enough-reported-for-a-sufficient-set"
          else if kind_is s "Impossible" || kind_is s "OutOfRange" then
            if a_io a then JOk else JBad B"impossible-or-out-of-range-reported-without-contradiction"
          else JBad B"error-kind-outside-the-documented-ones"
      | None => JBad B"malformed-output"
      end
  end.

Definition judge_resolve (st : state) (target : Z) (off : option Z) (out : val) : verdict :=
  match out with
  | VPanic => JBad B"panic"
  | VTimeout => JBad B"timeout"
  | _ =>
  match off with
  | None =>
    if target =? 0 then
      match out with
      | VTup [VInt y; VInt o] =>
          match dec_date_out y o with
          | Some dn => vand (sound_fields st (date_fields dn)) (decide Z.eqb (judge_date st) (Some dn) out)
          | None => JBad B"result-is-not-a-date"
          end
      | VTup _ => JBad B"malformed-output"
      | _ => decide Z.eqb (judge_date st) None out
      end
    else if target =? 1 then
      let eqb (a b : Z * Z) := (fst a =? fst b) && (snd a =? snd b) in
      match out with
      | VTup [VInt s; VInt f] =>
          if time_ok s f then vand (sound_fields st (time_fields s f)) (decide eqb (judge_time st) (Some (s, f)) out)
          else JBad B"result-is-not-a-time"
      | VTup _ => JBad B"malformed-output"
      | _ => decide eqb (judge_time st) None out
      end
    else if target =? 3 then
      match out with
      | VTup [VInt y; VInt o; VInt s; VInt f; VInt offv] =>
          match dec_date_out y o with
          | Some dn =>
            if offset_valid offv && time_ok_zone s f offv then
              let u := (dn, s, f) in
              let off_sound := match getf st 20 with
                               | Some x => if x =? offv then JOk else JBad (field_name 20)
                               | None => if offv =? 0 then JOk else JBad B"offset-invented" end in
              vand (sound_fields st (ndtv_fields (utc_to_local u offv)))
                (vand (sound_ts st u) (vand off_sound (decide dtzv_eqb (judge_datetime st) (Some (u, offv)) out)))
            else JBad B"result-is-not-a-date-time"
          | None => JBad B"result-is-not-a-date-time"
          end
      | VTup _ => JBad B"malformed-output"
      | _ => decide dtzv_eqb (judge_datetime st) None out
      end
    else if target =? 5 then
      match out with
      | VInt o =>
          if offset_valid o then
            vand (match getf st 20 with Some x => if x =? o then JOk else JBad (field_name 20) | None => JBad B"offset-invented" end)
                 (decide Z.eqb (judge_offset st) (Some o) out)
          else JBad B"result-is-not-an-offset"
      | _ => decide Z.eqb (judge_offset st) None out
      end
    else JSkip
  | Some offarg =>
    if target =? 2 then
      if negb (in_i32 offarg) then JSkip else
      match out with
      | VTup [VInt y; VInt o; VInt s; VInt f] =>
          match dec_date_out y o with
          | Some dn =>
            if time_ok s f then
              let v := (dn, s, f) in
              vand (sound_fields st (ndtv_fields v))
                (vand (match getf st 19 with
                       | Some t => if ts_fit v offarg t =? 0 then JBad (field_name 19) else JOk
                       | None => JOk end)
                      (decide ndtv_eqb (judge_ndt st offarg) (Some v) out))
            else JBad B"result-is-not-a-date-time"
          | None => JBad B"result-is-not-a-date-time"
          end
      | VTup _ => JBad B"malformed-output"
      | _ => decide ndtv_eqb (judge_ndt st offarg) None out
      end
    else if target =? 4 then
      if negb (offset_valid offarg) then JSkip else
      match out with
      | VTup [VInt y; VInt o; VInt s; VInt f; VInt offv] =>
          match dec_date_out y o with
          | Some dn =>
            if (offv =? offarg) && time_ok_zone s f offv then
              let u := (dn, s, f) in
              let off_sound := match getf st 20 with
                               | Some x => if x =? offv then JOk else JBad (field_name 20)
                               | None => JOk end in
              vand (sound_fields st (ndtv_fields (utc_to_local u offv)))
                (vand (sound_ts st u) (vand off_sound (decide dtzv_eqb (judge_datetime_tz st offarg) (Some (u, offv)) out)))
            else JBad B"result-is-not-a-date-time-in-the-given-zone"
          | None => JBad B"result-is-not-a-date-time"
          end
      | VTup _ => JBad B"malformed-output"
      | _ => decide dtzv_eqb (judge_datetime_tz st offarg) None out
      end
    else JSkip
  end
  end.

(** A zone with one transition (offset [a] before instant [t], [b] from then on): the property's
    soundness clause only - a successful result is a date-time OF THAT ZONE (its offset is the zone's
    offset at its instant) that agrees with every supplied field, the offset and the timestamp
    included; a failure is never contradicted here (no completeness claim for such zones). *)
Definition judge_zone (st : state) (t a b : Z) (out : val) : verdict :=
  match out with
  | VPanic => JBad B"panic"
  | VTimeout => JBad B"timeout"
  | VTup [VInt y; VInt o; VInt s; VInt f; VInt offv] =>
      match dec_date_out y o with
      | Some dn =>
        if time_ok_zone s f offv then
          let u := (dn, s, f) in
          let inst := unix_secs dn s in
          let zone_ok := if offv =? (if inst <? t then a else b) then JOk
                         else JBad B"result-offset-is-not-the-zone's-offset-at-that-instant" in
          let off_sound := match getf st 20 with
                           | Some x => if x =? offv then JOk else JBad (field_name 20)
                           | None => JOk end in
          vand zone_ok (vand (sound_fields st (ndtv_fields (utc_to_local u offv))) (vand (sound_ts st u) off_sound))
        else JBad B"result-is-not-a-date-time"
      | None => JBad B"result-is-not-a-date-time"
      end
  | VTup _ => JBad B"malformed-output"
  | _ => JOk
  end.

(** * Case level *)
Definition target_off (rest : list val) : option (option Z) :=
  match rest with [] => Some None | [VInt o] => Some (Some o) | _ => None end.
Definition target_shape_ok (target : Z) (off : option Z) : bool :=
  match off with
  | None => (target =? 0) || (target =? 1) || (target =? 3) || (target =? 5)
  | Some o => ((target =? 2) && in_i32 o) || ((target =? 4) && offset_valid o)
  end.

(** run the documented setters; [inr]: the step that must fail *)
Fixpoint run_setters (ps : list (Z * Z)) (st : state) : option (state + (bool * bool)) :=
  match ps with
  | [] => Some (inl st)
  | (k, v) :: r =>
      if hour_may_zone k v then None else
      let s := step st k v in
      match s_fail s with
      | Some fl => Some (inr fl)
      | None => run_setters r (s_state s)
      end
  end.

Fixpoint judge_steps (ps : list (Z * Z)) (rs : list val) (st : state) : option state + verdict :=
  match ps, rs with
  | [], [] => inl (Some st)
  | (k, v) :: r, out :: rr =>
      if hour_may_zone k v then inl None else
      let s := step st k v in
      if s_unspec s then
        match s_fail s with
        | Some fl => match judge_set_err "" fl out with JOk => inl None | x => inr x end
        | None => inl None
        end
      else
      match s_fail s with
      | Some fl =>
          match judge_set_err "" fl out with
          | JOk => judge_steps r rr (s_state s)
          | x => inr x
          end
      | None =>
          match out with
          | VInt 0 => judge_steps r rr (s_state s)
          | _ => inr (JBad B"setter-rejected-a-value-it-must-accept")
          end
      end
  | _, _ => inr (JBad B"malformed-output")
  end.

Fixpoint dec_state (l : list val) : option state :=
  match l with
  | [] => Some []
  | VNone :: r => match dec_state r with Some s => Some (None :: s) | None => None end
  | VSome (VInt v) :: r => match dec_state r with Some s => Some (Some v :: s) | None => None end
  | _ => None
  end.
Fixpoint state_eqb (a b : state) : bool :=
  match a, b with
  | [], [] => true
  | None :: x, None :: y => state_eqb x y
  | Some u :: x, Some v :: y => (u =? v) && state_eqb x y
  | _, _ => false
  end.
(** types of the fields when written directly *)
Definition raw_type_ok (k v : Z) : bool :=
  if (k <=? 5) || (k =? 20) then in_i32 v
  else if k =? 11 then in_range 0 6 v
  else if k =? 19 then in_i64 v
  else in_u32 v.
Fixpoint raw_ok (st : state) (k : Z) : bool :=
  match st with
  | [] => k =? 21
  | None :: r => raw_ok r (k + 1)
  | Some v :: r => raw_type_ok k v && raw_ok r (k + 1)
  end.

Definition judge (op : bytes) (args : list val) (out : val) : verdict :=
  if op_is op "pz.resolve" then
    match args with
    | VInt target :: VTup l :: rest =>
      match dec_pairs l, target_off rest with
      | Some ps, Some off =>
        if negb (target_shape_ok target off) then JSkip else
        match run_setters ps st_empty with
        | None => JSkip
        | Some (inr fl) =>
            match out with
            | VPanic => JBad B"panic"
            | _ => judge_set_err "@set" fl out
            end
        | Some (inl st) =>
            match err_kind out with
            | Some s =>
                if kind_is s "OutOfRange@set" || kind_is s "Impossible@set"
                then JBad B"setter-rejected-a-value-it-must-accept"
                else judge_resolve st target off out
            | None => judge_resolve st target off out
            end
        end
      | _, _ => JSkip
      end
    | _ => JSkip
    end
  else if op_is op "pz.setseq" then
    match args with
    | [VTup l] =>
      match dec_pairs l with
      | Some ps =>
        match out with
        | VPanic => JBad B"panic"
        | VTup [VTup rs; VTup fs] =>
            match judge_steps ps rs st_empty with
            | inr v => v
            | inl None => JSkip
            | inl (Some st) =>
                match dec_state fs with
                | Some got => if state_eqb st got then JOk else JBad B"fields-after-the-setters-differ"
                | None => JBad B"malformed-output"
                end
            end
        | _ => JBad B"malformed-output"
        end
      | None => JSkip
      end
    | _ => JSkip
    end
  else if op_is op "pz.zone" then
    match args with
    | [VTup l; VInt t; VInt a; VInt b] =>
      match dec_state l with
      | Some st => if raw_ok st 0 && offset_valid a && offset_valid b && in_i64 t then judge_zone st t a b out else JSkip
      | None => JSkip
      end
    | _ => JSkip
    end
  else if op_is op "pz.raw" then
    match args with
    | VInt target :: VTup l :: rest =>
      match dec_state l, target_off rest with
      | Some st, Some off =>
        if raw_ok st 0 && target_shape_ok target off then judge_resolve st target off out else JSkip
      | _, _ => JSkip
      end
    | _ => JSkip
    end
  else JSkip.
