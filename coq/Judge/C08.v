(** C08 — executable statement of the property, written from the property text and the proleptic
    Gregorian calendar of Spec/Gregorian.v (leap rule, month lengths, day numbers) only.  Nothing is
    imported from the model or from the generated tables.

    A date argument is (year, ordinal) with year in MIN_YEAR..MAX_YEAR and 1 <= ordinal <= length of
    the year; it denotes the triple (y, m, d) = (year, md_of_ordinal) and the day number dn_of_yo.

    Readings fixed here:
    - month stepping: t = 12*y + (m-1) +/- N; target year = floor(t/12), month = t mod 12 + 1,
      day = min(d, length of the target month); "nothing" exactly when the target year is outside
      MIN_YEAR..MAX_YEAR (all N of the u32 type).
    - field replacement: the triple (or the (year, ordinal) pair) with the one field replaced; a value
      exactly when that denotes a date in range; 0-based forms replace by argument + 1.
    - week: first = the latest day <= date whose weekday is the chosen one, last = first + 6; each
      is "nothing" exactly when it falls outside the range of dates.
    - n-th weekday of a month: day 1 + ((w - weekday of the 1st) mod 7) + 7*(n-1) when n >= 1 and that
      day exists in the month of an in-range year; else nothing.
    - whole years elapsed: y1 - y0, minus one when (m1, d1[, time]) < (m0, d0[, time]) lexicographically;
      nothing when negative.  For zone-aware date-times the fields are the wall-clock fields; the claim
      is made when both values carry the same offset (otherwise: no claim).
    - month length of (month, year): for years in range exactly the calendar length; for years outside
      the range the answer may be "nothing" or the calendar length (no other number). *)
From Coq Require Import ZArith List Bool String.
From V Require Import Base.Int Base.IO Spec.Gregorian.
Import ListNotations.
Open Scope Z_scope.

Record jdate := mk_jd { jy : Z; jm : Z; jd : Z; jo : Z; jn : Z }.

Definition jd_of_yo (y o : Z) : option jdate :=
  if year_in_range y && valid_yo y o then
    let '(m, d) := md_of_ordinal (is_leap y) o in
    Some (mk_jd y m d o (dn_of_yo y o))
  else None.
Definition jd_arg (v : val) : option jdate :=
  match v with VTup [VInt y; VInt o] => jd_of_yo y o | _ => None end.

Definition enc_yo (y o : Z) : val := VTup [VInt y; VInt o].
Definition enc_ymd (y m d : Z) : val := enc_yo y (ordinal_of_md (is_leap y) m d).
Definition enc_dn (n : Z) : val := let '(y, o) := yo_of_dn n in enc_yo y o.

(* the date (y, m, d) when it exists in range *)
Definition exp_ymd (y m d : Z) : val :=
  if year_in_range y && valid_ymd y m d then VSome (enc_ymd y m d) else VNone.
Definition exp_yo (y o : Z) : val :=
  if year_in_range y && valid_yo y o then VSome (enc_yo y o) else VNone.
Definition exp_dn (n : Z) : val := if dn_in_range n then VSome (enc_dn n) else VNone.

(* month stepping *)
Definition exp_shift (x : jdate) (delta : Z) : val :=
  let t := 12 * jy x + (jm x - 1) + delta in
  let y' := t / 12 in
  let m' := t mod 12 + 1 in
  let d' := Z.min (jd x) (days_in_month (is_leap y') m') in
  if year_in_range y' then VSome (enc_ymd y' m' d') else VNone.

Definition unsome_or_panic (v : val) : val := match v with VSome x => x | _ => VPanic end.

(* field replacement; f: 0 year 1 month 2 month0 3 day 4 day0 5 ordinal 6 ordinal0 *)
Definition jfield (s : bytes) : option Z :=
  if op_is s "year" then Some 0 else if op_is s "month" then Some 1 else if op_is s "month0" then Some 2
  else if op_is s "day" then Some 3 else if op_is s "day0" then Some 4
  else if op_is s "ordinal" then Some 5 else if op_is s "ordinal0" then Some 6 else None.
Definition field_arg_ok (f x : Z) : bool := if f =? 0 then in_i32 x else in_u32 x.
Definition exp_with (f : Z) (x : jdate) (a : Z) : val :=
  if f =? 0 then exp_ymd a (jm x) (jd x)
  else if f =? 1 then exp_ymd (jy x) a (jd x)
  else if f =? 2 then exp_ymd (jy x) (a + 1) (jd x)
  else if f =? 3 then exp_ymd (jy x) (jm x) a
  else if f =? 4 then exp_ymd (jy x) (jm x) (a + 1)
  else if f =? 5 then exp_yo (jy x) a
  else exp_yo (jy x) (a + 1).

(* weeks *)
Definition week_first (x : jdate) (w : Z) : Z := jn x - (weekday_of_dn (jn x) - w) mod 7.
Definition exp_week (x : jdate) (w : Z) : val :=
  let f := week_first x w in
  if dn_in_range f && dn_in_range (f + 6) then VSome (VTup [enc_dn f; enc_dn (f + 6)]) else VNone.

(* n-th weekday of a month *)
Definition exp_nth (y m w n : Z) : val :=
  if year_in_range y && (1 <=? m) && (m <=? 12) && (1 <=? n) then
    let first := dn_of_ymd y m 1 in
    let d := 1 + (w - weekday_of_dn first) mod 7 + 7 * (n - 1) in
    if d <=? days_in_month (is_leap y) m then VSome (enc_ymd y m d) else VNone
  else VNone.

(* whole years elapsed *)
Definition lex3_lt (a1 a2 a3 b1 b2 b3 : Z) : bool :=
  (a1 <? b1) || ((a1 =? b1) && ((a2 <? b2) || ((a2 =? b2) && (a3 <? b3)))).
Definition exp_years (y1 m1 d1 t1 y0 m0 d0 t0 : Z) : val :=
  let n := y1 - y0 - (if lex3_lt m1 d1 t1 m0 d0 t0 then 1 else 0) in
  if 0 <=? n then VSome (VInt n) else VNone.

(* a date-time argument (year, ordinal, secs, frac, offset): wall-clock date and time of day as one
   number (frac < 2*10^9 keeps the lexicographic order of (secs, frac)) *)
Definition jdt_arg (v : val) : option (Z * Z * Z * Z * Z) :=
  match v with
  | VTup [VInt y; VInt o; VInt s; VInt f; VInt off] =>
      if year_in_range y && valid_yo y o && (0 <=? s) && (s <? 86400) && (0 <=? f) && (f <? 2000000000)
         && (-86400 <? off) && (off <? 86400) then
        let ls := s + off in
        let n := dn_of_yo y o + ls / 86400 in
        let '(yy, mm, dd) := ymd_of_dn n in
        Some (yy, mm, dd, (ls mod 86400) * 2000000000 + f, off)
      else None
  | _ => None
  end.

(* naive date-time argument (year, ordinal, secs, frac) *)
Definition jndt_arg (v : val) : option (jdate * Z * Z) :=
  match v with
  | VTup [VInt y; VInt o; VInt s; VInt f] =>
      if (0 <=? s) && (s <? 86400) && (0 <=? f) && (f <? 2000000000) then
        match jd_of_yo y o with Some x => Some (x, s, f) | None => None end
      else None
  | _ => None
  end.
(* expected date-time: the expected date with the time of day kept *)
Definition with_time (s f : Z) (v : val) : val :=
  match v with
  | VSome (VTup [y; o]) => VSome (VTup [y; o; VInt s; VInt f])
  | _ => v
  end.

Definition j_d_u32 (f : jdate -> Z -> val) (args : list val) (out : val) : verdict :=
  match args with
  | [a; VInt n] => match jd_arg a with
                   | Some x => if in_u32 n then judge_eq (f x n) out else JSkip
                   | None => JSkip end
  | _ => JSkip
  end.
Definition j_d_wd (f : jdate -> Z -> val) (args : list val) (out : val) : verdict :=
  match args with
  | [a; VInt w] => match jd_arg a with
                   | Some x => if (0 <=? w) && (w <=? 6) then judge_eq (f x w) out else JSkip
                   | None => JSkip end
  | _ => JSkip
  end.
Definition j_d (f : jdate -> val) (args : list val) (out : val) : verdict :=
  match args with
  | [a] => match jd_arg a with Some x => judge_eq (f x) out | None => JSkip end
  | _ => JSkip
  end.
Definition j_ndt_u32 (f : jdate -> Z -> val) (args : list val) (out : val) : verdict :=
  match args with
  | [a; VInt n] => match jndt_arg a with
                   | Some (x, s, fr) => if in_u32 n then judge_eq (with_time s fr (f x n)) out else JSkip
                   | None => JSkip end
  | _ => JSkip
  end.

(* operator month stepping on a naive date-time: the value, PANIC where the checked form has nothing *)
Definition j_ndt_u32_op (f : jdate -> Z -> val) (args : list val) (out : val) : verdict :=
  match args with
  | [a; VInt n] => match jndt_arg a with
                   | Some (x, s, fr) =>
                       if in_u32 n then judge_eq (unsome_or_panic (with_time s fr (f x n))) out else JSkip
                   | None => JSkip end
  | _ => JSkip
  end.
(* quarter, common-era year, days in month and the calendar fields of the date part of a naive date-time *)
Definition exp_ndt_prov (x : jdate) : val :=
  VTup [VInt ((jm x - 1) / 3 + 1); val_of_bool (1 <=? jy x); VInt (if 1 <=? jy x then jy x else 1 - jy x);
        VInt (days_in_month (is_leap (jy x)) (jm x)); VInt (jy x); VInt (jm x); VInt (jm x - 1);
        VInt (jd x); VInt (jd x - 1); VInt (jo x); VInt (jo x - 1); VInt (weekday_of_dn (jn x))].
(* two weeks (date, first weekday) are the same week exactly when they start on the same day; equal
   weeks hash equally (distinct weeks may collide: no claim).  Weeks whose first day falls outside
   the range of dates: no claim. *)
Definition j_weq (args : list val) (out : val) : verdict :=
  match args with
  | [a; VInt w1; b; VInt w2] =>
      match jd_arg a, jd_arg b with
      | Some x, Some z =>
          if (0 <=? w1) && (w1 <=? 6) && (0 <=? w2) && (w2 <=? 6) then
            let f1 := week_first x w1 in let f2 := week_first z w2 in
            if dn_in_range f1 && dn_in_range f2 then
              let e := f1 =? f2 in
              if e then judge_eq (VTup [VInt 1; VInt 0; VInt 1]) out
              else if val_eqb out (VTup [VInt 0; VInt 1; VInt 0]) || val_eqb out (VTup [VInt 0; VInt 1; VInt 1]) then JOk
              else JBad B"distinct-weeks-compare-equal"
            else JSkip
          else JSkip
      | _, _ => JSkip end
  | _ => JSkip
  end.

Definition judge (op : bytes) (args : list val) (out : val) : verdict :=
  if op_is op "d8.addm" then j_d_u32 (fun x n => exp_shift x n) args out
  else if op_is op "d8.subm" then j_d_u32 (fun x n => exp_shift x (- n)) args out
  else if op_is op "d8.opaddm" then j_d_u32 (fun x n => unsome_or_panic (exp_shift x n)) args out
  else if op_is op "d8.opsubm" then j_d_u32 (fun x n => unsome_or_panic (exp_shift x (- n))) args out
  else if op_is op "d8.with" then
    match args with
    | [VStr s; a; VInt v] =>
        match jfield s, jd_arg a with
        | Some f, Some x => if field_arg_ok f v then judge_eq (exp_with f x v) out else JSkip
        | _, _ => JSkip end
    | _ => JSkip end
  else if op_is op "d8.wfirst" then j_d_wd (fun x w => exp_dn (week_first x w)) args out
  else if op_is op "d8.wlast" then j_d_wd (fun x w => exp_dn (week_first x w + 6)) args out
  else if op_is op "d8.week" then j_d_wd exp_week args out
  else if op_is op "d8.wfirstp" then j_d_wd (fun x w => unsome_or_panic (exp_dn (week_first x w))) args out
  else if op_is op "d8.wlastp" then j_d_wd (fun x w => unsome_or_panic (exp_dn (week_first x w + 6))) args out
  else if op_is op "d8.wdaysp" then j_d_wd (fun x w => unsome_or_panic (exp_week x w)) args out
  else if op_is op "d8.nthwd" then
    match args with
    | [VInt y; VInt m; VInt w; VInt n] =>
        if in_i32 y && in_u32 m && (0 <=? w) && (w <=? 6) && in_u8 n then judge_eq (exp_nth y m w n) out else JSkip
    | _ => JSkip end
  else if op_is op "d8.years" then
    match args with
    | [a; b] => match jd_arg a, jd_arg b with
        | Some x, Some z => judge_eq (exp_years (jy x) (jm x) (jd x) 0 (jy z) (jm z) (jd z) 0) out
        | _, _ => JSkip end
    | _ => JSkip end
  else if op_is op "d8.dtyears" then
    match args with
    | [a; b] => match jdt_arg a, jdt_arg b with
        | Some (y1, m1, d1, t1, o1), Some (y0, m0, d0, t0, o0) =>
            if o1 =? o0 then judge_eq (exp_years y1 m1 d1 t1 y0 m0 d0 t0) out else JSkip
        | _, _ => JSkip end
    | _ => JSkip end
  else if op_is op "d8.quarter" then j_d (fun x => VInt ((jm x - 1) / 3 + 1)) args out
  else if op_is op "d8.yce" then
    j_d (fun x => if 1 <=? jy x then VTup [VInt 1; VInt (jy x)] else VTup [VInt 0; VInt (1 - jy x)]) args out
  else if op_is op "d8.dim" then j_d (fun x => VInt (days_in_month (is_leap (jy x)) (jm x))) args out
  else if op_is op "d8.mdays" then
    match args with
    | [VInt m; VInt y] =>
        if (1 <=? m) && (m <=? 12) && in_i32 y then
          let e := VSome (VInt (days_in_month (is_leap y) m)) in
          if year_in_range y then judge_eq e out
          else if val_eqb out VNone then JOk else judge_eq e out
        else JSkip
    | _ => JSkip end
  else if op_is op "d8.ndt.addm" then j_ndt_u32 (fun x n => exp_shift x n) args out
  else if op_is op "d8.ndt.subm" then j_ndt_u32 (fun x n => exp_shift x (- n)) args out
  else if op_is op "d8.ndt.with" then
    match args with
    | [VStr s; a; VInt v] =>
        match jfield s, jndt_arg a with
        | Some f, Some (x, sc, fr) =>
            if field_arg_ok f v then judge_eq (with_time sc fr (exp_with f x v)) out else JSkip
        | _, _ => JSkip end
    | _ => JSkip end
  else if op_is op "d8.ndt.opaddm" then j_ndt_u32_op (fun x n => exp_shift x n) args out
  else if op_is op "d8.ndt.opsubm" then j_ndt_u32_op (fun x n => exp_shift x (- n)) args out
  else if op_is op "d8.ndt.prov" then
    match args with
    | [a] => match jndt_arg a with Some (x, _, _) => judge_eq (exp_ndt_prov x) out | None => JSkip end
    | _ => JSkip end
  else if op_is op "d8.months_u32" then
    match args with [VInt n] => if in_u32 n then judge_eq (VInt n) out else JSkip | _ => JSkip end
  else if op_is op "d8.weq" then j_weq args out
  else if op_is op "d8.pnthwd" then
    match args with
    | [VInt y; VInt m; VInt w; VInt n] =>
        if in_i32 y && in_u32 m && (0 <=? w) && (w <=? 6) && in_u8 n then judge_eq (unsome_or_panic (exp_nth y m w n)) out else JSkip
    | _ => JSkip end
  else JSkip.
