(** Executable model of the TZif reader: src/offset/local/tz_info/parser.rs ([Header::new],
    [State::new], [parse] for v1/v2/v3) and the construction-time checks of timezone.rs
    ([TimeZone::new] = [TimeZoneRef::validate], [unix_leap_time_to_unix_time]).  The zone data
    types, the error enum and the [Cursor] live in Model/TzTypes.v (re-exported here), the footer
    grammar in Model/TzRule.v.  No proofs here. *)
From Coq Require Import ZArith List Bool String.
From V Require Import Base.Int Base.IO Gen.TzInfo.
From V Require Export Model.TzTypes.
From V Require Import Model.TzRule.
Import ListNotations.
Open Scope Z_scope.

Inductive version := V1 | V2 | V3.
Record header := mk_hdr {
  h_version : version;
  ut_local_count : Z; std_wall_count : Z; leap_count : Z;
  transition_count : Z; type_count : Z; char_count : Z }.

(* Header::new *)
Definition header_new (c : cursor) : R (res (header * cursor)) :=
  let+ '(magic, c) := read_exact c 4 in
  if negb (bytes_eqb magic B"TZif") then fail EInvalidTzFile else
  let+ '(vb, c) := read_exact c 1 in
  let+ v := match vb with
            | [0] => ok V1 | [50] => ok V2 | [51] => ok V3
            | _ => fail EUnsupportedTzFile end in
  let+ '(_, c) := read_exact c 15 in
  let+ '(ut_local_count, c) := read_be_u32 c in
  let+ '(std_wall_count, c) := read_be_u32 c in
  let+ '(leap_count, c) := read_be_u32 c in
  let+ '(transition_count, c) := read_be_u32 c in
  let+ '(type_count, c) := read_be_u32 c in
  let+ '(char_count, c) := read_be_u32 c in
  if negb (negb (type_count =? 0) && negb (char_count =? 0)
           && ((ut_local_count =? 0) || (ut_local_count =? type_count))
           && ((std_wall_count =? 0) || (std_wall_count =? type_count)))
  then fail EInvalidTzFile else
  ok (mk_hdr v (as_usize ut_local_count) (as_usize std_wall_count) (as_usize leap_count)
        (as_usize transition_count) (as_usize type_count) (as_usize char_count), c).

Record state := mk_state {
  st_header : header; time_size : Z;
  st_transition_times : bytes; st_transition_types : bytes; st_local_time_types : bytes;
  st_names : bytes; st_leap_seconds : bytes; st_std_walls : bytes; st_ut_locals : bytes }.

(* State::new: the struct-literal fields are evaluated in the written order *)
Definition state_new (c : cursor) (first : bool) : R (res (state * cursor)) :=
  let+ '(h, c) := header_new c in
  let ts := if first then 4 else 8 in
  let* n := mul_usize (transition_count h) ts in
  let+ '(ttimes, c) := read_exact c n in
  let+ '(ttypes, c) := read_exact c (transition_count h) in
  let* n := mul_usize (type_count h) 6 in
  let+ '(ltts, c) := read_exact c n in
  let+ '(names, c) := read_exact c (char_count h) in
  let* rec := add_usize ts 4 in
  let* n := mul_usize (leap_count h) rec in
  let+ '(leaps, c) := read_exact c n in
  let+ '(std_walls, c) := read_exact c (std_wall_count h) in
  let+ '(ut_locals, c) := read_exact c (ut_local_count h) in
  ok (mk_state h ts ttimes ttypes ltts names leaps std_walls ut_locals, c).

(* State::parse_time *)
Definition parse_time (arr : bytes) (v : version) : R (res Z) :=
  match v with
  | V1 => let* a := slice_to arr 4 in read_be_i32 a
  | _ => read_be_i64 arr
  end.

(* slice::chunks_exact(n) for n >= 1: complete chunks only.  [k] counts the bytes still missing
   from the chunk being collected (minus one), [acc] is that chunk reversed. *)
Fixpoint chunks_aux (n k : nat) (acc : bytes) (l : bytes) : list bytes :=
  match l with
  | [] => []
  | x :: r =>
      match k with
      | O => rev (x :: acc) :: chunks_aux n (pred n) [] r
      | S k' => chunks_aux n k' (x :: acc) r
      end
  end.
Definition chunks_exact (n : Z) (l : bytes) : R (list bytes) :=
  if n <=? 0 then Panic else Val (chunks_aux (Z.to_nat n) (pred (Z.to_nat n)) [] l).

Fixpoint zip {X Y} (a : list X) (b : list Y) : list (X * Y) :=
  match a, b with
  | x :: a', y :: b' => (x, y) :: zip a' b'
  | _, _ => []
  end.

(* body of the local-time-type loop *)
Definition parse_ltt (names : bytes) (char_count : Z) (arr : bytes) : R (res ltt) :=
  let* a4 := slice_to arr 4 in
  let+ ut := read_be_i32 a4 in
  let* b4 := index arr 4 in
  let+ dst := match b4 with
              | 0 => ok false | 1 => ok true
              | _ => fail EInvalidTzFile end in
  let* b5 := index arr 5 in
  let char_index := b5 in
  if char_index >=? char_count then fail EInvalidTzFile else
  let* tail := slice_from names char_index in
  let position := prefix_len (fun x => negb (x =? 0)) tail in
  if position >=? zlen tail then fail EInvalidTzFile else
  let* e := add_usize char_index position in
  let* nm := slice names char_index e in
  let nm' := match nm with [] => None | _ => Some nm end in
  ltt_new ut dst nm'.

(* body of the leap-second loop *)
Definition parse_leap (ts : Z) (v : version) (arr : bytes) : R (res leap) :=
  let* a := slice arr 0 ts in
  let+ t := parse_time a v in
  let* e := add_usize ts 4 in
  let* b := slice arr ts e in
  let+ corr := read_be_i32 b in
  ok (mk_leap t corr).

(* std_walls.chain(repeat(0)).zip(ut_locals.chain(repeat(0))).take(type_count).any(== (0, 1)) *)
Fixpoint indicators_bad (n : nat) (sw ul : bytes) : bool :=
  match n with
  | O => false
  | S n' =>
      let '(s, sw') := match sw with [] => (0, []) | x :: r => (x, r) end in
      let '(u, ul') := match ul with [] => (0, []) | x :: r => (x, r) end in
      ((s =? 0) && (u =? 1)) || indicators_bad n' sw' ul'
  end.

(** core::str::from_utf8 accepts exactly the well-formed byte sequences of the Unicode
    standard (table 3-7) *)
Definition cont (b : Z) : bool := (128 <=? b) && (b <=? 191).
Fixpoint utf8_valid (s : bytes) : bool :=
  match s with
  | [] => true
  | b0 :: r =>
    if b0 <=? 127 then utf8_valid r
    else if (194 <=? b0) && (b0 <=? 223) then
      match r with b1 :: r1 => cont b1 && utf8_valid r1 | _ => false end
    else if (224 <=? b0) && (b0 <=? 239) then
      match r with
      | b1 :: b2 :: r2 =>
          (if b0 =? 224 then (160 <=? b1) && (b1 <=? 191)
           else if b0 =? 237 then (128 <=? b1) && (b1 <=? 159)
           else cont b1) && cont b2 && utf8_valid r2
      | _ => false end
    else if (240 <=? b0) && (b0 <=? 244) then
      match r with
      | b1 :: b2 :: b3 :: r3 =>
          (if b0 =? 240 then (144 <=? b1) && (b1 <=? 191)
           else if b0 =? 244 then (128 <=? b1) && (b1 <=? 143)
           else cont b1) && cont b2 && cont b3 && utf8_valid r3
      | _ => false end
    else false
  end.

Fixpoint drop_while (f : Z -> bool) (s : bytes) : bytes :=
  match s with x :: r => if f x then drop_while f r else s | [] => [] end.
(* str::trim_matches(|c| c.is_ascii_whitespace()) on valid UTF-8: byte-wise at both ends *)
Definition trim_ascii_ws (s : bytes) : bytes :=
  rev (drop_while is_ascii_whitespace (rev (drop_while is_ascii_whitespace s))).
Definition last_byte (s : bytes) : option Z := match rev s with x :: _ => Some x | [] => None end.

(** ** timezone.rs: construction *)

(* the transition loop of validate *)
Fixpoint validate_transitions (n_types : Z) (l : list transition) : res unit :=
  match l with
  | [] => Ok tt
  | t :: r =>
      if tr_idx t >=? n_types then Err ETimeZone else
      match r with
      | t2 :: _ => if tr_time t >=? tr_time t2 then Err ETimeZone else validate_transitions n_types r
      | [] => validate_transitions n_types r
      end
  end.
Definition sat_i64 (z : Z) : Z := clamp i64_min i64_max z.
Definition sat_i32 (z : Z) : Z := clamp i32_min i32_max z.
(* the leap-second loop of validate *)
Fixpoint validate_leaps (l : list leap) : res unit :=
  match l with
  | x0 :: ((x1 :: _) as r) =>
      let diff_unix_leap_time := sat_i64 (lp_time x1 - lp_time x0) in
      let abs_diff_correction := sat_i32 (Z.abs (sat_i32 (lp_corr x1 - lp_corr x0))) in
      if negb ((diff_unix_leap_time >=? TZ_SECONDS_PER_28_DAYS - 1) && (abs_diff_correction =? 1))
      then Err ETimeZone else validate_leaps r
  | _ => Ok tt
  end.

(* TimeZoneRef::unix_leap_time_to_unix_time *)
Definition unix_leap_time_to_unix_time (leaps : list leap) (unix_leap_time : Z) : R (res Z) :=
  if unix_leap_time =? i64_min then fail EOutOfRange else
  let* k := sub_i64 unix_leap_time 1 in
  let* idx := search_next (map lp_time leaps) k in
  let* correction :=
    if idx >? 0 then let* i := sub_usize idx 1 in let* l := index leaps i in Val (lp_corr l)
    else Val 0 in
  match checked_sub in_i64 unix_leap_time correction with
  | Some t => ok t
  | None => fail EOutOfRange
  end.

Definition oor_to (e' : tzerr) {A} (x : R (res A)) : R (res A) :=
  match x with
  | Val (Err EOutOfRange) => Val (Err e')
  | _ => x
  end.

Definition last_of {A} (l : list A) : option A := match rev l with x :: _ => Some x | [] => None end.

(* TimeZoneRef::validate *)
Definition validate (z : timezone) : R (res unit) :=
  let n_types := zlen (local_time_types z) in
  if n_types =? 0 then fail ETimeZone else
  let+ _ := Val (validate_transitions n_types (transitions z)) in
  let+ _ :=
    match leap_seconds z with
    | [] => ok tt
    | l0 :: _ =>
        if negb ((lp_time l0 >=? 0) && (sat_i32 (Z.abs (lp_corr l0)) =? 1)) then fail ETimeZone else ok tt
    end in
  let+ _ := Val (validate_leaps (leap_seconds z)) in
  match extra_rule z, last_of (transitions z) with
  | Some rule, Some last =>
      let* last_ltt := index (local_time_types z) (tr_idx last) in
      let+ unix_time := oor_to ETimeZone (unix_leap_time_to_unix_time (leap_seconds z) (tr_time last)) in
      let+ rule_ltt := oor_to ETimeZone (rule_find_local_time_type rule unix_time) in
      let check := (ut_offset last_ltt =? ut_offset rule_ltt)
                   && Bool.eqb (is_dst last_ltt) (is_dst rule_ltt)
                   && opt_bytes_eqb (name last_ltt) (name rule_ltt) in
      if negb check then fail ETimeZone else ok tt
  | _, _ => ok tt
  end.

(* TimeZone::new *)
Definition tz_new (tr : list transition) (ty : list ltt) (lp : list leap) (rule : option trule)
  : R (res timezone) :=
  let z := mk_tz tr ty lp rule in
  let+ _ := validate z in ok z.

(** ** parser.rs: parse *)
Definition parse (data : bytes) : R (res timezone) :=
  let c := cur_new data in
  let+ '(st, c) := state_new c true in
  let+ '(st, footer) :=
    match h_version (st_header st) with
    | V1 => if cur_is_empty c then ok (st, None) else fail EInvalidTzFile
    | _ => let+ '(st2, c2) := state_new c false in
           (* repaired (fixes/C16-second-header-version.diff): a version-1 header may not
              introduce the 64-bit block *)
           match h_version (st_header st2) with
           | V1 => fail EInvalidTzFile
           | _ => ok (st2, Some (remaining c2))
           end
    end in
  let h := st_header st in
  let ts := time_size st in
  let* tchunks := chunks_exact ts (st_transition_times st) in
  let+ transitions :=
    map_res (fun '(arr_time, ty) =>
               let* a := slice arr_time 0 ts in
               let+ t := parse_time a (h_version h) in
               ok (mk_tr t (as_usize ty)))
            (zip tchunks (st_transition_types st)) in
  let* lchunks := chunks_exact 6 (st_local_time_types st) in
  let+ ltts := map_res (parse_ltt (st_names st) (char_count h)) lchunks in
  let* rec := add_usize ts 4 in
  let* pchunks := chunks_exact rec (st_leap_seconds st) in
  let+ leaps := map_res (parse_leap ts (h_version h)) pchunks in
  if indicators_bad (Z.to_nat (type_count h)) (st_std_walls st) (st_ut_locals st)
  then fail EInvalidTzFile else
  let+ extra_rule :=
    match footer with
    | Some footer =>
        if negb (utf8_valid footer) then fail EUtf8 else
        if negb (match footer with 10 :: _ => true | _ => false end
                 && match last_byte footer with Some 10 => true | _ => false end)
        then fail EInvalidTzFile else
        let tz_string := trim_ascii_ws footer in
        if (match tz_string with 58 :: _ => true | _ => false end) || existsb (fun x => x =? 0) tz_string
        then fail EInvalidTzFile else
        match tz_string with
        | [] => ok None
        | _ => let+ r := from_tz_string tz_string (match h_version h with V3 => true | _ => false end) in
               ok (Some r)
        end
    | None => ok None
    end in
  tz_new transitions ltts leaps extra_rule.
