(** Executable model of the hand-written [fmt::Debug] / [fmt::Display] impls behind
    [to_string()] and [format!("{:?}")]:
      src/naive/date/mod.rs      NaiveDate      Debug (Display = Debug)
      src/naive/time/mod.rs      NaiveTime      Debug (Display = Debug)
      src/naive/datetime/mod.rs  NaiveDateTime  Debug ('T'), Display (' ')
      src/datetime/mod.rs        DateTime<Tz>   Debug (local ++ offset), Display (local ' ' offset)
      src/offset/fixed.rs        FixedOffset    Debug (Display = Debug)
      src/offset/utc.rs          Utc            Debug "Z", Display "UTC"
      src/weekday.rs             Weekday        Display = f.pad(name) (Model/C19.v [wd_display]);
                                                derived Debug = the variant name
      src/month.rs               Month          derived Debug = the variant name; no Display
    with [write_hundreds] and the [core::fmt] integer formats "{:+05}", "{:02}", "{:03}" ... of
    Model/Rfc3339.v.  A writer appends to the text written so far and returns [None] for
    [Err(fmt::Error)]; [to_string()] / [format!] panic on such an error ("a Display implementation
    returned an error unexpectedly").  All literals come from Gen/TextForms.v.
    A date-time with an offset is [dtz] (UTC reading + offset); for [DateTime<Utc>] the offset
    value is [Utc] itself, told apart by the [utc] flag of the writers.
    Shared by C09 (and usable by C12/C20).  No proofs in this file. *)
From Coq Require Import ZArith List Bool String.
From V Require Import Base.Int Base.IO Gen.TextForms Model.DateTime Model.Rfc3339.
From V Require Model.Date Model.Time Model.C19.
Import ListNotations.
Open Scope Z_scope.

Definition wok (w : bytes) : W := Val (Some w).
Definition wseq (x : W) (f : bytes -> W) : W :=
  let* o := x in match o with Some w => f w | None => Val None end.
Notation "'let^' x ':=' e 'in' k" := (wseq e (fun x => k))
  (at level 200, x name, e at level 100, k at level 200).

(** ** impl fmt::Debug for NaiveDate *)
Definition date_debug (w : bytes) (d : Z) : W :=
  let year := Date.d_year d in
  let* mdf := Date.d_mdf d in
  let^ w :=
    (if (SH_YEAR_LO <=? year) && (year <=? SH_YEAR_HI) then
       let* q := div_i32 year 100 in
       let* r := rem_i32 year 100 in
       Val (match write_hundreds w (as_u8 q) with
            | None => None | Some w => write_hundreds w (as_u8 r) end)
     else
       (* ISO 8601 requires the explicit sign for out-of-range years: write!(f, "{:+05}", year) *)
       wok (w ++ fmt_plus_05 year)) in
  let^ w := Val (write_char w SH_DATE_SEP1) in
  let^ w := Val (write_hundreds w (as_u8 (Date.mdf_month mdf))) in
  let^ w := Val (write_char w SH_DATE_SEP2) in
  Val (write_hundreds w (as_u8 (Date.mdf_day mdf))).
(* impl fmt::Display for NaiveDate: fmt::Debug::fmt(self, f) *)
Definition date_display (w : bytes) (d : Z) : W := date_debug w d.

(** ** impl fmt::Debug for NaiveTime *)
Definition time_debug (w : bytes) (t : Time.ntime) : W :=
  let '(hour, min, sec) := Time.hms t in
  let* '(sec, nano) :=
    (if Time.tfrac t >=? SH_LEAP_FRAC then
       let* s := add_u32 sec SH_LEAP_SEC_ADD in
       let* n := sub_u32 (Time.tfrac t) SH_LEAP_FRAC_SUB in Val (s, n)
     else Val (sec, Time.tfrac t)) in
  let^ w := Val (write_hundreds w (as_u8 hour)) in
  let^ w := Val (write_char w SH_TIME_SEP1) in
  let^ w := Val (write_hundreds w (as_u8 min)) in
  let^ w := Val (write_char w SH_TIME_SEP2) in
  let^ w := Val (write_hundreds w (as_u8 sec)) in
  if nano =? SH_FRAC_NONE then wok w
  else if Z.rem nano SH_FRAC1_MOD =? 0 then Val (write_frac w SH_FRAC1_WIDTH (Z.quot nano SH_FRAC1_DIV))
  else if Z.rem nano SH_FRAC2_MOD =? 0 then Val (write_frac w SH_FRAC2_WIDTH (Z.quot nano SH_FRAC2_DIV))
  else Val (write_frac w SH_FRAC3_WIDTH nano).
Definition time_display (w : bytes) (t : Time.ntime) : W := time_debug w t.

(** ** impl fmt::Debug / fmt::Display for NaiveDateTime *)
Definition ndt_debug (w : bytes) (a : ndt) : W :=
  let^ w := date_debug w (nd_date a) in
  let^ w := Val (write_char w SH_NDT_DEBUG_SEP) in
  time_debug w (nd_time a).
Definition ndt_display (w : bytes) (a : ndt) : W :=
  let^ w := date_display w (nd_date a) in
  let^ w := Val (write_char w SH_NDT_DISPLAY_SEP) in
  time_display w (nd_time a).

(** ** impl fmt::Debug for FixedOffset *)
(* core::fmt "{:02}" for an i32 *)
Definition fmt_i32_02 (n : Z) : bytes :=
  if n <? 0 then 45 :: fmt_zero_pad 1 (- n) else fmt_zero_pad 2 n.
Definition fixed_debug (w : bytes) (off : Z) : W :=
  let offset := off in
  let* '(sign, offset) :=
    (if offset <? 0 then let* n := neg_i32 offset in Val (45, n) else Val (43, offset)) in
  let* sec := rem_euclid in_i32 offset 60 in
  let* mins := div_euclid in_i32 offset 60 in
  let* min := rem_euclid in_i32 mins 60 in
  let* hour := div_euclid in_i32 mins 60 in
  if sec =? 0 then
    wok (w ++ [sign] ++ fmt_i32_02 hour ++ [58] ++ fmt_i32_02 min)
  else
    wok (w ++ [sign] ++ fmt_i32_02 hour ++ [58] ++ fmt_i32_02 min ++ [58] ++ fmt_i32_02 sec).
Definition fixed_display (w : bytes) (off : Z) : W := fixed_debug w off.

(** ** impl fmt::Debug / fmt::Display for Utc *)
Definition utc_debug (w : bytes) : W := wok (w ++ SH_UTC_DEBUG).
Definition utc_display (w : bytes) : W := wok (w ++ SH_UTC_DISPLAY).

(** ** impl<Tz: TimeZone> fmt::Debug / fmt::Display for DateTime<Tz>
    ([utc] = true: Tz = Utc, the offset value prints as Utc does) *)
Definition dtz_debug (utc : bool) (w : bytes) (a : dtz) : W :=
  let* local := overflowing_naive_local a in
  let^ w := ndt_debug w local in
  if utc then utc_debug w else fixed_debug w (dz_off a).
Definition dtz_display (utc : bool) (w : bytes) (a : dtz) : W :=
  let* local := overflowing_naive_local a in
  let^ w := ndt_display w local in
  let^ w := Val (write_char w SH_DT_DISPLAY_SEP) in
  if utc then utc_display w else fixed_display w (dz_off a).

(** ** Weekday / Month (values are the enum discriminants, as in Model/C19.v) *)
Definition wd_display (w : bytes) (d : Z) : W := let* nm := C19.wd_display d in wok (w ++ nm).
Definition wd_debug (w : bytes) (d : Z) : W := let* nm := C19.tab WD_VARIANT_NAMES d in wok (w ++ nm).
Definition mo_debug (w : bytes) (m : Z) : W := let* nm := C19.tab MO_VARIANT_NAMES m in wok (w ++ nm).

(** ** to_string() / format!("{:?}", x): a writer error panics *)
Definition to_text (x : W) : R bytes := unwrap_r x.
