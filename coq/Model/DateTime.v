(** Executable model of [NaiveDateTime] (src/naive/datetime/mod.rs), [FixedOffset] (src/offset/fixed.rs),
    the [TimeZone] trait's provided methods for fixed offsets (src/offset/mod.rs) and [DateTime<Tz>]
    for Tz in {Utc, FixedOffset} (src/datetime/mod.rs), function by function on top of Model/Date.v
    and Model/Time.v.  Trapping integer arithmetic in the [R] monad.  No proofs in this file.

    Naming: [D.] = Model/Date.v, [T.] = Model/Time.v (imported qualified: both define
    [signed_duration_since], [with_*] ...).
    A [DateTime<Tz>] is its UTC [NaiveDateTime] plus the offset in seconds ([Utc]: offset 0). *)
From Coq Require Import ZArith List Bool.
From V Require Import Base.Int Base.IO Gen.DateTimeConsts Model.TimeDelta.
From V Require Model.Date Model.Time.
Import ListNotations.
Open Scope Z_scope.


Record ndt := mk_ndt { nd_date : Z; nd_time : Time.ntime }.
Record dtz := mk_dtz { dz_utc : ndt; dz_off : Z }.

(** [MappedLocalTime<X>]: None / Single / Ambiguous *)
Inductive mlt (A : Type) := MNone | MSingle (a : A) | MAmbiguous (a b : A).
Arguments MNone {A}. Arguments MSingle {A} a. Arguments MAmbiguous {A} a b.
Definition mlt_single {A} (m : mlt A) : option A := match m with MSingle a => Some a | _ => None end.
Definition mlt_earliest {A} (m : mlt A) : option A :=
  match m with MSingle a => Some a | MAmbiguous a _ => Some a | MNone => None end.
Definition mlt_latest {A} (m : mlt A) : option A :=
  match m with MSingle a => Some a | MAmbiguous _ b => Some b | MNone => None end.

Definition T_MIN : Time.ntime := Time.mk_time 0 0.
Definition T_MAX : Time.ntime := Time.mk_time 86399 999999999.
Definition NDT_MIN : ndt := mk_ndt Date.D_MIN T_MIN.
Definition NDT_MAX : ndt := mk_ndt Date.D_MAX T_MAX.

(** derived [Ord]: lexicographic on (date.yof, time.secs, time.frac) *)
Definition ndt_cmp (a b : ndt) : Z :=
  cmp_lex [nd_date a; Time.tsecs (nd_time a); Time.tfrac (nd_time a)]
          [nd_date b; Time.tsecs (nd_time b); Time.tfrac (nd_time b)].
Definition ndt_le (a b : ndt) : bool := ndt_cmp a b <=? 0.

(** * NaiveDateTime *)
Definition ndt_checked_add_signed (a : ndt) (rhs : td) : R (option ndt) :=
  let* '(time, remainder) := Time.overflowing_add_signed (nd_time a) rhs in
  match try_seconds remainder with
  | None => Val None
  | Some rem =>
    let? date := Date.checked_add_signed (nd_date a) rem in
    Val (Some (mk_ndt date time))
  end.
Definition ndt_checked_sub_signed (a : ndt) (rhs : td) : R (option ndt) :=
  let* '(time, remainder) := Time.overflowing_sub_signed (nd_time a) rhs in
  match try_seconds remainder with
  | None => Val None
  | Some rem =>
    let? date := Date.checked_sub_signed (nd_date a) rem in
    Val (Some (mk_ndt date time))
  end.

Definition shift_date_checked (date days : Z) : R (option Z) :=
  if days =? -1 then Date.pred_opt date
  else if days =? 1 then Date.succ_opt date
  else Val (Some date).
Definition shift_date_overflowing (date days : Z) : R Z :=
  if days =? -1 then let* o := Date.pred_opt date in Val (match o with Some d => d | None => Date.D_BEFORE_MIN end)
  else if days =? 1 then let* o := Date.succ_opt date in Val (match o with Some d => d | None => Date.D_AFTER_MAX end)
  else Val date.

Definition ndt_checked_add_offset (a : ndt) (off : Z) : R (option ndt) :=
  let* '(time, days) := Time.overflowing_add_offset (nd_time a) off in
  let? date := shift_date_checked (nd_date a) days in Val (Some (mk_ndt date time)).
Definition ndt_checked_sub_offset (a : ndt) (off : Z) : R (option ndt) :=
  let* '(time, days) := Time.overflowing_sub_offset (nd_time a) off in
  let? date := shift_date_checked (nd_date a) days in Val (Some (mk_ndt date time)).
Definition ndt_overflowing_add_offset (a : ndt) (off : Z) : R ndt :=
  let* '(time, days) := Time.overflowing_add_offset (nd_time a) off in
  let* date := shift_date_overflowing (nd_date a) days in Val (mk_ndt date time).
Definition ndt_overflowing_sub_offset (a : ndt) (off : Z) : R ndt :=
  let* '(time, days) := Time.overflowing_sub_offset (nd_time a) off in
  let* date := shift_date_overflowing (nd_date a) days in Val (mk_ndt date time).

Definition ndt_signed_duration_since (a b : ndt) : R td :=
  let* dd := Date.signed_duration_since (nd_date a) (nd_date b) in
  let* dtm := Time.signed_duration_since (nd_time a) (nd_time b) in
  unwrap_r (td_checked_add dd dtm).

Definition ndt_map_date (a : ndt) (r : R (option Z)) : R (option ndt) :=
  let? d := r in Val (Some (mk_ndt d (nd_time a))).
Definition ndt_checked_add_months (a : ndt) (m : Z) := ndt_map_date a (Date.checked_add_months (nd_date a) m).
Definition ndt_checked_sub_months (a : ndt) (m : Z) := ndt_map_date a (Date.checked_sub_months (nd_date a) m).
Definition ndt_checked_add_days (a : ndt) (n : Z) := ndt_map_date a (Date.checked_add_days (nd_date a) n).
Definition ndt_checked_sub_days (a : ndt) (n : Z) := ndt_map_date a (Date.checked_sub_days (nd_date a) n).

(** Datelike / Timelike setters on NaiveDateTime; [field]: 0 year 1 month 2 month0 3 day 4 day0
    5 ordinal 6 ordinal0 7 hour 8 minute 9 second 10 nanosecond *)
Definition ndt_map_time (a : ndt) (r : R (option Time.ntime)) : R (option ndt) :=
  let? t := r in Val (Some (mk_ndt (nd_date a) t)).
Definition ndt_with (field : Z) (a : ndt) (x : Z) : R (option ndt) :=
  let d := nd_date a in let t := nd_time a in
  if field =? 0 then ndt_map_date a (Date.with_year d x)
  else if field =? 1 then ndt_map_date a (Date.with_month d x)
  else if field =? 2 then ndt_map_date a (Date.with_month0 d x)
  else if field =? 3 then ndt_map_date a (Date.with_day d x)
  else if field =? 4 then ndt_map_date a (Date.with_day0 d x)
  else if field =? 5 then ndt_map_date a (Date.with_ordinal d x)
  else if field =? 6 then ndt_map_date a (Date.with_ordinal0 d x)
  else if field =? 7 then ndt_map_time a (Time.with_hour t x)
  else if field =? 8 then ndt_map_time a (Time.with_minute t x)
  else if field =? 9 then ndt_map_time a (Time.with_second t x)
  else if field =? 10 then ndt_map_time a (Val (Time.with_nanosecond t x))
  else Panic.

(** * DateTime<Utc> timestamps (src/datetime/mod.rs) *)
Definition dt_timestamp (a : ndt) : R Z :=
  let* gd := Date.num_days_from_ce (nd_date a) in
  let sfm := Time.num_seconds_from_midnight (nd_time a) in
  let* d := sub_i64 gd UNIX_EPOCH_DAY in
  let* s := mul_i64 d 86400 in
  add_i64 s sfm.
Definition dt_subsec_nanos (a : ndt) : Z := Time.nanosecond (nd_time a).
Definition dt_subsec_millis (a : ndt) : Z := Z.quot (dt_subsec_nanos a) 1000000.
Definition dt_subsec_micros (a : ndt) : Z := Z.quot (dt_subsec_nanos a) 1000.
Definition dt_timestamp_millis (a : ndt) : R Z :=
  let* ts := dt_timestamp a in let* ms := mul_i64 ts 1000 in add_i64 ms (dt_subsec_millis a).
Definition dt_timestamp_micros (a : ndt) : R Z :=
  let* ts := dt_timestamp a in let* us := mul_i64 ts 1000000 in add_i64 us (dt_subsec_micros a).
Definition dt_timestamp_nanos_opt (a : ndt) : R (option Z) :=
  let* ts := dt_timestamp a in
  let sn := dt_subsec_nanos a in
  let* '(ts, sn) := (if ts <? 0 then let* s' := sub_i64 sn 1000000000 in let* t' := add_i64 ts 1 in Val (t', s')
                     else Val (ts, sn)) in
  match checked_mul in_i64 ts 1000000000 with
  | None => Val None
  | Some m => Val (checked_add in_i64 m sn)
  end.
Definition dt_timestamp_nanos (a : ndt) : R Z := unwrap_r (dt_timestamp_nanos_opt a).

(** [DateTime::<Utc>::from_timestamp(secs: i64, nsecs: u32)] -> the UTC NaiveDateTime *)
Definition dt_from_timestamp (secs nsecs : Z) : R (option ndt) :=
  let* q := div_euclid in_i64 secs DT_SECS_PER_DAY in
  let* days := add_i64 q UNIX_EPOCH_DAY in
  let* secs := rem_euclid in_i64 secs DT_SECS_PER_DAY in
  if (days <? i32_min) || (i32_max <? days) then Val None else
  let? date := Date.from_num_days_from_ce_opt (as_i32 days) in
  match Time.from_num_seconds_from_midnight_opt (as_u32 secs) nsecs with
  | None => Val None
  | Some time => Val (Some (mk_ndt date time))
  end.
Definition dt_from_timestamp_millis (millis : Z) : R (option ndt) :=
  let* secs := div_euclid in_i64 millis 1000 in
  let* r := rem_euclid in_i64 millis 1000 in
  let* nsecs := mul_u32 (as_u32 r) 1000000 in
  dt_from_timestamp secs nsecs.
Definition dt_from_timestamp_micros (micros : Z) : R (option ndt) :=
  let* secs := div_euclid in_i64 micros 1000000 in
  let* r := rem_euclid in_i64 micros 1000000 in
  let* nsecs := mul_u32 (as_u32 r) 1000 in
  dt_from_timestamp secs nsecs.
Definition dt_from_timestamp_nanos (nanos : Z) : R ndt :=
  let* secs := div_euclid in_i64 nanos 1000000000 in
  let* r := rem_euclid in_i64 nanos 1000000000 in
  unwrap_r (dt_from_timestamp secs (as_u32 r)).

(** * FixedOffset *)
Definition east_opt (secs : Z) : option Z := if (FO_EAST_LO <? secs) && (secs <? FO_EAST_HI) then Some secs else None.
Definition west_opt (secs : Z) : R (option Z) :=
  if (FO_WEST_LO <? secs) && (secs <? FO_WEST_HI) then let* n := neg_i32 secs in Val (Some n) else Val None.

(** * TimeZone provided methods, for a fixed offset [off] *)
Definition from_utc_datetime (off : Z) (utc : ndt) : dtz := mk_dtz utc off.
Definition from_local_datetime (off : Z) (local : ndt) : R (mlt dtz) :=
  let* o := ndt_checked_sub_offset local off in
  Val (match o with Some u => MSingle (mk_dtz u off) | None => MNone end).
Definition tz_timestamp_opt (off secs nsecs : Z) : R (mlt dtz) :=
  let* o := dt_from_timestamp secs nsecs in
  Val (match o with Some u => MSingle (from_utc_datetime off u) | None => MNone end).

(** * DateTime<Tz> *)
Definition naive_utc (a : dtz) : ndt := dz_utc a.
Definition naive_local (a : dtz) : R ndt := unwrap_r (ndt_checked_add_offset (dz_utc a) (dz_off a)).
Definition overflowing_naive_local (a : dtz) : R ndt := ndt_overflowing_add_offset (dz_utc a) (dz_off a).
Definition with_timezone (a : dtz) (off : Z) : dtz := from_utc_datetime off (dz_utc a).
Definition dz_cmp (a b : dtz) : Z := ndt_cmp (dz_utc a) (dz_utc b).
Definition in_utc_range (a : dtz) : bool := ndt_le NDT_MIN (dz_utc a) && ndt_le (dz_utc a) NDT_MAX.

Definition dz_checked_add_signed (a : dtz) (rhs : td) : R (option dtz) :=
  let? n := ndt_checked_add_signed (dz_utc a) rhs in Val (Some (from_utc_datetime (dz_off a) n)).
Definition dz_checked_sub_signed (a : dtz) (rhs : td) : R (option dtz) :=
  let? n := ndt_checked_sub_signed (dz_utc a) rhs in Val (Some (from_utc_datetime (dz_off a) n)).
Definition dz_signed_duration_since (a b : dtz) : R td := ndt_signed_duration_since (dz_utc a) (dz_utc b).

Definition dz_checked_add_months (a : dtz) (m : Z) : R (option dtz) :=
  let* l := overflowing_naive_local a in
  let? l' := ndt_checked_add_months l m in
  let* r := from_local_datetime (dz_off a) l' in Val (mlt_single r).
Definition dz_checked_sub_months (a : dtz) (m : Z) : R (option dtz) :=
  let* l := overflowing_naive_local a in
  let? l' := ndt_checked_sub_months l m in
  let* r := from_local_datetime (dz_off a) l' in Val (mlt_single r).
Definition dz_checked_add_days (a : dtz) (n : Z) : R (option dtz) :=
  if n =? 0 then Val (Some a) else
  let* l := overflowing_naive_local a in
  let? l' := ndt_checked_add_days l n in
  let* r := from_local_datetime (dz_off a) l' in
  Val (match mlt_single r with Some x => if ndt_le (dz_utc x) NDT_MAX then Some x else None | None => None end).
Definition dz_checked_sub_days (a : dtz) (n : Z) : R (option dtz) :=
  let* l := overflowing_naive_local a in
  let? l' := ndt_checked_sub_days l n in
  let* r := from_local_datetime (dz_off a) l' in
  Val (match mlt_single r with Some x => if ndt_le NDT_MIN (dz_utc x) then Some x else None | None => None end).

Definition map_local (a : dtz) (f : ndt -> R (option ndt)) : R (option dtz) :=
  let* l := overflowing_naive_local a in
  let? l' := f l in
  let* r := from_local_datetime (dz_off a) l' in
  Val (match mlt_single r with Some x => if in_utc_range x then Some x else None | None => None end).
Definition dz_with (field : Z) (a : dtz) (x : Z) : R (option dtz) :=
  if field =? 0 then
    map_local a (fun l => if Date.d_year (nd_date l) =? x then Val (Some l) else ndt_with 0 l x)
  else map_local a (fun l => ndt_with field l x).
(** [MappedLocalTime::and_then] (pub(crate)) *)
Definition mlt_and_then {A C} (m : mlt A) (f : A -> option C) : mlt C :=
  match m with
  | MNone => MNone
  | MSingle v => match f v with Some n => MSingle n | None => MNone end
  | MAmbiguous a b => match f a, f b with Some x, Some y => MAmbiguous x y | _, _ => MNone end
  end.
(** [with_time] as repaired by fixes/C04-with-time-range.diff: the same MIN_UTC..=MAX_UTC filter as
    [map_local] (the unrepaired code returned the unfiltered [from_local_datetime] result, which can
    lie outside the range when the local date is BEFORE_MIN/AFTER_MAX). *)
Definition dz_with_time (a : dtz) (t : Time.ntime) : R (mlt dtz) :=
  let* l := overflowing_naive_local a in
  let* r := from_local_datetime (dz_off a) (mk_ndt (nd_date l) t) in
  Val (mlt_and_then r (fun x => if in_utc_range x then Some x else None)).

(** [with_ymd_and_hms] for a fixed offset *)
Definition with_ymd_and_hms (off year month day hour min sec : Z) : R (mlt dtz) :=
  let* od := Date.from_ymd_opt year month day in
  match od with
  | None => Val MNone
  | Some d =>
    let* ot := Time.from_hms_opt hour min sec in
    match ot with
    | None => Val MNone
    | Some t => from_local_datetime off (mk_ndt d t)
    end
  end.

(** * Canonical encodings of the case protocol (harness/src/val.rs) *)
Definition enc_date (d : Z) : val := VTup [VInt (Date.d_year d); VInt (Date.d_ordinal d)].
Definition dec_date (v : val) : option Z :=
  match v with
  | VTup [VInt y; VInt o] =>
      if in_i32 y && in_u32 o then match Date.from_yo_opt y o with Val (Some d) => Some d | _ => None end else None
  | _ => None
  end.
Definition enc_ndt (a : ndt) : val :=
  VTup [VInt (Date.d_year (nd_date a)); VInt (Date.d_ordinal (nd_date a)); VInt (Time.tsecs (nd_time a)); VInt (Time.tfrac (nd_time a))].
Definition dec_ndt (v : val) : option ndt :=
  match v with
  | VTup [y; o; s; f] =>
      match dec_date (VTup [y; o]), Time.dec_time (VTup [s; f]) with
      | Some d, Some t => Some (mk_ndt d t) | _, _ => None end
  | _ => None
  end.
Definition enc_dtz (a : dtz) : val :=
  let u := dz_utc a in
  VTup [VInt (Date.d_year (nd_date u)); VInt (Date.d_ordinal (nd_date u)); VInt (Time.tsecs (nd_time u));
        VInt (Time.tfrac (nd_time u)); VInt (dz_off a)].
Definition dec_dtz (v : val) : option dtz :=
  match v with
  | VTup [y; o; s; f; VInt off] =>
      match dec_ndt (VTup [y; o; s; f]), east_opt off with
      | Some u, Some _ => Some (mk_dtz u off) | _, _ => None end
  | _ => None
  end.
Definition enc_mlt {A} (f : A -> val) (m : mlt A) : val :=
  match m with MNone => VTup [] | MSingle a => VTup [f a] | MAmbiguous a b => VTup [f a; f b] end.
