(** C17 dispatcher: maps case lines to the model of src/round.rs (Model/Round.v).  No proofs here.
      rd.trunc / rd.round / rd.up     N TD      -> N | err:<RoundingError variant>      (NaiveDateTime)
      rd.ztrunc / rd.zround / rd.zup  Z TD      -> Z | err:<RoundingError variant>      (DateTime<FixedOffset>)
      rd.rsub / rd.tsub  kind value digits:u16  -> value   (kind 1 NaiveTime, 2 NaiveDateTime, 3 DateTime) *)
From Coq Require Import ZArith List Bool String.
From V Require Import Base.Int Base.IO Model.TimeDelta Model.DateTime.
From V Require Model.Date Model.Time.
From V Require Export Model.Round.
Import ListNotations.
Open Scope Z_scope.

Definition subsec_op (f : forall T, tl T -> T -> Z -> R T) (args : list val) : val :=
  match args with
  | [VInt kind; v; dg] =>
      match arg_u16 dg with
      | None => VBad
      | Some digits =>
          if kind =? 1 then
            match Time.dec_time v with Some t => val_of_R Time.enc_time (f _ time_ops t digits) | None => VBad end
          else if kind =? 2 then
            match dec_ndt v with Some a => val_of_R enc_ndt (f _ ndt_ops a digits) | None => VBad end
          else if kind =? 3 then
            match dec_dtz v with Some a => val_of_R enc_dtz (f _ dz_ops a digits) | None => VBad end
          else VBad
      end
  | _ => VBad
  end.

Definition run (op : bytes) (args : list val) : val :=
  let n_td (f : ndt -> td -> R (ndt + rerr)) :=
    match args with
    | [a; b] => match dec_ndt a, dec_td b with
                | Some x, Some d => val_of_R (enc_res enc_ndt) (f x d) | _, _ => VBad end
    | _ => VBad end in
  let z_td (f : dtz -> td -> R (dtz + rerr)) :=
    match args with
    | [a; b] => match dec_dtz a, dec_td b with
                | Some x, Some d => val_of_R (enc_res enc_dtz) (f x d) | _, _ => VBad end
    | _ => VBad end in
  if op_is op "rd.trunc" then n_td ndt_duration_trunc
  else if op_is op "rd.round" then n_td ndt_duration_round
  else if op_is op "rd.up" then n_td ndt_duration_round_up
  else if op_is op "rd.ztrunc" then z_td dz_duration_trunc
  else if op_is op "rd.zround" then z_td dz_duration_round
  else if op_is op "rd.zup" then z_td dz_duration_round_up
  else if op_is op "rd.rsub" then subsec_op (@round_subsecs) args
  else if op_is op "rd.tsub" then subsec_op (@trunc_subsecs) args
  else VErr B"NOOP".
