(** C14 dispatcher: the model is Model/Parsed.v (shared with C09, C10, C11, C13); this file only
    maps case lines to model calls.  No proofs here.

    Ops:
      pz.resolve <target> <fields> [off]   <fields> = ((k,v),...) applied in order through the
                                           set_* methods (numbering: Parsed.apply_setter); a failing
                                           setter aborts with err:<Kind>@set
      pz.setseq <fields>                   -> ((r1,...,rn),(f0,...,f20)): per-step 0 | err:<Kind>
                                           and the 21 fields afterwards (none | some(v))
      pz.raw <target> <state> [off]        <state> = the 21 fields written directly (they are pub)
    target 0 to_naive_date, 1 to_naive_time, 2 to_naive_datetime_with_offset off,
           3 to_datetime, 4 to_datetime_with_timezone(FixedOffset off), 5 to_fixed_offset.
      pz.zone <state> <t> <a> <b>          to_datetime_with_timezone on a zone with one transition
                                           (offset a before instant t, b from then on) *)
From Coq Require Import ZArith List Bool String.
From V Require Import Base.Int Base.IO Model.TimeDelta.
From V Require Model.Date Model.Time.
From V Require Import Model.DateTime.
From V Require Export Model.Parsed.
Import ListNotations.
Open Scope Z_scope.

(** decoding of <fields>: all pairs are decoded before the first setter runs *)
Fixpoint dec_pairs (l : list val) : option (list (Z * Z)) :=
  match l with
  | [] => Some []
  | VTup [VInt k; VInt v] :: r =>
      match apply_setter k parsed_new v, dec_pairs r with
      | Some _, Some ps => Some ((k, v) :: ps)
      | _, _ => None
      end
  | _ => None
  end.

(** apply the setters in order; [inl kind]: the first failing setter *)
Fixpoint apply_all (ps : list (Z * Z)) (p : parsed) : R (parsed + perr) :=
  match ps with
  | [] => Val (inl p)
  | (k, v) :: r =>
    match apply_setter k p v with
    | None => Panic
    | Some x =>
      let* '(p1, res) := x in
      match res with
      | Ok _ => apply_all r p1
      | Err e => Val (inr e)
      end
    end
  end.

Fixpoint apply_seq (ps : list (Z * Z)) (p : parsed) (acc : list val) : R (list val * parsed) :=
  match ps with
  | [] => Val (rev acc, p)
  | (k, v) :: r =>
    match apply_setter k p v with
    | None => Panic
    | Some x =>
      let* '(p1, res) := x in
      apply_seq r p1 (val_of_res (fun _ => VInt 0) res :: acc)
    end
  end.

(** direct field writes: the value must fit the field's Rust type *)
Definition field_type_ok (f : field) (v : Z) : bool :=
  match f with
  | F_year | F_year_div_100 | F_year_mod_100 | F_isoyear | F_isoyear_div_100 | F_isoyear_mod_100
  | F_offset => in_i32 v
  | F_weekday => contains 0 6 v
  | F_timestamp => in_i64 v
  | _ => in_u32 v
  end.
Fixpoint dec_state (fs : list field) (l : list val) (p : parsed) : option parsed :=
  match fs, l with
  | [], [] => Some p
  | f :: fr, VNone :: r => dec_state fr r p
  | f :: fr, VSome (VInt v) :: r => if field_type_ok f v then dec_state fr r (pput f (Some v) p) else None
  | _, _ => None
  end.

Definition resolve (target : Z) (p : parsed) (off : option Z) : val :=
  match off with
  | None =>
    if target =? 0 then val_of_R (val_of_res enc_date) (to_naive_date p)
    else if target =? 1 then val_of_R (val_of_res Time.enc_time) (to_naive_time p)
    else if target =? 3 then val_of_R (val_of_res enc_dtz) (to_datetime p)
    else if target =? 5 then val_of_R (val_of_res VInt) (to_fixed_offset p)
    else VBad
  | Some o =>
    if target =? 2 then
      if in_i32 o then val_of_R (val_of_res enc_ndt) (to_naive_datetime_with_offset p o) else VBad
    else if target =? 4 then
      match east_opt o with
      | Some tz => val_of_R (val_of_res enc_dtz) (to_datetime_with_timezone p tz)
      | None => VBad
      end
    else VBad
  end.

(** A zone with ONE transition, for [to_datetime_with_timezone] on a zone that is not a fixed offset
    (the harness's [StepZone { t, a, b }]): offset [a] before instant [t] (seconds since the epoch),
    [b] from then on.
      offset_from_utc_datetime(utc)    = if utc.timestamp() < t { a } else { b }
      offset_from_local_datetime(l)    with w = l.and_utc().timestamp():
          early := w - a < t,  late := w - b >= t
          early && late -> Ambiguous(a, b) | early -> Single(a) | late -> Single(b) | else None
    and the provided [TimeZone::from_local_datetime] (src/offset/mod.rs): each candidate offset is
    mapped through [local.checked_sub_offset(off)], an Ambiguous pair needs both. *)
Definition sz_offset_utc (t a b : Z) (u : ndt) : R Z :=
  let* ts := dt_timestamp u in Val (if ts <? t then a else b).
Definition sz_from_local (t a b : Z) (local : ndt) : R (mlt dtz) :=
  let* w := dt_timestamp local in
  let early := (w - a <? t) in
  let late := (t <=? w - b) in
  let cand (off : Z) : R (option dtz) :=
    let* o := ndt_checked_sub_offset local off in
    Val (match o with Some u => Some (mk_dtz u off) | None => None end) in
  if early && late then
    let* x := cand a in let* y := cand b in
    Val (match x, y with Some x, Some y => MAmbiguous x y | _, _ => MNone end)
  else if early then let* x := cand a in Val (match x with Some x => MSingle x | None => MNone end)
  else if late then let* y := cand b in Val (match y with Some y => MSingle y | None => MNone end)
  else Val MNone.
(** Parsed::to_datetime_with_timezone (src/format/parsed.rs) for that zone: same body as
    [to_datetime_with_timezone] of Model/Parsed.v with the zone's two lookups *)
Definition to_datetime_with_stepzone (p : parsed) (t a b : Z) : R (res dtz) :=
  let! guessed_offset :=
    (match p_timestamp p with
     | Some timestamp =>
       let nanosecond := unwrap_or (p_nanosecond p) 0 in
       let! dt := ok_or_r (dt_from_timestamp timestamp nanosecond) OutOfRange in
       let* o := sz_offset_utc t a b dt in Val (Ok o)
     | None => Val (Ok 0)
     end) in
  (* repaired (fixes/C14-timezone-timestamp-candidate.diff): with a timestamp the candidate must
     also have the offset the zone has at that instant *)
  let check_offset (dt : dtz) : bool :=
    if (match p_timestamp p with Some _ => true | None => false end) && negb (dz_off dt =? guessed_offset)
    then false
    else match p_offset p with Some offset => dz_off dt =? offset | None => true end in
  let! datetime := to_naive_datetime_with_offset p guessed_offset in
  let* m := sz_from_local t a b datetime in
  match m with
  | MNone => Val (Err Impossible)
  | MSingle x => if check_offset x then Val (Ok x) else Val (Err Impossible)
  | MAmbiguous mn mx =>
    match check_offset mn, check_offset mx with
    | false, false => Val (Err Impossible)
    | false, true => Val (Ok mx)
    | true, false => Val (Ok mn)
    | true, true => Val (Err NotEnough)
    end
  end.

Definition target_off (rest : list val) : option (option Z) :=
  match rest with
  | [] => Some None
  | [VInt o] => Some (Some o)
  | _ => None
  end.

Definition run (op : bytes) (args : list val) : val :=
  if op_is op "pz.resolve" then
    match args with
    | VInt target :: VTup l :: rest =>
      match dec_pairs l, target_off rest with
      | Some ps, Some off =>
        (* the target/offset combination is validated before the setters run *)
        if val_eqb (resolve target parsed_new off) VBad then VBad else
        match apply_all ps parsed_new with
        | Val (inl p) => resolve target p off
        | Val (inr e) => VErr (perr_name e ++ B"@set")
        | Panic => VPanic
        | OutOfFuel => VFuel
        end
      | _, _ => VBad
      end
    | _ => VBad
    end
  else if op_is op "pz.setseq" then
    match args with
    | [VTup l] =>
      match dec_pairs l with
      | Some ps => val_of_R (fun '(rs, p) => VTup [VTup rs; enc_parsed p]) (apply_seq ps parsed_new [])
      | None => VBad
      end
    | _ => VBad
    end
  else if op_is op "pz.raw" then
    match args with
    | VInt target :: VTup l :: rest =>
      match dec_state all_fields l parsed_new, target_off rest with
      | Some p, Some off => resolve target p off
      | _, _ => VBad
      end
    | _ => VBad
    end
  else if op_is op "pz.zone" then
    match args with
    | [VTup l; VInt t; VInt a; VInt b] =>
      match dec_state all_fields l parsed_new, east_opt a, east_opt b with
      | Some p, Some _, Some _ =>
          if in_i64 t then val_of_R (val_of_res enc_dtz) (to_datetime_with_stepzone p t a b) else VBad
      | _, _, _ => VBad
      end
    | _ => VBad
    end
  else VErr B"NOOP".
