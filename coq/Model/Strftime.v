(** Executable model of [StrftimeItems] (src/format/strftime.rs) in the default, non-locale
    configuration: the iterator state, [next], [parse_next_item], [error] and the `next!` macro,
    line by line; the `match spec` arms are data from Gen/Strftime.v (regenerated from the Rust
    source), interpreted by [run_arm].  Format strings are byte lists holding valid UTF-8; every
    `&s[i..]` / `&s[..i]` is [str_from]/[str_to] and traps ([Panic]) off a char boundary, as
    Rust's string slicing does.  `usize` additions and subtractions trap on overflow.

    The pieces of UTF-8 handling needed here ([next_char], [len_utf8], [is_char_boundary],
    [is_whitespace], [find_char], [utf8_valid]) are local to this file until a shared
    Base/Utf8.v exists (to be reconciled with the C10 engineer's).
    Shared by C12, C13, C15.  No proofs in this file. *)
From Coq Require Import ZArith List Bool.
From V Require Import Base.Int Base.IO Model.Items Gen.Strftime.
Import ListNotations.
Open Scope Z_scope.

(** * UTF-8 strings as byte lists *)
Definition is_cont (b : Z) : bool := (128 <=? b) && (b <? 192).

(* core::str::from_utf8 acceptance (RFC 3629: no overlongs, no surrogates, <= U+10FFFF) *)
Fixpoint utf8_valid (s : bytes) : bool :=
  match s with
  | [] => true
  | b0 :: r =>
    if (0 <=? b0) && (b0 <? 128) then utf8_valid r
    else if (194 <=? b0) && (b0 <? 224) then
      match r with b1 :: r' => is_cont b1 && utf8_valid r' | _ => false end
    else if (224 <=? b0) && (b0 <? 240) then
      match r with
      | b1 :: b2 :: r' =>
          is_cont b1 && is_cont b2
          && (if b0 =? 224 then 160 <=? b1 else true) && (if b0 =? 237 then b1 <? 160 else true)
          && utf8_valid r'
      | _ => false
      end
    else if (240 <=? b0) && (b0 <? 245) then
      match r with
      | b1 :: b2 :: b3 :: r' =>
          is_cont b1 && is_cont b2 && is_cont b3
          && (if b0 =? 240 then 144 <=? b1 else true) && (if b0 =? 244 then b1 <? 144 else true)
          && utf8_valid r'
      | _ => false
      end
    else false
  end.

Definition blen (s : bytes) : Z := Z.of_nat (List.length s).

(* str::is_char_boundary *)
Definition is_char_boundary (s : bytes) (i : Z) : bool :=
  if i =? 0 then true
  else if i <? 0 then false
  else match nth_z_aux s (Z.to_nat i) with
       | None => i =? blen s
       | Some b => negb (is_cont b)
       end.
(* &s[i..] and &s[..i] *)
Definition str_from (s : bytes) (i : Z) : R bytes :=
  if is_char_boundary s i then Val (skipn (Z.to_nat i) s) else Panic.
Definition str_to (s : bytes) (i : Z) : R bytes :=
  if is_char_boundary s i then Val (firstn (Z.to_nat i) s) else Panic.

(* char::len_utf8 *)
Definition len_utf8 (c : Z) : Z :=
  if c <? 128 then 1 else if c <? 2048 then 2 else if c <? 65536 then 3 else 4.

Definition cont_bits (o : option Z) : Z := match o with Some b => Z.land b 63 | None => 0 end.
(* s.chars().next(): the first scalar value (of valid UTF-8) *)
Definition next_char (s : bytes) : option Z :=
  match s with
  | [] => None
  | b0 :: r =>
    let c k := cont_bits (nth_z_aux r k) in
    if b0 <? 128 then Some b0
    else if b0 <? 224 then Some (Z.land b0 31 * 64 + c 0%nat)
    else if b0 <? 240 then Some (Z.land b0 15 * 4096 + c 0%nat * 64 + c 1%nat)
    else Some (Z.land b0 7 * 262144 + c 0%nat * 4096 + c 1%nat * 64 + c 2%nat)
  end.

(* char::is_whitespace: the Unicode White_Space property *)
Definition is_whitespace (c : Z) : bool :=
  ((9 <=? c) && (c <=? 13)) || (c =? 32) || (c =? 133) || (c =? 160) || (c =? 5760)
  || ((8192 <=? c) && (c <=? 8202)) || (c =? 8232) || (c =? 8233) || (c =? 8239) || (c =? 8287)
  || (c =? 12288).

(* s.find(|c: char| p c): byte index of the first char satisfying p.  [skip] = bytes of the
   current char still to be passed over. *)
Fixpoint find_char_aux (p : Z -> bool) (s : bytes) (skip : nat) (pos : Z) : option Z :=
  match s with
  | [] => None
  | _ :: r =>
    match skip with
    | S k => find_char_aux p r k (pos + 1)
    | O => match next_char s with
           | Some c => if p c then Some pos
                       else find_char_aux p r (Z.to_nat (len_utf8 c) - 1) (pos + 1)
           | None => None
           end
    end
  end.
Definition find_char (p : Z -> bool) (s : bytes) : option Z := find_char_aux p s O 0.

(* s.contains(c) for an ASCII-only s *)
Definition contains_char (s : bytes) (c : Z) : bool := existsb (Z.eqb c) s.

Fixpoint assoc {A} (k : Z) (l : list (Z * A)) : option A :=
  match l with [] => None | (k', v) :: r => if k =? k' then Some v else assoc k r end.

(** * StrftimeItems *)
Record sfi := mk_sfi { sf_remainder : bytes; sf_queue : list Item; sf_lenient : bool }.
Definition sf_new (s : bytes) : sfi := mk_sfi s [] false.
Definition sf_new_lenient (s : bytes) : sfi := mk_sfi s [] true.

(* fn error(&mut self, original, error_len: &mut usize, ch: Option<char>) -> (&str, Item);
   also returns the updated [*error_len] *)
Definition sf_error (lenient : bool) (original : bytes) (error_len : Z) (ch : option Z)
  : R (Z * (bytes * Item)) :=
  if negb lenient then
    if SF_ERROR_CONSUMES then Val (error_len, ([], IError))
    else let* r := str_from original error_len in Val (error_len, (r, IError))
  else
    let* el := (match ch with Some c => sub_usize error_len (len_utf8 c) | None => Val error_len end) in
    let* r := str_from original el in
    let* l := str_to original el in
    Val (el, (r, Literal l)).

(* macro next!(): inl = `return Some(self.error(original, &mut error_len, None))`,
   inr = (x, remainder, error_len) *)
Definition sf_next_char (lenient : bool) (original remainder : bytes) (error_len : Z)
  : R ((bytes * Item) + (Z * bytes * Z)) :=
  match next_char remainder with
  | Some x =>
      let* rm := str_from remainder (len_utf8 x) in
      let* el := (if lenient then add_usize error_len (len_utf8 x) else Val error_len) in
      Val (inr (x, rm, el))
  | None => let* '(_, res) := sf_error lenient original error_len None in Val (inl res)
  end.

(* outcome of one arm of `match spec`: an early `return Some(..)` or the item with the updated
   locals (remainder, error_len) and self.queue *)
Inductive arm_res :=
| ARet (res : bytes * Item) (queue : list Item)
| ACont (item : Item) (remainder : bytes) (error_len : Z) (queue : list Item).

Fixpoint run_arm (lenient is_alternate : bool) (original : bytes) (a : sf_arm)
                 (remainder : bytes) (error_len : Z) (queue : list Item) {struct a} : R arm_res :=
  match a with
  | ArmItem i => Val (ACont i remainder error_len queue)
  | ArmQueue h t => Val (ACont h remainder error_len t)
  | ArmAlt alt plain => Val (ACont (if is_alternate then alt else plain) remainder error_len queue)
  | ArmPrefixes l =>
      (fix go (l : list (bytes * Item)) : R arm_res :=
         match l with
         | [] => let* '(el, (_, it)) := sf_error lenient original error_len None in
                 Val (ACont it remainder el queue)
         | (p, it) :: r =>
             match strip_prefix p remainder with
             | Some _ => let* rm := str_from remainder (blen p) in Val (ACont it rm error_len queue)
             | None => go r
             end
         end) l
  | ArmNext l =>
      let* n := sf_next_char lenient original remainder error_len in
      match n with
      | inl res => Val (ARet res queue)
      | inr (x, rm, el) =>
          (fix find (l : list (Z * sf_arm)) : R arm_res :=
             match l with
             | [] => let* '(el', (rm', it)) := sf_error lenient original el (Some x) in
                     Val (ACont it rm' el' queue)
             | (c, sub) :: r =>
                 if x =? c then run_arm lenient is_alternate original sub rm el queue else find r
             end) l
      end
  end.

Definition is_some {A} (o : option A) : bool := match o with Some _ => true | None => false end.
Definition is_nil {A} (l : list A) : bool := match l with [] => true | _ => false end.

(* the `Some('%')` branch of parse_next_item *)
Definition parse_spec (lenient : bool) (queue : list Item) (original : bytes)
  : R (option (bytes * Item) * list Item) :=
  let* remainder := str_from original 1 in
  let* error_len := (if lenient then add_usize 0 1 else Val 0) in
  let* n := sf_next_char lenient original remainder error_len in
  match n with
  | inl res => Val (Some res, queue)
  | inr (spec, remainder, error_len) =>
    let pad_override := assoc spec SF_PAD_OVERRIDE in
    let is_alternate := spec =? SF_ALT_CHAR in
    let* n2 := (if is_some pad_override || is_alternate
                then sf_next_char lenient original remainder error_len
                else Val (inr (spec, remainder, error_len))) in
    match n2 with
    | inl res => Val (Some res, queue)
    | inr (spec, remainder, error_len) =>
      if is_alternate && negb (contains_char SF_HAVE_ALTERNATES spec) then
        let* '(_, res) := sf_error lenient original error_len (Some spec) in Val (Some res, queue)
      else
      let* ar := (match assoc spec SF_ARMS with
                  | Some arm => run_arm lenient is_alternate original arm remainder error_len queue
                  | None => let* '(el, (rm, it)) := sf_error lenient original error_len (Some spec) in
                            Val (ACont it rm el queue)
                  end) in
      match ar with
      | ARet res q => Val (Some res, q)
      | ACont item remainder error_len queue =>
        match pad_override with
        | Some new_pad =>
            match item with
            | INumeric kind _ =>
                if is_nil queue then Val (Some (remainder, INumeric kind new_pad), queue)
                else let* '(_, res) := sf_error lenient original error_len None in Val (Some res, queue)
            | _ => let* '(_, res) := sf_error lenient original error_len None in Val (Some res, queue)
            end
        | None => Val (Some (remainder, item), queue)
        end
      end
    end
  end.

(* fn parse_next_item(&mut self, remainder) -> Option<(&str, Item)>; second component: self.queue *)
Definition parse_next_item (lenient : bool) (queue : list Item) (remainder : bytes)
  : R (option (bytes * Item) * list Item) :=
  match next_char remainder with
  | None => Val (None, queue)
  | Some c0 =>
    if c0 =? 37 then parse_spec lenient queue remainder
    else if is_whitespace c0 then
      let nextspec := match find_char (fun c => negb (is_whitespace c)) remainder with
                      | Some i => i | None => blen remainder end in
      let* _ := rassert (0 <? nextspec) in
      let* it := str_to remainder nextspec in
      let* rm := str_from remainder nextspec in
      Val (Some (rm, Space it), queue)
    else
      let nextspec := match find_char (fun c => is_whitespace c || (c =? 37)) remainder with
                      | Some i => i | None => blen remainder end in
      let* _ := rassert (0 <? nextspec) in
      let* it := str_to remainder nextspec in
      let* rm := str_from remainder nextspec in
      Val (Some (rm, Literal it), queue)
  end.

(* impl Iterator for StrftimeItems: fn next(&mut self) -> Option<Item> *)
Definition sf_next (st : sfi) : R (option Item * sfi) :=
  match sf_queue st with
  | item :: rest => Val (Some item, mk_sfi (sf_remainder st) rest (sf_lenient st))
  | [] =>
      let* '(r, q) := parse_next_item (sf_lenient st) [] (sf_remainder st) in
      match r with
      | None => Val (None, mk_sfi (sf_remainder st) q (sf_lenient st))
      | Some (rm, item) => Val (Some item, mk_sfi rm q (sf_lenient st))
      end
  end.

(** Draining the iterator.  [sf_take fuel]: [Some items] when the iterator ended within [fuel]
    calls of [next], [None] when it was still yielding ("unbounded" for the `sf.items` op). *)
Fixpoint sf_take (fuel : nat) (st : sfi) (acc : list Item) : R (option (list Item)) :=
  match fuel with
  | O => Val None
  | S f =>
    let* '(o, st') := sf_next st in
    match o with
    | None => Val (Some (rev acc))
    | Some it => sf_take f st' (it :: acc)
    end
  end.
(* the bound used by the `sf.items` op and as fuel of every loop over items: 16*len + 32 *)
Definition sf_bound (s : bytes) : nat := (16 * List.length s + 32)%nat.
(* `.collect()` with the termination bound as fuel *)
Definition sf_collect (st : sfi) : R (list Item) :=
  let* o := sf_take (S (sf_bound (sf_remainder st) + List.length (sf_queue st))) st [] in
  match o with Some l => Val l | None => OutOfFuel end.
