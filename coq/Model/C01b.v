(** C01b — ops added next to the frozen C01 dispatcher (Model/C01.v is the subject of [C01_holds]
    and is left untouched): the remaining accessors of the date forms ([NaiveDate::leap_year],
    [IsoWeek::week0]), the provided [Datelike::num_days_from_ce] reached through NaiveDateTime and
    the [From] conversions between NaiveDate and NaiveDateTime, and the panicking twins of the
    constructors and of succ/pred ([expect] of the [_opt] forms, src/naive/date/mod.rs).
    [run] answers the new ops and hands everything else to [Model.C01.run].  No proofs here. *)
From Coq Require Import ZArith List Bool String.
From V Require Import Base.Int Base.IO Model.Date Model.TimeDelta.
From V Require Model.C01 Model.Time.
Import ListNotations.
Open Scope Z_scope.

(** [d.acc2]: leap_year(), iso_week().week0(),
    [Datelike::num_days_from_ce(&NaiveDateTime::from(d))] (impl Datelike for NaiveDateTime delegates
    year()/ordinal() to the date; From<NaiveDate>: [date.and_hms_opt(0, 0, 0).unwrap()]),
    [NaiveDate::from(NaiveDateTime::from(d))] (From<NaiveDateTime>: [naive_datetime.date()]) *)
Definition d_acc2 (d : Z) : R val :=
  let* iw := d_iso_week d in
  let* w0 := iw_week0 iw in
  let* _t := unwrap_r (Time.from_hms_opt 0 0 0) in
  let* dn := C01.datelike_num_days_from_ce (d_year d) (d_ordinal d) in
  Val (VTup [val_of_bool (d_leap_year d); VInt w0; VInt dn; C01.enc_date d]).

Definition date_1 (args : list val) (f : Z -> val) : val :=
  match args with
  | [a] => match C01.dec_date a with C01.DDate d => f d | C01.DBad => VBad | C01.DPanic => VPanic end
  | _ => VBad
  end.

Definition run (op : bytes) (args : list val) : val :=
  if op_is op "d.acc2" then date_1 args (fun d => val_of_R (fun v => v) (d_acc2 d))
  else if op_is op "d.pymd" then
    match args with
    | [a; b; c] => match arg_i32 a, arg_u32 b, arg_u32 c with
                   | Some y, Some m, Some d => val_of_R C01.enc_date (unwrap_r (from_ymd_opt y m d))
                   | _, _, _ => VBad end
    | _ => VBad end
  else if op_is op "d.pyo" then
    match args with
    | [a; b] => match arg_i32 a, arg_u32 b with
                | Some y, Some o => val_of_R C01.enc_date (unwrap_r (from_yo_opt y o))
                | _, _ => VBad end
    | _ => VBad end
  else if op_is op "d.pisoywd" then
    match args with
    | [a; b; VInt wd] => match arg_i32 a, arg_u32 b with
                | Some y, Some w => if (0 <=? wd) && (wd <=? 6)
                                    then val_of_R C01.enc_date (unwrap_r (from_isoywd_opt y w wd)) else VBad
                | _, _ => VBad end
    | _ => VBad end
  else if op_is op "d.pdays" then
    match args with
    | [a] => match arg_i32 a with Some n => val_of_R C01.enc_date (unwrap_r (from_num_days_from_ce_opt n)) | None => VBad end
    | _ => VBad end
  else if op_is op "d.psucc" then date_1 args (fun d => val_of_R C01.enc_date (unwrap_r (succ_opt d)))
  else if op_is op "d.ppred" then date_1 args (fun d => val_of_R C01.enc_date (unwrap_r (pred_opt d)))
  else C01.run op args.
