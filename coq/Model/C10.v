(** C10 dispatcher: maps case lines to the RFC 3339 reader/writer model (Model/Rfc3339.v on top of
    Model/Scan.v, Model/DateTime.v).  No proofs here. *)
From Coq Require Import ZArith List Bool String.
From V Require Import Base.Int Base.IO Base.Utf8 Model.Scan Model.DateTime.
From V Require Export Model.Rfc3339.
Import ListNotations.
Open Scope Z_scope.

Definition val_of_presult {X} (f : X -> val) (r : presult X) : val :=
  match r with POk a => f a | PErr e => VErr (perr_name e) end.

Definition r3_parse (s : bytes) : val :=
  val_of_R (val_of_presult enc_dtz) (parse_from_rfc3339 s).
Definition r3_rt (a : dtz) (secform : Z) (use_z : bool) : val :=
  val_of_R (fun v => v) (let* t := to_rfc3339_opts a secform use_z in Val (r3_parse t)).

Definition run (op : bytes) (args : list val) : val :=
  if op_is op "r3.parse" then
    match args with
    | [VStr s] => if utf8_valid s then r3_parse s else VBad
    | _ => VBad end
  else if op_is op "r3.write" then
    match args with
    | [z; VInt sf; VInt uz] =>
        match dec_dtz z with
        | Some a => if (0 <=? sf) && (sf <=? 4) && ((uz =? 0) || (uz =? 1))
                    then val_of_R VStr (to_rfc3339_opts a sf (uz =? 1)) else VBad
        | None => VBad end
    | _ => VBad end
  else if op_is op "r3.show" then
    match args with
    | [z] => match dec_dtz z with Some a => val_of_R VStr (to_rfc3339 a) | None => VBad end
    | _ => VBad end
  else if op_is op "r3.rt" then
    match args with
    | [z; VInt sf; VInt uz] =>
        match dec_dtz z with
        | Some a => if (0 <=? sf) && (sf <=? 4) && ((uz =? 0) || (uz =? 1))
                    then r3_rt a sf (uz =? 1) else VBad
        | None => VBad end
    | _ => VBad end
  else VErr B"NOOP".
