(** Executable model of the table lookups of src/offset/local/tz_info/timezone.rs:
    [TimeZoneRef::unix_time_to_unix_leap_time], [find_local_time_type] and
    [find_local_time_type_from_local] (with the repaired saturating additions of commit
    "fix: local-time lookup overflowed ...", the (earliest, latest) order of
    fixes/C05-ambiguous-order.diff and the single answer at an equal-offset transition of
    fixes/C05-equal-offset-transition.diff).  A wall-clock reading is the pair
    (local_time.year(), local_time.and_utc().timestamp()) the Rust computes from the
    NaiveDateTime.  No proofs here. *)
From Coq Require Import ZArith List Bool String.
From V Require Import Base.Int Base.IO Gen.TzInfo Model.TzTypes Model.TzRule Model.TzParser.
Import ListNotations.
Open Scope Z_scope.

(* unix_time_to_unix_leap_time: note that every step adds the correction to [unix_time] *)
Fixpoint leap_loop (leaps : list leap) (unix_time unix_leap_time : Z) : res Z :=
  match leaps with
  | [] => Ok unix_leap_time
  | l :: r =>
      if unix_leap_time <? lp_time l then Ok unix_leap_time
      else match checked_add in_i64 unix_time (lp_corr l) with
           | Some t => leap_loop r unix_time t
           | None => Err EOutOfRange
           end
  end.
Definition unix_time_to_unix_leap_time (z : timezone) (unix_time : Z) : res Z :=
  leap_loop (leap_seconds z) unix_time unix_time.

(* TimeZoneRef::find_local_time_type *)
Definition find_local_time_type (z : timezone) (unix_time : Z) : R (res ltt) :=
  let by_rule (rule : trule) := oor_to EFindLocalTimeType (rule_find_local_time_type rule unix_time) in
  match last_of (transitions z) with
  | None =>
      match extra_rule z with
      | Some rule => by_rule rule
      | None => let* l := index (local_time_types z) 0 in ok l
      end
  | Some last_transition =>
      let+ unix_leap_time := oor_to EFindLocalTimeType (Val (unix_time_to_unix_leap_time z unix_time)) in
      if unix_leap_time >=? tr_time last_transition then
        match extra_rule z with
        | Some rule => by_rule rule
        | None => let* l := index (local_time_types z) (tr_idx last_transition) in ok l
        end
      else
        let* idx := search_next (map tr_time (transitions z)) unix_leap_time in
        let* lti :=
          if idx >? 0 then let* i := sub_usize idx 1 in let* t := index (transitions z) i in Val (tr_idx t)
          else Val 0 in
        let* l := index (local_time_types z) lti in ok l
  end.

(* i64::saturating_add *)
Definition saturating_add_i64 (a b : Z) : Z := clamp i64_min i64_max (a + b).

(* the transition loop of find_local_time_type_from_local; [inl] = return value, [inr] = the
   type in force after the last transition (loop ran to its end) *)
Fixpoint local_loop (types : list ltt) (trs : list transition) (prev : ltt) (local_leap_time : Z)
  : R (mlt ltt + ltt) :=
  match trs with
  | [] => Val (inr prev)
  | transition :: rest =>
      let* after_ltt := index types (tr_idx transition) in
      let transition_end := saturating_add_i64 (tr_time transition) (ut_offset after_ltt) in
      let transition_start := saturating_add_i64 (tr_time transition) (ut_offset prev) in
      match transition_start ?= transition_end with
      | Gt =>
          (* as repaired by fixes/C05-ambiguous-order.diff: (earliest, latest) = (prev, after) *)
          if local_leap_time <? transition_end then Val (inl (MSingle prev))
          else if (local_leap_time >=? transition_end) && (local_leap_time <=? transition_start)
          then Val (inl (MAmbiguous prev after_ltt))
          else local_loop types rest after_ltt local_leap_time
      | Eq =>
          (* as repaired by fixes/C05-equal-offset-transition.diff: one reading, not Ambiguous(x, x) *)
          if local_leap_time <? transition_start then Val (inl (MSingle prev))
          else if local_leap_time =? transition_end then Val (inl (MSingle after_ltt))
          else local_loop types rest after_ltt local_leap_time
      | Lt =>
          if local_leap_time <=? transition_start then Val (inl (MSingle prev))
          else if local_leap_time <? transition_end then Val (inl MNone)
          else if local_leap_time =? transition_end then Val (inl (MSingle after_ltt))
          else local_loop types rest after_ltt local_leap_time
      end
  end.

(* TimeZoneRef::find_local_time_type_from_local *)
Definition find_local_time_type_from_local (z : timezone) (current_year local_leap_time : Z)
  : R (res (mlt ltt)) :=
  let finish (offset_after_last : ltt) :=
    match extra_rule z with
    | Some rule => oor_to EFindLocalTimeType
                     (rule_find_local_time_type_from_local rule current_year local_leap_time)
    | None => ok (MSingle offset_after_last)
    end in
  match transitions z with
  | _ :: _ =>
      let* prev := index (local_time_types z) 0 in
      let* r := local_loop (local_time_types z) (transitions z) prev local_leap_time in
      match r with
      | inl m => ok m
      | inr l => finish l
      end
  | [] => let* l := index (local_time_types z) 0 in finish l
  end.
