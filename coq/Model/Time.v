(** Executable model of [NaiveTime] (src/naive/time/mod.rs) and of the [Timelike] default methods it
    inherits (src/traits.rs: hour12), in the trapping-integer monad of Base.Int.  Mirrors the Rust
    line by line; the numerals are the literals of the Rust functions (the file defines no named
    constants).  Durations are the [td] of Model/TimeDelta.v.  Shared by every property that needs times
    of day.  No proofs here. *)
From Coq Require Import ZArith List Bool String.
From V Require Import Base.Int Base.IO Gen.TimeDelta Model.TimeDelta.
Import ListNotations.
Open Scope Z_scope.

(* pub struct NaiveTime { secs: u32, frac: u32 } *)
Record ntime := mk_time { tsecs : Z; tfrac : Z }.

(* u32 [/] and [%] by a non-zero literal cannot trap *)
Definition udiv (a b : Z) : Z := Z.quot a b.
Definition urem (a b : Z) : Z := Z.rem a b.

(* pub const fn from_hms_nano_opt(hour: u32, min: u32, sec: u32, nano: u32) -> Option<NaiveTime> *)
Definition from_hms_nano_opt (hour min sec nano : Z) : R (option ntime) :=
  if ((hour >=? 24) || (min >=? 60) || (sec >=? 60))
     || ((nano >=? 1000000000) && negb (sec =? 59))
     || (nano >=? 2000000000)
  then Val None
  else
    let* a := mul_u32 hour 3600 in
    let* b := mul_u32 min 60 in
    let* c := add_u32 a b in
    let* secs := add_u32 c sec in
    Val (Some (mk_time secs nano)).

(* pub const fn from_hms_opt(hour, min, sec) *)
Definition from_hms_opt (hour min sec : Z) : R (option ntime) := from_hms_nano_opt hour min sec 0.

(* pub const fn from_hms_milli_opt(hour, min, sec, milli):
     let nano = try_opt!(milli.checked_mul(1_000_000)); *)
Definition from_hms_milli_opt (hour min sec milli : Z) : R (option ntime) :=
  match checked_mul in_u32 milli 1000000 with
  | None => Val None
  | Some nano => from_hms_nano_opt hour min sec nano
  end.

(* pub const fn from_hms_micro_opt(hour, min, sec, micro):
     let nano = try_opt!(micro.checked_mul(1_000)); *)
Definition from_hms_micro_opt (hour min sec micro : Z) : R (option ntime) :=
  match checked_mul in_u32 micro 1000 with
  | None => Val None
  | Some nano => from_hms_nano_opt hour min sec nano
  end.

(* pub const fn from_num_seconds_from_midnight_opt(secs: u32, nano: u32) -> Option<NaiveTime> *)
Definition from_num_seconds_from_midnight_opt (secs nano : Z) : option ntime :=
  if (secs >=? 86400) || (nano >=? 2000000000)
     || ((nano >=? 1000000000) && negb (urem secs 60 =? 59))
  then None else Some (mk_time secs nano).

(* pub(crate) fn hms(&self) -> (u32, u32, u32) *)
Definition hms (t : ntime) : Z * Z * Z :=
  let sec := urem (tsecs t) 60 in
  let mins := udiv (tsecs t) 60 in
  let min := urem mins 60 in
  let hour := udiv mins 60 in
  (hour, min, sec).

(* impl Timelike for NaiveTime *)
Definition hour (t : ntime) : Z := let '(h, _, _) := hms t in h.
Definition minute (t : ntime) : Z := let '(_, m, _) := hms t in m.
Definition second (t : ntime) : Z := let '(_, _, s) := hms t in s.
Definition nanosecond (t : ntime) : Z := tfrac t.
Definition num_seconds_from_midnight (t : ntime) : Z := tsecs t.

(* traits.rs: fn hour12(&self) -> (bool, u32) (default method) *)
Definition hour12 (t : ntime) : bool * Z :=
  let h := hour t in
  let h12 := urem h 12 in
  let h12 := if h12 =? 0 then 12 else h12 in
  (h >=? 12, h12).

Definition with_hour (t : ntime) (hour : Z) : R (option ntime) :=
  if hour >=? 24 then Val None else
  let* a := mul_u32 hour 3600 in
  let* secs := add_u32 a (urem (tsecs t) 3600) in
  Val (Some (mk_time secs (tfrac t))).

Definition with_minute (t : ntime) (min : Z) : R (option ntime) :=
  if min >=? 60 then Val None else
  let* a := mul_u32 (udiv (tsecs t) 3600) 3600 in
  let* b := mul_u32 min 60 in
  let* c := add_u32 a b in
  let* secs := add_u32 c (urem (tsecs t) 60) in
  Val (Some (mk_time secs (tfrac t))).

Definition with_second (t : ntime) (sec : Z) : R (option ntime) :=
  if sec >=? 60 then Val None else
  let* a := mul_u32 (udiv (tsecs t) 60) 60 in
  let* secs := add_u32 a sec in
  Val (Some (mk_time secs (tfrac t))).

Definition with_nanosecond (t : ntime) (nano : Z) : option ntime :=
  if nano >=? 2000000000 then None else Some (mk_time (tsecs t) nano).

(* pub const fn overflowing_add_signed(&self, rhs: TimeDelta) -> (NaiveTime, i64) *)
Definition overflowing_add_signed (t : ntime) (rhs : td) : R (ntime * Z) :=
  let secs := as_i64 (tsecs t) in
  let frac := as_i32 (tfrac t) in
  let* secs_to_add := num_seconds rhs in
  let* frac_to_add := subsec_nanos rhs in
  (* the [if frac >= 1_000_000_000] block: inl = early return, inr = updated (secs, frac) *)
  let* st :=
    (if frac >=? 1000000000 then
       (* secs_to_add > 0 || (frac_to_add > 0 && frac >= 2_000_000_000 - frac_to_add), lazily *)
       let* escapes :=
         (if secs_to_add >? 0 then Val true
          else if frac_to_add >? 0 then
            let* lim := sub_i32 2000000000 frac_to_add in Val (frac >=? lim)
          else Val false) in
       if escapes then
         let* f := sub_i32 frac 1000000000 in Val (inr (secs, f))
       else if secs_to_add <? 0 then
         let* f := sub_i32 frac 1000000000 in
         let* s := add_i64 secs 1 in Val (inr (s, f))
       else
         let* f := add_i32 frac frac_to_add in
         Val (inl (mk_time (tsecs t) (as_u32 f), 0))
     else Val (inr (secs, frac))) in
  match st with
  | inl r => Val r
  | inr (secs, frac) =>
    let* secs := add_i64 secs secs_to_add in
    let* frac := add_i32 frac frac_to_add in
    let* '(secs, frac) :=
      (if frac <? 0 then
         let* f := add_i32 frac 1000000000 in let* s := sub_i64 secs 1 in Val (s, f)
       else if frac >=? 1000000000 then
         let* f := sub_i32 frac 1000000000 in let* s := add_i64 secs 1 in Val (s, f)
       else Val (secs, frac)) in
    let* secs_in_day := rem_euclid in_i64 secs 86400 in
    let* remaining := sub_i64 secs secs_in_day in
    Val (mk_time (as_u32 secs_in_day) (as_u32 frac), remaining)
  end.

(* pub const fn overflowing_sub_signed(&self, rhs: TimeDelta) -> (NaiveTime, i64) *)
Definition overflowing_sub_signed (t : ntime) (rhs : td) : R (ntime * Z) :=
  let* n := td_neg rhs in
  let* '(time, r) := overflowing_add_signed t n in
  let* nr := neg_i64 r in
  Val (time, nr).

(* pub const fn signed_duration_since(self, rhs: NaiveTime) -> TimeDelta *)
Definition signed_duration_since (a b : ntime) : R td :=
  let* secs0 := sub_i64 (as_i64 (tsecs a)) (as_i64 (tsecs b)) in
  let* frac := sub_i64 (as_i64 (tfrac a)) (as_i64 (tfrac b)) in
  let* secs :=
    (if (tsecs a >? tsecs b) && (tfrac b >=? 1000000000) then add_i64 secs0 1
     else if (tsecs a <? tsecs b) && (tfrac a >=? 1000000000) then sub_i64 secs0 1
     else Val secs0) in
  let* secs_from_frac := div_euclid in_i64 frac 1000000000 in
  let* fr := rem_euclid in_i64 frac 1000000000 in
  let* s := add_i64 secs secs_from_frac in
  unwrap (td_new s (as_u32 fr)).

(* FixedOffset is its [local_minus_utc : i32], strictly between -86400 and 86400 (east_opt) *)
Definition offset_ok (off : Z) : bool := (-86400 <? off) && (off <? 86400).

(* pub(super) const fn overflowing_add_offset(&self, offset: FixedOffset) -> (NaiveTime, i32) *)
Definition overflowing_add_offset (t : ntime) (off : Z) : R (ntime * Z) :=
  let* secs := add_i32 (as_i32 (tsecs t)) off in
  let* days := div_euclid in_i32 secs 86400 in
  let* secs := rem_euclid in_i32 secs 86400 in
  Val (mk_time (as_u32 secs) (tfrac t), days).

(* pub(super) const fn overflowing_sub_offset(&self, offset: FixedOffset) -> (NaiveTime, i32) *)
Definition overflowing_sub_offset (t : ntime) (off : Z) : R (ntime * Z) :=
  let* secs := sub_i32 (as_i32 (tsecs t)) off in
  let* days := div_euclid in_i32 secs 86400 in
  let* secs := rem_euclid in_i32 secs 86400 in
  Val (mk_time (as_u32 secs) (tfrac t), days).

(** Operators *)
(* impl Add<TimeDelta> for NaiveTime / impl Sub<TimeDelta> for NaiveTime *)
Definition op_add_td (t : ntime) (rhs : td) : R ntime := rmap fst (overflowing_add_signed t rhs).
Definition op_sub_td (t : ntime) (rhs : td) : R ntime := rmap fst (overflowing_sub_signed t rhs).

(* const fn wrapping_secs(secs: u64) -> i64   [repaired code, fixes/C07-std-duration-leap.diff]
     const DAY: u64 = 24 * 60 * 60;
     (if secs < DAY { secs } else { DAY + secs % DAY }) as i64
   (before the repair: [rhs.as_secs() % (2 * 24 * 60 * 60)], which maps every non-zero multiple
   of two days to zero seconds, see Proofs/C07.v [std_add_unrepaired_refuted]) *)
Definition STD_DAY : Z := Eval compute in 24 * 60 * 60.
Definition wrapping_secs (secs : Z) : R Z :=
  if secs <? STD_DAY then Val (as_i64 secs)
  else let* r := rem_u64 secs STD_DAY in let* x := add_u64 STD_DAY r in Val (as_i64 x).
(* the conversion of a core::time::Duration (as_secs : u64, subsec_nanos : u32 < 10^9) used by
   Add<Duration> and Sub<Duration>:
     TimeDelta::new(wrapping_secs(rhs.as_secs()), rhs.subsec_nanos()).unwrap() *)
Definition std_reduce (dsecs dnanos : Z) : R td :=
  let* secs := wrapping_secs dsecs in
  unwrap (td_new secs dnanos).
(* the unrepaired reduction, kept only to state the recorded finding *)
Definition std_reduce_unrepaired (dsecs dnanos : Z) : R td :=
  let* secs := rem_u64 dsecs 172800 in
  unwrap (td_new (as_i64 secs) dnanos).
(* impl Add<Duration> for NaiveTime *)
Definition op_add_std (t : ntime) (dsecs dnanos : Z) : R ntime :=
  let* d := std_reduce dsecs dnanos in
  rmap fst (overflowing_add_signed t d).
(* impl Sub<Duration> for NaiveTime *)
Definition op_sub_std (t : ntime) (dsecs dnanos : Z) : R ntime :=
  let* d := std_reduce dsecs dnanos in
  rmap fst (overflowing_sub_signed t d).

(* impl Add<FixedOffset> / Sub<FixedOffset> for NaiveTime *)
Definition op_add_offset (t : ntime) (off : Z) : R ntime := rmap fst (overflowing_add_offset t off).
Definition op_sub_offset (t : ntime) (off : Z) : R ntime := rmap fst (overflowing_sub_offset t off).
(* impl Sub<NaiveTime> for NaiveTime *)
Definition op_sub_time (a b : ntime) : R td := signed_duration_since a b.

(** Canonical encoding (harness/src/val.rs enc_time/dec_time): (secs, frac) with secs < 86400 and
    frac < 2*10^9; a leap fraction is representable on any second. *)
Definition enc_time (t : ntime) : val := VTup [VInt (tsecs t); VInt (tfrac t)].
Definition dec_time (v : val) : option ntime :=
  match v with
  | VTup [VInt s; VInt f] =>
      if (0 <=? s) && (s <? 86400) && (0 <=? f) && (f <? 2000000000) then Some (mk_time s f) else None
  | _ => None
  end.
