(** C04 — zone-aware date-times (DateTime<FixedOffset>, DateTime<Utc>).  The value model lives in
    Model/DateTime.v (shared); this file adds the remaining anchored functions of src/datetime/mod.rs
    (Datelike/Timelike accessors of DateTime, time(), date_naive(), fixed_offset(), to_utc(), the
    PartialEq/Ord/Hash impls) and the dispatcher of the [z.*] ops.  No proofs here. *)
From Coq Require Import ZArith List Bool String.
From V Require Import Base.Int Base.IO Gen.DateTimeConsts Model.TimeDelta.
From V Require Model.Date Model.Time Model.Show Model.DateExtra Model.C01.
From V Require Export Model.DateTime.
Import ListNotations.
Open Scope Z_scope.

(** * impl Datelike / Timelike for NaiveDateTime: delegation to the date / time part
      (src/naive/datetime/mod.rs; month0/day0/ordinal0 are [x - 1] on u32, src/naive/date/mod.rs) *)
Definition ndt_year (a : ndt) : Z := Date.d_year (nd_date a).
Definition ndt_month (a : ndt) : R Z := Date.d_month (nd_date a).
Definition ndt_month0 (a : ndt) : R Z := let* m := Date.d_month (nd_date a) in sub_u32 m 1.
Definition ndt_day (a : ndt) : R Z := Date.d_day (nd_date a).
Definition ndt_day0 (a : ndt) : R Z := let* d := Date.d_day (nd_date a) in sub_u32 d 1.
Definition ndt_ordinal (a : ndt) : Z := Date.d_ordinal (nd_date a).
Definition ndt_ordinal0 (a : ndt) : R Z := sub_u32 (Date.d_ordinal (nd_date a)) 1.
Definition ndt_weekday (a : ndt) : R Z := Date.d_weekday (nd_date a).
Definition ndt_iso_week (a : ndt) : R Z := Date.d_iso_week (nd_date a).
Definition ndt_hour (a : ndt) : Z := Time.hour (nd_time a).
Definition ndt_minute (a : ndt) : Z := Time.minute (nd_time a).
Definition ndt_second (a : ndt) : Z := Time.second (nd_time a).
Definition ndt_nanosecond (a : ndt) : Z := Time.nanosecond (nd_time a).

(** * impl Datelike / Timelike for DateTime<Tz>: every accessor is
      [self.overflowing_naive_local().<accessor>()] *)
Definition dz_get {A} (f : ndt -> R A) (a : dtz) : R A := let* l := overflowing_naive_local a in f l.
Definition dz_year := dz_get (fun l => Val (ndt_year l)).
Definition dz_month := dz_get ndt_month.
Definition dz_month0 := dz_get ndt_month0.
Definition dz_day := dz_get ndt_day.
Definition dz_day0 := dz_get ndt_day0.
Definition dz_ordinal := dz_get (fun l => Val (ndt_ordinal l)).
Definition dz_ordinal0 := dz_get ndt_ordinal0.
Definition dz_weekday := dz_get ndt_weekday.
Definition dz_iso_week := dz_get ndt_iso_week.
Definition dz_hour := dz_get (fun l => Val (ndt_hour l)).
Definition dz_minute := dz_get (fun l => Val (ndt_minute l)).
Definition dz_second := dz_get (fun l => Val (ndt_second l)).
Definition dz_nanosecond := dz_get (fun l => Val (ndt_nanosecond l)).

(** [DateTime::time]: [self.datetime.time() + self.offset.fix()] (wrapping NaiveTime + FixedOffset) *)
Definition dz_time (a : dtz) : R Time.ntime := Time.op_add_offset (nd_time (dz_utc a)) (dz_off a).
(** [DateTime::date_naive]: [self.naive_local().date()] — the panicking reading *)
Definition dz_date_naive (a : dtz) : R Z := let* l := naive_local a in Val (nd_date l).
(** [fixed_offset] = [with_timezone(&self.offset().fix())]; [to_utc] drops the offset *)
Definition dz_fixed_offset (a : dtz) : dtz := with_timezone a (dz_off a).
Definition dz_to_utc (a : dtz) : dtz := mk_dtz (dz_utc a) 0.

(** derived [PartialEq] of NaiveDateTime (field-wise on date.yof, time.secs, time.frac);
    [DateTime::eq] compares [datetime] only *)
Definition ndt_eqb (a b : ndt) : bool :=
  (nd_date a =? nd_date b) && (Time.tsecs (nd_time a) =? Time.tsecs (nd_time b))
  && (Time.tfrac (nd_time a) =? Time.tfrac (nd_time b)).
Definition dz_eqb (a b : dtz) : bool := ndt_eqb (dz_utc a) (dz_utc b).
(** derived [Hash] of NaiveDateTime feeds (yof : i32, secs : u32, frac : u32) to the hasher;
    [DateTime::hash] hashes [datetime] only.  The hasher is outside the model: the model's
    observable is the key sequence, compared for equality. *)
Definition ndt_hash_key (a : ndt) : list Z := [nd_date a; Time.tsecs (nd_time a); Time.tfrac (nd_time a)].
Definition dz_hash_key (a : dtz) : list Z := ndt_hash_key (dz_utc a).
Fixpoint keys_eqb (a b : list Z) : bool :=
  match a, b with
  | [], [] => true
  | x :: a', y :: b' => (x =? y) && keys_eqb a' b'
  | _, _ => false
  end.

(** * impl Add<Months> / Sub<Months> for DateTime<Tz>: [checked_{add,sub}_months(rhs).expect(..)] *)
Definition dz_op_add_months (a : dtz) (m : Z) : R dtz := unwrap_r (dz_checked_add_months a m).
Definition dz_op_sub_months (a : dtz) (m : Z) : R dtz := unwrap_r (dz_checked_sub_months a m).
(** * impl Add<Days> / Sub<Days> for DateTime<Tz>: [checked_{add,sub}_days(rhs).expect(..)] *)
Definition dz_op_add_days (a : dtz) (n : Z) : R dtz := unwrap_r (dz_checked_add_days a n).
Definition dz_op_sub_days (a : dtz) (n : Z) : R dtz := unwrap_r (dz_checked_sub_days a n).
(** [From<DateTime<FixedOffset>> for DateTime<Utc>]: [src.with_timezone(&Utc)];
    [From<DateTime<Utc>> for DateTime<FixedOffset>]: [src.with_timezone(&FixedOffset::east_opt(0).unwrap())] *)
Definition dz_into_utc (a : dtz) : dtz := with_timezone a 0.
Definition dz_utc_into_fixed (a : dtz) : R dtz := let* o := unwrap (east_opt 0) in Val (with_timezone a o).
(** [PartialOrd<DateTime<Tz2>>]: [self.datetime.partial_cmp(&other.datetime)] (derived on NaiveDateTime:
    always [Some]); [lt]/[le]/[gt]/[ge] are the provided methods reading [partial_cmp];
    [PartialEq<DateTime<Tz2>>]: [self.datetime == other.datetime]; [ne] = [!eq] *)
Definition dz_partial_cmp (a b : dtz) : option Z := Some (ndt_cmp (dz_utc a) (dz_utc b)).
Definition pc_lt (o : option Z) : bool := match o with Some c => c =? -1 | None => false end.
Definition pc_le (o : option Z) : bool := match o with Some c => (c =? -1) || (c =? 0) | None => false end.
Definition pc_gt (o : option Z) : bool := match o with Some c => c =? 1 | None => false end.
Definition pc_ge (o : option Z) : bool := match o with Some c => (c =? 1) || (c =? 0) | None => false end.
Definition dz_pcmp_obs (x y : dtz) : val :=
  let yu := dz_to_utc y in
  let p := dz_partial_cmp x y in let pu := dz_partial_cmp x yu in
  VTup [val_of_option VInt p; val_of_option VInt pu; val_of_bool (dz_eqb x yu); val_of_bool (negb (dz_eqb x y));
        val_of_bool (pc_lt p); val_of_bool (pc_le p); val_of_bool (pc_gt p); val_of_bool (pc_ge p);
        val_of_bool (pc_lt pu); val_of_bool (pc_ge pu)].
(** [FixedOffset::utc_minus_local]: [-self.local_minus_utc] *)
Definition fo_utc_minus_local (off : Z) : R Z := neg_i32 off.
(** provided methods of Datelike / Timelike (src/traits.rs) on DateTime<Tz>: they read the accessors
    above, i.e. the fields of [overflowing_naive_local] *)
Definition dz_prov (a : dtz) : R val :=
  let* l := overflowing_naive_local a in
  let d := nd_date l in
  let* yce := DateExtra.d_year_ce d in
  let* q := DateExtra.d_quarter d in
  let* dn := C01.datelike_num_days_from_ce (ndt_year l) (ndt_ordinal l) in
  let* dim := DateExtra.d_num_days_in_month d in
  let '(pm, h12) := Time.hour12 (nd_time l) in
  let* nsfm := add_u32 (ndt_hour l * 3600 + ndt_minute l * 60) (ndt_second l) in
  let* iw := ndt_iso_week l in
  let* w0 := Date.iw_week0 iw in
  Val (VTup [val_of_bool (fst yce); VInt (snd yce); VInt q; VInt dn; VInt dim; val_of_bool pm; VInt h12;
             VInt nsfm; VInt w0]).

(** * Dispatcher *)
Definition dz_acc (a : dtz) : R val :=
  let* y := dz_year a in let* m := dz_month a in let* m0 := dz_month0 a in
  let* d := dz_day a in let* d0 := dz_day0 a in let* o := dz_ordinal a in let* o0 := dz_ordinal0 a in
  let* wd := dz_weekday a in let* h := dz_hour a in let* mi := dz_minute a in let* s := dz_second a in
  let* ns := dz_nanosecond a in let* iw := dz_iso_week a in
  Val (VTup [VInt y; VInt m; VInt m0; VInt d; VInt d0; VInt o; VInt o0; VInt wd; VInt h; VInt mi; VInt s;
             VInt ns; VInt (Date.iw_year iw); VInt (Date.iw_week iw)]).

Definition arg_off (v : val) : option Z :=
  match v with VInt z => if in_i32 z then east_opt z else None | _ => None end.
Definition vo_dtz (o : option dtz) : val := val_of_option enc_dtz o.
Definition v_mlt (m : mlt dtz) : val := enc_mlt enc_dtz m.

Definition run (op : bytes) (args : list val) : val :=
  let z_1 (f : dtz -> val) := match args with [a] => match dec_dtz a with Some x => f x | None => VBad end | _ => VBad end in
  let z_2 (f : dtz -> dtz -> val) := match args with
     | [a; b] => match dec_dtz a, dec_dtz b with Some x, Some y => f x y | _, _ => VBad end | _ => VBad end in
  if op_is op "z.east" then
    match args with [a] => match arg_i32 a with Some s => val_of_option VInt (east_opt s) | None => VBad end | _ => VBad end
  else if op_is op "z.west" then
    match args with [a] => match arg_i32 a with Some s => val_of_R (val_of_option VInt) (west_opt s) | None => VBad end | _ => VBad end
  else if op_is op "z.fromlocal" then
    match args with
    | [o; n] => match arg_off o, dec_ndt n with
                | Some off, Some l => val_of_R v_mlt (from_local_datetime off l)
                | _, _ => VBad end
    | _ => VBad end
  else if op_is op "z.fromutc" then
    match args with
    | [o; n] => match arg_off o, dec_ndt n with
                | Some off, Some u => enc_dtz (from_utc_datetime off u)
                | _, _ => VBad end
    | _ => VBad end
  else if op_is op "z.nutc" then z_1 (fun x => enc_ndt (naive_utc x))
  else if op_is op "z.nlocal" then z_1 (fun x => val_of_R enc_ndt (naive_local x))
  else if op_is op "z.show" then
    match args with
    | [a; VInt form] =>
        match dec_dtz a with
        | Some x =>
            if form =? 0 then val_of_R VStr (Show.to_text (Show.dtz_display false [] x))
            else if form =? 1 then val_of_R VStr (Show.to_text (Show.dtz_debug false [] x))
            else VBad
        | None => VBad
        end
    | _ => VBad
    end
  else if op_is op "z.acc" then z_1 (fun x => val_of_R (fun v => v) (dz_acc x))
  else if op_is op "z.time" then z_1 (fun x => val_of_R Time.enc_time (dz_time x))
  else if op_is op "z.datenaive" then z_1 (fun x => val_of_R enc_date (dz_date_naive x))
  else if op_is op "z.withtz" then
    match args with
    | [a; o] => match dec_dtz a, arg_off o with
                | Some x, Some off => enc_dtz (with_timezone x off)
                | _, _ => VBad end
    | _ => VBad end
  else if op_is op "z.fixed" then z_1 (fun x => enc_dtz (dz_fixed_offset x))
  else if op_is op "z.toutc" then z_1 (fun x => enc_dtz (dz_to_utc x))
  else if op_is op "z.eq" then z_2 (fun x y => val_of_bool (dz_eqb x y))
  else if op_is op "z.cmp" then z_2 (fun x y => VInt (dz_cmp x y))
  else if op_is op "z.hasheq" then z_2 (fun x y => val_of_bool (keys_eqb (dz_hash_key x) (dz_hash_key y)))
  else if op_is op "z.with" then
    match args with
    | [VInt field; a; v] =>
        match dec_dtz a, (if field =? 0 then arg_i32 v else arg_u32 v) with
        | Some x, Some k => if (0 <=? field) && (field <=? 10) then val_of_R vo_dtz (dz_with field x k) else VBad
        | _, _ => VBad end
    | _ => VBad end
  else if op_is op "z.withtime" then
    match args with
    | [a; t] => match dec_dtz a, Time.dec_time t with
                | Some x, Some tm => val_of_R v_mlt (dz_with_time x tm)
                | _, _ => VBad end
    | _ => VBad end
  else if op_is op "z.days" then
    match args with
    | [a; VInt sign; n] =>
        match dec_dtz a, arg_u64 n with
        | Some x, Some k =>
            if sign =? 1 then val_of_R vo_dtz (dz_checked_add_days x k)
            else if sign =? -1 then val_of_R vo_dtz (dz_checked_sub_days x k) else VBad
        | _, _ => VBad end
    | _ => VBad end
  else if op_is op "z.months" then
    match args with
    | [a; VInt sign; n] =>
        match dec_dtz a, arg_u32 n with
        | Some x, Some k =>
            if sign =? 1 then val_of_R vo_dtz (dz_checked_add_months x k)
            else if sign =? -1 then val_of_R vo_dtz (dz_checked_sub_months x k) else VBad
        | _, _ => VBad end
    | _ => VBad end
  else if op_is op "z.ymdhms" then
    match args with
    | [o; y; m; d; h; mi; s] =>
        match arg_off o, arg_i32 y, arg_u32 m, arg_u32 d with
        | Some off, Some y, Some m, Some d =>
            match arg_u32 h, arg_u32 mi, arg_u32 s with
            | Some h, Some mi, Some s => val_of_R v_mlt (with_ymd_and_hms off y m d h mi s)
            | _, _, _ => VBad end
        | _, _, _, _ => VBad end
    | _ => VBad end
  else if op_is op "z.opmonths" then
    match args with
    | [a; VInt sign; n] =>
        match dec_dtz a, arg_u32 n with
        | Some x, Some k =>
            if sign =? 1 then val_of_R enc_dtz (dz_op_add_months x k)
            else if sign =? -1 then val_of_R enc_dtz (dz_op_sub_months x k) else VBad
        | _, _ => VBad end
    | _ => VBad end
  else if op_is op "z.conv" then
    z_1 (fun x => let u := dz_into_utc x in val_of_R (fun f => VTup [enc_dtz u; enc_dtz f]) (dz_utc_into_fixed u))
  else if op_is op "z.pcmp" then z_2 dz_pcmp_obs
  else if op_is op "z.uml" then
    match args with
    | [o] => match arg_off o with
             | Some off => val_of_R (fun u => VTup [VInt u; VInt off]) (fo_utc_minus_local off)
             | None => VBad end
    | _ => VBad end
  else if op_is op "z.prov" then z_1 (fun x => val_of_R (fun v => v) (dz_prov x))
  (* FixedOffset::east / west (deprecated): east_opt(secs).expect(..) / west_opt(secs).expect(..) *)
  else if op_is op "z.peast" then
    match args with [a] => match arg_i32 a with Some s => val_of_R VInt (unwrap (east_opt s)) | None => VBad end | _ => VBad end
  else if op_is op "z.pwest" then
    match args with [a] => match arg_i32 a with Some s => val_of_R VInt (unwrap_r (west_opt s)) | None => VBad end | _ => VBad end
  (* DateTime::from_naive_utc_and_offset / from_utc (deprecated): DateTime { datetime, offset };
     timezone(): TimeZone::from_offset(&self.offset), for FixedOffset the offset itself *)
  else if op_is op "z.mk" then
    match args with
    | [o; n] => match arg_off o, dec_ndt n with
                | Some off, Some u => let z := mk_dtz u off in VTup [enc_dtz z; VInt (dz_off z); enc_dtz z]
                | _, _ => VBad end
    | _ => VBad end
  (* DateTime::from_local (deprecated): let datetime_utc = datetime - offset.fix() (the panicking operator) *)
  else if op_is op "z.pfromlocal" then
    match args with
    | [o; n] => match arg_off o, dec_ndt n with
                | Some off, Some l =>
                    val_of_R enc_dtz (let* u := unwrap_r (ndt_checked_sub_offset l off) in Val (mk_dtz u off))
                | _, _ => VBad end
    | _ => VBad end
  (* impl Add<Days> / Sub<Days> for DateTime<Tz>: checked_add_days(rhs) / checked_sub_days(rhs) .expect(..) *)
  else if op_is op "z.opdays" then
    match args with
    | [a; VInt sign; n] =>
        match dec_dtz a, arg_u64 n with
        | Some x, Some k =>
            if sign =? 1 then val_of_R enc_dtz (dz_op_add_days x k)
            else if sign =? -1 then val_of_R enc_dtz (dz_op_sub_days x k) else VBad
        | _, _ => VBad end
    | _ => VBad end
  else VErr B"NOOP".
