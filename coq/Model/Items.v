(** Formatting items of src/format/mod.rs as Coq data: [Pad], [Numeric], [Fixed],
    [InternalInternal] (the private payload of [InternalFixed]), [OffsetPrecision], [Colons],
    [OffsetFormat], [Item]; the constructor helpers [num]/[num0]/[nums]/[fixed]/[internal_fixed];
    the decision-tree type [sf_arm] in which the translator (tools/translate_strftime.py) emits the
    `match spec` of StrftimeItems::parse_next_item; and the canonical [val] encoding of items used
    by the `sf.items` op (harness/src/ops/c12.rs [enc_item]).
    [Numeric::Internal] has an uninhabited payload and is therefore omitted; the owned variants
    [OwnedLiteral]/[OwnedSpace] are never produced by [StrftimeItems] and print like the borrowed
    ones.  Shared by C12, C13, C15.  No proofs in this file. *)
From Coq Require Import ZArith List Bool.
From V Require Import Base.Int Base.IO.
Import ListNotations.
Open Scope Z_scope.

Inductive Pad := PadNone | PadZero | PadSpace.

Inductive Numeric :=
| N_Year | N_YearDiv100 | N_YearMod100 | N_IsoYear | N_IsoYearDiv100 | N_IsoYearMod100
| N_Quarter | N_Month | N_Day | N_WeekFromSun | N_WeekFromMon | N_IsoWeek
| N_NumDaysFromSun | N_WeekdayFromMon | N_Ordinal | N_Hour | N_Hour12 | N_Minute | N_Second
| N_Nanosecond | N_Timestamp.

Inductive InternalInternal :=
| I_TimezoneOffsetPermissive | I_Nanosecond3NoDot | I_Nanosecond6NoDot | I_Nanosecond9NoDot.

Inductive Fixed :=
| F_ShortMonthName | F_LongMonthName | F_ShortWeekdayName | F_LongWeekdayName
| F_LowerAmPm | F_UpperAmPm | F_Nanosecond | F_Nanosecond3 | F_Nanosecond6 | F_Nanosecond9
| F_TimezoneName | F_TimezoneOffsetColon | F_TimezoneOffsetDoubleColon | F_TimezoneOffsetTripleColon
| F_TimezoneOffsetColonZ | F_TimezoneOffset | F_TimezoneOffsetZ | F_RFC2822 | F_RFC3339
| F_Internal (i : InternalInternal).

Inductive OffsetPrecision :=
| OP_Hours | OP_Minutes | OP_Seconds | OP_OptionalMinutes | OP_OptionalSeconds | OP_OptionalMinutesAndSeconds.
Inductive Colons := C_None | C_Colon | C_Maybe.
Record OffsetFormat := mk_of { of_precision : OffsetPrecision; of_colons : Colons; of_allow_zulu : bool; of_padding : Pad }.

Inductive Item :=
| Literal (s : bytes)
| Space (s : bytes)
| INumeric (n : Numeric) (p : Pad)
| IFixed (f : Fixed)
| IError.

(* const fn num / num0 / nums / fixed / internal_fixed *)
Definition num (n : Numeric) : Item := INumeric n PadNone.
Definition num0 (n : Numeric) : Item := INumeric n PadZero.
Definition nums (n : Numeric) : Item := INumeric n PadSpace.
Definition fixed (f : Fixed) : Item := IFixed f.
Definition internal_fixed (i : InternalInternal) : Item := IFixed (F_Internal i).

(** The shape of one arm of `let item = match spec { ... }` (data emitted by the translator):
    - [ArmItem i]              `'A' => fixed(Fixed::LongWeekdayName)`
    - [ArmQueue h t]           `queue![h, t...]` and `queue_from_slice!(S)`: h is returned, t queued
    - [ArmAlt a p]             `if is_alternate { a } else { p }`
    - [ArmPrefixes l]          `if remainder.starts_with(p1) { remainder = &remainder[|p1|..]; i1 }
                                else if ... else { self.error(original, &mut error_len, None).1 }`
    - [ArmNext l]              `match next!() { 'c' => arm, ..., c => { error(.., Some(c)) } }` *)
Inductive sf_arm :=
| ArmItem (i : Item)
| ArmQueue (head : Item) (tail : list Item)
| ArmAlt (alt plain : Item)
| ArmPrefixes (l : list (bytes * Item))
| ArmNext (l : list (Z * sf_arm)).

(** equality tests (Rust: derived PartialEq) *)
Definition pad_idx (p : Pad) : Z := match p with PadNone => 0 | PadZero => 1 | PadSpace => 2 end.
Definition numeric_idx (n : Numeric) : Z :=
  match n with
  | N_Year => 0 | N_YearDiv100 => 1 | N_YearMod100 => 2 | N_IsoYear => 3 | N_IsoYearDiv100 => 4
  | N_IsoYearMod100 => 5 | N_Quarter => 6 | N_Month => 7 | N_Day => 8 | N_WeekFromSun => 9
  | N_WeekFromMon => 10 | N_IsoWeek => 11 | N_NumDaysFromSun => 12 | N_WeekdayFromMon => 13
  | N_Ordinal => 14 | N_Hour => 15 | N_Hour12 => 16 | N_Minute => 17 | N_Second => 18
  | N_Nanosecond => 19 | N_Timestamp => 20
  end.
Definition internal_idx (i : InternalInternal) : Z :=
  match i with
  | I_TimezoneOffsetPermissive => 100 | I_Nanosecond3NoDot => 101
  | I_Nanosecond6NoDot => 102 | I_Nanosecond9NoDot => 103
  end.
Definition fixed_idx (f : Fixed) : Z :=
  match f with
  | F_ShortMonthName => 0 | F_LongMonthName => 1 | F_ShortWeekdayName => 2 | F_LongWeekdayName => 3
  | F_LowerAmPm => 4 | F_UpperAmPm => 5 | F_Nanosecond => 6 | F_Nanosecond3 => 7 | F_Nanosecond6 => 8
  | F_Nanosecond9 => 9 | F_TimezoneName => 10 | F_TimezoneOffsetColon => 11
  | F_TimezoneOffsetDoubleColon => 12 | F_TimezoneOffsetTripleColon => 13 | F_TimezoneOffsetColonZ => 14
  | F_TimezoneOffset => 15 | F_TimezoneOffsetZ => 16 | F_RFC2822 => 17 | F_RFC3339 => 18
  | F_Internal i => internal_idx i
  end.
Definition fixed_eqb (a b : Fixed) : bool := fixed_idx a =? fixed_idx b.
Definition numeric_eqb (a b : Numeric) : bool := numeric_idx a =? numeric_idx b.
Definition pad_eqb (a b : Pad) : bool := pad_idx a =? pad_idx b.

(** canonical encoding for the case protocol *)
Definition enc_item (i : Item) : val :=
  match i with
  | Literal s => VTup [VInt 0; VStr s]
  | Space s => VTup [VInt 1; VStr s]
  | INumeric n p => VTup [VInt 2; VInt (numeric_idx n); VInt (pad_idx p)]
  | IFixed f => VTup [VInt 3; VInt (fixed_idx f)]
  | IError => VTup [VInt 4]
  end.
Definition enc_items (l : list Item) : val := VTup (map enc_item l).
