(** C03 — executable model of the arithmetic surface that is not already in the shared models:
    the operator forms ([Add]/[Sub] of [TimeDelta], [core::time::Duration], [Days] and of two values)
    for NaiveDate (src/naive/date/mod.rs), NaiveDateTime (src/naive/datetime/mod.rs) and
    DateTime<Tz> (src/datetime/mod.rs), the two date iterators of src/naive/date/mod.rs as state
    machines, and the dispatcher of the [ar.*] / [it.*] ops.  The checked forms themselves are in
    Model/Date.v, Model/Time.v and Model/DateTime.v.  No proofs in this file. *)
From Coq Require Import ZArith List Bool String.
From V Require Import Base.Int Base.IO Model.TimeDelta Model.DateTime.
From V Require Model.Date Model.Time.
Import ListNotations.
Open Scope Z_scope.
(* [Date.x] = Model/Date.v, [Time.x] = Model/Time.v (partially qualified names) *)

(** * Operator forms: [expect] of the checked forms *)
(* impl Add<TimeDelta> for NaiveDate / impl Sub<TimeDelta> for NaiveDate *)
Definition op_dadd_td (d : Z) (rhs : td) : R Z := unwrap_r (Date.checked_add_signed d rhs).
Definition op_dsub_td (d : Z) (rhs : td) : R Z := unwrap_r (Date.checked_sub_signed d rhs).
(* impl Add<Days> for NaiveDate / impl Sub<Days> for NaiveDate *)
Definition op_dadd_days (d n : Z) : R Z := unwrap_r (Date.checked_add_days d n).
Definition op_dsub_days (d n : Z) : R Z := unwrap_r (Date.checked_sub_days d n).
(* impl Sub<NaiveDate> for NaiveDate *)
Definition op_dsub_date (a b : Z) : R td := Date.signed_duration_since a b.

(* impl Add<TimeDelta> for NaiveDateTime / impl Sub<TimeDelta> for NaiveDateTime *)
Definition op_nadd_td (a : ndt) (rhs : td) : R ndt := unwrap_r (ndt_checked_add_signed a rhs).
Definition op_nsub_td (a : ndt) (rhs : td) : R ndt := unwrap_r (ndt_checked_sub_signed a rhs).
(* impl Add<Duration> for NaiveDateTime / impl Sub<Duration> for NaiveDateTime:
     let rhs = TimeDelta::from_std(rhs).expect(..); self.checked_add_signed(rhs).expect(..) *)
Definition op_nadd_std (a : ndt) (dsecs dnanos : Z) : R ndt :=
  let* rhs := unwrap (from_std dsecs dnanos) in unwrap_r (ndt_checked_add_signed a rhs).
Definition op_nsub_std (a : ndt) (dsecs dnanos : Z) : R ndt :=
  let* rhs := unwrap (from_std dsecs dnanos) in unwrap_r (ndt_checked_sub_signed a rhs).
(* impl Add<Days> for NaiveDateTime / impl Sub<Days> for NaiveDateTime *)
Definition op_nadd_days (a : ndt) (n : Z) : R ndt := unwrap_r (ndt_checked_add_days a n).
Definition op_nsub_days (a : ndt) (n : Z) : R ndt := unwrap_r (ndt_checked_sub_days a n).
(* impl Sub<NaiveDateTime> for NaiveDateTime *)
Definition op_nsub_ndt (a b : ndt) : R td := ndt_signed_duration_since a b.

(* impl<Tz> Add<TimeDelta> for DateTime<Tz> / Sub<TimeDelta> *)
Definition op_zadd_td (a : dtz) (rhs : td) : R dtz := unwrap_r (dz_checked_add_signed a rhs).
Definition op_zsub_td (a : dtz) (rhs : td) : R dtz := unwrap_r (dz_checked_sub_signed a rhs).
(* impl<Tz> AddAssign<TimeDelta> for DateTime<Tz> / SubAssign<TimeDelta>: own body on the UTC value *)
Definition op_zadd_assign (a : dtz) (rhs : td) : R dtz :=
  let* datetime := unwrap_r (ndt_checked_add_signed (dz_utc a) rhs) in
  Val (from_utc_datetime (dz_off a) datetime).
Definition op_zsub_assign (a : dtz) (rhs : td) : R dtz :=
  let* datetime := unwrap_r (ndt_checked_sub_signed (dz_utc a) rhs) in
  Val (from_utc_datetime (dz_off a) datetime).
(* impl<Tz> Add<Duration> for DateTime<Tz> / Sub<Duration> *)
Definition op_zadd_std (a : dtz) (dsecs dnanos : Z) : R dtz :=
  let* rhs := unwrap (from_std dsecs dnanos) in unwrap_r (dz_checked_add_signed a rhs).
Definition op_zsub_std (a : dtz) (dsecs dnanos : Z) : R dtz :=
  let* rhs := unwrap (from_std dsecs dnanos) in unwrap_r (dz_checked_sub_signed a rhs).
(* impl<Tz> Add<Days> for DateTime<Tz> / Sub<Days> *)
Definition op_zadd_days (a : dtz) (n : Z) : R dtz := unwrap_r (dz_checked_add_days a n).
Definition op_zsub_days (a : dtz) (n : Z) : R dtz := unwrap_r (dz_checked_sub_days a n).
(* impl<Tz> Sub<DateTime<Tz>> for DateTime<Tz> *)
Definition op_zsub_z (a b : dtz) : R td := dz_signed_duration_since a b.

(** * Compound assignment, reference subtraction, FixedOffset operands *)
(* impl AddAssign<TimeDelta> for NaiveDate: *self = self.add(rhs) (SubAssign alike) *)
Definition op_dadd_assign (d : Z) (rhs : td) : R Z := op_dadd_td d rhs.
Definition op_dsub_assign (d : Z) (rhs : td) : R Z := op_dsub_td d rhs.
(* impl AddAssign<TimeDelta> / AddAssign<Duration> for NaiveDateTime: *self = self.add(rhs) *)
Definition op_nadd_assign (a : ndt) (rhs : td) : R ndt := op_nadd_td a rhs.
Definition op_nsub_assign (a : ndt) (rhs : td) : R ndt := op_nsub_td a rhs.
Definition op_nadd_std_assign (a : ndt) (dsecs dnanos : Z) : R ndt := op_nadd_std a dsecs dnanos.
Definition op_nsub_std_assign (a : ndt) (dsecs dnanos : Z) : R ndt := op_nsub_std a dsecs dnanos.
(* impl<Tz> AddAssign<Duration> for DateTime<Tz>:
     let rhs = TimeDelta::from_std(rhs).expect(..); *self += rhs; *)
Definition op_zadd_std_assign (a : dtz) (dsecs dnanos : Z) : R dtz :=
  let* rhs := unwrap (from_std dsecs dnanos) in op_zadd_assign a rhs.
Definition op_zsub_std_assign (a : dtz) (dsecs dnanos : Z) : R dtz :=
  let* rhs := unwrap (from_std dsecs dnanos) in op_zsub_assign a rhs.
(* impl<Tz> Sub<&DateTime<Tz>> for DateTime<Tz> *)
Definition op_zsub_zref (a b : dtz) : R td := dz_signed_duration_since a b.
(* impl Add<FixedOffset> for NaiveDateTime / Sub<FixedOffset>: checked_{add,sub}_offset(rhs).expect(..) *)
Definition op_nadd_off (a : ndt) (off : Z) : R ndt := unwrap_r (ndt_checked_add_offset a off).
Definition op_nsub_off (a : ndt) (off : Z) : R ndt := unwrap_r (ndt_checked_sub_offset a off).
(* impl<Tz> Add<FixedOffset> for DateTime<Tz>:
     self.datetime = self.naive_utc().checked_add_offset(rhs).expect(..); self *)
Definition op_zadd_off (a : dtz) (off : Z) : R dtz :=
  let* datetime := unwrap_r (ndt_checked_add_offset (naive_utc a) off) in Val (mk_dtz datetime (dz_off a)).
Definition op_zsub_off (a : dtz) (off : Z) : R dtz :=
  let* datetime := unwrap_r (ndt_checked_sub_offset (naive_utc a) off) in Val (mk_dtz datetime (dz_off a)).

(** * Iterators (state = the [value] field; a step returns the item and the new state) *)
(* impl Iterator for NaiveDateDaysIterator: fn next
     let current = self.value; self.value = current.succ_opt()?; Some(current) *)
Definition days_next (v : Z) : R (option Z * Z) :=
  let* o := Date.succ_opt v in
  Val (match o with Some n => (Some v, n) | None => (None, v) end).
(* impl DoubleEndedIterator for NaiveDateDaysIterator: fn next_back *)
Definition days_next_back (v : Z) : R (option Z * Z) :=
  let* o := Date.pred_opt v in
  Val (match o with Some n => (Some v, n) | None => (None, v) end).
(* fn size_hint: let exact_size = NaiveDate::MAX.signed_duration_since(self.value).num_days();
                 (exact_size as usize, Some(exact_size as usize)) *)
Definition days_size_hint (v : Z) : R (Z * option Z) :=
  let* dd := Date.signed_duration_since Date.D_MAX v in
  let* exact_size := num_days dd in
  Val (as_usize exact_size, Some (as_usize exact_size)).

(* impl Iterator for NaiveDateWeeksIterator: self.value = current.checked_add_days(Days::new(7))? *)
Definition weeks_next (v : Z) : R (option Z * Z) :=
  let* o := Date.checked_add_days v 7 in
  Val (match o with Some n => (Some v, n) | None => (None, v) end).
Definition weeks_next_back (v : Z) : R (option Z * Z) :=
  let* o := Date.checked_sub_days v 7 in
  Val (match o with Some n => (Some v, n) | None => (None, v) end).
Definition weeks_size_hint (v : Z) : R (Z * option Z) :=
  let* dd := Date.signed_duration_since Date.D_MAX v in
  let* exact_size := num_weeks dd in
  Val (as_usize exact_size, Some (as_usize exact_size)).

(** driving an iterator: the state after [k] calls of [step] (results discarded) *)
Fixpoint it_drive (step : Z -> R (option Z * Z)) (k : nat) (v : Z) : R Z :=
  match k with
  | O => Val v
  | S k' => let* '(_, v') := step v in it_drive step k' v'
  end.
(** number of items still yielded by repeated [step] (up to the first [None]); [None] when more
    than [cap] items come *)
Fixpoint it_count (step : Z -> R (option Z * Z)) (fuel : nat) (v : Z) (acc : Z) : R (option Z) :=
  match fuel with
  | O => Val None
  | S f =>
    let* '(item, v') := step v in
    match item with
    | None => Val (Some acc)
    | Some _ => it_count step f v' (acc + 1)
    end
  end.

(** [it.days D k dir cap]: after [k] calls, the next item and the number of items still coming *)
Definition it_observe (step : Z -> R (option Z * Z)) (start k cap : Z) : R (option Z * option Z) :=
  let* v := it_drive step (Z.to_nat k) start in
  let* '(item, _) := step v in
  let* cnt := it_count step (S (Z.to_nat cap)) v 0 in
  Val (item, cnt).
Definition it_hint (step : Z -> R (option Z * Z)) (hint : Z -> R (Z * option Z)) (start k : Z)
  : R (Z * option Z) :=
  let* v := it_drive step (Z.to_nat k) start in hint v.

(** the provided adaptor [Iterator::nth] / [DoubleEndedIterator::nth_back] (neither iterator overrides
    them): [for _ in 0..n { self.next()?; } self.next()].  [n : usize] can be huge, the loop ends at
    the first [None]; the fuel bounds the number of steps the case generator asks for. *)
Fixpoint it_nth (step : Z -> R (option Z * Z)) (fuel : nat) (n : Z) (v : Z) : R (option Z * Z) :=
  match fuel with
  | O => OutOfFuel
  | S f =>
    let* '(item, v') := step v in
    if n <=? 0 then Val (item, v')
    else match item with
         | None => Val (None, v')
         | Some _ => it_nth step f (n - 1) v'
         end
  end.
Definition it_observe_nth (step : Z -> R (option Z * Z)) (start n cap : Z)
  : R (option Z * (option Z * option Z)) :=
  let* '(first, v) := it_nth step 4000 n start in
  let* o := it_observe step v 0 cap in
  Val (first, o).

(** * Provided adaptors (neither iterator overrides them; core::iter defaults)
    [count] = fold over [next]; [last] = fold keeping the item; [rev()] swaps [next]/[next_back];
    [ExactSizeIterator::len] = the lower bound of [size_hint] (asserted equal to the upper one);
    [step_by(s)]: the first call is [next], every later one [nth(s - 1)]. *)
Fixpoint it_last (step : Z -> R (option Z * Z)) (fuel : nat) (v : Z) (acc : option Z) : R (option Z) :=
  match fuel with
  | O => OutOfFuel
  | S f =>
    let* '(item, v') := step v in
    match item with
    | None => Val acc
    | Some x => it_last step f v' (Some x)
    end
  end.
Definition it_count_all (step : Z -> R (option Z * Z)) (v : Z) : R Z :=
  let* c := it_count step 4000 v 0 in match c with Some n => Val n | None => OutOfFuel end.
Definition it_len (step : Z -> R (option Z * Z)) (hint : Z -> R (Z * option Z)) (start k : Z) : R Z :=
  let* h := it_hint step hint start k in
  match snd h with Some u => if u =? fst h then Val (fst h) else Panic | None => Panic end.
Fixpoint it_nth_f (step : Z -> R (option Z * Z)) (fuel : nat) (n : Z) (v : Z) : R (option Z * Z) :=
  match fuel with
  | O => OutOfFuel
  | S f =>
    let* '(item, v') := step v in
    if n <=? 0 then Val (item, v')
    else match item with
         | None => Val (None, v')
         | Some _ => it_nth_f step f (n - 1) v'
         end
  end.
Fixpoint it_step_by (step : Z -> R (option Z * Z)) (s : Z) (first : bool) (cap : nat) (v : Z) : R (list Z) :=
  match cap with
  | O => Val []
  | S c =>
    let* '(item, v') := if first then step v else it_nth_f step 5001 (s - 1) v in
    match item with
    | None => Val []
    | Some x => let* rest := it_step_by step s false c v' in Val (x :: rest)
    end
  end.

(** * Dispatcher *)
Definition vo_date (o : option Z) : val := val_of_option enc_date o.
Definition vo_ndt (o : option ndt) : val := val_of_option enc_ndt o.
Definition vo_dtz (o : option dtz) : val := val_of_option enc_dtz o.
Definition arg_sign (v : val) : option bool :=
  match v with VInt 1 => Some true | VInt (-1) => Some false | _ => None end.
Definition arg_dir (v : val) : option bool :=
  match v with VInt 0 => Some true | VInt 1 => Some false | _ => None end.
Definition arg_small (v : val) : option Z :=
  match v with VInt z => if (0 <=? z) && (z <=? 5000) then Some z else None | _ => None end.
(* a core::time::Duration: (as_secs : u64, subsec_nanos : u32 < 10^9) *)
Definition arg_std (s n : val) : option (Z * Z) :=
  match arg_u64 s, arg_u32 n with
  | Some s, Some n => if n <? 1000000000 then Some (s, n) else None
  | _, _ => None
  end.

Definition a2 {X Y} (da : val -> option X) (db : val -> option Y) (args : list val) (f : X -> Y -> val) : val :=
  match args with
  | [x; y] => match da x, db y with Some a, Some b => f a b | _, _ => VBad end
  | _ => VBad
  end.
Definition a3 {X Y W} (da : val -> option X) (db : val -> option Y) (dc : val -> option W)
  (args : list val) (f : X -> Y -> W -> val) : val :=
  match args with
  | [x; y; z] => match da x, db y, dc z with Some a, Some b, Some c => f a b c | _, _, _ => VBad end
  | _ => VBad
  end.
Definition a_std {X} (da : val -> option X) (args : list val) (f : X -> bool -> Z -> Z -> val) : val :=
  match args with
  | [x; sg; s; n] =>
      match da x, arg_sign sg, arg_std s n with
      | Some a, Some b, Some (ds, dn) => f a b ds dn
      | _, _, _ => VBad
      end
  | _ => VBad
  end.

Definition enc_hint (h : Z * option Z) : val := VTup [VInt (fst h); val_of_option VInt (snd h)].
Definition enc_obs (o : option Z * option Z) : val := VTup [vo_date (fst o); val_of_option VInt (snd o)].

Definition run_it (fwd back : Z -> R (option Z * Z)) (args : list val) : val :=
  match args with
  | [d; k; dir; cap] =>
      match dec_date d, arg_small k, arg_dir dir, arg_small cap with
      | Some d, Some k, Some dir, Some cap =>
          val_of_R enc_obs (it_observe (if dir then fwd else back) d k cap)
      | _, _, _, _ => VBad
      end
  | _ => VBad
  end.
(* the adaptor ops that run an iterator to its end are defined within ten years of that end *)
Definition near_end (d : Z) (fwd : bool) : bool :=
  if fwd then 262142 - 9 <=? Date.d_year d else Date.d_year d <=? -262143 + 9.
Definition run_nth (fwd back : Z -> R (option Z * Z)) (args : list val) : val :=
  match args with
  | [d; VInt n; dir; cap] =>
      match dec_date d, arg_dir dir, arg_small cap with
      | Some d, Some dir, Some cap =>
          (* a jump of more than 3000 items is only asked within ten years of the end it runs to
             (the implementation would walk up to 191 million steps, the model has fuel for 4000) *)
          if in_u64 n && ((n <=? 3000) || near_end d dir) then
            val_of_R (fun '(first, (item, cnt)) => VTup [vo_date first; vo_date item; val_of_option VInt cnt])
                     (it_observe_nth (if dir then fwd else back) d n cap)
          else VBad
      | _, _, _ => VBad
      end
  | _ => VBad
  end.
Definition run_hint (fwd back : Z -> R (option Z * Z)) (hint : Z -> R (Z * option Z)) (args : list val) : val :=
  a3 dec_date arg_small arg_dir args
     (fun d k dir => val_of_R enc_hint (it_hint (if dir then fwd else back) hint d k)).

Definition run_end {X} (enc : X -> val) (f : (Z -> R (option Z * Z)) -> Z -> R X)
  (fwd back : Z -> R (option Z * Z)) (args : list val) : val :=
  a2 dec_date arg_dir args (fun d dir =>
    if near_end d dir then val_of_R enc (f (if dir then fwd else back) d) else VBad).
Definition run_step (fwd back : Z -> R (option Z * Z)) (args : list val) : val :=
  match args with
  | [d; dir; s; cap] =>
      match dec_date d, arg_dir dir, arg_small s, arg_small cap with
      | Some d, Some dir, Some s, Some cap =>
          if (s =? 0) || (60 <? cap) then VBad
          else val_of_R (fun l => VTup (map enc_date l))
                        (it_step_by (if dir then fwd else back) s true (Z.to_nat cap) d)
      | _, _, _, _ => VBad
      end
  | _ => VBad
  end.
Definition a_off {X} (da : val -> option X) (args : list val) (f : X -> bool -> Z -> val) : val :=
  match args with
  | [x; sg; o] =>
      match da x, arg_sign sg, arg_i32 o with
      | Some a, Some b, Some z => match east_opt z with Some off => f a b off | None => VBad end
      | _, _, _ => VBad
      end
  | _ => VBad
  end.
(** impl Ord / PartialOrd / PartialEq for DateTime<Tz> all read the [datetime] (UTC) field:
    [cmp] = [self.datetime.cmp(&other.datetime)], [partial_cmp] = [self.datetime.partial_cmp(..)] (derived on
    NaiveDateTime: always Some), [eq] = [self.datetime == other.datetime] (derived: field-wise);
    [core::cmp::max(a, b)] (Ord::max) is [b] unless [a > b].  Observation of [ar.zord]:
    (a.cmp(&b), a.partial_cmp(&b), a == b, max(a, b) == a) *)
Definition z_eqb (a b : dtz) : bool :=
  (nd_date (dz_utc a) =? nd_date (dz_utc b))
  && (Time.tsecs (nd_time (dz_utc a)) =? Time.tsecs (nd_time (dz_utc b)))
  && (Time.tfrac (nd_time (dz_utc a)) =? Time.tfrac (nd_time (dz_utc b))).
Definition z_max (a b : dtz) : dtz := if dz_cmp a b =? 1 then a else b.
Definition zord_obs (a b : dtz) : val :=
  VTup [VInt (dz_cmp a b); VSome (VInt (ndt_cmp (dz_utc a) (dz_utc b))); val_of_bool (z_eqb a b);
        val_of_bool (z_eqb (z_max a b) a)].

Definition run2 (op : bytes) (args : list val) : val :=
  if op_is op "ar.opdasg" then
    a3 dec_date arg_sign dec_td args (fun d sg x => val_of_R enc_date (if sg then op_dadd_assign d x else op_dsub_assign d x))
  else if op_is op "ar.opnasg" then
    a3 dec_ndt arg_sign dec_td args (fun a sg x => val_of_R enc_ndt (if sg then op_nadd_assign a x else op_nsub_assign a x))
  else if op_is op "ar.stdasg" then
    a_std dec_ndt args (fun a sg s n => val_of_R enc_ndt (if sg then op_nadd_std_assign a s n else op_nsub_std_assign a s n))
  else if op_is op "ar.zstdasg" then
    a_std dec_dtz args (fun a sg s n => val_of_R enc_dtz (if sg then op_zadd_std_assign a s n else op_zsub_std_assign a s n))
  else if op_is op "ar.opzdiffref" then a2 dec_dtz dec_dtz args (fun a b => val_of_R enc_td (op_zsub_zref a b))
  else if op_is op "ar.zord" then a2 dec_dtz dec_dtz args zord_obs
  else if op_is op "ar.noff" then
    a_off dec_ndt args (fun a sg off => val_of_R vo_ndt (if sg then ndt_checked_add_offset a off else ndt_checked_sub_offset a off))
  else if op_is op "ar.opnoff" then
    a_off dec_ndt args (fun a sg off => val_of_R enc_ndt (if sg then op_nadd_off a off else op_nsub_off a off))
  else if op_is op "ar.opzoff" then
    a_off dec_dtz args (fun a sg off => val_of_R enc_dtz (if sg then op_zadd_off a off else op_zsub_off a off))
  else if op_is op "it.dcount" then run_end VInt it_count_all days_next days_next_back args
  else if op_is op "it.wcount" then run_end VInt it_count_all weeks_next weeks_next_back args
  else if op_is op "it.dlast" then run_end vo_date (fun st v => it_last st 4000 v None) days_next days_next_back args
  else if op_is op "it.wlast" then run_end vo_date (fun st v => it_last st 4000 v None) weeks_next weeks_next_back args
  else if op_is op "it.dlen" then a2 dec_date arg_small args (fun d k => val_of_R VInt (it_len days_next days_size_hint d k))
  else if op_is op "it.wlen" then a2 dec_date arg_small args (fun d k => val_of_R VInt (it_len weeks_next weeks_size_hint d k))
  else if op_is op "it.dstep" then run_step days_next days_next_back args
  else if op_is op "it.wstep" then run_step weeks_next weeks_next_back args
  (* rev(): next and next_back change places *)
  else if op_is op "it.drev" then run_it days_next_back days_next args
  else if op_is op "it.wrev" then run_it weeks_next_back weeks_next args
  else VErr B"NOOP".

Definition run (op : bytes) (args : list val) : val :=
  (* NaiveDateTime *)
  if op_is op "ar.nadd" then a2 dec_ndt dec_td args (fun a d => val_of_R vo_ndt (ndt_checked_add_signed a d))
  else if op_is op "ar.nsub" then a2 dec_ndt dec_td args (fun a d => val_of_R vo_ndt (ndt_checked_sub_signed a d))
  else if op_is op "ar.ndiff" then a2 dec_ndt dec_ndt args (fun a b => val_of_R enc_td (ndt_signed_duration_since a b))
  else if op_is op "ar.ndays" then
    a3 dec_ndt arg_sign arg_u64 args (fun a sg n =>
      val_of_R vo_ndt (if sg then ndt_checked_add_days a n else ndt_checked_sub_days a n))
  else if op_is op "ar.opnadd" then a2 dec_ndt dec_td args (fun a d => val_of_R enc_ndt (op_nadd_td a d))
  else if op_is op "ar.opnsub" then a2 dec_ndt dec_td args (fun a d => val_of_R enc_ndt (op_nsub_td a d))
  else if op_is op "ar.opndiff" then a2 dec_ndt dec_ndt args (fun a b => val_of_R enc_td (op_nsub_ndt a b))
  else if op_is op "ar.opndays" then
    a3 dec_ndt arg_sign arg_u64 args (fun a sg n =>
      val_of_R enc_ndt (if sg then op_nadd_days a n else op_nsub_days a n))
  else if op_is op "ar.nrt" then
    a2 dec_ndt dec_ndt args (fun a b =>
      val_of_R vo_ndt (let* d := ndt_signed_duration_since a b in ndt_checked_add_signed b d))
  else if op_is op "ar.nord" then
    a2 dec_ndt dec_ndt args (fun a b =>
      val_of_R (fun d => VTup [VInt (ndt_cmp a b); VInt (td_cmp d (mk_td 0 0))]) (ndt_signed_duration_since a b))
  else if op_is op "ar.addstd" then
    a_std dec_ndt args (fun a sg s n => val_of_R enc_ndt (if sg then op_nadd_std a s n else op_nsub_std a s n))
  (* NaiveDate *)
  else if op_is op "ar.dadd" then a2 dec_date arg_u64 args (fun d n => val_of_R vo_date (Date.checked_add_days d n))
  else if op_is op "ar.dsub" then a2 dec_date arg_u64 args (fun d n => val_of_R vo_date (Date.checked_sub_days d n))
  else if op_is op "ar.dadds" then a2 dec_date dec_td args (fun d x => val_of_R vo_date (Date.checked_add_signed d x))
  else if op_is op "ar.dsubs" then a2 dec_date dec_td args (fun d x => val_of_R vo_date (Date.checked_sub_signed d x))
  else if op_is op "ar.ddiff" then a2 dec_date dec_date args (fun a b => val_of_R enc_td (Date.signed_duration_since a b))
  else if op_is op "ar.opdadd" then a2 dec_date arg_u64 args (fun d n => val_of_R enc_date (op_dadd_days d n))
  else if op_is op "ar.opdsub" then a2 dec_date arg_u64 args (fun d n => val_of_R enc_date (op_dsub_days d n))
  else if op_is op "ar.opdadds" then a2 dec_date dec_td args (fun d x => val_of_R enc_date (op_dadd_td d x))
  else if op_is op "ar.opdsubs" then a2 dec_date dec_td args (fun d x => val_of_R enc_date (op_dsub_td d x))
  else if op_is op "ar.opddiff" then a2 dec_date dec_date args (fun a b => val_of_R enc_td (op_dsub_date a b))
  (* DateTime<FixedOffset> *)
  else if op_is op "ar.zadd" then a2 dec_dtz dec_td args (fun a d => val_of_R vo_dtz (dz_checked_add_signed a d))
  else if op_is op "ar.zsub" then a2 dec_dtz dec_td args (fun a d => val_of_R vo_dtz (dz_checked_sub_signed a d))
  else if op_is op "ar.zdiff" then a2 dec_dtz dec_dtz args (fun a b => val_of_R enc_td (dz_signed_duration_since a b))
  else if op_is op "ar.zdays" then
    a3 dec_dtz arg_sign arg_u64 args (fun a sg n =>
      val_of_R vo_dtz (if sg then dz_checked_add_days a n else dz_checked_sub_days a n))
  else if op_is op "ar.opzadd" then a2 dec_dtz dec_td args (fun a d => val_of_R enc_dtz (op_zadd_td a d))
  else if op_is op "ar.opzsub" then a2 dec_dtz dec_td args (fun a d => val_of_R enc_dtz (op_zsub_td a d))
  else if op_is op "ar.opzaddasg" then a2 dec_dtz dec_td args (fun a d => val_of_R enc_dtz (op_zadd_assign a d))
  else if op_is op "ar.opzsubasg" then a2 dec_dtz dec_td args (fun a d => val_of_R enc_dtz (op_zsub_assign a d))
  else if op_is op "ar.opzdiff" then a2 dec_dtz dec_dtz args (fun a b => val_of_R enc_td (op_zsub_z a b))
  else if op_is op "ar.opzdays" then
    a3 dec_dtz arg_sign arg_u64 args (fun a sg n =>
      val_of_R enc_dtz (if sg then op_zadd_days a n else op_zsub_days a n))
  else if op_is op "ar.zaddstd" then
    a_std dec_dtz args (fun a sg s n => val_of_R enc_dtz (if sg then op_zadd_std a s n else op_zsub_std a s n))
  (* iterators *)
  else if op_is op "it.days" then run_it days_next days_next_back args
  else if op_is op "it.weeks" then run_it weeks_next weeks_next_back args
  else if op_is op "it.dnth" then run_nth days_next days_next_back args
  else if op_is op "it.wnth" then run_nth weeks_next weeks_next_back args
  else if op_is op "it.dhint" then run_hint days_next days_next_back days_size_hint args
  else if op_is op "it.whint" then run_hint weeks_next weeks_next_back weeks_size_hint args
  else run2 op args.
