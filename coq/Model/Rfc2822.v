(** Executable model of the RFC 2822 reader and writer:
      src/format/parse.rs       parse_rfc2822 (the hand-written scanner sequence with its optional
                                parts, the year-length rule, the trailing-comment loop) and the
                                [parse] wrapper (trailing text = TOO_LONG)
      src/format/formatting.rs  write_rfc2822
      src/datetime/mod.rs       DateTime::parse_from_rfc2822, DateTime::to_rfc2822
    on top of Model/Scan.v (number, space, char, short_weekday, short_month0,
    timezone_offset_2822, comment_2822), Model/Parsed.v (the whole [Parsed]: setters and
    [to_datetime] with the weekday verification), Model/Rfc3339.v (write_hundreds,
    OffsetFormat::format), Model/Date.v, Model/Time.v, Model/DateTime.v.
    Literals come from Gen/Rfc2822Consts.v, Gen/ScanTables.v and Gen/Locales.v (regenerated from the
    Rust source on every run).  Function by function, same statement order; every slicing,
    indexing and integer operation that can trap is in the [R] monad.  No proofs in this file. *)
From Coq Require Import ZArith List Bool String.
From V Require Import Base.Int Base.IO Base.Utf8 Gen.ScanTables Gen.Rfc2822Consts Gen.Locales
  Model.Scan Model.DateTime.
From V Require Model.Date Model.Time Model.Parsed Model.Rfc3339.
Import ListNotations.
Open Scope Z_scope.

(** * Glue between the two transcriptions of [ParseResult] (Model/Scan.v and Model/Parsed.v) *)
Definition pe (e : Parsed.perr) : perr :=
  match e with
  | Parsed.OutOfRange => OutOfRange | Parsed.Impossible => Impossible | Parsed.NotEnough => NotEnough
  | Parsed.Invalid => Invalid | Parsed.TooShort => TooShort | Parsed.TooLong => TooLong
  | Parsed.BadFormat => BadFormat
  end.
Definition of_res {A} (r : Parsed.res A) : presult A :=
  match r with Parsed.Ok a => POk a | Parsed.Err e => PErr (pe e) end.
(* [parsed.set_x(v)?]: the new state, or the error *)
Definition pset (r : Parsed.parsed * Parsed.res unit) : PR Parsed.parsed :=
  match r with
  | (p, Parsed.Ok _) => pok p
  | (_, Parsed.Err e) => perr_ (pe e)
  end.

(** * parse_rfc2822 *)
(* [if let Ok((s_, weekday)) = scan::short_weekday(s) { if !s_.starts_with(',') { return Err(INVALID); }
     s = &s_[1..]; parsed.set_weekday(weekday)?; }] *)
Definition opt_weekday (p : Parsed.parsed) (s : bytes) : PR (Parsed.parsed * bytes) :=
  let* r := short_weekday s in
  match r with
  | POk (s_, weekday) =>
      if negb (starts_with_byte s_ R2_WEEKDAY_SEP) then perr_ Invalid else
      let* s1 := str_from s_ 1 in
      let+ p := pset (Parsed.set_weekday p weekday) in
      pok (p, s1)
  | PErr _ => pok (p, s)
  end.

(* [match (yearlen, year) { (2, 0..=49) => year += 2000, (2, 50..=99) => year += 1900,
     (3, _) => year += 1900, (_, _) => {} }] on an i64 *)
Definition year_rule (yearlen year : Z) : R Z :=
  if (yearlen =? R2_YEAR_ARM1_LEN) && (R2_YEAR_ARM1_LO <=? year) && (year <=? R2_YEAR_ARM1_HI)
  then add_i64 year R2_YEAR_ARM1_ADD
  else if (yearlen =? R2_YEAR_ARM2_LEN) && (R2_YEAR_ARM2_LO <=? year) && (year <=? R2_YEAR_ARM2_HI)
  then add_i64 year R2_YEAR_ARM2_ADD
  else if yearlen =? R2_YEAR_ARM3_LEN then add_i64 year R2_YEAR_ARM3_ADD
  else Val year.

(* [if let Ok(s_) = scan::char(s.trim_start(), b':') {
     parsed.set_second(try_consume!(scan::number(s_.trim_start(), 2, 2)))?; }]
   (the [.trim_start()] on [s_] is the repair fixes/C11-second-colon-space.diff; the translator
   reports in R2_SECOND_TRIM whether the source has it) *)
Definition opt_second (p : Parsed.parsed) (s : bytes) : PR (Parsed.parsed * bytes) :=
  let* r := char (trim_start s) R2_TIME_SEP2 in
  match r with
  | POk s_ =>
      let s_ := if R2_SECOND_TRIM =? 1 then trim_start s_ else s_ in
      let+ '(s2, v) := number s_ R2_SECOND_MIN R2_SECOND_MAX in
      let+ p := pset (Parsed.set_second p v) in
      pok (p, s2)
  | PErr _ => pok (p, s)
  end.

(* [while let Ok((s_out, ())) = scan::comment_2822(s) { s = s_out; }]: every successful round
   consumes at least the two parentheses, so [length s] rounds are enough *)
Fixpoint comments_loop (fuel : nat) (s : bytes) : R bytes :=
  match fuel with
  | O => OutOfFuel
  | S f =>
    let* r := comment_2822 s in
    match r with
    | POk (s_out, _) => comments_loop f s_out
    | PErr _ => Val s
    end
  end.

Definition parse_rfc2822 (p : Parsed.parsed) (s : bytes) : PR (Parsed.parsed * bytes) :=
  let s := trim_start s in
  let+ '(p, s) := opt_weekday p s in
  let s := trim_start s in
  let+ '(s, v) := number s R2_DAY_MIN R2_DAY_MAX in
  let+ p := pset (Parsed.set_day p v) in
  let+ s := space s in
  let+ '(s, month0) := short_month0 s in
  let* month := add_i64 R2_MONTH_ADD month0 in
  let+ p := pset (Parsed.set_month p month) in
  let+ s := space s in
  let prevlen := blen s in
  let+ '(s, year) := number s R2_YEAR_MIN R2_YEAR_MAX in
  let* yearlen := sub_usize prevlen (blen s) in
  let* year := year_rule yearlen year in
  let+ p := pset (Parsed.set_year p year) in
  let+ s := space s in
  let+ '(s, v) := number s R2_HOUR_MIN R2_HOUR_MAX in
  let* sh := Parsed.set_hour p v in
  let+ p := pset sh in
  let+ s := char (trim_start s) R2_TIME_SEP1 in
  let s := trim_start s in
  let+ '(s, v) := number s R2_MINUTE_MIN R2_MINUTE_MAX in
  let+ p := pset (Parsed.set_minute p v) in
  let+ '(p, s) := opt_second p s in
  let+ s := space s in
  let+ '(s, offset) := timezone_offset_2822 s in
  let+ p := pset (Parsed.set_offset p offset) in
  let* s := comments_loop (S (List.length s)) s in
  pok (p, s).

(* format::parse::parse with the single item [Fixed::RFC2822]:
   [Ok("") => Ok(()), Ok(_) => Err(TOO_LONG), Err(e) => Err(e)] *)
Definition parse_items_rfc2822 (p : Parsed.parsed) (s : bytes) : PR Parsed.parsed :=
  let+ '(p, rest) := parse_rfc2822 p s in
  if is_empty rest then pok p else perr_ TooLong.

(* DateTime::<FixedOffset>::parse_from_rfc2822 *)
Definition parse_from_rfc2822 (s : bytes) : PR dtz :=
  let+ p := parse_items_rfc2822 Parsed.parsed_new s in
  let* r := Parsed.to_datetime p in
  Val (of_res r).

(** * write_rfc2822 *)
Definition write_str (w s : bytes) : option bytes := Some (w ++ s).
Notation "'let!' x ':=' e 'in' k" := (Rfc3339.obind_ e (fun x => k))
  (at level 200, x name, e at level 100, k at level 200).
(* Weekday::num_days_from_sunday = days_since(Weekday::Sun), Sun = 6 from Monday *)
Definition WD_SUN : Z := 6.

Definition write_rfc2822 (w : bytes) (dt : ndt) (off : Z) : Rfc3339.W :=
  let year := Date.d_year (nd_date dt) in
  if negb ((W2_YEAR_LO <=? year) && (year <=? W2_YEAR_HI)) then Val None else
  let* wd := Date.d_weekday (nd_date dt) in
  let* nfs := Date.wd_days_since wd WD_SUN in
  let* wname := index LOC_SHORT_WEEKDAYS (as_usize nfs) in
  let! w := write_str w wname in
  let! w := write_str w W2_AFTER_WEEKDAY in
  let* day := Date.d_day (nd_date dt) in
  let* wday :=
    (if day <? W2_DAY_PAD_BELOW then
       let* c := add_u8 48 (as_u8 day) in Val (Rfc3339.write_char w c)
     else Val (Rfc3339.write_hundreds w (as_u8 day))) in
  let! w := wday in
  let! w := Rfc3339.write_char w 32 in
  let* month := Date.d_month (nd_date dt) in
  let* month0 := sub_u32 month 1 in
  let* mname := index LOC_SHORT_MONTHS (as_usize month0) in
  let! w := write_str w mname in
  let! w := Rfc3339.write_char w 32 in
  let* yq := div_i32 year W2_YEAR_DIV in
  let! w := Rfc3339.write_hundreds w (as_u8 yq) in
  let* yr := rem_i32 year W2_YEAR_MOD in
  let! w := Rfc3339.write_hundreds w (as_u8 yr) in
  let! w := Rfc3339.write_char w 32 in
  let '(hour, min, sec) := Time.hms (nd_time dt) in
  let! w := Rfc3339.write_hundreds w (as_u8 hour) in
  let! w := Rfc3339.write_char w 58 in
  let! w := Rfc3339.write_hundreds w (as_u8 min) in
  let! w := Rfc3339.write_char w 58 in
  let* lq := div_u32 (Time.nanosecond (nd_time dt)) W2_LEAP_DIV in
  let* sec := add_u32 sec lq in
  let! w := Rfc3339.write_hundreds w (as_u8 sec) in
  let! w := Rfc3339.write_char w 32 in
  Rfc3339.offset_format_format
    (Rfc3339.mk_of W2_OF_PRECISION W2_OF_COLONS (W2_OF_ALLOW_ZULU =? 1) W2_OF_PADDING) w off.

(* DateTime::to_rfc2822: [.expect("writing rfc2822 datetime to string should never fail")] *)
Definition to_rfc2822 (a : dtz) : R bytes :=
  let* naive := overflowing_naive_local a in
  unwrap_r (write_rfc2822 [] naive (dz_off a)).
