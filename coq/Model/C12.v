(** C12 dispatcher: maps the `sf.*` case lines to the shared models Model/Strftime.v (item
    iterator) and Model/Format.v (formatter).  No proofs here. *)
From Coq Require Import ZArith List Bool String.
From V Require Import Base.Int Base.IO Model.Items Gen.Strftime.
From V Require Export Model.Strftime Model.Format.
From V Require Model.Date Model.Time Model.DateTime.
Import ListNotations.
Open Scope Z_scope.

(* sf.items <fmt> lenient *)
Definition run_items (s : bytes) (lenient : bool) : val :=
  match sf_take (S (sf_bound s)) (mk_sfi s [] lenient) [] with
  | Val (Some l) => enc_items l
  | Val None => VErr B"Unbounded"
  | Panic => VPanic
  | OutOfFuel => VFuel
  end.

(* decoding of the formatted value by kind *)
Definition dec_value (kind : Z) (v : val) : option (R fmt_args) :=
  if kind =? 0 then option_map (fun d => Val (fa_of_date d)) (DateTime.dec_date v)
  else if kind =? 1 then option_map (fun t => Val (fa_of_time t)) (Time.dec_time v)
  else if kind =? 2 then option_map (fun n => Val (fa_of_ndt n)) (DateTime.dec_ndt v)
  else if kind =? 3 then option_map fa_of_dtz (DateTime.dec_dtz v)
  else if kind =? 4 then option_map fa_of_utc (DateTime.dec_ndt v)
  else None.

Definition run_fmt (lenient : bool) (kind : Z) (v : val) (f : bytes) : val :=
  match dec_value kind v with
  | None => VBad
  | Some ra =>
      match (let* a := ra in delayed_display a (mk_sfi f [] lenient)) with
      | Val (Some s) => VStr s
      | Val None => VErr B"fmt"
      | Panic => VPanic
      | OutOfFuel => VFuel
      end
  end.

Definition run (op : bytes) (args : list val) : val :=
  if op_is op "sf.items" then
    match args with
    | [VStr s; VInt l] =>
        if utf8_valid s && ((l =? 0) || (l =? 1)) then run_items s (l =? 1) else VBad
    | _ => VBad
    end
  else if op_is op "sf.fmt" then
    match args with
    | [VInt kind; v; VStr f] => if utf8_valid f then run_fmt false kind v f else VBad
    | _ => VBad
    end
  else if op_is op "sf.fmtl" then
    match args with
    | [VInt kind; v; VStr f] => if utf8_valid f then run_fmt true kind v f else VBad
    | _ => VBad
    end
  else VErr B"NOOP".
