(** C12 dispatcher: maps the `sf.*` case lines to the shared models Model/Strftime.v (item
    iterator) and Model/Format.v (formatter).  No proofs here. *)
From Coq Require Import ZArith List Bool String.
From V Require Import Base.Int Base.IO Model.Items Gen.Strftime.
From V Require Export Model.Strftime Model.Format.
From V Require Model.Date Model.Time Model.DateTime.
Import ListNotations.
Open Scope Z_scope.

(* sf.items <fmt> lenient *)
Definition run_items (s : bytes) (lenient : bool) : val :=
  match sf_take (S (sf_bound s)) (mk_sfi s [] lenient) [] with
  | Val (Some l) => enc_items l
  | Val None => VErr B"Unbounded"
  | Panic => VPanic
  | OutOfFuel => VFuel
  end.

(* decoding of the formatted value by kind *)
Definition dec_value (kind : Z) (v : val) : option (R fmt_args) :=
  if kind =? 0 then option_map (fun d => Val (fa_of_date d)) (DateTime.dec_date v)
  else if kind =? 1 then option_map (fun t => Val (fa_of_time t)) (Time.dec_time v)
  else if kind =? 2 then option_map (fun n => Val (fa_of_ndt n)) (DateTime.dec_ndt v)
  else if kind =? 3 then option_map fa_of_dtz (DateTime.dec_dtz v)
  else if kind =? 4 then option_map fa_of_utc (DateTime.dec_ndt v)
  else None.

Definition run_fmt (lenient : bool) (kind : Z) (v : val) (f : bytes) : val :=
  match dec_value kind v with
  | None => VBad
  | Some ra =>
      match (let* a := ra in delayed_display a (mk_sfi f [] lenient)) with
      | Val (Some s) => VStr s
      | Val None => VErr B"fmt"
      | Panic => VPanic
      | OutOfFuel => VFuel
      end
  end.

(** the deprecated free functions of src/format/formatting.rs (ops sf.dfmt / sf.dfmti):
     pub fn format(w, date, time, off, items):      DelayedFormat { date, time, off, items, locale }.fmt(w)
     pub fn format_item(w, date, time, off, item):  DelayedFormat { .., items: [item].into_iter(), .. }.fmt(w)  *)
Definition format_fn (a : fmt_args) (st : sfi) : fres := delayed_display a st.
Definition format_item_fn (a : fmt_args) (it : Item) : fres := write_items a [it] [].
(* the harness' loop for sf.dfmti: one format_item call per item of the strict iterator, the texts
   concatenated, the first Err ends it *)
Fixpoint per_item (fuel : nat) (a : fmt_args) (st : sfi) (acc : bytes) : fres :=
  match fuel with
  | O => OutOfFuel
  | S f =>
    let* '(o, st') := sf_next st in
    match o with
    | None => fok acc
    | Some it => let+ s := format_item_fn a it in per_item f a st' (acc ++ s)
    end
  end.
Definition per_item_display (a : fmt_args) (st : sfi) : fres :=
  per_item (S (sf_bound (sf_remainder st) + List.length (sf_queue st))) a st [].
(* the harness builds (date, time, off) of a DateTime<FixedOffset> from NaiveDateTime::checked_add_offset
   (overflowing_naive_local is not public): a value whose wall clock is not representable is BADARGS there *)
Definition wall_ok (kind : Z) (v : val) : bool :=
  if kind =? 3 then
    match DateTime.dec_dtz v with
    | Some z => match DateTime.ndt_checked_add_offset (DateTime.dz_utc z) (DateTime.dz_off z) with
                | Val (Some _) => true
                | _ => false
                end
    | None => true
    end
  else true.
Definition run_dfmt (per : bool) (kind : Z) (v : val) (f : bytes) : val :=
  if wall_ok kind v then
    match dec_value kind v with
    | None => VBad
    | Some ra =>
        match (let* a := ra in
               if per then per_item_display a (mk_sfi f [] false) else format_fn a (mk_sfi f [] false)) with
        | Val (Some s) => VStr s
        | Val None => VErr B"fmt"
        | Panic => VPanic
        | OutOfFuel => VFuel
        end
    end
  else VBad.

Definition run (op : bytes) (args : list val) : val :=
  if op_is op "sf.items" then
    match args with
    | [VStr s; VInt l] =>
        if utf8_valid s && ((l =? 0) || (l =? 1)) then run_items s (l =? 1) else VBad
    | _ => VBad
    end
  else if op_is op "sf.fmt" then
    match args with
    | [VInt kind; v; VStr f] => if utf8_valid f then run_fmt false kind v f else VBad
    | _ => VBad
    end
  else if op_is op "sf.fmtl" then
    match args with
    | [VInt kind; v; VStr f] => if utf8_valid f then run_fmt true kind v f else VBad
    | _ => VBad
    end
  else if op_is op "sf.dfmt" then
    match args with
    | [VInt kind; v; VStr f] => if utf8_valid f then run_dfmt false kind v f else VBad
    | _ => VBad
    end
  else if op_is op "sf.dfmti" then
    match args with
    | [VInt kind; v; VStr f] => if utf8_valid f then run_dfmt true kind v f else VBad
    | _ => VBad
    end
  else VErr B"NOOP".
