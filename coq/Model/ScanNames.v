(** Shared executable model of the name scanners of src/format/scan.rs:
      short_month0, short_weekday, short_or_long_month0, short_or_long_weekday
    with the string primitives they use (str::is_char_boundary / [&s[i..]],
    u8::to_ascii_lowercase / eq_ignore_ascii_case), the ParseErrorKind names, a UTF-8 validity
    test (the Rust functions take [&str]; a case argument must be valid UTF-8 to be a value of that
    type), and the two Weekday functions the scanners call (days_since, num_days_from_monday).

    Strings are [bytes] = [list Z].  Weekdays and months are their enum discriminants
    (Weekday::Mon = 0 .. Sun = 6, month0 = 0 .. 11).  All tables come from Gen/NameTables.v and
    Gen/WdMo.v (regenerated from the Rust source on every run).  No proofs here. *)
From Coq Require Import ZArith List Bool String.
From V Require Import Base.Int Base.IO Gen.NameTables Gen.WdMo.
Import ListNotations.
Open Scope Z_scope.

(** ** ParseErrorKind / ParseResult *)
Inductive perr := OutOfRange | Impossible | NotEnough | Invalid | TooShort | TooLong | BadFormat.
Definition perr_name (e : perr) : bytes :=
  match e with
  | OutOfRange => B"OutOfRange" | Impossible => B"Impossible" | NotEnough => B"NotEnough"
  | Invalid => B"Invalid" | TooShort => B"TooShort" | TooLong => B"TooLong" | BadFormat => B"BadFormat"
  end.
Inductive presult (A : Type) : Type := POk (a : A) | PErr (e : perr).
Arguments POk {A} a.
Arguments PErr {A} e.

(** ** str primitives *)
Definition blen (s : bytes) : Z := Z.of_nat (List.length s).

(* u8::is_utf8_char_boundary: (b as i8) >= -0x40 *)
Definition is_utf8_char_boundary (b : Z) : bool := as_i8 b >=? -64.
(* str::is_char_boundary *)
Definition is_char_boundary (s : bytes) (i : Z) : bool :=
  if i =? 0 then true
  else if blen s <=? i then i =? blen s
  else match nth_z_aux s (Z.to_nat i) with Some b => is_utf8_char_boundary b | None => false end.
(* &s[i..] on a str: traps unless i is a char boundary (which implies i <= len) *)
Definition str_from (s : bytes) (i : Z) : R bytes :=
  if (0 <=? i) && is_char_boundary s i then Val (skipn (Z.to_nat i) s) else Panic.
(* &b[..n] on a byte slice: traps when n > len *)
Definition slice_to (s : bytes) (n : Z) : R bytes :=
  if (0 <=? n) && (n <=? blen s) then Val (firstn (Z.to_nat n) s) else Panic.

(* u8::to_ascii_lowercase: *self | ((self.is_ascii_uppercase() as u8) * 0x20) *)
Definition is_ascii_uppercase (c : Z) : bool := (65 <=? c) && (c <=? 90).
Definition to_ascii_lowercase (c : Z) : Z := Z.lor c ((if is_ascii_uppercase c then 1 else 0) * 32).
Definition u8_eq_ignore_ascii_case (a b : Z) : bool := to_ascii_lowercase a =? to_ascii_lowercase b.
Fixpoint all2 (f : Z -> Z -> bool) (a b : bytes) : bool :=
  match a, b with
  | x :: a', y :: b' => f x y && all2 f a' b'
  | _, _ => true
  end.
(* <[u8]>::eq_ignore_ascii_case: equal lengths and pairwise equal ignoring ASCII case *)
Definition eq_ignore_ascii_case (a b : bytes) : bool :=
  (blen a =? blen b) && all2 u8_eq_ignore_ascii_case a b.

(** UTF-8 well-formedness (Unicode table 3-7), i.e. what core::str::from_utf8 accepts. *)
Definition cont (b : Z) : bool := (128 <=? b) && (b <=? 191).
Fixpoint utf8_valid_fuel (fuel : nat) (s : bytes) : bool :=
  match fuel with
  | O => false
  | S f =>
    match s with
    | [] => true
    | a :: r =>
      if (0 <=? a) && (a <=? 127) then utf8_valid_fuel f r
      else if (194 <=? a) && (a <=? 223) then
        match r with b :: r' => cont b && utf8_valid_fuel f r' | _ => false end
      else if (224 <=? a) && (a <=? 239) then
        match r with
        | b :: c :: r' =>
            (if a =? 224 then (160 <=? b) && (b <=? 191)
             else if a =? 237 then (128 <=? b) && (b <=? 159) else cont b)
            && cont c && utf8_valid_fuel f r'
        | _ => false end
      else if (240 <=? a) && (a <=? 244) then
        match r with
        | b :: c :: d :: r' =>
            (if a =? 240 then (144 <=? b) && (b <=? 191)
             else if a =? 244 then (128 <=? b) && (b <=? 143) else cont b)
            && cont c && cont d && utf8_valid_fuel f r'
        | _ => false end
      else false
    end
  end.
Definition utf8_valid (s : bytes) : bool := utf8_valid_fuel (S (List.length s)) s.

(** ** The fragment of src/weekday.rs the scanners call (the rest is in Model/C19.v) *)
Definition is_weekday (w : Z) : bool := existsb (Z.eqb w) WD_ALL.
(* pub const fn days_since(&self, other: Weekday) -> u32 *)
Definition wd_days_since (w other : Z) : R Z :=
  let lhs := as_u32 w in
  let rhs := as_u32 other in
  if lhs <? rhs then let* a := add_u32 WD_SINCE_WRAP lhs in sub_u32 a rhs
  else sub_u32 lhs rhs.
(* pub const fn num_days_from_monday(&self) -> u32 { self.days_since(Weekday::Mon) } *)
Definition wd_num_days_from_monday (w : Z) : R Z :=
  let* d := wd_days_since w WD_NDFM_BASE in add_u32 d WD_NDFM_ADD.

(** ** Table helpers *)
Fixpoint assoc_bytes (k : bytes) (t : list (bytes * Z)) : option Z :=
  match t with
  | [] => None
  | (k', v) :: r => if bytes_eqb k k' then Some v else assoc_bytes k r
  end.
(* the scrutinee tuple (buf[i0] | b0, buf[i1] | b1, ...) *)
Fixpoint short_key (idx bits : list Z) (buf : bytes) : R bytes :=
  match idx, bits with
  | i :: idx', b :: bits' =>
      let* c := index buf i in
      let* r := short_key idx' bits' buf in
      Val (Z.lor c b :: r)
  | _, _ => Val []
  end.

(** ** The scanners *)
(* pub(super) fn short_month0(s: &str) -> ParseResult<(&str, u8)> *)
Definition short_month0 (s : bytes) : R (presult (bytes * Z)) :=
  if blen s <? SM_LEN then Val (PErr TooShort) else
  let* key := short_key SM_IDX SM_BITS s in
  match assoc_bytes key SM_TABLE with
  | None => Val (PErr Invalid)
  | Some month0 => let* rest := str_from s SM_REST in Val (POk (rest, month0))
  end.

(* pub(super) fn short_weekday(s: &str) -> ParseResult<(&str, Weekday)> *)
Definition short_weekday (s : bytes) : R (presult (bytes * Z)) :=
  if blen s <? SW_LEN then Val (PErr TooShort) else
  let* key := short_key SW_IDX SW_BITS s in
  match assoc_bytes key SW_TABLE with
  | None => Val (PErr Invalid)
  | Some weekday => let* rest := str_from s SW_REST in Val (POk (rest, weekday))
  end.

(* the common tail: "tries to consume the suffix if possible" *)
Definition consume_suffix (s suffix : bytes) : R bytes :=
  if blen s >=? blen suffix then
    let* pre := slice_to s (blen suffix) in
    if eq_ignore_ascii_case pre suffix then str_from s (blen suffix) else Val s
  else Val s.

(* pub(super) fn short_or_long_month0(s: &str) -> ParseResult<(&str, u8)> *)
Definition short_or_long_month0 (s : bytes) : R (presult (bytes * Z)) :=
  let* r := short_month0 s in
  match r with
  | PErr e => Val (PErr e)
  | POk (s1, month0) =>
      let* suffix := index LONG_MONTH_SUFFIXES (as_usize month0) in
      let* s2 := consume_suffix s1 suffix in
      Val (POk (s2, month0))
  end.

(* pub(super) fn short_or_long_weekday(s: &str) -> ParseResult<(&str, Weekday)> *)
Definition short_or_long_weekday (s : bytes) : R (presult (bytes * Z)) :=
  let* r := short_weekday s in
  match r with
  | PErr e => Val (PErr e)
  | POk (s1, weekday) =>
      let* n := wd_num_days_from_monday weekday in
      let* suffix := index LONG_WEEKDAY_SUFFIXES (as_usize n) in
      let* s2 := consume_suffix s1 suffix in
      Val (POk (s2, weekday))
  end.
