(** Executable model of the zone selection and the per-thread cache of [Local] on unix:
    src/offset/local/unix.rs (Source, Cache, Cache::default, Cache::offset, current_zone,
    fallback_timezone, TZ_INFO), TimeZone::local / from_posix_tz / find_tz_file in
    src/offset/local/tz_info/timezone.rs and the glue in src/offset/local/mod.rs, as a state machine
    over a world (TZ variable, wall clock, monotonic clock, mtime of /etc/localtime, file table).

    NOT modelled (oracles, passed in explicitly): reading and parsing a TZif file ([w_files]: path ->
    does it open / does it parse / which zone), parsing a POSIX rule ([o_rule]), the hasher of the
    TZ string ([o_hash]), iana_time_zone ([o_iana]) and the lookup of an offset inside one zone
    ([o_answer]).  The literals come from Gen/LocalCache.v (regenerated from the source).
    No proofs here. *)
From Coq Require Import ZArith List Bool String.
From V Require Import Base.Int Base.IO Gen.LocalCache.
Import ListNotations.
Open Scope Z_scope.

Definition NANOS_PER_SEC : Z := 1000000000.

(** str::from_utf8 (what [env::var] requires of the value): well-formed UTF-8, Unicode table 3-7 *)
Definition is_cont (b : Z) : bool := (128 <=? b) && (b <=? 191).
Fixpoint utf8_valid (s : bytes) : bool :=
  match s with
  | [] => true
  | b0 :: r =>
    if (0 <=? b0) && (b0 <? 128) then utf8_valid r
    else if (194 <=? b0) && (b0 <=? 223) then
      match r with b1 :: r1 => is_cont b1 && utf8_valid r1 | _ => false end
    else if (224 <=? b0) && (b0 <=? 239) then
      match r with
      | b1 :: b2 :: r2 =>
          (if b0 =? 224 then (160 <=? b1) && (b1 <=? 191)
           else if b0 =? 237 then (128 <=? b1) && (b1 <=? 159) else is_cont b1)
          && is_cont b2 && utf8_valid r2
      | _ => false
      end
    else if (240 <=? b0) && (b0 <=? 244) then
      match r with
      | b1 :: b2 :: b3 :: r3 =>
          (if b0 =? 240 then (144 <=? b1) && (b1 <=? 191)
           else if b0 =? 244 then (128 <=? b1) && (b1 <=? 143) else is_cont b1)
          && is_cont b2 && is_cont b3 && utf8_valid r3
      | _ => false
      end
    else false
  end.

(** char::is_ascii_whitespace: space, \t, \n, form feed, \r *)
Definition is_ascii_whitespace (c : Z) : bool :=
  (c =? 32) || (c =? 9) || (c =? 10) || (c =? 12) || (c =? 13).
Fixpoint trim_start (s : bytes) : bytes :=
  match s with c :: r => if is_ascii_whitespace c then trim_start r else s | [] => [] end.
Definition trim_ws (s : bytes) : bytes := rev (trim_start (rev (trim_start s))).

Section LocalCache.
  Context {zone HASH ARG ANS : Type}.

  (** What the model does not look into. *)
  Record oracle := {
    o_utc : zone;                               (* TimeZone::utc() *)
    o_rule : bytes -> option zone;              (* TransitionRule::from_tz_string + TimeZone::new, None = Err *)
    o_iana : option bytes;                      (* iana_time_zone::get_timezone().ok() *)
    o_hash : bytes -> HASH;                     (* DefaultHasher over the bytes of the value *)
    o_hash_eqb : HASH -> HASH -> bool;
    o_answer : zone -> bool -> ARG -> ANS       (* find_local_time_type[_from_local] + FixedOffset::east_opt (+ unwrap in mod.rs) *)
  }.

  (** The world outside the thread.  [w_files p]: [None] = the path cannot be opened;
      [Some None] = it opens but reading or parsing fails; [Some (Some z)] = it holds zone z. *)
  Record world := {
    w_tz : option bytes;        (* the TZ variable: raw bytes, None = unset *)
    w_wall : Z;                 (* SystemTime::now(), ns *)
    w_mono : Z;                 (* Instant::now(), ns *)
    w_mtime : option Z;         (* symlink_metadata("/etc/localtime")?.modified(), None = unavailable *)
    w_files : bytes -> option (option zone)
  }.

  Variable O : oracle.
  (** which clock stamps the cache (Gen.LC_CLOCK_MONOTONIC for the tree under test) *)
  Variable monotonic : bool.

  (* env::var("TZ").ok() : set and valid UTF-8 *)
  Definition env_var (w : world) (name : bytes) : option bytes :=
    if bytes_eqb name (B"TZ") then
      match w_tz w with Some b => if utf8_valid b then Some b else None | None => None end
    else None.

  Inductive source :=
  | LocalTime (mtime : Z)
  | Environment (hash : HASH).

  (* Source::new *)
  Definition source_new (w : world) (env_tz : option bytes) : source :=
    match env_tz with
    | Some tz => Environment (o_hash O tz)
    | None =>
        match w_mtime w with
        | Some m => LocalTime m
        | None => LocalTime (w_wall w)      (* SystemTime::now() as the default *)
        end
    end.

  (* Path::is_absolute on unix *)
  Definition is_absolute (p : bytes) : bool := match p with 47 :: _ => true | _ => false end.
  (* PathBuf::from(folder).join(path) for a relative path (folder has no trailing slash) *)
  Definition path_join (folder path : bytes) : bytes := folder ++ 47 :: path.

  (* the loop of find_tz_file *)
  Fixpoint find_in_dirs (w : world) (dirs : list bytes) (path : bytes) : option (option zone) :=
    match dirs with
    | [] => None                                            (* Err(NotFound) *)
    | folder :: rest =>
        match w_files w (path_join folder path) with
        | Some file => Some file
        | None => find_in_dirs w rest path
        end
    end.
  (* find_tz_file: the "file" is represented by what from_file will make of it *)
  Definition find_tz_file (w : world) (path : bytes) : option (option zone) :=
    if is_absolute path then w_files w path
    else find_in_dirs w LC_ZONE_INFO_DIRECTORIES path.

  (* fs::read(p)? then from_tz_data *)
  Definition read_zone (w : world) (p : bytes) : option zone :=
    match w_files w p with Some (Some z) => Some z | _ => None end.

  (* TimeZone::from_posix_tz; None = Err(_) *)
  Definition from_posix_tz (w : world) (tz_string : bytes) : option zone :=
    match tz_string with
    | [] => Some (o_utc O)
    | c0 :: rest =>
      if bytes_eqb tz_string LC_LOCALTIME_NAME then read_zone w LC_LOCALTIME_FILE
      else if c0 =? LC_FILE_PREFIX then
        match find_tz_file w rest with
        | Some file => file                 (* from_file *)
        | None => None                      (* the `?` *)
        end
      else
        match find_tz_file w tz_string with
        | Some file => file                 (* return Self::from_file(&mut file) *)
        | None => o_rule O (trim_ws tz_string)
        end
    end.

  (* TimeZone::local *)
  Definition tz_local (w : world) (env_tz : option bytes) : option zone :=
    match env_tz with
    | Some tz => from_posix_tz w tz
    | None => from_posix_tz w LC_UNSET_NAME
    end.

  (* fallback_timezone *)
  Definition fallback_timezone (w : world) : option zone :=
    match o_iana O with
    | None => None
    | Some tz_name => read_zone w (LC_TZDB_LOCATION ++ 47 :: tz_name)
    end.

  (* current_zone: local(var).ok().or_else(fallback_timezone).unwrap_or_else(utc) *)
  Definition current_zone (w : world) (var : option bytes) : zone :=
    match tz_local w var with
    | Some z => z
    | None => match fallback_timezone w with Some z => z | None => o_utc O end
    end.

  Record cache := { c_zone : zone; c_source : source; c_last_checked : Z }.

  (* the clock that stamps the cache *)
  Definition cache_now (w : world) : Z := if monotonic then w_mono w else w_wall w.

  (* impl Default for Cache *)
  Definition cache_default (w : world) : cache :=
    let env_tz := env_var w LC_ENV_NAME in
    {| c_last_checked := cache_now w;
       c_source := source_new w env_tz;
       c_zone := current_zone w env_tz |}.

  (* now.duration_since(earlier): Err when earlier is later than now *)
  Definition duration_since (now earlier : Z) : option Z :=
    if earlier <=? now then Some (now - earlier) else None.
  Definition as_secs (d : Z) : Z := d / NANOS_PER_SEC.

  Definition out_of_date (old new : source) : bool :=
    match old, new with
    | Environment _, LocalTime _ => true
    | LocalTime _, Environment _ => true
    | LocalTime old_mtime, LocalTime mtime => negb (old_mtime =? mtime)
    | Environment old_hash, Environment hash => negb (o_hash_eqb O old_hash hash)
    end.

  (* the `Ok(_) | Err(_)` arm of Cache::offset *)
  Definition cache_refresh (w : world) (c : cache) : cache :=
    let env_tz := env_var w LC_ENV_NAME in
    let new_source := source_new w env_tz in
    {| c_zone := if out_of_date (c_source c) new_source then current_zone w env_tz else c_zone c;
       c_last_checked := cache_now w;
       c_source := new_source |}.

  (* the first half of Cache::offset: reuse or re-check *)
  Definition cache_check (w : world) (c : cache) : cache :=
    match duration_since (cache_now w) (c_last_checked c) with
    | Some d => if LC_REUSE (as_secs d) then c else cache_refresh w c
    | None => cache_refresh w c
    end.

  (* Cache::offset: the answer is read from the one zone held after the check *)
  Definition cache_offset (w : world) (c : cache) (local : bool) (d : ARG) : cache * ANS :=
    let c' := cache_check w c in (c', o_answer O (c_zone c') local d).

  (* offset(d, local): TZ_INFO.with(|c| c.borrow_mut().get_or_insert_with(Cache::default).offset(d, local)) *)
  Definition tl_offset (w : world) (tl : option cache) (local : bool) (d : ARG) : option cache * ANS :=
    let c := match tl with Some c => c | None => cache_default w end in
    let '(c', a) := cache_offset w c local d in (Some c', a).

  (** ** The state machine: one process, a stack of threads (the top one runs). *)
  Inductive op :=
  | SetTZ (v : bytes)            (* std::env::set_var("TZ", v) *)
  | UnsetTZ                      (* std::env::remove_var("TZ") *)
  | Advance (dt : Z)             (* time passes: both clocks move by dt *)
  | ClockStep (dt : Z)           (* the wall clock is set forward/backward by dt; the monotonic clock is not *)
  | Touch (m : option Z)         (* /etc/localtime is replaced: new mtime *)
  | Convert (local : bool) (d : ARG)   (* Local.from_local_datetime / from_utc_datetime on the running thread *)
  | Spawn                        (* continue on a freshly spawned thread (TZ_INFO = None) *)
  | Join.                        (* that thread ends; back on the spawning thread *)

  Record state := { st_world : world; st_cur : option cache; st_stack : list (option cache) }.

  Definition set_tz (w : world) (v : option bytes) : world :=
    {| w_tz := v; w_wall := w_wall w; w_mono := w_mono w; w_mtime := w_mtime w; w_files := w_files w |}.
  Definition set_clocks (w : world) (wall mono : Z) : world :=
    {| w_tz := w_tz w; w_wall := wall; w_mono := mono; w_mtime := w_mtime w; w_files := w_files w |}.
  Definition set_mtime (w : world) (m : option Z) : world :=
    {| w_tz := w_tz w; w_wall := w_wall w; w_mono := w_mono w; w_mtime := m; w_files := w_files w |}.
  Definition with_world (s : state) (w : world) : state :=
    {| st_world := w; st_cur := st_cur s; st_stack := st_stack s |}.

  Definition step (s : state) (o : op) : state * option ANS :=
    let w := st_world s in
    match o with
    | SetTZ v => (with_world s (set_tz w (Some v)), None)
    | UnsetTZ => (with_world s (set_tz w None), None)
    | Advance dt => (with_world s (set_clocks w (w_wall w + dt) (w_mono w + dt)), None)
    | ClockStep dt => (with_world s (set_clocks w (w_wall w + dt) (w_mono w)), None)
    | Touch m => (with_world s (set_mtime w m), None)
    | Convert local d =>
        let '(tl, a) := tl_offset w (st_cur s) local d in
        ({| st_world := w; st_cur := tl; st_stack := st_stack s |}, Some a)
    | Spawn => ({| st_world := w; st_cur := None; st_stack := st_cur s :: st_stack s |}, None)
    | Join =>
        match st_stack s with
        | parent :: rest => ({| st_world := w; st_cur := parent; st_stack := rest |}, None)
        | [] => (s, None)
        end
    end.

  (* the answers of a history, in order *)
  Fixpoint run_ops (s : state) (ops : list op) : state * list ANS :=
    match ops with
    | [] => (s, [])
    | o :: rest =>
        let '(s1, a) := step s o in
        let '(s2, l) := run_ops s1 rest in
        (s2, match a with Some x => x :: l | None => l end)
    end.

  Definition init_state (w : world) : state := {| st_world := w; st_cur := None; st_stack := [] |}.
End LocalCache.

Arguments oracle : clear implicits.
Arguments world : clear implicits.
Arguments op : clear implicits.

(** ** The executable instance used by the correspondence run.
    A zone is a fixed offset, or one offset before an instant and a larger one from then on (so
    that the two directions of a conversion differ); the "hash" is the string itself (the real
    hasher is not modelled; distinct strings are assumed to hash differently).
    Case:  lc.history steps (files, rules, iana) times
      steps: see harness/src/ops/c18.rs
      files = ((x<path>, some(off) | some((off1,year,ordinal,secs,off2)) | none), ...)
      rules = ((x<trimmed rule text>, off), ...)      iana = some(x<name>) | none
      times = one (wall0, mono0, wall1, mono1) per step, as measured by the implementation run
              (only the readings taken before a conversion are used here). *)
Definition in_off (z : Z) : bool := (-86400 <? z) && (z <? 86400).

Record xzone := { z_off : Z; z_step : option (Z * Z * Z * Z) }.   (* (year, ordinal, secs, offset after) *)
Definition zfixed (o : Z) : xzone := {| z_off := o; z_step := None |}.

Definition lt3 (a b : Z * Z * Z) : bool :=
  let '(y1, o1, s1) := a in let '(y2, o2, s2) := b in
  (y1 <? y2) || ((y1 =? y2) && ((o1 <? o2) || ((o1 =? o2) && (s1 <? s2)))).
Definition le3 (a b : Z * Z * Z) : bool := negb (lt3 b a).

(* the lookup inside one zone (find_local_time_type / find_local_time_type_from_local for a file
   without footer, then FixedOffset::east_opt and, for the instant direction, the unwrap of mod.rs):
   the instant direction answers an offset, the wall-clock direction none/one offset *)
Definition xanswer (z : xzone) (local : bool) (d : Z * Z * Z) : val :=
  match z_step z with
  | None => if local then VTup [VInt (z_off z)] else VInt (z_off z)
  | Some (y, o, s, after) =>
      if local then
        if le3 d (y, o, s + z_off z) then VTup [VInt (z_off z)]
        else if lt3 d (y, o, s + after) then VTup []
        else VTup [VInt after]
      else if le3 (y, o, s) d then VInt after else VInt (z_off z)
  end.

Fixpoint assoc {A} (k : bytes) (l : list (bytes * A)) : option A :=
  match l with [] => None | (k', v) :: r => if bytes_eqb k k' then Some v else assoc k r end.

Definition dec_zone (z : val) : option (option xzone) :=
  match z with
  | VNone => Some None
  | VSome (VInt o) => if in_off o then Some (Some (zfixed o)) else None
  | VSome (VTup [VInt o1; VInt y; VInt ord; VInt s; VInt o2]) =>
      if in_off o1 && in_off o2 && (o1 <? o2) && (0 <=? s + o1) && (s + o2 <? 86400) && (0 <=? s)
      then Some (Some {| z_off := o1; z_step := Some (y, ord, s, o2) |}) else None
  | _ => None
  end.
Fixpoint dec_files (l : list val) : option (list (bytes * option xzone)) :=
  match l with
  | [] => Some []
  | VTup [VStr p; z] :: r =>
      match dec_zone z, dec_files r with
      | Some e, Some t => if utf8_valid p then Some ((p, e) :: t) else None
      | _, _ => None
      end
  | _ => None
  end.
Fixpoint dec_rules (l : list val) : option (list (bytes * Z)) :=
  match l with
  | [] => Some []
  | VTup [VStr p; VInt o] :: r =>
      match dec_rules r with Some t => if in_off o then Some ((p, o) :: t) else None | None => None end
  | _ => None
  end.

Record xworld := { x_files : list (bytes * option xzone); x_rules : list (bytes * Z); x_iana : option bytes }.
Definition dec_world (v : val) : option xworld :=
  match v with
  | VTup [VTup f; VTup r; i] =>
      match dec_files f, dec_rules r, (match i with VNone => Some None | VSome (VStr n) => Some (Some n) | _ => None end) with
      | Some f', Some r', Some i' => Some {| x_files := f'; x_rules := r'; x_iana := i' |}
      | _, _, _ => None
      end
  | _ => None
  end.

(* steps as the harness decodes them *)
Inductive xstep :=
| XSet (v : bytes) | XUnset | XSleep | XConv (local : bool) (d : Z * Z * Z) | XSpawn | XJoin | XSkip | XClockStep.

Definition dec_ndt (v : val) : option (Z * Z * Z) :=
  match v with
  | VTup [VInt y; VInt o; VInt s; VInt f] =>
      (* what the harness accepts: a date in 1971..2037, time of day with an optional leap fraction *)
      let leap := ((y mod 4 =? 0) && negb (y mod 100 =? 0)) || (y mod 400 =? 0) in
      if (1971 <=? y) && (y <=? 2037) && (1 <=? o) && (o <=? (if leap then 366 else 365))
         && (0 <=? s) && (s <? 86400) && (0 <=? f) && (f <? 2000000000)
      then Some (y, o, s) else None
  | _ => None
  end.

Definition dec_step (v : val) : option xstep :=
  match v with
  | VTup [VInt 0; VStr b] => if existsb (fun c => c =? 0) b then None else Some (XSet b)
  | VTup [VInt 1] => Some XUnset
  | VTup [VInt 2; VInt ms] => if (0 <=? ms) && (ms <=? 5000) then Some XSleep else None
  | VTup [VInt 3; VInt d; t] =>
      match dec_ndt t with
      | Some n => if (d =? 0) || (d =? 1) then Some (XConv (d =? 1) n) else None
      | None => None
      end
  | VTup [VInt 4] => Some XSpawn
  | VTup [VInt 5] => Some XJoin
  | VTup [VInt 6; VInt ms] => if (0 <=? ms) && (ms <=? 100000000) then Some XSkip else None
  | VTup [VInt 7; VInt ms] => if (-100000000 <=? ms) && (ms <=? 100000000) then Some XClockStep else None
  | _ => None
  end.
Fixpoint dec_steps (l : list val) : option (list xstep) :=
  match l with
  | [] => Some []
  | v :: r => match dec_step v, dec_steps r with Some s, Some t => Some (s :: t) | _, _ => None end
  end.
Fixpoint dec_times (l : list val) : option (list (Z * Z)) :=
  match l with
  | [] => Some []
  | VTup [VInt w0; VInt m0; VInt w1; VInt m1] :: r =>
      match dec_times r with Some t => Some ((w0, m0) :: t) | None => None end
  | _ => None
  end.

Definition xoracle (x : xworld) : oracle xzone bytes (Z * Z * Z) val :=
  {| o_utc := zfixed 0;
     o_rule := fun s => match assoc s (x_rules x) with Some o => Some (zfixed o) | None => None end;
     o_iana := x_iana x;
     o_hash := fun s => s;
     o_hash_eqb := bytes_eqb;
     o_answer := xanswer |}.

Definition xinit (x : xworld) : world xzone :=
  {| w_tz := None; w_wall := 0; w_mono := 0; w_mtime := Some 0;
     w_files := fun p => assoc p (x_files x) |}.

(* measured readings become clock movements just before each conversion: first the time that
   really passed (monotonic reading), then whatever else happened to the wall clock *)
Fixpoint ops_of (steps : list xstep) (times : list (Z * Z)) (wall mono : Z) : option (list (op (Z * Z * Z))) :=
  match steps, times with
  | [], [] => Some []
  | s :: rs, (w0, m0) :: rt =>
      match s with
      | XConv local d =>
          match ops_of rs rt w0 m0 with
          | Some l => Some (Advance (m0 - mono) :: ClockStep (w0 - (wall + (m0 - mono))) :: Convert local d :: l)
          | None => None
          end
      | _ =>
          match ops_of rs rt wall mono with
          | Some l =>
              Some (match s with
                    | XSet v => SetTZ v :: l
                    | XUnset => UnsetTZ :: l
                    | XSpawn => Spawn :: l
                    | XJoin => Join :: l
                    | _ => l
                    end)
          | None => None
          end
      end
  | _, _ => None
  end.

Definition history (x : xworld) (steps : list xstep) (times : list (Z * Z)) : val :=
  match ops_of steps times 0 0 with
  | Some ops => VTup (snd (run_ops (xoracle x) LC_CLOCK_MONOTONIC (init_state (xinit x)) ops))
  | None => VBad
  end.

Definition run (op : bytes) (args : list val) : val :=
  if op_is op "lc.history" then
    match args with
    | [VTup steps; w; VTup times] =>
        match dec_world w, dec_steps steps, dec_times times with
        | Some x, Some s, Some t => history x s t
        | _, _, _ => VBad
        end
    | _ => VBad
    end
  else VErr B"NOOP".
