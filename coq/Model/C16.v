(** C16 dispatcher: the ops of the case protocol for the TZif / POSIX-TZ readers
    (Model/TzParser.v, Model/TzRule.v) and the lookups on an accepted zone (Model/TzLookup.v).
    Values are encoded exactly as harness/src/ops/c16.rs does. *)
From Coq Require Import ZArith List Bool String.
From V Require Import Base.Int Base.IO Spec.Gregorian.
From V Require Import Model.TzParser Model.TzRule Model.TzLookup.
Import ListNotations.
Open Scope Z_scope.

Definition enc_err (e : tzerr) : val := VErr (tzerr_name e).
Definition enc_ltt (l : ltt) : val :=
  VTup [VInt (ut_offset l); val_of_bool (is_dst l); VStr (match name l with Some n => n | None => [] end)].
Definition enc_day (d : rule_day) : val :=
  match d with
  | Julian0WithLeap n => VTup [VInt 0; VInt n; VInt 0; VInt 0]
  | Julian1WithoutLeap n => VTup [VInt 1; VInt n; VInt 0; VInt 0]
  | MonthWeekday m w wd => VTup [VInt 2; VInt m; VInt w; VInt wd]
  end.
Definition enc_rule (r : trule) : val :=
  match r with
  | Fixed l => VTup [enc_ltt l]
  | Alternate a => VTup [enc_ltt (a_std a); enc_ltt (a_dst a); enc_day (dst_start a); VInt (dst_start_time a);
                         enc_day (dst_end a); VInt (dst_end_time a)]
  end.
Definition enc_zone (z : timezone) : val :=
  VTup [VTup (map (fun t => VTup [VInt (tr_time t); VInt (tr_idx t)]) (transitions z));
        VTup (map enc_ltt (local_time_types z));
        VTup (map (fun l => VTup [VInt (lp_time l); VInt (lp_corr l)]) (leap_seconds z));
        match extra_rule z with Some r => VSome (enc_rule r) | None => VNone end].
Definition enc_mlt (m : mlt ltt) : val :=
  match m with
  | MNone => VTup []
  | MSingle a => VTup [enc_ltt a]
  | MAmbiguous a b => VTup [enc_ltt a; enc_ltt b]
  end.
Definition val_of_rr {A} (f : A -> val) (x : R (res A)) : val :=
  match x with
  | Val (Ok a) => f a
  | Val (Err e) => enc_err e
  | Panic => VPanic
  | OutOfFuel => VFuel
  end.

Definition arg_flag (v : val) : option bool :=
  match v with VInt 0 => Some false | VInt 1 => Some true | _ => None end.
Definition arg_i64 (v : val) : option Z :=
  match v with VInt z => if in_i64 z then Some z else None | _ => None end.
(* naive date-time (year, ordinal, secs, frac) -> (local_time.year(), and_utc().timestamp()) *)
Definition arg_ndt (v : val) : option (Z * Z) :=
  match v with
  | VTup [VInt y; VInt o; VInt s; VInt f] =>
      if year_in_range y && valid_yo y o && (0 <=? s) && (s <? 86400) && (0 <=? f) && (f <? 2000000000)
      then Some (y, unix_secs (dn_of_yo y o) s) else None
  | _ => None
  end.
Fixpoint all_some {A X} (f : A -> option X) (l : list A) : option (list X) :=
  match l with
  | [] => Some []
  | a :: r => match f a, all_some f r with Some x, Some xs => Some (x :: xs) | _, _ => None end
  end.

(* Zone::from_tz_string of the hook: the rule, then TimeZone::new(vec![], types, vec![], Some(rule)) *)
Definition zone_of_tz_string (s : bytes) (ext : bool) : R (res timezone) :=
  let+ rule := from_tz_string s ext in
  tz_new [] (match rule with Fixed l => [l] | Alternate a => [a_std a; a_dst a] end) [] (Some rule).

Definition lookups {X} (z : R (res timezone)) (xs : list X) (f : timezone -> X -> val) : val :=
  val_of_rr (fun z => VTup (map (f z) xs)) z.

Definition run (op : bytes) (args : list val) : val :=
  if op_is op "tz.parse" then
    match args with [VStr b] => val_of_rr enc_zone (parse b) | _ => VBad end
  else if op_is op "tz.rule" then
    match args with
    | [VStr s; e] =>
        match arg_flag e with
        | Some ext => val_of_rr (fun z => match extra_rule z with Some r => enc_rule r | None => VErr B"NORULE" end)
                                (zone_of_tz_string s ext)
        | None => VBad end
    | _ => VBad end
  else if op_is op "tz.at" then
    match args with
    | [VStr b; VTup ts] =>
        match all_some arg_i64 ts with
        | Some ts => lookups (parse b) ts (fun z t => val_of_rr enc_ltt (find_local_time_type z t))
        | None => VBad end
    | _ => VBad end
  else if op_is op "tz.rat" then
    match args with
    | [VStr s; e; VTup ts] =>
        match arg_flag e, all_some arg_i64 ts with
        | Some ext, Some ts => lookups (zone_of_tz_string s ext) ts (fun z t => val_of_rr enc_ltt (find_local_time_type z t))
        | _, _ => VBad end
    | _ => VBad end
  else if op_is op "tz.atlocal" then
    match args with
    | [VStr b; VTup ns] =>
        match all_some arg_ndt ns with
        | Some ns => lookups (parse b) ns (fun z '(y, t) => val_of_rr enc_mlt (find_local_time_type_from_local z y t))
        | None => VBad end
    | _ => VBad end
  else if op_is op "tz.ratlocal" then
    match args with
    | [VStr s; e; VTup ns] =>
        match arg_flag e, all_some arg_ndt ns with
        | Some ext, Some ns => lookups (zone_of_tz_string s ext) ns (fun z '(y, t) => val_of_rr enc_mlt (find_local_time_type_from_local z y t))
        | _, _ => VBad end
    | _ => VBad end
  else VErr B"NOOP".
