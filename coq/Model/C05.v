(** C05 model: the glue between [Local] and the zone lookups.

    - [Cache::offset] of src/offset/local/unix.rs *after* the cache refresh (the refresh itself,
      the environment and the file system are C18's): direction switch, [expect], the
      [FixedOffset::east_opt] filter;
    - [impl TimeZone for Local] of src/offset/local/mod.rs ([offset_from_local_datetime],
      [offset_from_utc_datetime] with its [unwrap]);
    - the provided methods [TimeZone::from_local_datetime] / [from_utc_datetime] and
      [MappedLocalTime::{single, earliest, latest, map, and_then, unwrap}] of src/offset/mod.rs.
    The lookups themselves are Model/TzLookup.v + Model/TzRule.v, the readers Model/TzParser.v
    (all shared with C16).  Then the dispatcher of the [lz.*] ops; values are encoded exactly as
    harness/src/ops/c05.rs does.  No proofs here. *)
From Coq Require Import ZArith List Bool String.
From V Require Import Base.Int Base.IO.
From V Require Import Model.TzParser Model.TzRule Model.TzLookup.
From V Require Model.Date Model.Time Model.DateTime Model.C16.
From V Require Model.Scan Model.Show Model.FromStr Model.C02 Model.TimeDelta.
Import ListNotations.
Open Scope Z_scope.

(** ** MappedLocalTime (src/offset/mod.rs); the type is TzTypes.mlt *)
Definition mlt_single {A} (m : mlt A) : option A :=
  match m with MSingle t => Some t | _ => None end.
Definition mlt_earliest {A} (m : mlt A) : option A :=
  match m with MSingle t => Some t | MAmbiguous t _ => Some t | MNone => None end.
Definition mlt_latest {A} (m : mlt A) : option A :=
  match m with MSingle t => Some t | MAmbiguous _ t => Some t | MNone => None end.
Definition mlt_map {A C} (m : mlt A) (f : A -> C) : mlt C :=
  match m with
  | MNone => MNone
  | MSingle v => MSingle (f v)
  | MAmbiguous a b => MAmbiguous (f a) (f b)
  end.
Definition mlt_and_then {A C} (m : mlt A) (f : A -> option C) : mlt C :=
  match m with
  | MNone => MNone
  | MSingle v => match f v with Some n => MSingle n | None => MNone end
  | MAmbiguous a b => match f a, f b with Some x, Some y => MAmbiguous x y | _, _ => MNone end
  end.
(* the same with a closure that may trap; Rust evaluates (f(min), f(max)) left to right *)
Definition mlt_and_then_r {A C} (m : mlt A) (f : A -> R (option C)) : R (mlt C) :=
  match m with
  | MNone => Val MNone
  | MSingle v => let* o := f v in Val (match o with Some n => MSingle n | None => MNone end)
  | MAmbiguous a b =>
      let* x := f a in let* y := f b in
      Val (match x, y with Some x, Some y => MAmbiguous x y | _, _ => MNone end)
  end.
(* MappedLocalTime::unwrap: panics on None and on Ambiguous *)
Definition mlt_unwrap {A} (m : mlt A) : R A :=
  match m with MSingle t => Val t | _ => Panic end.

(** ** Cache::offset (src/offset/local/unix.rs), the part after the refresh.
    [d] is the NaiveDateTime argument; [d.and_utc().timestamp()] is DateTime.dt_timestamp,
    [d.year()] is Date.d_year of its date. *)
Definition cache_offset (zone : timezone) (d : DateTime.ndt) (local : bool) : R (mlt Z) :=
  if negb local then
    let* ts := DateTime.dt_timestamp d in
    let* r := find_local_time_type zone ts in
    match r with
    | Err _ => Panic                                  (* .expect("unable to select local time type") *)
    | Ok l =>
        Val (match DateTime.east_opt (ut_offset l) with
             | Some offset => MSingle offset
             | None => MNone
             end)
    end
  else
    let* ts := DateTime.dt_timestamp d in
    let* r := find_local_time_type_from_local zone (Date.d_year (DateTime.nd_date d)) ts in
    match r with
    | Err _ => Panic                                  (* .expect("unable to select local time type") *)
    | Ok m => Val (mlt_and_then m (fun o => DateTime.east_opt (ut_offset o)))
    end.

(** ** impl TimeZone for Local (src/offset/local/mod.rs) *)
Definition offset_from_local_datetime (zone : timezone) (local : DateTime.ndt) : R (mlt Z) :=
  cache_offset zone local true.
Definition offset_from_utc_datetime (zone : timezone) (utc : DateTime.ndt) : R Z :=
  let* m := cache_offset zone utc false in mlt_unwrap m.

(** ** TimeZone::from_local_datetime / from_utc_datetime (provided methods, src/offset/mod.rs) *)
Definition from_local_datetime (zone : timezone) (local : DateTime.ndt) : R (mlt DateTime.dtz) :=
  let* m := offset_from_local_datetime zone local in
  mlt_and_then_r m (fun off =>
    let* o := DateTime.ndt_checked_sub_offset local off in
    Val (match o with Some dt => Some (DateTime.mk_dtz dt off) | None => None end)).
Definition from_utc_datetime (zone : timezone) (utc : DateTime.ndt) : R DateTime.dtz :=
  let* off := offset_from_utc_datetime zone utc in Val (DateTime.mk_dtz utc off).

(** ** Dispatcher *)
Definition enc_err (e : tzerr) : val := VErr (tzerr_name e).
Definition enc_mlt {A} (f : A -> val) (m : mlt A) : val :=
  match m with
  | MNone => VTup []
  | MSingle a => VTup [f a]
  | MAmbiguous a b => VTup [f a; f b]
  end.
Definition enc_opt {A} (f : A -> val) (o : option A) : val :=
  match o with Some a => VSome (f a) | None => VNone end.
Definition off_of (d : DateTime.dtz) : val := VInt (DateTime.dz_off d).

(* the zone source: TZif bytes, or (TZ string, extended flag) through Zone::from_tz_string *)
Definition zone_of_src (v : val) : option (R (res timezone)) :=
  match v with
  | VStr b => Some (parse b)
  | VTup [VStr s; VInt 0] => Some (C16.zone_of_tz_string s false)
  | VTup [VStr s; VInt 1] => Some (C16.zone_of_tz_string s true)
  | _ => None
  end.
(* an instant or wall-clock reading in whole seconds: DateTime::from_timestamp(x, 0)?.naive_utc() *)
Definition arg_secs (v : val) : option DateTime.ndt :=
  match v with
  | VInt x => if in_i64 x then match DateTime.dt_from_timestamp x 0 with Val (Some n) => Some n | _ => None end
              else None
  | _ => None
  end.
Definition arg_list (v : val) : option (list DateTime.ndt) :=
  match v with VTup l => C16.all_some arg_secs l | _ => None end.

Definition op_at (z : timezone) (n : DateTime.ndt) : val :=
  val_of_R off_of (from_utc_datetime z n).
Definition op_loc (z : timezone) (n : DateTime.ndt) : val :=
  val_of_R (enc_mlt off_of) (from_local_datetime z n).
Definition op_sel (z : timezone) (n : DateTime.ndt) : val :=
  val_of_R (fun m => VTup [enc_opt off_of (mlt_earliest m); enc_opt off_of (mlt_latest m);
                           enc_opt off_of (mlt_single m)])
           (from_local_datetime z n).
Definition ts_of (d : DateTime.dtz) : R val := let* t := DateTime.dt_timestamp (DateTime.dz_utc d) in Val (VInt t).
Definition op_rt (z : timezone) (n : DateTime.ndt) : val :=
  val_of_R (fun v => v)
    (let* dt := from_utc_datetime z n in
     let* w := DateTime.naive_local dt in
     let* wts := DateTime.dt_timestamp w in
     let* m := from_local_datetime z w in
     let* r := match m with
               | MNone => Val (VTup [])
               | MSingle a => let* x := ts_of a in Val (VTup [x])
               | MAmbiguous a b => let* x := ts_of a in let* y := ts_of b in Val (VTup [x; y])
               end in
     Val (VTup [VInt wts; r])).

(** ** Conversions into and out of DateTime<Local> (src/datetime/mod.rs), op lz.conv *)
(* DateTime::with_timezone(&Local):  tz.from_utc_datetime(&self.datetime) *)
Definition with_timezone_local (z : timezone) (a : DateTime.dtz) : R DateTime.dtz :=
  from_utc_datetime z (DateTime.dz_utc a).
(* impl From<DateTime<Utc>> for DateTime<Local>:  src.with_timezone(&Local) *)
Definition local_from_utc (z : timezone) (src : DateTime.dtz) : R DateTime.dtz := with_timezone_local z src.
(* impl From<DateTime<FixedOffset>> for DateTime<Local>:  src.with_timezone(&Local) *)
Definition local_from_fixed (z : timezone) (src : DateTime.dtz) : R DateTime.dtz := with_timezone_local z src.
(* impl From<DateTime<Local>> for DateTime<Utc>:  src.with_timezone(&Utc) *)
Definition utc_from_local (src : DateTime.dtz) : DateTime.dtz := DateTime.with_timezone src 0.
(* impl From<DateTime<Local>> for DateTime<FixedOffset>:  src.with_timezone(&src.offset().fix()) *)
Definition fixed_from_local (src : DateTime.dtz) : DateTime.dtz := DateTime.with_timezone src (DateTime.dz_off src).
(* impl From<SystemTime> for DateTime<Local>:  DateTime::<Utc>::from(t).with_timezone(&Local)
   (the SystemTime as the triple duration_since(UNIX_EPOCH) returns, Model/C02.v) *)
Definition local_from_systime (z : timezone) (before : bool) (dsecs dnanos : Z) : R DateTime.dtz :=
  let* u := C02.dt_from_systime before dsecs dnanos in with_timezone_local z u.
(* impl FromStr for DateTime<Local>:  s.parse::<DateTime<FixedOffset>>().map(|dt| dt.with_timezone(&Local)) *)
Definition local_from_str (z : timezone) (s : bytes) : Scan.PR DateTime.dtz :=
  let* p := FromStr.datetime_fixed_from_str s in
  match p with
  | Scan.POk dt => let* l := with_timezone_local z dt in Val (Scan.POk l)
  | Scan.PErr e => Val (Scan.PErr e)
  end.

(* the harness' constructions: the fixed offset (whole minutes) the DateTime<FixedOffset> source carries,
   (offset, timestamp) of a result *)
Definition conv_k (x : Z) : Z := (x mod 2879 - 1439) * 60.
Definition pair_of (d : DateTime.dtz) : R val :=
  let* t := DateTime.dt_timestamp (DateTime.dz_utc d) in Val (VTup [VInt (DateTime.dz_off d); VInt t]).
Definition op_conv (z : timezone) (n : DateTime.ndt) : val :=
  val_of_R (fun v => v)
    (let* x := DateTime.dt_timestamp n in
     let u := DateTime.mk_dtz n 0 in
     let f := DateTime.with_timezone u (conv_k x) in
     let* l1 := local_from_utc z u in let* p1 := pair_of l1 in
     let* l2 := local_from_fixed z f in let* p2 := pair_of l2 in
     let* p3 := pair_of (utc_from_local l1) in
     let* p4 := pair_of (fixed_from_local l1) in
     let* s := Show.to_text (Show.dtz_debug false [] f) in
     let* r5 := local_from_str z s in
     let* p5 := match r5 with Scan.POk l => pair_of l | Scan.PErr e => Val (VErr (Scan.perr_name e)) end in
     let* l6 := local_from_systime z (x <? 0) (Z.abs x) 0 in let* p6 := pair_of l6 in
     Val (VTup [p1; p2; p3; p4; p5; p6])).

(** ** DateTime<Local> += / -= TimeDelta and core::time::Duration (src/datetime/mod.rs), op lz.asg *)
(* impl AddAssign<TimeDelta> for DateTime<Tz>:
     let datetime = self.datetime.checked_add_signed(rhs).expect("`DateTime + TimeDelta` overflowed");
     let tz = self.timezone();  *self = tz.from_utc_datetime(&datetime);
   for Tz = Local the zone is resolved again at the new instant *)
Definition local_add_assign (z : timezone) (a : DateTime.dtz) (rhs : TimeDelta.td) : R DateTime.dtz :=
  let* datetime := unwrap_r (DateTime.ndt_checked_add_signed (DateTime.dz_utc a) rhs) in
  from_utc_datetime z datetime.
(* impl SubAssign<TimeDelta> for DateTime<Tz>: the same with checked_sub_signed *)
Definition local_sub_assign (z : timezone) (a : DateTime.dtz) (rhs : TimeDelta.td) : R DateTime.dtz :=
  let* datetime := unwrap_r (DateTime.ndt_checked_sub_signed (DateTime.dz_utc a) rhs) in
  from_utc_datetime z datetime.
(* impl AddAssign<Duration> / SubAssign<Duration>:  let rhs = TimeDelta::from_std(rhs).expect(..); *self += rhs *)
Definition local_add_assign_std (z : timezone) (a : DateTime.dtz) (dsecs dnanos : Z) : R DateTime.dtz :=
  let* rhs := unwrap (TimeDelta.from_std dsecs dnanos) in local_add_assign z a rhs.
Definition local_sub_assign_std (z : timezone) (a : DateTime.dtz) (dsecs dnanos : Z) : R DateTime.dtz :=
  let* rhs := unwrap (TimeDelta.from_std dsecs dnanos) in local_sub_assign z a rhs.

(* the observation: Local.from_utc_datetime(&n), then the four assignments with TimeDelta::seconds(d) /
   Duration::from_secs(|d|), each under its own catch_unwind: (offset, timestamp) or PANIC *)
Definition ASG_MAX := 10000000000000.
Definition asg_out (r : R DateTime.dtz) : val := val_of_R (fun v => v) (let* a := r in pair_of a).
Definition op_asg (d : Z) (z : timezone) (n : DateTime.ndt) : val :=
  match from_utc_datetime z n with
  | Val a =>
      VTup [asg_out (local_add_assign z a (TimeDelta.mk_td d 0)); asg_out (local_sub_assign z a (TimeDelta.mk_td d 0));
            asg_out (local_add_assign_std z a (Z.abs d) 0); asg_out (local_sub_assign_std z a (Z.abs d) 0)]
  | Panic => VPanic
  | OutOfFuel => VFuel
  end.

Definition batch (src xs : val) (f : timezone -> DateTime.ndt -> val) : val :=
  match zone_of_src src, arg_list xs with
  | Some z, Some ns =>
      match z with
      | Val (Ok z) => VTup (map (f z) ns)
      | Val (Err e) => enc_err e
      | Panic => VPanic
      | OutOfFuel => VFuel
      end
  | _, _ => VBad
  end.

(* TZ=:/path through the public route.  A file the reader rejects is reported as its error (the
   harness asks the hook first): Local would silently convert in its fall-back zone, which is
   C18's subject, not C05's. *)
Definition env_zone (src : val) : option (R (res timezone)) :=
  match src with
  | VStr b => Some (parse b)
  | _ => None
  end.

Definition run (op : bytes) (args : list val) : val :=
  match args with
  | [src; _; xs] =>
      if op_is op "lz.at" || op_is op "lz.uat" then batch src xs op_at
      else if op_is op "lz.loc" || op_is op "lz.uloc" then batch src xs op_loc
      else if op_is op "lz.sel" || op_is op "lz.usel" then batch src xs op_sel
      else if op_is op "lz.rt" || op_is op "lz.urt" then batch src xs op_rt
      else if op_is op "lz.conv" then match src with VStr _ => batch src xs op_conv | _ => VBad end
      else VErr B"NOOP"
  | [src; _; VInt dir; xs] =>
      if op_is op "lz.env" then
        match env_zone src, arg_list xs with
        | Some z, Some ns =>
            if (dir =? 0) || (dir =? 1) then
              match z with
              | Val (Ok z) => VTup (map (if dir =? 0 then op_at z else op_loc z) ns)
              | Val (Err e) => enc_err e
              | Panic => VPanic
              | OutOfFuel => VFuel
              end
            else VBad
        | _, _ => VBad
        end
      else if op_is op "lz.asg" then
        if (- ASG_MAX <=? dir) && (dir <=? ASG_MAX)
        then match src with VStr _ => batch src xs (op_asg dir) | _ => VBad end else VBad
      else VErr B"NOOP"
  | _ => if op_is op "lz.at" || op_is op "lz.uat" || op_is op "lz.loc" || op_is op "lz.uloc" || op_is op "lz.sel" || op_is op "lz.usel"
            || op_is op "lz.rt" || op_is op "lz.urt" || op_is op "lz.env" || op_is op "lz.conv" || op_is op "lz.asg" then VBad else VErr B"NOOP"
  end.
