(** C07 dispatcher: the model itself is Model/Time.v (shared with the properties that use times of
    day) and Model/TimeDelta.v; this file only maps case lines to model calls.  No proofs here.

    Ops [ndt.*]: NaiveDateTime::checked_add_signed / checked_sub_signed (and the operators) with
    leap-second operands, the carry applied to the date (Model/DateTime.v on top of Model/Time.v
    and Model/Date.v). *)
From Coq Require Import ZArith List Bool String.
From V Require Import Base.Int Base.IO Model.TimeDelta.
From V Require Export Model.Time.
From V Require Model.DateTime.
Import ListNotations.
Open Scope Z_scope.

Definition vo_time (o : option ntime) : val := val_of_option enc_time o.
Definition enc_pair (r : ntime * Z) : val := VTup [enc_time (fst r); VInt (snd r)].
Definition arg_off (v : val) : option Z :=
  match v with VInt z => if in_i32 z && offset_ok z then Some z else None | _ => None end.

Definition t_acc (t : ntime) : val :=
  let '(pm, h12) := hour12 t in
  VTup [VInt (hour t); VInt (minute t); VInt (second t); VInt (nanosecond t);
        VInt (num_seconds_from_midnight t); val_of_bool pm; VInt h12].

(** impl Timelike for NaiveDateTime: every accessor is [self.time.<accessor>()]; [hour12] and
    [num_seconds_from_midnight] are the provided methods of src/traits.rs reading those accessors;
    the setters are [self.time.with_x(v).map(|t| NaiveDateTime { time: t, ..*self })] *)
Definition ndt_tacc (a : DateTime.ndt) : R val :=
  let t := DateTime.nd_time a in
  let '(pm, h12) := hour12 t in
  let* hs := mul_u32 (hour t) 3600 in let* ms := mul_u32 (minute t) 60 in
  let* hm := add_u32 hs ms in let* nsfm := add_u32 hm (second t) in
  Val (VTup [VInt (hour t); VInt (minute t); VInt (second t); VInt (nanosecond t);
             VInt nsfm; val_of_bool pm; VInt h12]).

(** impl Add<Duration> for NaiveDateTime / impl Sub<Duration> for NaiveDateTime (src/naive/datetime/mod.rs) *)
Definition ndt_add_std (a : DateTime.ndt) (dsecs dnanos : Z) : R DateTime.ndt :=
  let* rhs := unwrap (from_std dsecs dnanos) in unwrap_r (DateTime.ndt_checked_add_signed a rhs).
Definition ndt_sub_std (a : DateTime.ndt) (dsecs dnanos : Z) : R DateTime.ndt :=
  let* rhs := unwrap (from_std dsecs dnanos) in unwrap_r (DateTime.ndt_checked_sub_signed a rhs).

(** NaiveDate::and_hms* (src/naive/date/mod.rs).
    and_hms*_opt:  let time = try_opt!(NaiveTime::from_hms*_opt(..)); Some(self.and_time(time))
    and_hms* (deprecated):  expect(self.and_hms*_opt(..), "invalid time") *)
Definition nd_and_time_opt (d : Z) (rt : R (option ntime)) : R (option DateTime.ndt) :=
  let* ot := rt in Val (match ot with Some t => Some (DateTime.mk_ndt d t) | None => None end).
Definition nd_and_hms_opt (d h m s : Z) := nd_and_time_opt d (from_hms_opt h m s).
Definition nd_and_hms_milli_opt (d h m s x : Z) := nd_and_time_opt d (from_hms_milli_opt h m s x).
Definition nd_and_hms_micro_opt (d h m s x : Z) := nd_and_time_opt d (from_hms_micro_opt h m s x).
Definition nd_and_hms_nano_opt (d h m s x : Z) := nd_and_time_opt d (from_hms_nano_opt h m s x).
Definition nd_and_hms (d h m s : Z) : R DateTime.ndt := unwrap_r (nd_and_hms_opt d h m s).
Definition nd_and_hms_milli (d h m s x : Z) : R DateTime.ndt := unwrap_r (nd_and_hms_milli_opt d h m s x).
Definition nd_and_hms_micro (d h m s x : Z) : R DateTime.ndt := unwrap_r (nd_and_hms_micro_opt d h m s x).
Definition nd_and_hms_nano (d h m s x : Z) : R DateTime.ndt := unwrap_r (nd_and_hms_nano_opt d h m s x).

Definition run (op : bytes) (args : list val) : val :=
  let u32_3 (f : Z -> Z -> Z -> val) := match args with
     | [a; b; c] => match arg_u32 a, arg_u32 b, arg_u32 c with Some x, Some y, Some z => f x y z | _, _, _ => VBad end
     | _ => VBad end in
  let u32_4 (f : Z -> Z -> Z -> Z -> val) := match args with
     | [a; b; c; d] => match arg_u32 a, arg_u32 b, arg_u32 c, arg_u32 d with
                       | Some x, Some y, Some z, Some w => f x y z w | _, _, _, _ => VBad end
     | _ => VBad end in
  let t_1 (f : ntime -> val) := match args with [a] => match dec_time a with Some t => f t | None => VBad end | _ => VBad end in
  let t_u (f : ntime -> Z -> val) := match args with
     | [a; b] => match dec_time a, arg_u32 b with Some t, Some k => f t k | _, _ => VBad end | _ => VBad end in
  let t_d (f : ntime -> td -> val) := match args with
     | [a; b] => match dec_time a, dec_td b with Some t, Some d => f t d | _, _ => VBad end | _ => VBad end in
  let t_t (f : ntime -> ntime -> val) := match args with
     | [a; b] => match dec_time a, dec_time b with Some t, Some u => f t u | _, _ => VBad end | _ => VBad end in
  let t_o (f : ntime -> Z -> val) := match args with
     | [a; b] => match dec_time a, arg_off b with Some t, Some k => f t k | _, _ => VBad end | _ => VBad end in
  let t_s (f : ntime -> Z -> Z -> val) := match args with
     | [a; b; c] => match dec_time a, arg_u64 b, arg_u32 c with
                    | Some t, Some s, Some n => if n <? 1000000000 then f t s n else VBad
                    | _, _, _ => VBad end
     | _ => VBad end in
  let n_s (f : DateTime.ndt -> Z -> Z -> val) := match args with
     | [a; b; c] => match DateTime.dec_ndt a, arg_u64 b, arg_u32 c with
                    | Some x, Some s, Some n => if n <? 1000000000 then f x s n else VBad
                    | _, _, _ => VBad end
     | _ => VBad end in
  let d_u3 (f : Z -> Z -> Z -> Z -> val) := match args with
     | [dv; a; b; c] => match DateTime.dec_date dv, arg_u32 a, arg_u32 b, arg_u32 c with
                        | Some d, Some x, Some y, Some z => f d x y z | _, _, _, _ => VBad end
     | _ => VBad end in
  let d_u4 (f : Z -> Z -> Z -> Z -> Z -> val) := match args with
     | [dv; a; b; c; e] => match DateTime.dec_date dv, arg_u32 a, arg_u32 b, arg_u32 c, arg_u32 e with
                           | Some d, Some x, Some y, Some z, Some w => f d x y z w | _, _, _, _, _ => VBad end
     | _ => VBad end in
  let n_d (f : DateTime.ndt -> td -> val) := match args with
     | [a; b] => match DateTime.dec_ndt a, dec_td b with Some x, Some d => f x d | _, _ => VBad end | _ => VBad end in
  if op_is op "t.hms" then u32_3 (fun h m s => val_of_R vo_time (from_hms_opt h m s))
  else if op_is op "t.hms_milli" then u32_4 (fun h m s x => val_of_R vo_time (from_hms_milli_opt h m s x))
  else if op_is op "t.hms_micro" then u32_4 (fun h m s x => val_of_R vo_time (from_hms_micro_opt h m s x))
  else if op_is op "t.hms_nano" then u32_4 (fun h m s x => val_of_R vo_time (from_hms_nano_opt h m s x))
  else if op_is op "t.nsfm" then
    match args with
    | [a; b] => match arg_u32 a, arg_u32 b with
                | Some s, Some n => vo_time (from_num_seconds_from_midnight_opt s n) | _, _ => VBad end
    | _ => VBad end
  else if op_is op "t.acc" then t_1 t_acc
  else if op_is op "t.with_hour" then t_u (fun t k => val_of_R vo_time (with_hour t k))
  else if op_is op "t.with_minute" then t_u (fun t k => val_of_R vo_time (with_minute t k))
  else if op_is op "t.with_second" then t_u (fun t k => val_of_R vo_time (with_second t k))
  else if op_is op "t.with_nano" then t_u (fun t k => vo_time (with_nanosecond t k))
  else if op_is op "t.add" then t_d (fun t d => val_of_R enc_pair (overflowing_add_signed t d))
  else if op_is op "t.sub" then t_d (fun t d => val_of_R enc_pair (overflowing_sub_signed t d))
  else if op_is op "t.opadd" then t_d (fun t d => val_of_R enc_time (op_add_td t d))
  else if op_is op "t.opsub" then t_d (fun t d => val_of_R enc_time (op_sub_td t d))
  else if op_is op "t.opadd_assign" then t_d (fun t d => val_of_R enc_time (op_add_td t d))
  else if op_is op "t.opsub_assign" then t_d (fun t d => val_of_R enc_time (op_sub_td t d))
  else if op_is op "t.diff" then t_t (fun t u => val_of_R enc_td (signed_duration_since t u))
  else if op_is op "t.opdiff" then t_t (fun t u => val_of_R enc_td (op_sub_time t u))
  else if op_is op "t.addstd" then t_s (fun t s n => val_of_R enc_time (op_add_std t s n))
  else if op_is op "t.substd" then t_s (fun t s n => val_of_R enc_time (op_sub_std t s n))
  else if op_is op "t.addstd_assign" then t_s (fun t s n => val_of_R enc_time (op_add_std t s n))
  else if op_is op "t.substd_assign" then t_s (fun t s n => val_of_R enc_time (op_sub_std t s n))
  else if op_is op "t.addoff" then t_o (fun t k => val_of_R enc_time (op_add_offset t k))
  else if op_is op "t.suboff" then t_o (fun t k => val_of_R enc_time (op_sub_offset t k))
  else if op_is op "t.addoffd" then t_o (fun t k => val_of_R enc_pair (overflowing_add_offset t k))
  else if op_is op "t.suboffd" then t_o (fun t k => val_of_R enc_pair (overflowing_sub_offset t k))
  else if op_is op "ndt.add" then
    n_d (fun a d => val_of_R (val_of_option DateTime.enc_ndt) (DateTime.ndt_checked_add_signed a d))
  else if op_is op "ndt.sub" then
    n_d (fun a d => val_of_R (val_of_option DateTime.enc_ndt) (DateTime.ndt_checked_sub_signed a d))
  else if op_is op "ndt.opadd" then
    n_d (fun a d => val_of_R DateTime.enc_ndt (unwrap_r (DateTime.ndt_checked_add_signed a d)))
  else if op_is op "ndt.opsub" then
    n_d (fun a d => val_of_R DateTime.enc_ndt (unwrap_r (DateTime.ndt_checked_sub_signed a d)))
  else if op_is op "ndt.tacc" then
    match args with
    | [a] => match DateTime.dec_ndt a with Some x => val_of_R (fun v => v) (ndt_tacc x) | None => VBad end
    | _ => VBad end
  else if op_is op "ndt.twith" then
    match args with
    | [VInt which; a; b] =>
        match DateTime.dec_ndt a, arg_u32 b with
        | Some x, Some v =>
            if (0 <=? which) && (which <=? 3)
            then val_of_R (val_of_option DateTime.enc_ndt) (DateTime.ndt_with (7 + which) x v) else VBad
        | _, _ => VBad end
    | _ => VBad end
  (* the deprecated panicking constructors: expect(..) of the _opt forms *)
  else if op_is op "t.phms" then u32_3 (fun h m s => val_of_R enc_time (unwrap_r (from_hms_opt h m s)))
  else if op_is op "t.phms_milli" then u32_4 (fun h m s x => val_of_R enc_time (unwrap_r (from_hms_milli_opt h m s x)))
  else if op_is op "t.phms_micro" then u32_4 (fun h m s x => val_of_R enc_time (unwrap_r (from_hms_micro_opt h m s x)))
  else if op_is op "t.phms_nano" then u32_4 (fun h m s x => val_of_R enc_time (unwrap_r (from_hms_nano_opt h m s x)))
  else if op_is op "t.pnsfm" then
    match args with
    | [a; b] => match arg_u32 a, arg_u32 b with
                | Some s, Some n => val_of_R enc_time (unwrap (from_num_seconds_from_midnight_opt s n)) | _, _ => VBad end
    | _ => VBad end
  (* the deprecated panicking NaiveDate::and_hms* *)
  else if op_is op "ndt.phms" then d_u3 (fun d h m s => val_of_R DateTime.enc_ndt (nd_and_hms d h m s))
  else if op_is op "ndt.phms_milli" then d_u4 (fun d h m s x => val_of_R DateTime.enc_ndt (nd_and_hms_milli d h m s x))
  else if op_is op "ndt.phms_micro" then d_u4 (fun d h m s x => val_of_R DateTime.enc_ndt (nd_and_hms_micro d h m s x))
  else if op_is op "ndt.phms_nano" then d_u4 (fun d h m s x => val_of_R DateTime.enc_ndt (nd_and_hms_nano d h m s x))
  (* impl Add<Duration> / Sub<Duration> for NaiveDateTime (also behind AddAssign / SubAssign):
       let rhs = TimeDelta::from_std(rhs).expect(..); self.checked_add_signed(rhs).expect(..) *)
  else if op_is op "ndt.addstd" then n_s (fun a s n => val_of_R DateTime.enc_ndt (ndt_add_std a s n))
  else if op_is op "ndt.substd" then n_s (fun a s n => val_of_R DateTime.enc_ndt (ndt_sub_std a s n))
  else if op_is op "ndt.addstd_assign" then n_s (fun a s n => val_of_R DateTime.enc_ndt (ndt_add_std a s n))
  else if op_is op "ndt.substd_assign" then n_s (fun a s n => val_of_R DateTime.enc_ndt (ndt_sub_std a s n))
  else VErr B"NOOP".
