(** Calendar helpers on top of Model/Date.v, function by function from the Rust:
    [Weekday::{days_since, num_days_from_monday, number_from_monday, pred}] (src/weekday.rs, only what
    the helpers below call), [NaiveWeek] (src/naive/mod.rs), [NaiveDate::from_weekday_of_month_opt]
    (src/naive/date/mod.rs), [Month::num_days] (src/month.rs), the provided methods
    [Datelike::{year_ce, quarter, num_days_in_month}] (src/traits.rs) instantiated at [NaiveDate], and
    the panicking operators [NaiveDate + Months], [NaiveDate - Months].
    A weekday is its number from Monday (0..6), a month its number (1..12).
    Constants come from Gen/C08Consts.v.  No proofs in this file. *)
From Coq Require Import ZArith List Bool.
From V Require Import Base.Int Base.Table Gen.DateTables Gen.C08Consts Model.Date.
Import ListNotations.
Open Scope Z_scope.

(** * Weekday ([*self as u32] is the number from Monday) *)
Definition wd_days_since (lhs rhs : Z) : R Z :=
  if lhs <? rhs then let* a := add_u32 7 lhs in sub_u32 a rhs else sub_u32 lhs rhs.
Definition wd_num_days_from_monday (w : Z) : R Z := wd_days_since w 0.
Definition wd_number_from_monday (w : Z) : R Z := let* d := wd_days_since w 0 in add_u32 d 1.
Definition wd_pred (w : Z) : Z :=
  if w =? 0 then 6 else if w =? 1 then 0 else if w =? 2 then 1 else if w =? 3 then 2
  else if w =? 4 then 3 else if w =? 5 then 4 else 5.

(** * NaiveWeek { date, start } *)
Record nweek := mk_week { wk_date : Z; wk_start : Z }.
Definition d_week (d start : Z) : nweek := mk_week d start.

Definition week_checked_first_day (w : nweek) : R (option Z) :=
  let* s := wd_num_days_from_monday (wk_start w) in
  let start := as_i32 s in
  let* wd := d_weekday (wk_date w) in
  let* r := wd_num_days_from_monday wd in
  let ref_day := as_i32 r in
  let* a := sub_i32 start ref_day in
  let* days := sub_i32 a (if ref_day <? start then WK_FIRST_WRAP else WK_FIRST_NOWRAP) in
  add_days (wk_date w) days.
Definition week_first_day (w : nweek) : R Z := unwrap_r (week_checked_first_day w).

Definition week_checked_last_day (w : nweek) : R (option Z) :=
  let* e := wd_num_days_from_monday (wd_pred (wk_start w)) in
  let end_ := as_i32 e in
  let* wd := d_weekday (wk_date w) in
  let* r := wd_num_days_from_monday wd in
  let ref_day := as_i32 r in
  let* a := sub_i32 end_ ref_day in
  let* days := add_i32 a (if end_ <? ref_day then WK_LAST_WRAP else WK_LAST_NOWRAP) in
  add_days (wk_date w) days.
Definition week_last_day (w : nweek) : R Z := unwrap_r (week_checked_last_day w).

(** [RangeInclusive<NaiveDate>] as the pair (start, end) *)
Definition week_checked_days (w : nweek) : R (option (Z * Z)) :=
  let* f := week_checked_first_day w in
  let* l := week_checked_last_day w in
  Val (match f, l with Some first, Some last => Some (first, last) | _, _ => None end).
Definition week_days (w : nweek) : R (Z * Z) := unwrap_r (week_checked_days w).

(** * NaiveDate::from_weekday_of_month_opt(year: i32, month: u32, weekday, n: u8) *)
Definition from_weekday_of_month_opt (year month weekday n : Z) : R (option Z) :=
  if n =? 0 then Val None else
  let? d1 := from_ymd_opt year month NWD_FIRST_DAY in
  let* first := d_weekday d1 in
  let* a := wd_number_from_monday weekday in
  let* s := add_u32 NWD_BIAS a in
  let* b := wd_number_from_monday first in
  let* t := sub_u32 s b in
  let* first_to_dow := rem_u32 t NWD_MOD in
  let* n1 := sub_u8 n NWD_N_SUB in
  let* m7 := mul_u32 (as_u32 n1) NWD_STEP in
  let* x := add_u32 m7 first_to_dow in
  let* day := add_u32 x NWD_DAY_ADD in
  from_ymd_opt year month day.

(** * Month::num_days(&self, year: i32) -> Option<u8>; [m] = 1..12 *)
Definition MND_DAYS : table := Eval vm_compute in table_of_list MND_DAYS_list.
Definition month_num_days (m year : Z) : R (option Z) :=
  if m =? 2 then
    let? d := from_ymd_opt year MND_FEB_PROBE_MONTH MND_FEB_PROBE_DAY in
    Val (Some (if d_leap_year d then MND_FEB_LEAP else MND_FEB_COMMON))
  else let* v := tget MND_DAYS (m - 1) in Val (Some v).

(** * Datelike provided methods, at NaiveDate *)
Definition d_year_ce (d : Z) : R (bool * Z) :=
  let year := d_year d in
  if year <? YCE_LT then let* a := sub_i32 YCE_FROM year in Val (false, as_u32 a)
  else Val (true, as_u32 year).
Definition d_quarter (d : Z) : R Z :=
  let* m := d_month d in
  let* a := sub_u32 m Q_SUB in
  let* q := div_euclid in_u32 a Q_DIV in
  add_u32 q Q_ADD.
(** [Month::from_u32(n)]: Some for 1..=12 (num-traits FromPrimitive of Month) *)
Definition month_from_u32 (n : Z) : option Z := if (1 <=? n) && (n <=? 12) then Some n else None.
Definition d_num_days_in_month (d : Z) : R Z :=
  let* mo := d_month d in
  let* month := unwrap (month_from_u32 mo) in
  unwrap_r (month_num_days month (d_year d)).

(** * impl Add<Months> / Sub<Months> for NaiveDate: expect of the checked form *)
Definition d_op_add_months (d months : Z) : R Z := unwrap_r (checked_add_months d months).
Definition d_op_sub_months (d months : Z) : R Z := unwrap_r (checked_sub_months d months).
