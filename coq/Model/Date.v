(** Executable model of chrono's calendar core: src/naive/internals.rs (YearFlags, Mdf),
    src/naive/date/mod.rs (NaiveDate) and src/naive/isoweek.rs (IsoWeek), function by function,
    same branches, same bit operations, trapping integer arithmetic in the [R] monad
    (overflow checks and debug assertions ON).  Tables and constants come from Gen/DateTables.v
    (regenerated from the Rust source on every run).  A date is its packed [yof : i32] word.
    Shared by C01, C02, C03, C04, C08, C09..C14, C17.  No proofs in this file. *)
From Coq Require Import ZArith List Bool.
From V Require Import Base.Int Base.Table Gen.DateTables Model.TimeDelta.
Import ListNotations.
Open Scope Z_scope.

Definition YEAR_TO_FLAGS : table := Eval vm_compute in table_of_list YEAR_TO_FLAGS_list.
Definition MDL_TO_OL : table := Eval vm_compute in table_of_list MDL_TO_OL_list.
Definition OL_TO_MDL : table := Eval vm_compute in table_of_list OL_TO_MDL_list.
Definition YEAR_DELTAS : table := Eval vm_compute in table_of_list YEAR_DELTAS_list.
Definition DM_MONTH_DAYS : table := Eval vm_compute in table_of_list DM_MONTH_DAYS_list.

(** shifts on i32/u32 words: [<<] never traps on the value (only on the amount), it wraps *)
Definition shl_i32 (a k : Z) : Z := as_i32 (Z.shiftl a k).
Definition shl_u32 (a k : Z) : Z := as_u32 (Z.shiftl a k).
Definition shr (a k : Z) : Z := Z.shiftr a k.          (* arithmetic for signed, logical for unsigned *)
Definition not_i32 (a : Z) : Z := Z.lnot a.            (* two's complement: -a-1, stays in i32 *)
Definition not_u32 (a : Z) : Z := u32_max - a.

(** * YearFlags (a [u8]) *)
Definition yf_from_year_mod_400 (y : Z) : R Z := tget YEAR_TO_FLAGS (as_usize y).
Definition yf_from_year (year : Z) : R Z :=
  let* r := rem_euclid in_i32 year 400 in yf_from_year_mod_400 r.
Definition yf_ndays (flags : Z) : R Z := sub_u32 NDAYS_BASE (shr flags NDAYS_SHIFT).
Definition yf_isoweek_delta (flags : Z) : R Z :=
  let delta := Z.land flags ISOWEEK_DELTA_MASK in
  if delta <? ISOWEEK_DELTA_LT then add_u32 delta ISOWEEK_DELTA_ADD else Val delta.
Definition yf_nisoweeks (flags : Z) : R Z :=
  if 32 <=? flags then Panic (* shift amount >= bit width *)
  else add_u32 NISOWEEKS_BASE (Z.land (shr NISOWEEKS_MASK flags) 1).

(** * Mdf (a [u32]) *)
Definition mdf_new (month day flags : Z) : option Z :=
  if (month <=? 12) && (day <=? 31)
  then Some (Z.lor (Z.lor (shl_u32 month 9) (shl_u32 day 4)) flags) else None.
Definition mdf_from_ol (ol flags : Z) : R Z :=
  let* _ := rassert ((1 <? ol) && (ol <=? I_MAX_OL)) in
  let* v := tget OL_TO_MDL (as_usize ol) in
  let* s := add_u32 (as_u32 ol) v in
  Val (Z.lor (shl_u32 s 3) flags).
Definition mdf_month (mdf : Z) : Z := shr mdf 9.
Definition mdf_day (mdf : Z) : Z := Z.land (shr mdf 4) 31.
Definition mdf_with_month (mdf month : Z) : option Z :=
  if 12 <? month then None else Some (Z.lor (Z.land mdf 511) (shl_u32 month 9)).
Definition mdf_with_day (mdf day : Z) : option Z :=
  if 31 <? day then None else Some (Z.lor (Z.land mdf (not_u32 496)) (shl_u32 day 4)).
Definition mdf_with_flags (mdf flags : Z) : Z := Z.lor (Z.land mdf (not_u32 15)) flags.
Definition mdf_year_flags (mdf : Z) : Z := as_u8 (Z.land mdf 15).
Definition mdf_ordinal (mdf : Z) : R (option Z) :=
  let mdl := shr mdf 3 in
  let* v := tget MDL_TO_OL mdl in
  if v =? 0 then Val None
  else let* d := sub_u32 mdl (as_u32 (as_u8 v)) in Val (Some (shr d 1)).
Definition mdf_ordinal_and_flags (mdf : Z) : R (option Z) :=
  let mdl := shr mdf 3 in
  let* v := tget MDL_TO_OL mdl in
  if v =? 0 then Val None
  else let* d := sub_i32 (as_i32 mdf) (shl_i32 v 3) in Val (Some d).

(** * NaiveDate (the packed [yof : i32]) *)
Definition from_yof (yof : Z) : R Z :=
  let ol := shr (Z.land yof D_OL_MASK) 3 in
  let* _ := rassert (1 <? ol) in
  let* _ := rassert (ol <=? D_MAX_OL) in
  let* _ := rassert (negb (Z.land yof 7 =? 0)) in
  Val yof.

Definition d_yof (d : Z) : Z := d.
Definition d_year (d : Z) : Z := shr d D_YEAR_SHIFT.
Definition d_ordinal (d : Z) : Z := as_u32 (shr (Z.land d D_ORDINAL_MASK) D_ORDINAL_SHIFT).
Definition d_year_flags (d : Z) : Z := as_u8 (Z.land d D_YEAR_FLAGS_MASK).
Definition d_leap_year (d : Z) : bool := Z.land d 8 =? 0.
Definition d_mdf (d : Z) : R Z := mdf_from_ol (shr (Z.land d D_OL_MASK) 3) (d_year_flags d).
Definition d_month (d : Z) : R Z := let* m := d_mdf d in Val (mdf_month m).
Definition d_day (d : Z) : R Z := let* m := d_mdf d in Val (mdf_day m).
(** weekday number, Monday = 0 *)
Definition d_weekday (d : Z) : R Z :=
  let* s := add_i32 (shr (Z.land d D_ORDINAL_MASK) 4) (Z.land d D_WEEKDAY_FLAGS_MASK) in
  let* r := rem_i32 s 7 in
  Val (if (0 <=? r) && (r <=? 5) then r else 6).

Definition from_ordinal_and_flags (year ordinal flags : Z) : R (option Z) :=
  if (year <? D_MIN_YEAR) || (D_MAX_YEAR <? year) then Val None else
  if (ordinal =? 0) || (D_MAX_ORDINAL <? ordinal) then Val None else
  let* f := yf_from_year year in
  let* _ := rassert (f =? flags) in
  let yof := Z.lor (Z.lor (shl_i32 year D_YEAR_SHIFT) (as_i32 (shl_u32 ordinal D_ORDINAL_SHIFT))) flags in
  if Z.land yof D_OL_MASK <=? D_MAX_OL
  then let* d := from_yof yof in Val (Some d)
  else Val None.

Definition from_mdf (year mdf : Z) : R (option Z) :=
  if (year <? D_MIN_YEAR) || (D_MAX_YEAR <? year) then Val None else
  let? oaf := mdf_ordinal_and_flags mdf in
  let* d := from_yof (Z.lor (shl_i32 year D_YEAR_SHIFT) oaf) in Val (Some d).

Definition from_ymd_opt (year month day : Z) : R (option Z) :=
  let* flags := yf_from_year year in
  match mdf_new month day flags with
  | Some mdf => from_mdf year mdf
  | None => Val None
  end.

Definition from_yo_opt (year ordinal : Z) : R (option Z) :=
  let* flags := yf_from_year year in
  from_ordinal_and_flags year ordinal flags.

(** [weekday] is the number from Monday, 0..6 ([weekday as u32]) *)
Definition from_isoywd_opt (year week weekday : Z) : R (option Z) :=
  let* flags := yf_from_year year in
  let* nweeks := yf_nisoweeks flags in
  if (week =? 0) || (nweeks <? week) then Val None else
  let* w7 := mul_u32 week 7 in
  let* weekord := add_u32 w7 weekday in
  let* delta := yf_isoweek_delta flags in
  if weekord <=? delta then
    match checked_sub in_i32 year 1 with
    | None => Val None
    | Some py =>
      let* prevflags := yf_from_year py in
      let* nd := yf_ndays prevflags in
      let* a := add_u32 weekord nd in
      let* o := sub_u32 a delta in
      from_ordinal_and_flags py o prevflags
    end
  else
    let* ordinal := sub_u32 weekord delta in
    let* ndays := yf_ndays flags in
    if ordinal <=? ndays then from_ordinal_and_flags year ordinal flags
    else
      match checked_add in_i32 year 1 with
      | None => Val None
      | Some ny =>
        let* nextflags := yf_from_year ny in
        let* o := sub_u32 ordinal ndays in
        from_ordinal_and_flags ny o nextflags
      end.

(** [cycle : u32] -> (year_mod_400, ordinal) *)
Definition cycle_to_yo (cycle : Z) : R (Z * Z) :=
  let* ym := div_u32 cycle 365 in
  let* o0 := rem_u32 cycle 365 in
  let* delta := tget YEAR_DELTAS (as_usize ym) in
  if o0 <? delta then
    let* ym' := sub_u32 ym 1 in
    let* d' := tget YEAR_DELTAS (as_usize ym') in
    let* t := sub_u32 365 d' in
    let* o0' := add_u32 o0 t in
    let* o := add_u32 o0' 1 in Val (ym', o)
  else
    let* o0' := sub_u32 o0 delta in
    let* o := add_u32 o0' 1 in Val (ym, o).

Definition yo_to_cycle (year_mod_400 ordinal : Z) : R Z :=
  let* a := mul_u32 year_mod_400 365 in
  let* d := tget YEAR_DELTAS (as_usize year_mod_400) in
  let* b := add_u32 a d in
  let* c := add_u32 b ordinal in
  sub_u32 c 1.

Definition div_mod_floor (val div : Z) : R (Z * Z) :=
  let* q := div_euclid in_i32 val div in
  let* r := rem_euclid in_i32 val div in Val (q, r).

Definition from_num_days_from_ce_opt (days : Z) : R (option Z) :=
  match checked_add in_i32 days D_CE_SHIFT with
  | None => Val None
  | Some days =>
    let* year_div_400 := div_euclid in_i32 days D_DAYS_PER_400Y in
    let* cycle := rem_euclid in_i32 days D_DAYS_PER_400Y in
    let* '(year_mod_400, ordinal) := cycle_to_yo (as_u32 cycle) in
    let* flags := yf_from_year_mod_400 (as_i32 year_mod_400) in
    let* a := mul_i32 year_div_400 400 in
    let* y := add_i32 a (as_i32 year_mod_400) in
    from_ordinal_and_flags y ordinal flags
  end.

Definition num_days_from_ce (d : Z) : R Z :=
  let* year := sub_i32 (d_year d) 1 in
  let* '(year, ndays) :=
    (if year <? 0 then
      let* ny := neg_i32 year in
      let* q := div_i32 ny NDCE_A in
      let* excess := add_i32 1 q in
      let* e4 := mul_i32 excess NDCE_B in
      let* year' := add_i32 year e4 in
      let* e1 := mul_i32 excess NDCE_C in
      let* nd := sub_i32 0 e1 in
      Val (year', nd)
    else Val (year, 0)) in
  let* div_100 := div_i32 year NDCE_D in
  let* y1461 := mul_i32 year NDCE_E in
  let* t1 := sub_i32 (shr y1461 NDCE_F) div_100 in
  let* t2 := add_i32 t1 (shr div_100 NDCE_G) in
  let* nd := add_i32 ndays t2 in
  add_i32 nd (as_i32 (d_ordinal d)).

Definition add_days (d days : Z) : R (option Z) :=
  let fast :=
    match checked_add in_i32 (shr (Z.land d D_ORDINAL_MASK) 4) days with
    | Some ordinal =>
        if (0 <? ordinal) && (ordinal <=? 365 + (if d_leap_year d then 1 else 0))
        then Some (Z.lor (Z.land d (not_i32 D_ORDINAL_MASK)) (shl_i32 ordinal 4))
        else None
    | None => None
    end in
  match fast with
  | Some yof => let* r := from_yof yof in Val (Some r)
  | None =>
    let year := d_year d in
    let* '(year_div_400, year_mod_400) := div_mod_floor year 400 in
    let* cycle := yo_to_cycle (as_u32 year_mod_400) (d_ordinal d) in
    match checked_add in_i32 (as_i32 cycle) days with
    | None => Val None
    | Some cycle =>
      let* '(cycle_div_400y, cycle) := div_mod_floor cycle D_DAYS_PER_400Y in
      let* year_div_400 := add_i32 year_div_400 cycle_div_400y in
      let* '(year_mod_400, ordinal) := cycle_to_yo (as_u32 cycle) in
      let* flags := yf_from_year_mod_400 (as_i32 year_mod_400) in
      let* a := mul_i32 year_div_400 400 in
      let* y := add_i32 a (as_i32 year_mod_400) in
      from_ordinal_and_flags y ordinal flags
    end
  end.

(** [days : u64] *)
Definition checked_add_days (d days : Z) : R (option Z) :=
  if days <=? i32_max then add_days d (as_i32 days) else Val None.
Definition checked_sub_days (d days : Z) : R (option Z) :=
  if days <=? i32_max then let* n := neg_i32 (as_i32 days) in add_days d n else Val None.

Definition with_mdf (d mdf : Z) : R (option Z) :=
  let* _ := rassert (d_year_flags d =? mdf_year_flags mdf) in
  let? ordinal := mdf_ordinal mdf in
  let* r := from_yof (Z.lor (Z.land d (not_i32 D_ORDINAL_MASK)) (as_i32 (shl_u32 ordinal 4))) in
  Val (Some r).

Definition succ_opt (d : Z) : R (option Z) :=
  let* new_ol := add_i32 (Z.land d D_OL_MASK) (shl_i32 1 4) in
  if new_ol <=? D_MAX_OL
  then let* r := from_yof (Z.lor (Z.land d (not_i32 D_OL_MASK)) new_ol) in Val (Some r)
  else let* y := add_i32 (d_year d) 1 in from_yo_opt y 1.

Definition pred_opt (d : Z) : R (option Z) :=
  let* nso := sub_i32 (Z.land d D_ORDINAL_MASK) (shl_i32 1 4) in
  if 0 <? nso
  then let* r := from_yof (Z.lor (Z.land d (not_i32 D_ORDINAL_MASK)) nso) in Val (Some r)
  else let* y := sub_i32 (d_year d) 1 in from_ymd_opt y 12 31.

(** months: [i32] *)
Definition diff_months (d months : Z) : R (option Z) :=
  let* m := d_month d in
  let* y12 := mul_i32 (d_year d) 12 in
  let* a := add_i32 y12 (as_i32 m) in
  let* b := sub_i32 a 1 in
  match checked_add in_i32 b months with
  | None => Val None
  | Some months =>
    let* year := div_euclid in_i32 months 12 in
    let* r := rem_euclid in_i32 months 12 in
    let* month := add_u32 (as_u32 r) 1 in
    let* flags := yf_from_year year in
    let* nd := yf_ndays flags in
    let feb_days := if nd =? DM_LEAP_NDAYS then DM_FEB_LEAP else DM_FEB_COMMON in
    let* mi := sub_u32 month 1 in
    let* dm0 := tget DM_MONTH_DAYS (as_usize mi) in
    let day_max := if mi =? 1 then feb_days else dm0 in
    let* day := d_day d in
    let day := if day_max <? day then day_max else day in
    from_ymd_opt year month day
  end.

(** months: [u32] *)
Definition checked_add_months (d months : Z) : R (option Z) :=
  if months =? 0 then Val (Some d) else
  if months <=? i32_max then diff_months d (as_i32 months) else Val None.
Definition checked_sub_months (d months : Z) : R (option Z) :=
  if months =? 0 then Val (Some d) else
  if months <=? i32_max then let* n := neg_i32 (as_i32 months) in diff_months d n else Val None.

(** whole days of a TimeDelta *)
Definition checked_add_signed (d : Z) (rhs : td) : R (option Z) :=
  let* days := num_days rhs in
  if (days <? i32_min) || (i32_max <? days) then Val None else add_days d (as_i32 days).
Definition checked_sub_signed (d : Z) (rhs : td) : R (option Z) :=
  let* nd := num_days rhs in
  let* days := neg_i64 nd in
  if (days <? i32_min) || (i32_max <? days) then Val None else add_days d (as_i32 days).

Definition signed_duration_since (d1 d2 : Z) : R td :=
  let* '(y1d, y1m) := div_mod_floor (d_year d1) 400 in
  let* '(y2d, y2m) := div_mod_floor (d_year d2) 400 in
  let* c1 := yo_to_cycle (as_u32 y1m) (d_ordinal d1) in
  let* c2 := yo_to_cycle (as_u32 y2m) (d_ordinal d2) in
  let* dy := sub_i64 y1d y2d in
  let* a := mul_i64 dy 146097 in
  let* dc := sub_i64 c1 c2 in
  let* days := add_i64 a dc in
  unwrap (try_days days).

Definition years_since (d base : Z) : R (option Z) :=
  let* years := sub_i32 (d_year d) (d_year base) in
  let* m1 := d_month d in let* dd1 := d_day d in
  let* m2 := d_month base in let* dd2 := d_day base in
  let* years := (if Z.lor (shl_u32 m1 5) dd1 <? Z.lor (shl_u32 m2 5) dd2 then sub_i32 years 1 else Val years) in
  Val (if 0 <=? years then Some (as_u32 years) else None).

(** Datelike setters *)
Definition with_year (d year : Z) : R (option Z) :=
  let* mdf := d_mdf d in
  let* flags := yf_from_year year in
  from_mdf year (mdf_with_flags mdf flags).
Definition with_month (d month : Z) : R (option Z) :=
  let* mdf := d_mdf d in
  match mdf_with_month mdf month with Some m => with_mdf d m | None => Val None end.
Definition with_month0 (d month0 : Z) : R (option Z) :=
  match checked_add in_u32 month0 1 with Some m => with_month d m | None => Val None end.
Definition with_day (d day : Z) : R (option Z) :=
  let* mdf := d_mdf d in
  match mdf_with_day mdf day with Some m => with_mdf d m | None => Val None end.
Definition with_day0 (d day0 : Z) : R (option Z) :=
  match checked_add in_u32 day0 1 with Some x => with_day d x | None => Val None end.
Definition with_ordinal (d ordinal : Z) : R (option Z) :=
  if (ordinal =? 0) || (366 <? ordinal) then Val None else
  let yof := Z.lor (Z.land d (not_i32 D_ORDINAL_MASK)) (as_i32 (shl_u32 ordinal 4)) in
  if Z.land yof D_OL_MASK <=? D_MAX_OL then let* r := from_yof yof in Val (Some r) else Val None.
Definition with_ordinal0 (d ordinal0 : Z) : R (option Z) :=
  match checked_add in_u32 ordinal0 1 with Some o => with_ordinal d o | None => Val None end.

(** * IsoWeek (the packed [ywf : i32]) *)
Definition isoweek_from_yof (year ordinal flags : Z) : R Z :=
  let* delta := yf_isoweek_delta flags in
  let* s := add_u32 ordinal delta in
  let* rawweek := div_u32 s 7 in
  let* '(year, week) :=
    (if rawweek <? 1 then
      let* py := sub_i32 year 1 in
      let* pf := yf_from_year py in
      let* prevlastweek := yf_nisoweeks pf in
      Val (py, prevlastweek)
    else
      let* lastweek := yf_nisoweeks flags in
      if lastweek <? rawweek then let* ny := add_i32 year 1 in Val (ny, 1)
      else Val (year, rawweek)) in
  let* flags := yf_from_year year in
  Val (Z.lor (Z.lor (shl_i32 year IW_YEAR_SHIFT) (as_i32 (shl_u32 week IW_WEEK_SHIFT))) flags).
Definition d_iso_week (d : Z) : R Z := isoweek_from_yof (d_year d) (d_ordinal d) (d_year_flags d).
Definition iw_year (ywf : Z) : Z := shr ywf IW_YEAR_GET_SHIFT.
Definition iw_week (ywf : Z) : Z := as_u32 (Z.land (shr ywf IW_WEEK_GET_SHIFT) IW_WEEK_MASK).
Definition iw_week0 (ywf : Z) : R Z := sub_u32 (iw_week ywf) 1.

(** the four named constants *)
Definition D_MIN : Z := D_MIN_yof.
Definition D_MAX : Z := D_MAX_yof.
Definition D_BEFORE_MIN : Z := D_BEFORE_MIN_yof.
Definition D_AFTER_MAX : Z := D_AFTER_MAX_yof.

(** derived [Ord]/[Eq] on NaiveDate compare [yof]; on IsoWeek compare [ywf] *)
Definition d_cmp (a b : Z) : Z := cmpZ a b.

(** * Helpers used by format::Parsed (added with C14)
    src/weekday.rs [Weekday::days_since] on weekday numbers from Monday (0..6, [*self as u32]) *)
Definition wd_days_since (lhs rhs : Z) : R Z :=
  if lhs <? rhs then let* a := add_u32 7 lhs in sub_u32 a rhs else sub_u32 lhs rhs.
(** [NaiveDate::weeks_from(&self, day: Weekday) -> i32]:
    (self.ordinal() as i32 - self.weekday().days_since(day) as i32 + 6) / 7 *)
Definition weeks_from (d day : Z) : R Z :=
  let* wd := d_weekday d in
  let* ds := wd_days_since wd day in
  let* a := sub_i32 (as_i32 (d_ordinal d)) (as_i32 ds) in
  let* b := add_i32 a 6 in
  div_i32 b 7.
(** [Datelike::quarter] (provided method): (self.month() - 1).div_euclid(3) + 1 *)
Definition d_quarter (d : Z) : R Z :=
  let* m := d_month d in
  let* a := sub_u32 m 1 in
  let* q := div_euclid in_u32 a 3 in
  add_u32 q 1.
