(** C20 dispatcher: the model is Model/Serde.v; this file only maps case lines to model calls.
    No proofs here.
      sd.rt     fmt ty value        -> (payload, deserialized)  serialize, carry through fmt, deserialize
      sd.read   fmt ty <bytes>      -> value | err:..           deserialize a string
      sd.ts     m fmt value         -> (written, read back)     plain module: value = naive date-time;
                                                                option module: none | some(naive date-time)
      sd.tsread m fmt kind integer  -> value | err:..           kind 0: handed to visit_i64, 1: visit_u64
      sd.tsnone m fmt kind          -> none                     option modules: kind 0 none/null, 1 unit
      sd.tdread fmt secs nanos      -> (secs,nanos) | err:..    a written pair (i64, i32)
    fmt: 0 serde_json, 1 bincode, 2 the data-model value handed to the impl directly (sd.tsread / sd.tsnone)
    ty: 0 NaiveDate, 1 NaiveTime, 2 NaiveDateTime, 3 DateTime<FixedOffset>, 4 DateTime<Utc> (offset 0),
        5 TimeDelta, 6 Weekday, 7 Month, 8 DateTime<FixedOffset> read back as DateTime<Utc>,
        9 DateTime<FixedOffset> read back as DateTime<Local> (reported as its UTC reading, offset field 0)
    m:  8*z + 2*u + o   z: 0 NaiveDateTime 1 DateTime<Utc>;  u: 0 s 1 ms 2 us 3 ns;  o: 0 plain 1 _option
    A DateTime<Utc> argument of a ts module is given as its naive UTC reading. *)
From Coq Require Import ZArith List Bool String.
From V Require Import Base.Int Base.IO Base.Utf8 Model.Scan Model.TimeDelta Model.DateTime Model.Serde.
From V Require Model.Date Model.Time Model.C19.
Import ListNotations.
Open Scope Z_scope.

Definition fmt_ok (fmt : Z) : bool := (fmt =? 0) || (fmt =? 1).
Definition mod_ok (m : Z) : bool := (0 <=? m) && (m <=? 15).

Definition val_of_serr (e : serr) : val := VErr (serr_name e).
Definition val_of_SR {A} (enc : A -> val) (r : SR A) : val :=
  val_of_R (fun x => match x with SOk a => enc a | SErr e => val_of_serr e end) r.

(* the payload of the carrier as the harness reads it back generically *)
Definition enc_payload (v : sval) : val :=
  match v with
  | SStr s => VStr s
  | STup [SI64 a; SI32 b] => VTup [VInt a; VInt b]
  | SI64 z => VInt z
  | SSome (SI64 z) => VSome (VInt z)
  | SNone => VNone
  | _ => VErr B"PAYLOAD"
  end.

(* serialize; carry; deserialize *)
Definition round_trip {A} (fmt : Z) (ser : SR sval) (de : sval -> SR A) (enc : A -> val) : val :=
  match ser with
  | Val (SOk p) => VTup [enc_payload p; val_of_SR enc (de (carry fmt p))]
  | Val (SErr e) => val_of_serr e
  | Panic => VPanic
  | OutOfFuel => VFuel
  end.

Definition rt (fmt ty : Z) (v : val) : val :=
  if ty =? 0 then match dec_date v with Some d => round_trip fmt (ser_date d) de_date enc_date | None => VBad end
  else if ty =? 1 then match Time.dec_time v with Some t => round_trip fmt (ser_time t) de_time Time.enc_time | None => VBad end
  else if ty =? 2 then match dec_ndt v with Some a => round_trip fmt (ser_ndt a) de_ndt enc_ndt | None => VBad end
  else if ty =? 3 then match dec_dtz v with Some a => round_trip fmt (ser_dtz a) de_dt_fixed enc_dtz | None => VBad end
  else if ty =? 4 then
    match dec_dtz v with
    | Some a => if dz_off a =? 0 then round_trip fmt (ser_dtz a) de_dt_utc enc_dtz else VBad
    | None => VBad end
  else if ty =? 5 then match dec_td v with Some d => round_trip fmt (ser_td d) de_td enc_td | None => VBad end
  else if ty =? 6 then match C19.dec_wd v with Some w => round_trip fmt (ser_wd w) de_wd C19.enc_wd | None => VBad end
  else if ty =? 7 then match C19.dec_mo v with Some m => round_trip fmt (ser_mo m) de_mo C19.enc_mo | None => VBad end
  else if ty =? 8 then match dec_dtz v with Some a => round_trip fmt (ser_dtz a) de_dt_utc enc_dtz | None => VBad end
  else if ty =? 9 then match dec_dtz v with Some a => round_trip fmt (ser_dtz a) de_dt_local enc_dtz | None => VBad end
  else VBad.

Definition read (ty : Z) (s : bytes) : val :=
  let v := SStr s in
  if ty =? 0 then val_of_SR enc_date (de_date v)
  else if ty =? 1 then val_of_SR Time.enc_time (de_time v)
  else if ty =? 2 then val_of_SR enc_ndt (de_ndt v)
  else if ty =? 3 then val_of_SR enc_dtz (de_dt_fixed v)
  else if (ty =? 4) || (ty =? 8) then val_of_SR enc_dtz (de_dt_utc v)
  else if ty =? 6 then val_of_SR C19.enc_wd (de_wd v)
  else if ty =? 7 then val_of_SR C19.enc_mo (de_mo v)
  else if ty =? 9 then val_of_SR enc_dtz (de_dt_local v)
  else VBad.

Definition enc_ondt (o : option ndt) : val := val_of_option enc_ndt o.
Definition ts (m fmt : Z) (v : val) : val :=
  if is_option_mod m then
    match v with
    | VNone => round_trip fmt (ts_serialize_option m None) (ts_deserialize_option m) enc_ondt
    | VSome x => match dec_ndt x with
                 | Some a => round_trip fmt (ts_serialize_option m (Some a)) (ts_deserialize_option m) enc_ondt
                 | None => VBad end
    | _ => VBad
    end
  else
    match dec_ndt v with
    | Some a => round_trip fmt (ts_serialize m a) (ts_deserialize m) enc_ndt
    | None => VBad
    end.

(* which (fmt, kind, n) the harness can produce: JSON decides the visitor by the sign, bincode
   always reads an i64, the direct hand-over takes either *)
Definition tsread_ok (fmt kind n : Z) : bool :=
  if fmt =? 0 then ((kind =? 1) && in_u64 n) || ((kind =? 0) && in_i64 n && (n <? 0))
  else if fmt =? 1 then (kind =? 0) && in_i64 n
  else if fmt =? 2 then ((kind =? 0) && in_i64 n) || ((kind =? 1) && in_u64 n)
  else false.
Definition tsread (m fmt kind n : Z) : val :=
  if negb (tsread_ok fmt kind n) then VBad else
  let v := if kind =? 0 then SI64 n else SU64 n in
  if is_option_mod m then val_of_SR enc_ondt (ts_deserialize_option m (SSome v))
  else val_of_SR enc_ndt (ts_deserialize m v).
Definition tsnone (m fmt kind : Z) : val :=
  if negb (is_option_mod m) then VBad
  else if (kind =? 0) && ((fmt =? 0) || (fmt =? 1) || (fmt =? 2)) then val_of_SR enc_ondt (ts_deserialize_option m SNone)
  else if (kind =? 1) && (fmt =? 2) then val_of_SR enc_ondt (ts_deserialize_option m SUnit)
  else VBad.

Definition tdread (fmt secs nanos : Z) : val :=
  if fmt_ok fmt && in_i64 secs && in_i32 nanos then
    val_of_SR enc_td (de_td (carry fmt (STup [SI64 secs; SI32 nanos])))
  else VBad.

Definition run (op : bytes) (args : list val) : val :=
  if op_is op "sd.rt" then
    match args with
    | [VInt fmt; VInt ty; v] => if fmt_ok fmt then rt fmt ty v else VBad
    | _ => VBad end
  else if op_is op "sd.read" then
    match args with
    | [VInt fmt; VInt ty; VStr s] => if fmt_ok fmt && utf8_valid s then read ty s else VBad
    | _ => VBad end
  else if op_is op "sd.ts" then
    match args with
    | [VInt m; VInt fmt; v] => if mod_ok m && fmt_ok fmt then ts m fmt v else VBad
    | _ => VBad end
  else if op_is op "sd.tsread" then
    match args with
    | [VInt m; VInt fmt; VInt kind; VInt n] => if mod_ok m then tsread m fmt kind n else VBad
    | _ => VBad end
  else if op_is op "sd.tsnone" then
    match args with
    | [VInt m; VInt fmt; VInt kind] => if mod_ok m then tsnone m fmt kind else VBad
    | _ => VBad end
  else if op_is op "sd.tdread" then
    match args with
    | [VInt fmt; VInt secs; VInt nanos] => tdread fmt secs nanos
    | _ => VBad end
  else VErr B"NOOP".
