(** Executable model of src/weekday.rs, src/month.rs (without Month::num_days, which belongs to the
    calendar of C08), src/weekday_set.rs and of `impl FromStr for Weekday / Month`
    (src/format/mod.rs; the scanners are in Model/ScanNames.v).

    A Weekday / Month is its enum discriminant ([Weekday::Mon = 0 .. Sun = 6],
    [Month::January = 0 .. December = 11]); every `match` of the Rust source is a table of
    Gen/WdMo.v regenerated from the source on each run, looked up with [tab] (a Rust match over an
    enum is exhaustive, so a missing row can only be a reader defect and is surfaced as Panic) or
    [lookup] (matches with a `_ => None / Err` arm).  A WeekdaySet is its [u8].
    Month::from_u64 / from_i64 are modelled as REPAIRED by fixes/C19-month-fromprimitive.diff
    ([u32::try_from(n).ok()?] instead of the narrowing [n as u32]).  No proofs here. *)
From Coq Require Import ZArith List Bool String.
From V Require Import Base.Int Base.IO Gen.NameTables Gen.WdMo Model.ScanNames.
Import ListNotations.
Open Scope Z_scope.

Fixpoint lookup {A} (k : Z) (t : list (Z * A)) : option A :=
  match t with
  | [] => None
  | (k', v) :: r => if k =? k' then Some v else lookup k r
  end.
Definition tab {A} (t : list (Z * A)) (k : Z) : R A := unwrap (lookup k t).

Definition is_month (m : Z) : bool := existsb (Z.eqb m) MO_ALL.

(** ** src/weekday.rs *)
Definition wd_succ (w : Z) : R Z := tab WD_SUCC w.
Definition wd_pred (w : Z) : R Z := tab WD_PRED w.
(* days_since, num_days_from_monday: Model/ScanNames.v *)
Definition wd_number_from_monday (w : Z) : R Z :=
  let* d := wd_days_since w WD_NFM_BASE in add_u32 d WD_NFM_ADD.
Definition wd_number_from_sunday (w : Z) : R Z :=
  let* d := wd_days_since w WD_NFS_BASE in add_u32 d WD_NFS_ADD.
Definition wd_num_days_from_sunday (w : Z) : R Z :=
  let* d := wd_days_since w WD_NDFS_BASE in add_u32 d WD_NDFS_ADD.
(* impl fmt::Display: f.pad(name) with the default formatter of `{}` / to_string() *)
Definition wd_display (w : Z) : R bytes := tab WD_DISPLAY w.
(* impl TryFrom<u8>: None stands for Err(OutOfRange) *)
Definition wd_try_from_u8 (v : Z) : option Z := lookup v WD_TRY_FROM_U8.
(* impl num_traits::FromPrimitive: the two provided methods ... *)
Definition wd_from_i64 (n : Z) : option Z := lookup n WD_FROM_I64.
Definition wd_from_u64 (n : Z) : option Z := lookup n WD_FROM_U64.

(** num-traits 0.2 defaults of FromPrimitive (cast.rs): the narrower unsigned types widen with
    From::from into from_u64, the signed ones into from_i64; isize/i128 go through to_i64,
    usize/u128 through to_u64 (range-checked, None outside). *)
Section FromPrimitiveDefaults.
  Variable from_i64 from_u64 : Z -> option Z.
  Definition dflt_from_i8 (n : Z) := from_i64 n.
  Definition dflt_from_i16 (n : Z) := from_i64 n.
  Definition dflt_from_i32 (n : Z) := from_i64 n.
  Definition dflt_from_isize (n : Z) := match chko in_i64 n with Some m => from_i64 m | None => None end.
  Definition dflt_from_i128 (n : Z) := match chko in_i64 n with Some m => from_i64 m | None => None end.
  Definition dflt_from_u8 (n : Z) := from_u64 n.
  Definition dflt_from_u16 (n : Z) := from_u64 n.
  Definition dflt_from_u32 (n : Z) := from_u64 n.
  Definition dflt_from_usize (n : Z) := match chko in_u64 n with Some m => from_u64 m | None => None end.
  Definition dflt_from_u128 (n : Z) := match chko in_u64 n with Some m => from_u64 m | None => None end.
End FromPrimitiveDefaults.

Definition wd_from_u32 := dflt_from_u32 wd_from_u64.

(* impl FromStr for Weekday: None stands for Err(ParseWeekdayError) *)
Definition wd_from_str (s : bytes) : R (option Z) :=
  let* r := short_or_long_weekday s in
  match r with
  | POk ([], w) => Val (Some w)
  | _ => Val None
  end.

(** ** src/month.rs *)
Definition mo_succ (m : Z) : R Z := tab MO_SUCC m.
Definition mo_pred (m : Z) : R Z := tab MO_PRED m.
Definition mo_number_from_month (m : Z) : R Z := tab MO_NUMBER m.
Definition mo_name (m : Z) : R bytes := tab MO_NAME m.
Definition mo_try_from_u8 (v : Z) : option Z := lookup v MO_TRY_FROM_U8.
Definition mo_from_u32 (n : Z) : option Z := lookup n MO_FROM_U32.
(* repaired: Self::from_u32(u32::try_from(n).ok()?) *)
Definition mo_from_u64 (n : Z) : option Z :=
  match chko in_u32 n with Some m => mo_from_u32 m | None => None end.
Definition mo_from_i64 (n : Z) : option Z :=
  match chko in_u32 n with Some m => mo_from_u32 m | None => None end.
(* the code as found in chrono 0.4.40 (kept for the refutation theorem only) *)
Definition mo_from_u64_unrepaired (n : Z) : option Z := mo_from_u32 (as_u32 n).
Definition mo_from_i64_unrepaired (n : Z) : option Z := mo_from_u32 (as_u32 n).
(* derived Ord: order of the discriminants *)
Definition mo_cmp (a b : Z) : Z := cmpZ a b.

(* impl FromStr for Month *)
Definition mo_from_str (s : bytes) : R (option Z) :=
  let* r := short_or_long_month0 s in
  match r with
  | POk ([], w) => Val (lookup w MONTH_OF_MONTH0)
  | _ => Val None
  end.

(** ** u8 intrinsics used by src/weekday_set.rs *)
Fixpoint count_ones_aux (n : nat) (x : Z) : Z :=
  match n with O => 0 | S k => (if Z.odd x then 1 else 0) + count_ones_aux k (x / 2) end.
Definition u8_count_ones (x : Z) : Z := count_ones_aux 8 x.
Fixpoint tz_aux (n : nat) (x : Z) : Z :=
  match n with O => 0 | S k => if Z.odd x then 0 else 1 + tz_aux k (x / 2) end.
Definition u8_trailing_zeros (x : Z) : Z := tz_aux 8 x.
Definition u8_leading_zeros (x : Z) : Z := if x =? 0 then 8 else 7 - Z.log2 x.
Definition u8_not (x : Z) : Z := 255 - x.
(* `a << n` on u8 with overflow checks: traps when n >= 8, bits shifted out are lost *)
Definition shl_u8 (a n : Z) : R Z :=
  if (0 <=? n) && (n <? 8) then Val (as_u8 (Z.shiftl a n)) else Panic.

(** ** src/weekday_set.rs *)
Definition ws_single (w : Z) : R Z := tab WS_SINGLE w.
Definition ws_single_day (s : Z) : option Z := lookup s WS_SINGLE_DAY.
(* from_array: while idx < days.len() { acc.0 |= Self::single(days[idx]).0; idx += 1 } *)
Fixpoint ws_from_array_loop (days : list Z) (acc : Z) : R Z :=
  match days with
  | [] => Val acc
  | d :: r => let* b := ws_single d in ws_from_array_loop r (Z.lor acc b)
  end.
Definition ws_from_array (days : list Z) : R Z := ws_from_array_loop days WS_EMPTY.
Definition ws_contains (s day : Z) : R bool :=
  let* b := ws_single day in Val (negb (Z.land s b =? 0)).
Definition ws_insert (s day : Z) : R (Z * bool) :=
  let* c := ws_contains s day in
  if c then Val (s, false)
  else let* b := ws_single day in Val (Z.lor s b, true).
Definition ws_remove (s day : Z) : R (Z * bool) :=
  let* c := ws_contains s day in
  if c then let* b := ws_single day in Val (Z.land s (u8_not b), true)
  else Val (s, false).
Definition ws_intersection (a b : Z) : Z := Z.land a b.
Definition ws_union (a b : Z) : Z := Z.lor a b.
Definition ws_symmetric_difference (a b : Z) : Z := Z.lxor a b.
Definition ws_difference (a b : Z) : Z := Z.land a (u8_not b).
Definition ws_is_subset (a b : Z) : bool := ws_intersection a b =? a.
Definition ws_len (s : Z) : Z := as_u8 (u8_count_ones s).
Definition ws_is_empty (s : Z) : bool := ws_len s =? 0.
Definition ws_first (s : Z) : R (option Z) :=
  if ws_is_empty s then Val None else
  let* bit := shl_u8 WS_FIRST_ONE (u8_trailing_zeros s) in
  Val (ws_single_day bit).
Definition ws_last (s : Z) : R (option Z) :=
  if ws_is_empty s then Val None else
  let* sh := sub_u32 WS_LAST_TOP (u8_leading_zeros s) in
  let* bit := shl_u8 WS_LAST_ONE sh in
  Val (ws_single_day bit).
Definition ws_split_at (s weekday : Z) : R (Z * Z) :=
  let* b := ws_single weekday in
  let* days_after := sub_u8 WS_SPLIT_TOP b in
  let days_before := Z.lxor days_after WS_SPLIT_MASK in
  Val (Z.land s days_before, Z.land s days_after).

(* WeekdaySetIter { days, start }: next / next_back return the item and the new [days] *)
Definition it_next (days start : Z) : R (option Z * Z) :=
  if ws_is_empty days then Val (None, days) else
  let* '(before, after) := ws_split_at days start in
  let d := if ws_is_empty after then before else after in
  let* f := ws_first d in
  let* nx := unwrap f in
  let* '(days', _) := ws_remove days nx in
  Val (Some nx, days').
Definition it_next_back (days start : Z) : R (option Z * Z) :=
  if ws_is_empty days then Val (None, days) else
  let* '(before, after) := ws_split_at days start in
  let d := if ws_is_empty before then after else before in
  let* l := ws_last d in
  let* nb := unwrap l in
  let* '(days', _) := ws_remove days nb in
  Val (Some nb, days').
(* ExactSizeIterator::len *)
Definition it_len (days : Z) : Z := ws_len days.

(* a schedule of calls: true = next, false = next_back; per call the item and len() afterwards *)
Fixpoint it_run (sched : list bool) (days start : Z) : R (list (option Z * Z)) :=
  match sched with
  | [] => Val []
  | front :: r =>
      let* '(item, days') := (if front then it_next days start else it_next_back days start) in
      let* rest := it_run r days' start in
      Val ((item, it_len days') :: rest)
  end.

(* impl Display for WeekdaySet; the `for` loop runs until next() is None: at most 8 calls *)
Fixpoint ws_display_loop (fuel : nat) (days start : Z) (acc : bytes) : R bytes :=
  match fuel with
  | O => OutOfFuel
  | S f =>
      let* '(item, days') := it_next days start in
      match item with
      | None => Val acc
      | Some w => let* nm := wd_display w in ws_display_loop f days' start (acc ++ B", " ++ nm)
      end
  end.
Definition ws_display (s : Z) : R bytes :=
  let acc := B"[" in
  let* '(item, days') := it_next s WD_Mon in
  let* acc := (match item with
               | Some first => let* nm := wd_display first in Val (acc ++ nm)
               | None => Val acc end) in
  let* acc := ws_display_loop 9 days' WD_Mon acc in
  Val (acc ++ B"]").

(* impl FromIterator<Weekday>: iter.map(Self::single).fold(Self::EMPTY, Self::union) *)
Fixpoint ws_from_iter_fold (days : list Z) (acc : Z) : R Z :=
  match days with
  | [] => Val acc
  | d :: r => let* b := ws_single d in ws_from_iter_fold r (ws_union acc b)
  end.
Definition ws_from_iter (days : list Z) : R Z := ws_from_iter_fold days WS_EMPTY.

(** ** Dispatcher for the case protocol
    weekday = 0..6 (Mon = 0); month = 1..12; weekday set = 0..127 (bit i = weekday i);
    Result<_, OutOfRange> = value / err:OutOfRange; parse results = value / err:ParseWeekdayError,
    err:ParseMonthError; bool = 0/1. *)
Definition pos_of_wd : list (Z * Z) := [(WD_Mon, 0); (WD_Tue, 1); (WD_Wed, 2); (WD_Thu, 3); (WD_Fri, 4); (WD_Sat, 5); (WD_Sun, 6)].
Definition wd_of_pos : list (Z * Z) := [(0, WD_Mon); (1, WD_Tue); (2, WD_Wed); (3, WD_Thu); (4, WD_Fri); (5, WD_Sat); (6, WD_Sun)].
Definition pos_of_mo : list (Z * Z) :=
  [(MO_January, 1); (MO_February, 2); (MO_March, 3); (MO_April, 4); (MO_May, 5); (MO_June, 6); (MO_July, 7);
   (MO_August, 8); (MO_September, 9); (MO_October, 10); (MO_November, 11); (MO_December, 12)].
Definition mo_of_pos : list (Z * Z) :=
  [(1, MO_January); (2, MO_February); (3, MO_March); (4, MO_April); (5, MO_May); (6, MO_June); (7, MO_July);
   (8, MO_August); (9, MO_September); (10, MO_October); (11, MO_November); (12, MO_December)].

Definition enc_wd (w : Z) : val := match lookup w pos_of_wd with Some p => VInt p | None => VErr B"BADWEEKDAY" end.
Definition dec_wd (v : val) : option Z := match v with VInt p => lookup p wd_of_pos | _ => None end.
Definition enc_mo (m : Z) : val := match lookup m pos_of_mo with Some p => VInt p | None => VErr B"BADMONTH" end.
Definition dec_mo (v : val) : option Z := match v with VInt p => lookup p mo_of_pos | _ => None end.
Definition enc_ws (s : Z) : val := VInt s.
Definition dec_ws (v : val) : option Z := match v with VInt s => if (0 <=? s) && (s <=? 127) then Some s else None | _ => None end.
Definition dec_int (inr : Z -> bool) (v : val) : option Z := match v with VInt z => if inr z then Some z else None | _ => None end.
Definition dec_str (v : val) : option bytes := match v with VStr s => if utf8_valid s then Some s else None | _ => None end.
Fixpoint dec_wds (l : list val) : option (list Z) :=
  match l with
  | [] => Some []
  | v :: r => match dec_wd v, dec_wds r with Some w, Some ws => Some (w :: ws) | _, _ => None end
  end.
(* schedule: a byte string of 'f' (next) and 'b' (next_back) *)
Fixpoint dec_sched (s : bytes) : option (list bool) :=
  match s with
  | [] => Some []
  | c :: r => match dec_sched r with
              | Some l => if c =? 102 then Some (true :: l) else if c =? 98 then Some (false :: l) else None
              | None => None end
  end.

Definition vo (enc : Z -> val) (o : option Z) : val := val_of_option enc o.
Definition vres (enc : Z -> val) (err : string) (o : option Z) : val :=
  match o with Some x => enc x | None => VErr (bytes_of_string err) end.
Definition enc_step (p : option Z * Z) : val := VTup [vo enc_wd (fst p); VInt (snd p)].

Definition arg1 {A} (args : list val) (dec : val -> option A) (f : A -> val) : val :=
  match args with [a] => match dec a with Some x => f x | None => VBad end | _ => VBad end.
Definition arg2 {X Y} (args : list val) (da : val -> option X) (db : val -> option Y) (f : X -> Y -> val) : val :=
  match args with [a; b] => match da a, db b with Some x, Some y => f x y | _, _ => VBad end | _ => VBad end.
Definition rint : R Z -> val := val_of_R VInt.

(* the provided adaptors: WeekdaySetIter overrides none of size_hint / count / last / nth / nth_back,
   so they are the core::iter defaults over next / next_back ((0, None) for size_hint);
   rev() swaps the two ends; at most 7 items come, the 8th call returns None *)
Fixpoint it_collect (step : Z -> Z -> R (option Z * Z)) (fuel : nat) (days start : Z) : R (list Z) :=
  match fuel with
  | O => OutOfFuel
  | S f =>
      let* '(item, days') := step days start in
      match item with
      | None => Val []
      | Some x => let* rest := it_collect step f days' start in Val (x :: rest)
      end
  end.
Definition it_adapt (days start k : Z) : R val :=
  let* fw := it_collect it_next 9 days start in
  let* bw := it_collect it_next_back 9 days start in
  let wds l := VTup (map enc_wd l) in
  Val (VTup [VInt 0; VNone;
             VInt (Z.of_nat (List.length fw)); vo enc_wd (List.last (map Some fw) None);
             vo enc_wd (nth_error fw (Z.to_nat k)); vo enc_wd (nth_error bw (Z.to_nat k));
             vo enc_wd (nth_error bw (Z.to_nat k)); wds fw; wds bw; VInt (it_len days)]).

Definition run (op : bytes) (args : list val) : val :=
  let a1 {X} := @arg1 X args in
  let a2 {X Y} := @arg2 X Y args in
  (* ---- Weekday *)
  if op_is op "wd.succ" then a1 dec_wd (fun w => val_of_R enc_wd (wd_succ w))
  else if op_is op "wd.pred" then a1 dec_wd (fun w => val_of_R enc_wd (wd_pred w))
  else if op_is op "wd.nfm" then a1 dec_wd (fun w => rint (wd_number_from_monday w))
  else if op_is op "wd.nfs" then a1 dec_wd (fun w => rint (wd_number_from_sunday w))
  else if op_is op "wd.ndfm" then a1 dec_wd (fun w => rint (wd_num_days_from_monday w))
  else if op_is op "wd.ndfs" then a1 dec_wd (fun w => rint (wd_num_days_from_sunday w))
  else if op_is op "wd.since" then a2 dec_wd dec_wd (fun a b => rint (wd_days_since a b))
  else if op_is op "wd.disp" then a1 dec_wd (fun w => val_of_R VStr (wd_display w))
  else if op_is op "wd.try" then a1 (dec_int in_u8) (fun n => vres enc_wd "OutOfRange" (wd_try_from_u8 n))
  else if op_is op "wd.fi64" then a1 (dec_int in_i64) (fun n => vo enc_wd (wd_from_i64 n))
  else if op_is op "wd.fu64" then a1 (dec_int in_u64) (fun n => vo enc_wd (wd_from_u64 n))
  else if op_is op "wd.fu32" then a1 (dec_int in_u32) (fun n => vo enc_wd (wd_from_u32 n))
  else if op_is op "wd.fu16" then a1 (dec_int in_u16) (fun n => vo enc_wd (dflt_from_u16 wd_from_u64 n))
  else if op_is op "wd.fu8" then a1 (dec_int in_u8) (fun n => vo enc_wd (dflt_from_u8 wd_from_u64 n))
  else if op_is op "wd.fusize" then a1 (dec_int in_usize) (fun n => vo enc_wd (dflt_from_usize wd_from_u64 n))
  else if op_is op "wd.fu128" then a1 (dec_int (in_range 0 i128_max)) (fun n => vo enc_wd (dflt_from_u128 wd_from_u64 n))
  else if op_is op "wd.fi32" then a1 (dec_int in_i32) (fun n => vo enc_wd (dflt_from_i32 wd_from_i64 n))
  else if op_is op "wd.fi16" then a1 (dec_int in_i16) (fun n => vo enc_wd (dflt_from_i16 wd_from_i64 n))
  else if op_is op "wd.fi8" then a1 (dec_int in_i8) (fun n => vo enc_wd (dflt_from_i8 wd_from_i64 n))
  else if op_is op "wd.fisize" then a1 (dec_int in_isize) (fun n => vo enc_wd (dflt_from_isize wd_from_i64 n))
  else if op_is op "wd.fi128" then a1 (dec_int in_i128) (fun n => vo enc_wd (dflt_from_i128 wd_from_i64 n))
  else if op_is op "wd.parse" then a1 dec_str (fun s => val_of_R (vres enc_wd "ParseWeekdayError") (wd_from_str s))
  (* ---- Month *)
  else if op_is op "mo.succ" then a1 dec_mo (fun m => val_of_R enc_mo (mo_succ m))
  else if op_is op "mo.pred" then a1 dec_mo (fun m => val_of_R enc_mo (mo_pred m))
  else if op_is op "mo.num" then a1 dec_mo (fun m => rint (mo_number_from_month m))
  else if op_is op "mo.name" then a1 dec_mo (fun m => val_of_R VStr (mo_name m))
  else if op_is op "mo.cmp" then a2 dec_mo dec_mo (fun a b => VInt (mo_cmp a b))
  else if op_is op "mo.try" then a1 (dec_int in_u8) (fun n => vres enc_mo "OutOfRange" (mo_try_from_u8 n))
  else if op_is op "mo.fi64" then a1 (dec_int in_i64) (fun n => vo enc_mo (mo_from_i64 n))
  else if op_is op "mo.fu64" then a1 (dec_int in_u64) (fun n => vo enc_mo (mo_from_u64 n))
  else if op_is op "mo.fu32" then a1 (dec_int in_u32) (fun n => vo enc_mo (mo_from_u32 n))
  else if op_is op "mo.fu16" then a1 (dec_int in_u16) (fun n => vo enc_mo (dflt_from_u16 mo_from_u64 n))
  else if op_is op "mo.fu8" then a1 (dec_int in_u8) (fun n => vo enc_mo (dflt_from_u8 mo_from_u64 n))
  else if op_is op "mo.fusize" then a1 (dec_int in_usize) (fun n => vo enc_mo (dflt_from_usize mo_from_u64 n))
  else if op_is op "mo.fu128" then a1 (dec_int (in_range 0 i128_max)) (fun n => vo enc_mo (dflt_from_u128 mo_from_u64 n))
  else if op_is op "mo.fi32" then a1 (dec_int in_i32) (fun n => vo enc_mo (dflt_from_i32 mo_from_i64 n))
  else if op_is op "mo.fi16" then a1 (dec_int in_i16) (fun n => vo enc_mo (dflt_from_i16 mo_from_i64 n))
  else if op_is op "mo.fi8" then a1 (dec_int in_i8) (fun n => vo enc_mo (dflt_from_i8 mo_from_i64 n))
  else if op_is op "mo.fisize" then a1 (dec_int in_isize) (fun n => vo enc_mo (dflt_from_isize mo_from_i64 n))
  else if op_is op "mo.fi128" then a1 (dec_int in_i128) (fun n => vo enc_mo (dflt_from_i128 mo_from_i64 n))
  else if op_is op "mo.parse" then a1 dec_str (fun s => val_of_R (vres enc_mo "ParseMonthError") (mo_from_str s))
  (* ---- WeekdaySet *)
  else if op_is op "ws.consts" then match args with [] => VTup [enc_ws WS_EMPTY; enc_ws WS_ALL] | _ => VBad end
  else if op_is op "ws.single" then a1 dec_wd (fun w => val_of_R enc_ws (ws_single w))
  else if op_is op "ws.single_day" then a1 dec_ws (fun s => vo enc_wd (ws_single_day s))
  else if op_is op "ws.fromarr" then
    a1 (fun v => match v with VTup l => dec_wds l | _ => None end) (fun l => val_of_R enc_ws (ws_from_array l))
  else if op_is op "ws.collect" then
    a1 (fun v => match v with VTup l => dec_wds l | _ => None end) (fun l => val_of_R enc_ws (ws_from_iter l))
  else if op_is op "ws.insert" then
    a2 dec_ws dec_wd (fun s w => val_of_R (fun '(s', b) => VTup [enc_ws s'; val_of_bool b]) (ws_insert s w))
  else if op_is op "ws.remove" then
    a2 dec_ws dec_wd (fun s w => val_of_R (fun '(s', b) => VTup [enc_ws s'; val_of_bool b]) (ws_remove s w))
  else if op_is op "ws.contains" then a2 dec_ws dec_wd (fun s w => val_of_R val_of_bool (ws_contains s w))
  else if op_is op "ws.subset" then a2 dec_ws dec_ws (fun a b => val_of_bool (ws_is_subset a b))
  else if op_is op "ws.inter" then a2 dec_ws dec_ws (fun a b => enc_ws (ws_intersection a b))
  else if op_is op "ws.union" then a2 dec_ws dec_ws (fun a b => enc_ws (ws_union a b))
  else if op_is op "ws.symdiff" then a2 dec_ws dec_ws (fun a b => enc_ws (ws_symmetric_difference a b))
  else if op_is op "ws.diff" then a2 dec_ws dec_ws (fun a b => enc_ws (ws_difference a b))
  else if op_is op "ws.first" then a1 dec_ws (fun s => val_of_R (vo enc_wd) (ws_first s))
  else if op_is op "ws.last" then a1 dec_ws (fun s => val_of_R (vo enc_wd) (ws_last s))
  else if op_is op "ws.empty" then a1 dec_ws (fun s => val_of_bool (ws_is_empty s))
  else if op_is op "ws.len" then a1 dec_ws (fun s => VInt (ws_len s))
  else if op_is op "ws.disp" then a1 dec_ws (fun s => val_of_R VStr (ws_display s))
  else if op_is op "ws.iter" then
    match args with
    | [a; b; VStr c] =>
        match dec_ws a, dec_wd b, dec_sched c with
        | Some s, Some w, Some sched => val_of_R (fun l => VTup (map enc_step l)) (it_run sched s w)
        | _, _, _ => VBad
        end
    | _ => VBad end
  else if op_is op "ws.adapt" then
    match args with
    | [a; b; VInt k] =>
        match dec_ws a, dec_wd b with
        | Some s, Some w => if (0 <=? k) && (k <=? 9) then val_of_R (fun v => v) (it_adapt s w k) else VBad
        | _, _ => VBad
        end
    | _ => VBad end
  else VErr B"NOOP".
