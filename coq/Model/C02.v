(** C02 — Unix timestamps <-> UTC date-times.  The constructors and accessors of [DateTime<Utc>]
    themselves are in the shared Model/DateTime.v ([dt_from_timestamp*], [dt_timestamp*], [dt_subsec_*],
    [tz_timestamp_opt]); this file adds, function by function,
      - the deprecated [NaiveDateTime::from_timestamp*] / [timestamp*] wrappers (src/naive/datetime/mod.rs),
      - the remaining [TimeZone::timestamp*] provided methods for a fixed offset (src/offset/mod.rs),
      - the two [SystemTime] conversions of src/datetime/mod.rs over a model of std's
        [SystemTime]/[Duration] (Unix timespec: i64 seconds + nanoseconds < 10^9),
    and the case dispatcher [run].  No proofs here. *)
From Coq Require Import ZArith List Bool String.
From V Require Import Base.Int Base.IO Gen.DateTimeConsts Gen.TsConsts Gen.TimeDelta Model.TimeDelta.
From V Require Model.Date Model.Time.
From V Require Import Model.DateTime.
Import ListNotations.
Open Scope Z_scope.

(** * NaiveDateTime wrappers (all deprecated in 0.4.35, still public) *)
(* pub const fn from_timestamp(secs: i64, nsecs: u32) -> NaiveDateTime   (expect) *)
Definition naive_from_timestamp (secs nsecs : Z) : R ndt := unwrap_r (dt_from_timestamp secs nsecs).
(* pub const fn from_timestamp_millis(millis: i64) -> Option<NaiveDateTime> *)
Definition naive_from_timestamp_millis (millis : Z) : R (option ndt) :=
  let? dt := dt_from_timestamp_millis millis in Val (Some dt).
(* pub const fn from_timestamp_micros(micros: i64) -> Option<NaiveDateTime>   (own body) *)
Definition naive_from_timestamp_micros (micros : Z) : R (option ndt) :=
  let* secs := div_euclid in_i64 micros TS_NAIVE_US_DIV in
  let* r := rem_euclid in_i64 micros TS_NAIVE_US_REM in
  let* nsecs := mul_u32 (as_u32 r) TS_NAIVE_US_MUL in
  let? dt := dt_from_timestamp secs nsecs in Val (Some dt).
(* pub const fn from_timestamp_nanos(nanos: i64) -> Option<NaiveDateTime>   (own body, NANOS_PER_SEC) *)
Definition naive_from_timestamp_nanos (nanos : Z) : R (option ndt) :=
  let* secs := div_euclid in_i64 nanos (as_i64 TD_NANOS_PER_SEC) in
  let* r := rem_euclid in_i64 nanos (as_i64 TD_NANOS_PER_SEC) in
  let? dt := dt_from_timestamp secs (as_u32 r) in Val (Some dt).
(* pub const fn from_timestamp_opt(secs: i64, nsecs: u32) -> Option<NaiveDateTime> *)
Definition naive_from_timestamp_opt (secs nsecs : Z) : R (option ndt) :=
  let? dt := dt_from_timestamp secs nsecs in Val (Some dt).
(* timestamp*, timestamp_subsec_*: self.and_utc().<same> *)
Definition naive_timestamp (a : ndt) := dt_timestamp a.
Definition naive_timestamp_millis (a : ndt) := dt_timestamp_millis a.
Definition naive_timestamp_micros (a : ndt) := dt_timestamp_micros a.
Definition naive_timestamp_nanos_opt (a : ndt) := dt_timestamp_nanos_opt a.
Definition naive_timestamp_nanos (a : ndt) := dt_timestamp_nanos a.
Definition naive_subsec_millis (a : ndt) := dt_subsec_millis a.
Definition naive_subsec_micros (a : ndt) := dt_subsec_micros a.
Definition naive_subsec_nanos (a : ndt) := dt_subsec_nanos a.

(** * TimeZone provided methods for a fixed offset [off] (src/offset/mod.rs) *)
Definition mlt_unwrap {A} (m : mlt A) : R A := match m with MSingle a => Val a | _ => Panic end.
(* fn timestamp(&self, secs, nsecs) -> DateTime<Self>      (deprecated, unwrap) *)
Definition tz_timestamp (off secs nsecs : Z) : R dtz := let* m := tz_timestamp_opt off secs nsecs in mlt_unwrap m.
(* fn timestamp_millis_opt(&self, millis) -> MappedLocalTime<DateTime<Self>> *)
Definition tz_timestamp_millis_opt (off millis : Z) : R (mlt dtz) :=
  let* o := dt_from_timestamp_millis millis in
  Val (match o with Some u => MSingle (from_utc_datetime off u) | None => MNone end).
(* fn timestamp_millis(&self, millis) -> DateTime<Self>     (deprecated, unwrap) *)
Definition tz_timestamp_millis (off millis : Z) : R dtz := let* m := tz_timestamp_millis_opt off millis in mlt_unwrap m.
(* fn timestamp_nanos(&self, nanos) -> DateTime<Self> *)
Definition tz_timestamp_nanos (off nanos : Z) : R dtz :=
  let* u := dt_from_timestamp_nanos nanos in Val (from_utc_datetime off u).
(* fn timestamp_micros(&self, micros) -> MappedLocalTime<DateTime<Self>> *)
Definition tz_timestamp_micros (off micros : Z) : R (mlt dtz) :=
  let* o := dt_from_timestamp_micros micros in
  Val (match o with Some u => MSingle (from_utc_datetime off u) | None => MNone end).

(** * std::time on Unix, as far as the two conversions use it (modelled, not verified) *)
(* core::time::Duration::new(secs: u64, nanos: u32): carries whole seconds out of nanos, panics on overflow *)
Definition dur_new (secs nanos : Z) : R (Z * Z) :=
  let* s := add_u64 secs (Z.quot nanos 1000000000) in Val (s, Z.rem nanos 1000000000).
(* SystemTime = Timespec { tv_sec: i64, tv_nsec < 10^9 }; UNIX_EPOCH = (0, 0) *)
Definition st_epoch : Z * Z := (0, 0).
(* SystemTime + Duration: checked_add_unsigned on the seconds, carry from the nanoseconds; `+` panics on overflow *)
Definition st_add (t d : Z * Z) : R (Z * Z) :=
  let '(ts, tn) := t in let '(ds, dn) := d in
  let* s := chk in_i64 (ts + ds) in
  let n := tn + dn in
  if n >=? 1000000000 then let* s' := add_i64 s 1 in Val (s', n - 1000000000) else Val (s, n).
Definition st_sub (t d : Z * Z) : R (Z * Z) :=
  let '(ts, tn) := t in let '(ds, dn) := d in
  let* s := chk in_i64 (ts - ds) in
  let n := tn - dn in
  if n <? 0 then let* s' := sub_i64 s 1 in Val (s', n + 1000000000) else Val (s, n).
(* t.duration_since(UNIX_EPOCH): Ok(d) -> (false, d), Err(e) -> (true, e.duration()) *)
Definition st_since_epoch (t : Z * Z) : bool * Z * Z :=
  let '(s, n) := t in
  if 0 <=? s then (false, s, n)
  else if n =? 0 then (true, - s, 0) else (true, - s - 1, 1000000000 - n).

(* impl From<SystemTime> for DateTime<Utc>, on the triple duration_since returns *)
Definition dt_from_systime (before : bool) (dsecs dnanos : Z) : R dtz :=
  let* '(sec, nsec) :=
    (if negb before then Val (as_i64 dsecs, dnanos)
     else
       let sec := as_i64 dsecs in let nsec := dnanos in
       if nsec =? 0 then let* m := neg_i64 sec in Val (m, 0)
       else let* m := neg_i64 sec in let* m1 := sub_i64 m 1 in
            let* n := sub_u32 TS_SYS_NS nsec in Val (m1, n)) in
  let* m := tz_timestamp_opt 0 sec nsec in mlt_unwrap m.
(* impl<Tz: TimeZone> From<DateTime<Tz>> for SystemTime *)
Definition systime_from_dt (a : dtz) : R (Z * Z) :=
  let* sec := dt_timestamp (dz_utc a) in
  let nsec := dt_subsec_nanos (dz_utc a) in
  if sec <? 0 then
    let* m := neg_i64 sec in
    let* d1 := dur_new (as_u64 m) 0 in
    let* t1 := st_sub st_epoch d1 in
    let* d2 := dur_new 0 nsec in
    st_add t1 d2
  else
    let* d := dur_new (as_u64 sec) nsec in
    st_add st_epoch d.

(** * Harness-side constructions, mirrored exactly (harness/src/ops/c02.rs) *)
(* the SystemTime [UNIX_EPOCH +- Duration::new(secs, nanos)] built with checked_add/checked_sub:
   None when std cannot represent it (BADARGS on both sides) *)
Definition mk_systime (sign dsecs dnanos : Z) : option (Z * Z) :=
  if sign =? 0 then
    match st_add st_epoch (dsecs, dnanos) with Val t => Some t | _ => None end
  else
    match st_sub st_epoch (dsecs, dnanos) with Val t => Some t | _ => None end.

Definition enc_sys (t : Z * Z) : val :=
  let '(b, s, n) := st_since_epoch t in VTup [val_of_bool b; VInt s; VInt n].
Definition vo_ndt (o : option ndt) : val := val_of_option enc_ndt o.
Definition v_mlt (m : mlt dtz) : val := enc_mlt enc_dtz m.

Definition ts_acc (a : ndt) : R val :=
  let* ts := dt_timestamp a in let* ms := dt_timestamp_millis a in let* us := dt_timestamp_micros a in
  let* nso := dt_timestamp_nanos_opt a in
  Val (VTup [VInt ts; VInt ms; VInt us; val_of_option VInt nso;
             VInt (dt_subsec_millis a); VInt (dt_subsec_micros a); VInt (dt_subsec_nanos a)]).
Definition naive_acc (a : ndt) : R val :=
  let* ts := naive_timestamp a in let* ms := naive_timestamp_millis a in let* us := naive_timestamp_micros a in
  let* nso := naive_timestamp_nanos_opt a in
  Val (VTup [VInt ts; VInt ms; VInt us; val_of_option VInt nso;
             VInt (naive_subsec_millis a); VInt (naive_subsec_micros a); VInt (naive_subsec_nanos a)]).

(* round trips, as compositions made by the harness *)
Definition rt_secs (secs nsecs : Z) : R val :=
  let* o := dt_from_timestamp secs nsecs in
  match o with
  | None => Val VNone
  | Some a => let* ts := dt_timestamp a in Val (VSome (VTup [VInt ts; VInt (dt_subsec_nanos a)]))
  end.
Definition rt_unit (from : Z -> R (option ndt)) (back : ndt -> R Z) (x : Z) : R val :=
  let* o := from x in
  match o with None => Val VNone | Some a => let* y := back a in Val (VSome (VInt y)) end.
Definition rt_nanos (x : Z) : R val :=
  let* a := dt_from_timestamp_nanos x in let* o := dt_timestamp_nanos_opt a in Val (val_of_option VInt o).
Definition back_all (a : ndt) : R val :=
  let* ts := dt_timestamp a in
  let* r1 := dt_from_timestamp ts (dt_subsec_nanos a) in
  let* ms := dt_timestamp_millis a in let* r2 := dt_from_timestamp_millis ms in
  let* us := dt_timestamp_micros a in let* r3 := dt_from_timestamp_micros us in
  let* nso := dt_timestamp_nanos_opt a in
  let* r4 := (match nso with None => Val None | Some n => let* b := dt_from_timestamp_nanos n in Val (Some b) end) in
  Val (VTup [vo_ndt r1; vo_ndt r2; vo_ndt r3; vo_ndt r4]).

(** the constants: DateTime::<Utc>::UNIX_EPOCH =
      expect(NaiveDate::from_ymd_opt(1970, 1, 1), "").and_time(NaiveTime::MIN).and_utc(),
    NaiveDateTime::UNIX_EPOCH = DateTime::UNIX_EPOCH.naive_utc(), MIN_UTC / MAX_UTC =
    NaiveDateTime::MIN / MAX with offset Utc, NaiveDateTime::MIN / MAX = (NaiveDate::MIN, NaiveTime::MIN) /
    (NaiveDate::MAX, NaiveTime::MAX) *)
Definition ts_consts : R val :=
  let* d := unwrap_r (Date.from_ymd_opt 1970 1 1) in
  let epoch := mk_ndt d T_MIN in
  let* t0 := dt_timestamp epoch in
  let* tmin := dt_timestamp NDT_MIN in let* tmax := dt_timestamp NDT_MAX in
  Val (VTup [enc_dtz (mk_dtz epoch 0); VInt t0; enc_ndt epoch; enc_dtz (mk_dtz NDT_MIN 0); enc_dtz (mk_dtz NDT_MAX 0);
             enc_ndt NDT_MIN; enc_ndt NDT_MAX; VInt tmin; VInt tmax]).

(** * The [Default] impls (op ts.defaults) *)
(* impl Default for NaiveDate (src/naive/date/mod.rs):  NaiveDate::from_ymd_opt(1970, 1, 1).unwrap() *)
Definition date_default : R Z := unwrap_r (Date.from_ymd_opt 1970 1 1).
(* impl Default for NaiveTime (src/naive/time/mod.rs):  NaiveTime::from_hms_opt(0, 0, 0).unwrap() *)
Definition time_default : R Time.ntime := unwrap_r (Time.from_hms_opt 0 0 0).
(* DateTime::<Utc>::UNIX_EPOCH = expect(NaiveDate::from_ymd_opt(1970, 1, 1), "").and_time(NaiveTime::MIN).and_utc() *)
Definition dt_unix_epoch : R dtz :=
  let* d := unwrap_r (Date.from_ymd_opt 1970 1 1) in Val (mk_dtz (mk_ndt d T_MIN) 0).
(* impl Default for NaiveDateTime (src/naive/datetime/mod.rs):  DateTime::UNIX_EPOCH.naive_local() *)
Definition ndt_default : R ndt := let* e := dt_unix_epoch in naive_local e.
(* impl Default for DateTime<Utc>:  Utc.from_utc_datetime(&NaiveDateTime::default()) *)
Definition dtz_default_utc : R dtz := let* n := ndt_default in Val (from_utc_datetime 0 n).
(* impl Default for DateTime<FixedOffset>:  FixedOffset::west_opt(0).unwrap().from_utc_datetime(&NaiveDateTime::default()) *)
Definition dtz_default_fixed : R dtz :=
  let* o := unwrap_r (west_opt 0) in let* n := ndt_default in Val (from_utc_datetime o n).
(* the observation: the five default values and the timestamps of the two zoned ones *)
Definition ts_defaults : R val :=
  let* d := date_default in let* t := time_default in let* n := ndt_default in
  let* u := dtz_default_utc in let* f := dtz_default_fixed in
  let* tu := dt_timestamp (naive_utc u) in let* tf := dt_timestamp (naive_utc f) in
  Val (VTup [enc_date d; Time.enc_time t; enc_ndt n; enc_dtz u; enc_dtz f; VInt tu; VInt tf]).

Definition run (op : bytes) (args : list val) : val :=
  let i64_1 (f : Z -> val) := match args with [a] => match arg_i64 a with Some z => f z | None => VBad end | _ => VBad end in
  let i64_u32 (f : Z -> Z -> val) := match args with
     | [a; b] => match arg_i64 a, arg_u32 b with Some s, Some n => f s n | _, _ => VBad end | _ => VBad end in
  let ndt_1 (f : ndt -> val) := match args with [a] => match dec_ndt a with Some d => f d | None => VBad end | _ => VBad end in
  let off_i64 (f : Z -> Z -> val) := match args with
     | [VInt o; b] => match east_opt o, arg_i64 b with Some _, Some z => f o z | _, _ => VBad end | _ => VBad end in
  let off_i64_u32 (f : Z -> Z -> Z -> val) := match args with
     | [VInt o; b; c] => match east_opt o, arg_i64 b, arg_u32 c with Some _, Some z, Some n => f o z n | _, _, _ => VBad end
     | _ => VBad end in
  if op_is op "ts.from" then i64_u32 (fun s n => val_of_R vo_ndt (dt_from_timestamp s n))
  else if op_is op "ts.fromms" then i64_1 (fun z => val_of_R vo_ndt (dt_from_timestamp_millis z))
  else if op_is op "ts.fromus" then i64_1 (fun z => val_of_R vo_ndt (dt_from_timestamp_micros z))
  else if op_is op "ts.fromns" then i64_1 (fun z => val_of_R enc_ndt (dt_from_timestamp_nanos z))
  else if op_is op "ts.of" then ndt_1 (fun a => val_of_R (fun v => v) (ts_acc a))
  else if op_is op "ts.ofns" then ndt_1 (fun a => val_of_R VInt (dt_timestamp_nanos a))
  else if op_is op "ts.rt" then i64_u32 (fun s n => val_of_R (fun v => v) (rt_secs s n))
  else if op_is op "ts.rtms" then i64_1 (fun z => val_of_R (fun v => v) (rt_unit dt_from_timestamp_millis dt_timestamp_millis z))
  else if op_is op "ts.rtus" then i64_1 (fun z => val_of_R (fun v => v) (rt_unit dt_from_timestamp_micros dt_timestamp_micros z))
  else if op_is op "ts.rtns" then i64_1 (fun z => val_of_R (fun v => v) (rt_nanos z))
  else if op_is op "ts.back" then ndt_1 (fun a => val_of_R (fun v => v) (back_all a))
  else if op_is op "ts.tz" then off_i64_u32 (fun o s n => val_of_R v_mlt (tz_timestamp_opt o s n))
  else if op_is op "ts.tzp" then off_i64_u32 (fun o s n => val_of_R enc_dtz (tz_timestamp o s n))
  else if op_is op "ts.tzms" then off_i64 (fun o z => val_of_R v_mlt (tz_timestamp_millis_opt o z))
  else if op_is op "ts.tzmsp" then off_i64 (fun o z => val_of_R enc_dtz (tz_timestamp_millis o z))
  else if op_is op "ts.tzus" then off_i64 (fun o z => val_of_R v_mlt (tz_timestamp_micros o z))
  else if op_is op "ts.tzns" then off_i64 (fun o z => val_of_R enc_dtz (tz_timestamp_nanos o z))
  else if op_is op "ts.naive_from" then i64_u32 (fun s n => val_of_R enc_ndt (naive_from_timestamp s n))
  else if op_is op "ts.naive_opt" then i64_u32 (fun s n => val_of_R vo_ndt (naive_from_timestamp_opt s n))
  else if op_is op "ts.naive_ms" then i64_1 (fun z => val_of_R vo_ndt (naive_from_timestamp_millis z))
  else if op_is op "ts.naive_us" then i64_1 (fun z => val_of_R vo_ndt (naive_from_timestamp_micros z))
  else if op_is op "ts.naive_ns" then i64_1 (fun z => val_of_R vo_ndt (naive_from_timestamp_nanos z))
  else if op_is op "ts.naive_of" then ndt_1 (fun a => val_of_R (fun v => v) (naive_acc a))
  else if op_is op "ts.naive_ofns" then ndt_1 (fun a => val_of_R VInt (naive_timestamp_nanos a))
  else if op_is op "ts.systime" then
    match args with
    | [VInt sg; b; c] =>
        match arg_u64 b, arg_u32 c with
        | Some s, Some n =>
            if ((sg =? 0) || (sg =? 1)) && (n <? 1000000000) && (s <=? i64_max) then
              match mk_systime sg s n with
              | Some t => let '(bf, ds, dn) := st_since_epoch t in val_of_R enc_dtz (dt_from_systime bf ds dn)
              | None => VBad
              end
            else VBad
        | _, _ => VBad end
    | _ => VBad end
  else if op_is op "ts.tosys" then
    match args with
    | [a] => match dec_dtz a with Some d => val_of_R enc_sys (systime_from_dt d) | None => VBad end
    | _ => VBad end
  else if op_is op "ts.consts" then
    match args with [] => val_of_R (fun v => v) ts_consts | _ => VBad end
  else if op_is op "ts.defaults" then
    match args with [] => val_of_R (fun v => v) ts_defaults | _ => VBad end
  else VErr B"NOOP".
