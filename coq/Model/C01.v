(** C01 dispatcher: the calendar model itself is Model/Date.v (shared); this file adds the pieces
    only C01 observes (the provided method [Datelike::num_days_from_ce] of src/traits.rs, the
    [Datelike] methods month0/day0/ordinal0 of NaiveDate, derived [Ord] on dates and ISO weeks),
    the case codecs, the per-day record folded by [d.range], and the map from case lines to model
    calls.  No proofs here. *)
From Coq Require Import ZArith List Bool String.
From V Require Import Base.Int Base.IO Base.Table Gen.DateTables Gen.DatelikeDefaults Model.TimeDelta.
From V Require Export Model.Date.
Import ListNotations.
Open Scope Z_scope.

(** [Datelike::num_days_from_ce] (provided method, src/traits.rs): NaiveDate does not override it,
    so this is what [date.num_days_from_ce()] runs outside the crate.  [year]/[ordinal] are the
    results of [self.year()]/[self.ordinal()]. *)
Definition datelike_num_days_from_ce (y ordinal : Z) : R Z :=
  let* year := sub_i32 y TR_NDCE_YSUB in
  let* '(year, ndays) :=
    (if year <? 0 then
      let* ny := neg_i32 year in
      let* q := div_i32 ny TR_NDCE_A in
      let* excess := add_i32 TR_NDCE_ONE q in
      let* e4 := mul_i32 excess TR_NDCE_B in
      let* year' := add_i32 year e4 in
      let* e1 := mul_i32 excess TR_NDCE_C in
      let* nd := sub_i32 TR_NDCE_INIT e1 in
      Val (year', nd)
    else Val (year, TR_NDCE_INIT)) in
  let* div_100 := div_i32 year TR_NDCE_D in
  let* y1461 := mul_i32 year TR_NDCE_E in
  let* t1 := sub_i32 (shr y1461 TR_NDCE_F) div_100 in
  let* t2 := add_i32 t1 (shr div_100 TR_NDCE_G) in
  let* nd := add_i32 ndays t2 in
  add_i32 nd (as_i32 ordinal).
Definition d_num_days_from_ce_default (d : Z) : R Z := datelike_num_days_from_ce (d_year d) (d_ordinal d).

(** [impl Datelike for NaiveDate]: month0 / day0 / ordinal0 *)
Definition d_month0 (d : Z) : R Z := let* m := d_month d in sub_u32 m 1.
Definition d_day0 (d : Z) : R Z := let* m := d_mdf d in sub_u32 (mdf_day m) 1.
Definition d_ordinal0 (d : Z) : R Z := sub_u32 (d_ordinal d) 1.

(** derived [Ord] on IsoWeek: compares the packed [ywf] *)
Definition iw_cmp (a b : Z) : Z := cmpZ a b.

(** ** Codecs: a date travels as (year, ordinal) and is rebuilt through [from_yo_opt], as the
    harness does *)
Definition enc_date (d : Z) : val := VTup [VInt (d_year d); VInt (d_ordinal d)].
Definition vo_date (o : option Z) : val := val_of_option enc_date o.
Inductive decoded := DBad | DPanic | DDate (d : Z).
Definition dec_date (v : val) : decoded :=
  match v with
  | VTup [VInt y; VInt o] =>
      if in_i32 y && in_u32 o then
        match from_yo_opt y o with
        | Val (Some d) => DDate d
        | Val None => DBad
        | _ => DPanic
        end
      else DBad
  | _ => DBad
  end.

(** all accessors of one date, in the order of the [d.acc] op *)
Record dacc := { a_y : Z; a_m : Z; a_d : Z; a_o : Z; a_wd : Z; a_iy : Z; a_iw : Z; a_dn : Z;
                a_m0 : Z; a_d0 : Z; a_o0 : Z; a_dn2 : Z }.
Definition d_acc (d : Z) : R dacc :=
  let* m := d_month d in let* dd := d_day d in let* wd := d_weekday d in
  let* iw := d_iso_week d in let* dn := num_days_from_ce d in
  let* m0 := d_month0 d in let* d0 := d_day0 d in let* o0 := d_ordinal0 d in
  let* dn2 := d_num_days_from_ce_default d in
  Val {| a_y := d_year d; a_m := m; a_d := dd; a_o := d_ordinal d; a_wd := wd;
         a_iy := iw_year iw; a_iw := iw_week iw; a_dn := dn; a_m0 := m0; a_d0 := d0; a_o0 := o0;
         a_dn2 := dn2 |}.
Definition enc_acc (a : dacc) : val :=
  VTup [VInt (a_y a); VInt (a_m a); VInt (a_d a); VInt (a_o a); VInt (a_wd a); VInt (a_iy a);
        VInt (a_iw a); VInt (a_dn a); VInt (a_m0 a); VInt (a_d0 a); VInt (a_o0 a); VInt (a_dn2 a)].

(** ** [d.range lo hi]: one 64-bit checksum over all day numbers in [lo, hi)
    FNV-1a style fold over 64-bit words: h := ((h xor w) * prime) mod 2^64.  Per day: a single 0
    word when the day number is refused, otherwise three words packing every accessor, whether the
    three field constructors rebuild the same date, and whether succ/pred are the dates of the
    neighbouring day numbers.  The harness computes the same fold (harness/src/ops/c01.rs). *)
Definition MASK64 := 18446744073709551615.
Definition FNV_OFFSET := 14695981039346656037.
Definition FNV_PRIME := 1099511628211.
Definition fnv_step (h w : Z) : Z := Z.land (FNV_PRIME * Z.lxor h (Z.land w MASK64)) MASK64.
Definition P31 := 2147483648.
Definition P32 := 4294967296.

Definition opt_eqb (a b : option Z) : bool :=
  match a, b with Some x, Some y => x =? y | None, None => true | _, _ => false end.
Definition b2z (b : bool) : Z := if b then 1 else 0.

(** [pv], [r], [nx]: the results of [from_num_days_from_ce_opt] on n-1, n, n+1 (the fold computes each
    day number's date once and hands it on) *)
Definition day_words (pv r nx : option Z) : R (list Z) :=
  match r with
  | None => Val [0]
  | Some d =>
    let* a := d_acc d in
    let* r1 := from_ymd_opt (a_y a) (a_m a) (a_d a) in
    let* r2 := from_yo_opt (a_y a) (a_o a) in
    let* r3 := from_isoywd_opt (a_iy a) (a_iw a) (a_wd a) in
    let* s := succ_opt d in
    let* p := pred_opt d in
    let flags := b2z (opt_eqb r1 (Some d)) + 2 * b2z (opt_eqb r2 (Some d)) + 4 * b2z (opt_eqb r3 (Some d))
                 + 8 * b2z (opt_eqb s nx) + 16 * b2z (opt_eqb p pv) in
    Val [ (a_y a + P31) * P32 + (a_dn a + P31);
          (a_dn2 a + P31) * P32 + a_m a * 268435456 + a_d a * 8388608 + a_o a * 16384
            + a_wd a * 2048 + a_iw a * 32 + flags;
          (a_iy a + P31) * P32 + a_m0 a * 16777216 + a_d0 a * 65536 + a_o0 a ]
  end.

(** state: next day number n, and (date of n-1, date of n, checksum so far) *)
Definition range_step (p : Z * R (option Z * option Z * Z)) : Z * R (option Z * option Z * Z) :=
  let '(n, st) := p in
  (n + 1,
   let* '(pv, r, h) := st in
   let* nx := from_num_days_from_ce_opt (n + 1) in
   let* ws := day_words pv r nx in
   Val (r, nx, fold_left fnv_step ws h)).
Definition RANGE_MAX := 1048576.
Definition d_range (lo hi : Z) : R Z :=
  if hi <=? lo then Val FNV_OFFSET else
  let st0 := (let* pv := from_num_days_from_ce_opt (lo - 1) in
              let* r := from_num_days_from_ce_opt lo in Val (pv, r, FNV_OFFSET)) in
  let* '(_, _, h) := snd (Pos.iter range_step (lo, st0) (Z.to_pos (hi - lo))) in Val h.

(** ** Dispatcher *)
Definition with_date (v : val) (f : Z -> val) : val :=
  match dec_date v with DDate d => f d | DBad => VBad | DPanic => VPanic end.

Definition run (op : bytes) (args : list val) : val :=
  let date_1 (f : Z -> val) := match args with [a] => with_date a f | _ => VBad end in
  let date_2 (f : Z -> Z -> val) := match args with
     | [a; b] => with_date a (fun x => with_date b (fun y => f x y)) | _ => VBad end in
  if op_is op "d.ymd" then
    match args with
    | [a; b; c] => match arg_i32 a, arg_u32 b, arg_u32 c with
                   | Some y, Some m, Some d => val_of_R vo_date (from_ymd_opt y m d)
                   | _, _, _ => VBad end
    | _ => VBad end
  else if op_is op "d.yo" then
    match args with
    | [a; b] => match arg_i32 a, arg_u32 b with
                | Some y, Some o => val_of_R vo_date (from_yo_opt y o)
                | _, _ => VBad end
    | _ => VBad end
  else if op_is op "d.isoywd" then
    match args with
    | [a; b; VInt wd] => match arg_i32 a, arg_u32 b with
                | Some y, Some w => if (0 <=? wd) && (wd <=? 6) then val_of_R vo_date (from_isoywd_opt y w wd) else VBad
                | _, _ => VBad end
    | _ => VBad end
  else if op_is op "d.days" then
    match args with
    | [a] => match arg_i32 a with Some n => val_of_R vo_date (from_num_days_from_ce_opt n) | None => VBad end
    | _ => VBad end
  else if op_is op "d.acc" then date_1 (fun d => val_of_R enc_acc (d_acc d))
  else if op_is op "d.succ" then date_1 (fun d => val_of_R vo_date (succ_opt d))
  else if op_is op "d.pred" then date_1 (fun d => val_of_R vo_date (pred_opt d))
  else if op_is op "d.cmp" then date_2 (fun a b => VInt (d_cmp a b))
  else if op_is op "d.cmpiw" then
    date_2 (fun a b => val_of_R VInt (let* wa := d_iso_week a in let* wb := d_iso_week b in Val (iw_cmp wa wb)))
  else if op_is op "d.range" then
    match args with
    | [a; b] => match arg_i32 a, arg_i32 b with
                | Some lo, Some hi =>
                    if (i32_min <? lo) && (lo <=? hi) && (hi <? i32_max) && (hi - lo <=? RANGE_MAX)
                    then val_of_R VInt (d_range lo hi) else VBad
                | _, _ => VBad end
    | _ => VBad end
  else VErr B"NOOP".
