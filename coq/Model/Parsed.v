(** Executable model of [format::Parsed] (src/format/parsed.rs): the field record, every [set_*]
    method with its range check and [set_if_consistent], [resolve_year], [to_naive_date] with its
    three verifier closures and the quarter check, [resolve_week_date], [to_naive_time],
    [to_naive_datetime_with_offset] (both paths), [to_fixed_offset], [to_datetime] and
    [to_datetime_with_timezone] for a fixed-offset zone.  Function by function, same match order,
    trapping integer arithmetic in the [R] monad, on top of Model/Date.v, Model/Time.v and
    Model/DateTime.v.  [ParseResult<T>] is [res T]; a function that can also trap returns
    [R (res T)].  Weekdays are numbers from Monday (0..6).
    Shared by C09, C10, C11, C13, C14.  No proofs in this file.

    Repaired behaviour modelled: in the timestamp path of [to_naive_datetime_with_offset] the
    leap-second adjustment [datetime -= 1s] is the checked subtraction of
    fixes/C14-timestamp-leap-underflow.diff ([Err(OUT_OF_RANGE)] instead of a panic). *)
From Coq Require Import ZArith List Bool String.
From V Require Import Base.Int Base.IO Model.TimeDelta.
From V Require Model.Date Model.Time.
From V Require Import Model.DateTime.
Import ListNotations.
Open Scope Z_scope.

(** [ParseErrorKind] (src/format/mod.rs) and [ParseResult] *)
Inductive perr := OutOfRange | Impossible | NotEnough | Invalid | TooShort | TooLong | BadFormat.
Inductive res (A : Type) : Type := Ok (a : A) | Err (e : perr).
Arguments Ok {A} a.
Arguments Err {A} e.

(** [?] inside a function returning [ParseResult] that may also trap *)
Definition ebind {X Y} (x : R (res X)) (f : X -> R (res Y)) : R (res Y) :=
  bind x (fun r => match r with Ok a => f a | Err e => Val (Err e) end).
Notation "'let!' x ':=' e 'in' k" := (ebind e (fun x => k))
  (at level 200, x name, e at level 100, k at level 200).
Notation "'let!' ' p ':=' e 'in' k" := (ebind e (fun p => k))
  (at level 200, p pattern, e at level 100, k at level 200).
(** [Option::ok_or(e)?] *)
Definition ok_or {A} (o : option A) (e : perr) : R (res A) :=
  Val (match o with Some a => Ok a | None => Err e end).
Definition ok_or_r {A} (o : R (option A)) (e : perr) : R (res A) := bind o (fun x => ok_or x e).

Definition perr_name (e : perr) : bytes :=
  match e with
  | OutOfRange => B"OutOfRange" | Impossible => B"Impossible" | NotEnough => B"NotEnough"
  | Invalid => B"Invalid" | TooShort => B"TooShort" | TooLong => B"TooLong" | BadFormat => B"BadFormat"
  end.

Definition opt_eqb (a b : option Z) : bool :=
  match a, b with
  | Some x, Some y => x =? y
  | None, None => true
  | _, _ => false
  end.
Definition unwrap_or (o : option Z) (d : Z) : Z := match o with Some v => v | None => d end.
(** [Option::or] *)
Definition opt_or (a b : option Z) : option Z := match a with Some _ => a | None => b end.

(** * The struct: 21 optional fields (i32 / u32 / i64 / Weekday as its number from Monday) *)
Record parsed := mk_parsed {
  p_year : option Z;
  p_year_div_100 : option Z;
  p_year_mod_100 : option Z;
  p_isoyear : option Z;
  p_isoyear_div_100 : option Z;
  p_isoyear_mod_100 : option Z;
  p_quarter : option Z;
  p_month : option Z;
  p_week_from_sun : option Z;
  p_week_from_mon : option Z;
  p_isoweek : option Z;
  p_weekday : option Z;
  p_ordinal : option Z;
  p_day : option Z;
  p_hour_div_12 : option Z;
  p_hour_mod_12 : option Z;
  p_minute : option Z;
  p_second : option Z;
  p_nanosecond : option Z;
  p_timestamp : option Z;
  p_offset : option Z }.

Definition parsed_new : parsed := mk_parsed None None None None None None None None None None None None None None None None None None None None None.

Inductive field :=
| F_year
| F_year_div_100
| F_year_mod_100
| F_isoyear
| F_isoyear_div_100
| F_isoyear_mod_100
| F_quarter
| F_month
| F_week_from_sun
| F_week_from_mon
| F_isoweek
| F_weekday
| F_ordinal
| F_day
| F_hour_div_12
| F_hour_mod_12
| F_minute
| F_second
| F_nanosecond
| F_timestamp
| F_offset.

Definition all_fields : list field := [F_year; F_year_div_100; F_year_mod_100; F_isoyear; F_isoyear_div_100; F_isoyear_mod_100; F_quarter; F_month; F_week_from_sun; F_week_from_mon; F_isoweek; F_weekday; F_ordinal; F_day; F_hour_div_12; F_hour_mod_12; F_minute; F_second; F_nanosecond; F_timestamp; F_offset].

Definition pget (f : field) (p : parsed) : option Z :=
  match f with
  | F_year => p_year p
  | F_year_div_100 => p_year_div_100 p
  | F_year_mod_100 => p_year_mod_100 p
  | F_isoyear => p_isoyear p
  | F_isoyear_div_100 => p_isoyear_div_100 p
  | F_isoyear_mod_100 => p_isoyear_mod_100 p
  | F_quarter => p_quarter p
  | F_month => p_month p
  | F_week_from_sun => p_week_from_sun p
  | F_week_from_mon => p_week_from_mon p
  | F_isoweek => p_isoweek p
  | F_weekday => p_weekday p
  | F_ordinal => p_ordinal p
  | F_day => p_day p
  | F_hour_div_12 => p_hour_div_12 p
  | F_hour_mod_12 => p_hour_mod_12 p
  | F_minute => p_minute p
  | F_second => p_second p
  | F_nanosecond => p_nanosecond p
  | F_timestamp => p_timestamp p
  | F_offset => p_offset p
  end.

Definition pput (f : field) (v : option Z) (p : parsed) : parsed :=
  match f with
  | F_year => mk_parsed v (p_year_div_100 p) (p_year_mod_100 p) (p_isoyear p) (p_isoyear_div_100 p) (p_isoyear_mod_100 p) (p_quarter p) (p_month p) (p_week_from_sun p) (p_week_from_mon p) (p_isoweek p) (p_weekday p) (p_ordinal p) (p_day p) (p_hour_div_12 p) (p_hour_mod_12 p) (p_minute p) (p_second p) (p_nanosecond p) (p_timestamp p) (p_offset p)
  | F_year_div_100 => mk_parsed (p_year p) v (p_year_mod_100 p) (p_isoyear p) (p_isoyear_div_100 p) (p_isoyear_mod_100 p) (p_quarter p) (p_month p) (p_week_from_sun p) (p_week_from_mon p) (p_isoweek p) (p_weekday p) (p_ordinal p) (p_day p) (p_hour_div_12 p) (p_hour_mod_12 p) (p_minute p) (p_second p) (p_nanosecond p) (p_timestamp p) (p_offset p)
  | F_year_mod_100 => mk_parsed (p_year p) (p_year_div_100 p) v (p_isoyear p) (p_isoyear_div_100 p) (p_isoyear_mod_100 p) (p_quarter p) (p_month p) (p_week_from_sun p) (p_week_from_mon p) (p_isoweek p) (p_weekday p) (p_ordinal p) (p_day p) (p_hour_div_12 p) (p_hour_mod_12 p) (p_minute p) (p_second p) (p_nanosecond p) (p_timestamp p) (p_offset p)
  | F_isoyear => mk_parsed (p_year p) (p_year_div_100 p) (p_year_mod_100 p) v (p_isoyear_div_100 p) (p_isoyear_mod_100 p) (p_quarter p) (p_month p) (p_week_from_sun p) (p_week_from_mon p) (p_isoweek p) (p_weekday p) (p_ordinal p) (p_day p) (p_hour_div_12 p) (p_hour_mod_12 p) (p_minute p) (p_second p) (p_nanosecond p) (p_timestamp p) (p_offset p)
  | F_isoyear_div_100 => mk_parsed (p_year p) (p_year_div_100 p) (p_year_mod_100 p) (p_isoyear p) v (p_isoyear_mod_100 p) (p_quarter p) (p_month p) (p_week_from_sun p) (p_week_from_mon p) (p_isoweek p) (p_weekday p) (p_ordinal p) (p_day p) (p_hour_div_12 p) (p_hour_mod_12 p) (p_minute p) (p_second p) (p_nanosecond p) (p_timestamp p) (p_offset p)
  | F_isoyear_mod_100 => mk_parsed (p_year p) (p_year_div_100 p) (p_year_mod_100 p) (p_isoyear p) (p_isoyear_div_100 p) v (p_quarter p) (p_month p) (p_week_from_sun p) (p_week_from_mon p) (p_isoweek p) (p_weekday p) (p_ordinal p) (p_day p) (p_hour_div_12 p) (p_hour_mod_12 p) (p_minute p) (p_second p) (p_nanosecond p) (p_timestamp p) (p_offset p)
  | F_quarter => mk_parsed (p_year p) (p_year_div_100 p) (p_year_mod_100 p) (p_isoyear p) (p_isoyear_div_100 p) (p_isoyear_mod_100 p) v (p_month p) (p_week_from_sun p) (p_week_from_mon p) (p_isoweek p) (p_weekday p) (p_ordinal p) (p_day p) (p_hour_div_12 p) (p_hour_mod_12 p) (p_minute p) (p_second p) (p_nanosecond p) (p_timestamp p) (p_offset p)
  | F_month => mk_parsed (p_year p) (p_year_div_100 p) (p_year_mod_100 p) (p_isoyear p) (p_isoyear_div_100 p) (p_isoyear_mod_100 p) (p_quarter p) v (p_week_from_sun p) (p_week_from_mon p) (p_isoweek p) (p_weekday p) (p_ordinal p) (p_day p) (p_hour_div_12 p) (p_hour_mod_12 p) (p_minute p) (p_second p) (p_nanosecond p) (p_timestamp p) (p_offset p)
  | F_week_from_sun => mk_parsed (p_year p) (p_year_div_100 p) (p_year_mod_100 p) (p_isoyear p) (p_isoyear_div_100 p) (p_isoyear_mod_100 p) (p_quarter p) (p_month p) v (p_week_from_mon p) (p_isoweek p) (p_weekday p) (p_ordinal p) (p_day p) (p_hour_div_12 p) (p_hour_mod_12 p) (p_minute p) (p_second p) (p_nanosecond p) (p_timestamp p) (p_offset p)
  | F_week_from_mon => mk_parsed (p_year p) (p_year_div_100 p) (p_year_mod_100 p) (p_isoyear p) (p_isoyear_div_100 p) (p_isoyear_mod_100 p) (p_quarter p) (p_month p) (p_week_from_sun p) v (p_isoweek p) (p_weekday p) (p_ordinal p) (p_day p) (p_hour_div_12 p) (p_hour_mod_12 p) (p_minute p) (p_second p) (p_nanosecond p) (p_timestamp p) (p_offset p)
  | F_isoweek => mk_parsed (p_year p) (p_year_div_100 p) (p_year_mod_100 p) (p_isoyear p) (p_isoyear_div_100 p) (p_isoyear_mod_100 p) (p_quarter p) (p_month p) (p_week_from_sun p) (p_week_from_mon p) v (p_weekday p) (p_ordinal p) (p_day p) (p_hour_div_12 p) (p_hour_mod_12 p) (p_minute p) (p_second p) (p_nanosecond p) (p_timestamp p) (p_offset p)
  | F_weekday => mk_parsed (p_year p) (p_year_div_100 p) (p_year_mod_100 p) (p_isoyear p) (p_isoyear_div_100 p) (p_isoyear_mod_100 p) (p_quarter p) (p_month p) (p_week_from_sun p) (p_week_from_mon p) (p_isoweek p) v (p_ordinal p) (p_day p) (p_hour_div_12 p) (p_hour_mod_12 p) (p_minute p) (p_second p) (p_nanosecond p) (p_timestamp p) (p_offset p)
  | F_ordinal => mk_parsed (p_year p) (p_year_div_100 p) (p_year_mod_100 p) (p_isoyear p) (p_isoyear_div_100 p) (p_isoyear_mod_100 p) (p_quarter p) (p_month p) (p_week_from_sun p) (p_week_from_mon p) (p_isoweek p) (p_weekday p) v (p_day p) (p_hour_div_12 p) (p_hour_mod_12 p) (p_minute p) (p_second p) (p_nanosecond p) (p_timestamp p) (p_offset p)
  | F_day => mk_parsed (p_year p) (p_year_div_100 p) (p_year_mod_100 p) (p_isoyear p) (p_isoyear_div_100 p) (p_isoyear_mod_100 p) (p_quarter p) (p_month p) (p_week_from_sun p) (p_week_from_mon p) (p_isoweek p) (p_weekday p) (p_ordinal p) v (p_hour_div_12 p) (p_hour_mod_12 p) (p_minute p) (p_second p) (p_nanosecond p) (p_timestamp p) (p_offset p)
  | F_hour_div_12 => mk_parsed (p_year p) (p_year_div_100 p) (p_year_mod_100 p) (p_isoyear p) (p_isoyear_div_100 p) (p_isoyear_mod_100 p) (p_quarter p) (p_month p) (p_week_from_sun p) (p_week_from_mon p) (p_isoweek p) (p_weekday p) (p_ordinal p) (p_day p) v (p_hour_mod_12 p) (p_minute p) (p_second p) (p_nanosecond p) (p_timestamp p) (p_offset p)
  | F_hour_mod_12 => mk_parsed (p_year p) (p_year_div_100 p) (p_year_mod_100 p) (p_isoyear p) (p_isoyear_div_100 p) (p_isoyear_mod_100 p) (p_quarter p) (p_month p) (p_week_from_sun p) (p_week_from_mon p) (p_isoweek p) (p_weekday p) (p_ordinal p) (p_day p) (p_hour_div_12 p) v (p_minute p) (p_second p) (p_nanosecond p) (p_timestamp p) (p_offset p)
  | F_minute => mk_parsed (p_year p) (p_year_div_100 p) (p_year_mod_100 p) (p_isoyear p) (p_isoyear_div_100 p) (p_isoyear_mod_100 p) (p_quarter p) (p_month p) (p_week_from_sun p) (p_week_from_mon p) (p_isoweek p) (p_weekday p) (p_ordinal p) (p_day p) (p_hour_div_12 p) (p_hour_mod_12 p) v (p_second p) (p_nanosecond p) (p_timestamp p) (p_offset p)
  | F_second => mk_parsed (p_year p) (p_year_div_100 p) (p_year_mod_100 p) (p_isoyear p) (p_isoyear_div_100 p) (p_isoyear_mod_100 p) (p_quarter p) (p_month p) (p_week_from_sun p) (p_week_from_mon p) (p_isoweek p) (p_weekday p) (p_ordinal p) (p_day p) (p_hour_div_12 p) (p_hour_mod_12 p) (p_minute p) v (p_nanosecond p) (p_timestamp p) (p_offset p)
  | F_nanosecond => mk_parsed (p_year p) (p_year_div_100 p) (p_year_mod_100 p) (p_isoyear p) (p_isoyear_div_100 p) (p_isoyear_mod_100 p) (p_quarter p) (p_month p) (p_week_from_sun p) (p_week_from_mon p) (p_isoweek p) (p_weekday p) (p_ordinal p) (p_day p) (p_hour_div_12 p) (p_hour_mod_12 p) (p_minute p) (p_second p) v (p_timestamp p) (p_offset p)
  | F_timestamp => mk_parsed (p_year p) (p_year_div_100 p) (p_year_mod_100 p) (p_isoyear p) (p_isoyear_div_100 p) (p_isoyear_mod_100 p) (p_quarter p) (p_month p) (p_week_from_sun p) (p_week_from_mon p) (p_isoweek p) (p_weekday p) (p_ordinal p) (p_day p) (p_hour_div_12 p) (p_hour_mod_12 p) (p_minute p) (p_second p) (p_nanosecond p) v (p_offset p)
  | F_offset => mk_parsed (p_year p) (p_year_div_100 p) (p_year_mod_100 p) (p_isoyear p) (p_isoyear_div_100 p) (p_isoyear_mod_100 p) (p_quarter p) (p_month p) (p_week_from_sun p) (p_week_from_mon p) (p_isoweek p) (p_weekday p) (p_ordinal p) (p_day p) (p_hour_div_12 p) (p_hour_mod_12 p) (p_minute p) (p_second p) (p_nanosecond p) (p_timestamp p) v
  end.

Definition field_index (f : field) : Z :=
  match f with
  | F_year => 0
  | F_year_div_100 => 1
  | F_year_mod_100 => 2
  | F_isoyear => 3
  | F_isoyear_div_100 => 4
  | F_isoyear_mod_100 => 5
  | F_quarter => 6
  | F_month => 7
  | F_week_from_sun => 8
  | F_week_from_mon => 9
  | F_isoweek => 10
  | F_weekday => 11
  | F_ordinal => 12
  | F_day => 13
  | F_hour_div_12 => 14
  | F_hour_mod_12 => 15
  | F_minute => 16
  | F_second => 17
  | F_nanosecond => 18
  | F_timestamp => 19
  | F_offset => 20
  end.

(** [fn set_if_consistent<T: PartialEq>(old: &mut Option<T>, new: T) -> ParseResult<()>]
    on field [f] of [p]: the state afterwards and the result *)
Definition set_if_consistent (f : field) (p : parsed) (new : Z) : parsed * res unit :=
  match pget f p with
  | Some old => if negb (old =? new) then (p, Err Impossible) else (pput f (Some new) p, Ok tt)
  | None => (pput f (Some new) p, Ok tt)
  end.

(** * Setters ([value : i64]) *)
Definition contains (lo hi v : Z) : bool := (lo <=? v) && (v <=? hi).
Definition set_checked (f : field) (lo hi : Z) (cast : Z -> Z) (p : parsed) (value : Z) : parsed * res unit :=
  if negb (contains lo hi value) then (p, Err OutOfRange) else set_if_consistent f p (cast value).

(* i32::try_from(value).map_err(|_| OUT_OF_RANGE)? *)
Definition set_year (p : parsed) (value : Z) := set_checked F_year i32_min i32_max (fun v => v) p value.
Definition set_year_div_100 (p : parsed) (value : Z) := set_checked F_year_div_100 0 i32_max as_i32 p value.
Definition set_year_mod_100 (p : parsed) (value : Z) := set_checked F_year_mod_100 0 99 as_i32 p value.
Definition set_isoyear (p : parsed) (value : Z) := set_checked F_isoyear i32_min i32_max (fun v => v) p value.
Definition set_isoyear_div_100 (p : parsed) (value : Z) := set_checked F_isoyear_div_100 0 i32_max as_i32 p value.
Definition set_isoyear_mod_100 (p : parsed) (value : Z) := set_checked F_isoyear_mod_100 0 99 as_i32 p value.
Definition set_quarter (p : parsed) (value : Z) := set_checked F_quarter 1 4 as_u32 p value.
Definition set_month (p : parsed) (value : Z) := set_checked F_month 1 12 as_u32 p value.
Definition set_week_from_sun (p : parsed) (value : Z) := set_checked F_week_from_sun 0 53 as_u32 p value.
Definition set_week_from_mon (p : parsed) (value : Z) := set_checked F_week_from_mon 0 53 as_u32 p value.
Definition set_isoweek (p : parsed) (value : Z) := set_checked F_isoweek 1 53 as_u32 p value.
(* value: Weekday, as its number from Monday *)
Definition set_weekday (p : parsed) (value : Z) := set_if_consistent F_weekday p value.
Definition set_ordinal (p : parsed) (value : Z) := set_checked F_ordinal 1 366 as_u32 p value.
Definition set_day (p : parsed) (value : Z) := set_checked F_day 1 31 as_u32 p value.
(* value: bool as 0/1 *)
Definition set_ampm (p : parsed) (value : Z) := set_if_consistent F_hour_div_12 p value.
Definition set_hour12 (p : parsed) (value : Z) : parsed * res unit :=
  if negb (contains 1 12 value) then (p, Err OutOfRange) else
  let value := if value =? 12 then 0 else value in
  set_if_consistent F_hour_mod_12 p (as_u32 value).
Definition set_hour (p : parsed) (value : Z) : R (parsed * res unit) :=
  let* o :=
    (if contains 0 11 value then Val (Some (0, as_u32 value))
     else if contains 12 23 value then let* m := sub_u32 (as_u32 value) 12 in Val (Some (1, m))
     else Val None) in
  match o with
  | None => Val (p, Err OutOfRange)
  | Some (hour_div_12, hour_mod_12) =>
    match set_if_consistent F_hour_div_12 p hour_div_12 with
    | (p1, Err e) => Val (p1, Err e)
    | (p1, Ok _) => Val (set_if_consistent F_hour_mod_12 p1 hour_mod_12)
    end
  end.
Definition set_minute (p : parsed) (value : Z) := set_checked F_minute 0 59 as_u32 p value.
Definition set_second (p : parsed) (value : Z) := set_checked F_second 0 60 as_u32 p value.
Definition set_nanosecond (p : parsed) (value : Z) := set_checked F_nanosecond 0 999999999 as_u32 p value.
Definition set_timestamp (p : parsed) (value : Z) := set_if_consistent F_timestamp p value.
Definition set_offset (p : parsed) (value : Z) := set_checked F_offset i32_min i32_max (fun v => v) p value.

(** * to_naive_date *)
(* fn resolve_year(y: Option<i32>, q: Option<i32>, r: Option<i32>) -> ParseResult<Option<i32>> *)
Definition resolve_year (y q r : option Z) : R (res (option Z)) :=
  let r_in := match r with Some v => contains 0 99 v | None => false end in
  match y, q, r with
  | _, None, None => Val (Ok y)
  | Some yv, _, _ =>
    if r_in || (match r with None => true | Some _ => false end) then
      if yv <? 0 then Val (Err Impossible) else
      let* q_ := div_i32 yv 100 in
      let* r_ := rem_i32 yv 100 in
      if (unwrap_or q q_ =? q_) && (unwrap_or r r_ =? r_) then Val (Ok (Some yv)) else Val (Err Impossible)
    else Val (Err OutOfRange)
  | None, Some qv, Some rv =>
    if r_in then
      if qv <? 0 then Val (Err Impossible) else
      let y := match checked_mul in_i32 qv 100 with Some v => checked_add in_i32 v rv | None => None end in
      ok_or (match y with Some v => Some (Some v) | None => None end) OutOfRange
    else Val (Err OutOfRange)
  | None, None, Some rv =>
    if r_in then let* v := add_i32 rv (if rv <? 70 then 2000 else 1900) in Val (Ok (Some v))
    else Val (Err OutOfRange)
  | None, Some _, None => Val (Err NotEnough)
  end.

(* lazy [&&] over trapping operands *)
Definition andr (a : R bool) (b : R bool) : R bool := let* x := a in if x then b else Val false.

(* let verify_ymd = |date: NaiveDate| ... *)
Definition verify_ymd (p : parsed) (date : Z) : R bool :=
  let year := Date.d_year date in
  let* '(year_div_100, year_mod_100) :=
    (if year >=? 0 then
       let* a := div_i32 year 100 in let* b := rem_i32 year 100 in Val (Some a, Some b)
     else Val (None, None)) in
  let* month := Date.d_month date in
  let* day := Date.d_day date in
  Val ((unwrap_or (p_year p) year =? year)
       && opt_eqb (opt_or (p_year_div_100 p) year_div_100) year_div_100
       && opt_eqb (opt_or (p_year_mod_100 p) year_mod_100) year_mod_100
       && (unwrap_or (p_month p) month =? month)
       && (unwrap_or (p_day p) day =? day)).

(* let verify_isoweekdate = |date: NaiveDate| ... *)
Definition verify_isoweekdate (p : parsed) (date : Z) : R bool :=
  let* week := Date.d_iso_week date in
  let isoyear := Date.iw_year week in
  let isoweek := Date.iw_week week in
  let* weekday := Date.d_weekday date in
  let* '(isoyear_div_100, isoyear_mod_100) :=
    (if isoyear >=? 0 then
       let* a := div_i32 isoyear 100 in let* b := rem_i32 isoyear 100 in Val (Some a, Some b)
     else Val (None, None)) in
  Val ((unwrap_or (p_isoyear p) isoyear =? isoyear)
       && opt_eqb (opt_or (p_isoyear_div_100 p) isoyear_div_100) isoyear_div_100
       && opt_eqb (opt_or (p_isoyear_mod_100 p) isoyear_mod_100) isoyear_mod_100
       && (unwrap_or (p_isoweek p) isoweek =? isoweek)
       && (unwrap_or (p_weekday p) weekday =? weekday)).

(* Weekday::Sun / Weekday::Mon as numbers from Monday *)
Definition WD_SUN := 6.
Definition WD_MON := 0.

(* let verify_ordinal = |date: NaiveDate| ... *)
Definition verify_ordinal (p : parsed) (date : Z) : R bool :=
  let ordinal := Date.d_ordinal date in
  let* week_from_sun := Date.weeks_from date WD_SUN in
  let* week_from_mon := Date.weeks_from date WD_MON in
  Val ((unwrap_or (p_ordinal p) ordinal =? ordinal)
       && ((match p_week_from_sun p with Some v => as_i32 v | None => week_from_sun end) =? week_from_sun)
       && ((match p_week_from_mon p with Some v => as_i32 v | None => week_from_mon end) =? week_from_mon)).

(* fn resolve_week_date(year: i32, week: u32, weekday: Weekday, week_start_day: Weekday) *)
Definition resolve_week_date (year week weekday week_start_day : Z) : R (res Z) :=
  if week >? 53 then Val (Err OutOfRange) else
  let! first_day_of_year := ok_or_r (Date.from_yo_opt year 1) OutOfRange in
  let* fwd := Date.d_weekday first_day_of_year in
  let* ds := Date.wd_days_since week_start_day fwd in
  let* first_week_start := add_i32 1 (as_i32 ds) in
  let* wd := Date.wd_days_since weekday week_start_day in
  let weekday := as_i32 wd in
  let* w1 := sub_i32 (as_i32 week) 1 in
  let* w7 := mul_i32 w1 7 in
  let* a := add_i32 first_week_start w7 in
  let* ordinal := add_i32 a weekday in
  if ordinal <=? 0 then Val (Err Impossible) else
  ok_or_r (Date.with_ordinal first_day_of_year (as_u32 ordinal)) Impossible.

(* pub fn to_naive_date(&self) -> ParseResult<NaiveDate> *)
Definition to_naive_date (p : parsed) : R (res Z) :=
  let! given_year := resolve_year (p_year p) (p_year_div_100 p) (p_year_mod_100 p) in
  let! given_isoyear := resolve_year (p_isoyear p) (p_isoyear_div_100 p) (p_isoyear_mod_100 p) in
  let week_arm (year week weekday start : Z) : R (res (bool * Z)) :=
    let! date := resolve_week_date year week weekday start in
    let* v := andr (verify_ymd p date) (andr (verify_isoweekdate p date) (verify_ordinal p date)) in
    Val (Ok (v, date)) in
  let iso_arm : R (res (bool * Z)) :=
    match given_isoyear, p_isoweek p, p_weekday p with
    | Some isoyear, Some isoweek, Some weekday =>
      let! date := ok_or_r (Date.from_isoywd_opt isoyear isoweek weekday) OutOfRange in
      let* v := andr (verify_ymd p date) (verify_ordinal p date) in
      Val (Ok (v, date))
    | _, _, _ => Val (Err NotEnough)
    end in
  let! '(verified, parsed_date) :=
    match given_year with
    | Some year =>
      match p_month p, p_day p with
      | Some month, Some day =>
        let! date := ok_or_r (Date.from_ymd_opt year month day) OutOfRange in
        let* v := andr (verify_isoweekdate p date) (verify_ordinal p date) in
        Val (Ok (v, date))
      | _, _ =>
        match p_ordinal p with
        | Some ordinal =>
          let! date := ok_or_r (Date.from_yo_opt year ordinal) OutOfRange in
          let* v := andr (verify_ymd p date) (andr (verify_isoweekdate p date) (verify_ordinal p date)) in
          Val (Ok (v, date))
        | None =>
          match p_week_from_sun p, p_weekday p with
          | Some week, Some weekday => week_arm year week weekday WD_SUN
          | _, _ =>
            match p_week_from_mon p, p_weekday p with
            | Some week, Some weekday => week_arm year week weekday WD_MON
            | _, _ => iso_arm
            end
          end
        end
      end
    | None => iso_arm
    end in
  if negb verified then Val (Err Impossible) else
  match p_quarter p with
  | Some q =>
    let* dq := Date.d_quarter parsed_date in
    if negb (q =? dq) then Val (Err Impossible) else Val (Ok parsed_date)
  | None => Val (Ok parsed_date)
  end.

(** * to_naive_time *)
Definition to_naive_time (p : parsed) : R (res Time.ntime) :=
  let field_in (o : option Z) (hi : Z) : res Z :=
    match o with
    | Some v => if contains 0 hi v then Ok v else Err OutOfRange
    | None => Err NotEnough
    end in
  let! hour_div_12 := Val (field_in (p_hour_div_12 p) 1) in
  let! hour_mod_12 := Val (field_in (p_hour_mod_12 p) 11) in
  let* h12 := mul_u32 hour_div_12 12 in
  let* hour := add_u32 h12 hour_mod_12 in
  let! minute := Val (field_in (p_minute p) 59) in
  let s := unwrap_or (p_second p) 0 in
  let! '(second, nano) :=
    (if contains 0 59 s then Val (Ok (s, 0))
     else if s =? 60 then Val (Ok (59, 1000000000))
     else Val (Err OutOfRange)) in
  let! add :=
    (match p_nanosecond p with
     | Some v =>
       if contains 0 999999999 v then
         match p_second p with Some _ => Val (Ok v) | None => Val (Err NotEnough) end
       else Val (Err OutOfRange)
     | None => Val (Ok 0)
     end) in
  let* nano := add_u32 nano add in
  ok_or_r (Time.from_hms_nano_opt hour minute second nano) OutOfRange.

(** * to_naive_datetime_with_offset *)
Definition is_err_kind {A} (r : res A) (k : perr) : bool :=
  match r, k with
  | Err OutOfRange, OutOfRange => true
  | Err Impossible, Impossible => true
  | _, _ => false
  end.
(* [parsed.set_x(..)?] on the local clone *)
Definition tryset (r : parsed * res unit) : R (res parsed) :=
  Val (match r with (p, Ok _) => Ok p | (_, Err e) => Err e end).

Definition to_naive_datetime_with_offset (p : parsed) (offset : Z) : R (res ndt) :=
  let* date := to_naive_date p in
  let* time := to_naive_time p in
  match date, time with
  | Ok date, Ok time =>
    let datetime := mk_ndt date time in
    let* ts0 := dt_timestamp datetime in
    let* timestamp := sub_i64 ts0 offset in
    match p_timestamp p with
    | Some given_timestamp =>
      let* bad :=
        (if negb (given_timestamp =? timestamp) then
           if Time.nanosecond (nd_time datetime) >=? 1000000000 then
             let* t1 := add_i64 timestamp 1 in Val (negb (given_timestamp =? t1))
           else Val true
         else Val false) in
      if bad then Val (Err Impossible) else Val (Ok datetime)
    | None => Val (Ok datetime)
    end
  | _, _ =>
    match p_timestamp p with
    | Some timestamp =>
      if is_err_kind date OutOfRange || is_err_kind time OutOfRange then Val (Err OutOfRange)
      else if is_err_kind date Impossible || is_err_kind time Impossible then Val (Err Impossible)
      else
      let! ts := ok_or (checked_add in_i64 timestamp offset) OutOfRange in
      let! datetime := ok_or_r (dt_from_timestamp ts 0) OutOfRange in
      let! '(datetime, parsed) :=
        (if opt_eqb (p_second p) (Some 60) then
           let sec := Time.second (nd_time datetime) in
           if sec =? 59 then Val (Ok (datetime, p))
           else if sec =? 0 then
             let* one := unwrap (try_seconds 1) in
             (* repaired: checked_sub_signed(..).ok_or(OUT_OF_RANGE)? *)
             let! d := ok_or_r (ndt_checked_sub_signed datetime one) OutOfRange in
             Val (Ok (d, p))
           else Val (Err Impossible)
         else
           let! p1 := tryset (set_second p (Time.second (nd_time datetime))) in
           Val (Ok (datetime, p1))) in
      let! parsed := tryset (set_year parsed (Date.d_year (nd_date datetime))) in
      let! parsed := tryset (set_ordinal parsed (Date.d_ordinal (nd_date datetime))) in
      let* sh := set_hour parsed (Time.hour (nd_time datetime)) in
      let! parsed := tryset sh in
      let! parsed := tryset (set_minute parsed (Time.minute (nd_time datetime))) in
      let! date := to_naive_date parsed in
      let! time := to_naive_time parsed in
      Val (Ok (mk_ndt date time))
    | None =>
      match date, time with
      | Err e, _ => Val (Err e)
      | _, Err e => Val (Err e)
      | _, _ => Panic (* unreachable!() *)
      end
    end
  end.

(** * to_fixed_offset / to_datetime / to_datetime_with_timezone *)
Definition to_fixed_offset (p : parsed) : R (res Z) :=
  let! off := ok_or (p_offset p) NotEnough in
  ok_or (east_opt off) OutOfRange.

Definition to_datetime (p : parsed) : R (res dtz) :=
  let! offset :=
    Val (match p_offset p, p_timestamp p with
         | Some off, _ => Ok off
         | None, Some _ => Ok 0
         | None, None => Err NotEnough
         end) in
  let! datetime := to_naive_datetime_with_offset p offset in
  let! offset := ok_or (east_opt offset) OutOfRange in
  let* m := from_local_datetime offset datetime in
  match m with
  | MNone => Val (Err Impossible)
  | MSingle t => Val (Ok t)
  | MAmbiguous _ _ => Val (Err NotEnough)
  end.

(* [tz : FixedOffset] with local_minus_utc = [tz] *)
Definition to_datetime_with_timezone (p : parsed) (tz : Z) : R (res dtz) :=
  let! guessed_offset :=
    (match p_timestamp p with
     | Some timestamp =>
       let nanosecond := unwrap_or (p_nanosecond p) 0 in
       let! dt := ok_or_r (dt_from_timestamp timestamp nanosecond) OutOfRange in
       (* tz.offset_from_utc_datetime(&dt).fix().local_minus_utc() *)
       Val (Ok tz)
     | None => Val (Ok 0)
     end) in
  let check_offset (dt : dtz) : bool :=
    match p_offset p with Some offset => dz_off dt =? offset | None => true end in
  let! datetime := to_naive_datetime_with_offset p guessed_offset in
  let* m := from_local_datetime tz datetime in
  match m with
  | MNone => Val (Err Impossible)
  | MSingle t => if check_offset t then Val (Ok t) else Val (Err Impossible)
  | MAmbiguous mn mx =>
    match check_offset mn, check_offset mx with
    | false, false => Val (Err Impossible)
    | false, true => Val (Ok mx)
    | true, false => Val (Ok mn)
    | true, true => Val (Err NotEnough)
    end
  end.

(** * Case protocol helpers shared by the dispatchers (C09..C14) *)
Definition val_of_res {A} (f : A -> val) (r : res A) : val :=
  match r with Ok a => f a | Err e => VErr (perr_name e) end.
Definition enc_parsed (p : parsed) : val :=
  VTup (map (fun f => val_of_option VInt (pget f p)) all_fields).

(** the 22 setters by number: 0 year, 1 year_div_100, 2 year_mod_100, 3 isoyear, 4 isoyear_div_100,
    5 isoyear_mod_100, 6 quarter, 7 month, 8 week_from_sun, 9 week_from_mon, 10 isoweek,
    11 weekday (argument 0..6 from Monday), 12 ordinal, 13 day, 14 ampm (argument 0/1),
    15 hour12, 16 hour, 17 minute, 18 second, 19 nanosecond, 20 timestamp, 21 offset.
    [None]: not a setter / argument not of the setter's type. *)
Definition apply_setter (k : Z) (p : parsed) (v : Z) : option (R (parsed * res unit)) :=
  if negb (in_i64 v) then None else
  let pure (x : parsed * res unit) := Some (Val x) in
  if k =? 0 then pure (set_year p v)
  else if k =? 1 then pure (set_year_div_100 p v)
  else if k =? 2 then pure (set_year_mod_100 p v)
  else if k =? 3 then pure (set_isoyear p v)
  else if k =? 4 then pure (set_isoyear_div_100 p v)
  else if k =? 5 then pure (set_isoyear_mod_100 p v)
  else if k =? 6 then pure (set_quarter p v)
  else if k =? 7 then pure (set_month p v)
  else if k =? 8 then pure (set_week_from_sun p v)
  else if k =? 9 then pure (set_week_from_mon p v)
  else if k =? 10 then pure (set_isoweek p v)
  else if k =? 11 then (if contains 0 6 v then pure (set_weekday p v) else None)
  else if k =? 12 then pure (set_ordinal p v)
  else if k =? 13 then pure (set_day p v)
  else if k =? 14 then (if contains 0 1 v then pure (set_ampm p v) else None)
  else if k =? 15 then pure (set_hour12 p v)
  else if k =? 16 then Some (set_hour p v)
  else if k =? 17 then pure (set_minute p v)
  else if k =? 18 then pure (set_second p v)
  else if k =? 19 then pure (set_nanosecond p v)
  else if k =? 20 then pure (set_timestamp p v)
  else if k =? 21 then pure (set_offset p v)
  else None.
