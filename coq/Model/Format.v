(** Executable model of src/format/formatting.rs: [DelayedFormat::write_to], [format_numeric]
    ([write_one]/[write_two]/[write_year]/[write_n]), [format_fixed] (names, AM/PM, nanosecond
    variants, time-zone items, RFC 2822 / RFC 3339 items), [OffsetFormat::format],
    [write_rfc3339], [write_rfc2822], [write_hundreds]; [NaiveDate::weeks_from]
    (src/naive/date/mod.rs), [Weekday::days_since] and friends (src/weekday.rs),
    [Datelike::quarter] (src/traits.rs), [Display for FixedOffset] (src/offset/fixed.rs) and the
    construction of the formatter by the four `format_with_items` methods.

    A formatting function returns [R (option bytes)]: [Val (Some text)] = `Ok(())` after writing
    [text], [Val None] = `Err(fmt::Error)`, [Panic] = a trap.  The sink is a [String], whose
    [write_str]/[write_char] cannot fail.  [core::fmt]'s integer formatting ({}, {:+}, {:0w$},
    {:w$}, {:+0w$}, {:+w$}) is modelled by [fmt_int] (trusted, see trusted_base.json).

    [YearDiv100]/[IsoYearDiv100] print through [write_n] with width 2 (repaired code, /repo commit
    3af8947, fixes/C12-century.diff; before the repair the value was narrowed to [u8] for
    [write_two]).
    Shared by C12, C13, C15 (and usable by C10/C11 for the RFC writers).  No proofs here. *)
From Coq Require Import ZArith List Bool.
From V Require Import Base.Int Base.IO Model.Items Model.Strftime Gen.Locales.
From V Require Model.Date Model.Time Model.DateTime.
Import ListNotations.
Open Scope Z_scope.

(** the three optionals a [DelayedFormat] carries: date, time, (offset name text, FixedOffset) *)
Record fmt_args := mk_fa { fa_date : option Z; fa_time : option Time.ntime; fa_off : option (bytes * Z) }.

Definition fres := R (option bytes).
Definition fok (s : bytes) : fres := Val (Some s).
Definition ferr : fres := Val None.
(* `a?; b` on fmt::Result with output concatenation *)
Definition fseq (a : fres) (k : bytes -> fres) : fres :=
  let* o := a in match o with Some s => k s | None => Val None end.
Notation "'let+' x ':=' e 'in' k" := (fseq e (fun x => k))
  (at level 200, x name, e at level 100, k at level 200).
Fixpoint fconcat (l : list fres) : fres :=
  match l with
  | [] => fok []
  | a :: r => let+ s := a in let+ t := fconcat r in fok (s ++ t)
  end.

(** core::fmt integer formatting: optional forced sign, optional zero flag, minimal width *)
Definition fmt_int (plus zero : bool) (width : Z) (v : Z) : bytes :=
  let digits := dec_nonneg (Z.abs v) in
  let sign := if v <? 0 then [45] else if plus then [43] else [] in
  let padn := Z.to_nat (width - blen sign - blen digits) in
  if zero then sign ++ repeat 48 padn ++ digits else repeat 32 padn ++ sign ++ digits.

(* pub(crate) fn write_hundreds(w, n: u8) *)
Definition write_hundreds (n : Z) : fres :=
  if 100 <=? n then ferr else
  let* tens := add_u8 48 (Z.quot n 10) in
  let* ones := add_u8 48 (Z.rem n 10) in
  fok [tens; ones].

(* fn write_one(w, v: u8) *)
Definition write_one (v : Z) : fres := let* c := add_u8 48 v in fok [c].

(* fn write_two(w, v: u8, pad: Pad) *)
Definition write_two (v : Z) (pad : Pad) : fres :=
  let* ones := add_u8 48 (Z.rem v 10) in
  let tens := Z.quot v 10 in
  let* head :=
    (if tens =? 0 then
       match pad with
       | PadNone => Val []
       | PadSpace => Val [32]
       | PadZero => let* c := add_u8 48 tens in Val [c]
       end
     else let* c := add_u8 48 tens in Val [c]) in
  fok (head ++ [ones]).

(* fn write_n(w, n: usize, v: i64, pad: Pad, always_sign: bool) *)
Definition write_n (n : Z) (v : Z) (pad : Pad) (always_sign : bool) : fres :=
  if always_sign then
    match pad with
    | PadNone => fok (fmt_int true false 0 v)
    | PadZero => let* w := add_usize n 1 in fok (fmt_int true true w v)
    | PadSpace => let* w := add_usize n 1 in fok (fmt_int true false w v)
    end
  else
    match pad with
    | PadNone => fok (fmt_int false false 0 v)
    | PadZero => fok (fmt_int false true n v)
    | PadSpace => fok (fmt_int false false n v)
    end.

(* fn write_year(w, year: i32, pad: Pad) *)
Definition write_year (year : Z) (pad : Pad) : fres :=
  if (1000 <=? year) && (year <=? 9999) then
    let+ a := write_hundreds (as_u8 (Z.quot year 100)) in
    let+ b := write_hundreds (as_u8 (Z.rem year 100)) in
    fok (a ++ b)
  else write_n 4 year pad (negb ((0 <=? year) && (year <? 10000))).

(** Weekday (numbered from Monday = 0, `*self as u32`) *)
(* pub const fn days_since(&self, other: Weekday) -> u32 *)
Definition wd_days_since (lhs rhs : Z) : R Z :=
  if lhs <? rhs then let* a := add_u32 7 lhs in sub_u32 a rhs else sub_u32 lhs rhs.
Definition WD_MON := 0.
Definition WD_SUN := 6.
Definition wd_num_days_from_sunday (w : Z) : R Z := wd_days_since w WD_SUN.
Definition wd_number_from_monday (w : Z) : R Z := let* d := wd_days_since w WD_MON in add_u32 d 1.

(* NaiveDate: pub(crate) fn weeks_from(&self, day: Weekday) -> i32 *)
Definition weeks_from (d : Z) (day : Z) : R Z :=
  let* wd := Date.d_weekday d in
  let* ds := wd_days_since wd day in
  let* a := sub_i32 (as_i32 (Date.d_ordinal d)) (as_i32 ds) in
  let* b := add_i32 a 6 in
  div_i32 b 7.

(* Datelike::quarter / month0 *)
Definition d_month0 (d : Z) : R Z := let* m := Date.d_month d in sub_u32 m 1.
Definition d_quarter (d : Z) : R Z :=
  let* m0 := d_month0 d in
  let* q := div_euclid in_u32 m0 3 in add_u32 q 1.

(* NaiveDateTime::and_utc().timestamp() of (d, t) *)
Definition naive_timestamp (d : Z) (t : Time.ntime) : R Z := DateTime.dt_timestamp (DateTime.mk_ndt d t).

(* fn format_numeric(&self, w, spec: &Numeric, pad: Pad) *)
Definition format_numeric (a : fmt_args) (spec : Numeric) (pad : Pad) : fres :=
  match spec, fa_date a, fa_time a with
  | N_Year, Some d, _ => write_year (Date.d_year d) pad
  | N_YearDiv100, Some d, _ =>
      let* c := div_euclid in_i32 (Date.d_year d) 100 in write_n 2 c pad false
  | N_YearMod100, Some d, _ =>
      let* r := rem_euclid in_i32 (Date.d_year d) 100 in write_two (as_u8 r) pad
  | N_IsoYear, Some d, _ =>
      let* w := Date.d_iso_week d in write_year (Date.iw_year w) pad
  | N_IsoYearDiv100, Some d, _ =>
      let* w := Date.d_iso_week d in
      let* c := div_euclid in_i32 (Date.iw_year w) 100 in write_n 2 c pad false
  | N_IsoYearMod100, Some d, _ =>
      let* w := Date.d_iso_week d in
      let* r := rem_euclid in_i32 (Date.iw_year w) 100 in write_two (as_u8 r) pad
  | N_Quarter, Some d, _ => let* q := d_quarter d in write_one (as_u8 q)
  | N_Month, Some d, _ => let* m := Date.d_month d in write_two (as_u8 m) pad
  | N_Day, Some d, _ => let* x := Date.d_day d in write_two (as_u8 x) pad
  | N_WeekFromSun, Some d, _ => let* x := weeks_from d WD_SUN in write_two (as_u8 x) pad
  | N_WeekFromMon, Some d, _ => let* x := weeks_from d WD_MON in write_two (as_u8 x) pad
  | N_IsoWeek, Some d, _ => let* w := Date.d_iso_week d in write_two (as_u8 (Date.iw_week w)) pad
  | N_NumDaysFromSun, Some d, _ =>
      let* wd := Date.d_weekday d in let* x := wd_num_days_from_sunday wd in write_one (as_u8 x)
  | N_WeekdayFromMon, Some d, _ =>
      let* wd := Date.d_weekday d in let* x := wd_number_from_monday wd in write_one (as_u8 x)
  | N_Ordinal, Some d, _ => write_n 3 (Date.d_ordinal d) pad false
  | N_Hour, _, Some t => write_two (as_u8 (Time.hour t)) pad
  | N_Hour12, _, Some t => write_two (as_u8 (snd (Time.hour12 t))) pad
  | N_Minute, _, Some t => write_two (as_u8 (Time.minute t)) pad
  | N_Second, _, Some t =>
      let* s := add_u32 (Time.second t) (Z.quot (Time.nanosecond t) 1000000000) in
      write_two (as_u8 s) pad
  | N_Nanosecond, _, Some t => write_n 9 (Z.rem (Time.nanosecond t) 1000000000) pad false
  | N_Timestamp, Some d, Some t =>
      let offset := match fa_off a with Some (_, o) => o | None => 0 end in
      let* ts := naive_timestamp d t in
      let* timestamp := sub_i64 ts offset in
      write_n 9 timestamp pad false
  | _, _, _ => ferr
  end.

(* impl OffsetFormat { fn format(&self, w, off: FixedOffset) } *)
Definition op_eqb (a b : OffsetPrecision) : bool :=
  match a, b with
  | OP_Hours, OP_Hours | OP_Minutes, OP_Minutes | OP_Seconds, OP_Seconds
  | OP_OptionalMinutes, OP_OptionalMinutes | OP_OptionalSeconds, OP_OptionalSeconds
  | OP_OptionalMinutesAndSeconds, OP_OptionalMinutesAndSeconds => true
  | _, _ => false
  end.
(* the part of the function after `let (sign, off) = if off < 0 { ('-', -off) } else { ('+', off) };` *)
Definition offset_format_abs (f : OffsetFormat) (sign off : Z) : fres :=
  let* '(hours, mins, secs, precision) :=
    (match of_precision f with
     | OP_Hours => let* h := div_i32 off 3600 in Val (as_u8 h, 0, 0, OP_Hours)
     | OP_Minutes | OP_OptionalMinutes =>
         let* o30 := add_i32 off 30 in
         let* minutes := div_i32 o30 60 in
         let* m := rem_i32 minutes 60 in
         let* h := div_i32 minutes 60 in
         let mins := as_u8 m in
         Val (as_u8 h, mins, 0,
              if op_eqb (of_precision f) OP_OptionalMinutes && (mins =? 0) then OP_Hours else OP_Minutes)
     | OP_Seconds | OP_OptionalSeconds | OP_OptionalMinutesAndSeconds =>
         let* minutes := div_i32 off 60 in
         let* s := rem_i32 off 60 in
         let* m := rem_i32 minutes 60 in
         let* h := div_i32 minutes 60 in
         let secs := as_u8 s in let mins := as_u8 m in
         Val (as_u8 h, mins, secs,
              if negb (op_eqb (of_precision f) OP_Seconds) && (secs =? 0) then
                if op_eqb (of_precision f) OP_OptionalMinutesAndSeconds && (mins =? 0) then OP_Hours
                else OP_Minutes
              else OP_Seconds)
     end) in
  let colons := match of_colons f with C_Colon => true | _ => false end in
  let+ hh :=
    (if hours <? 10 then
       let* c := add_u8 48 hours in
       fok ((match of_padding f with PadSpace => [32] | _ => [] end) ++ [sign]
            ++ (match of_padding f with PadZero => [48] | _ => [] end) ++ [c])
     else let+ h := write_hundreds hours in fok (sign :: h)) in
  let+ mm :=
    (match precision with
     | OP_Minutes | OP_Seconds =>
         let+ m := write_hundreds mins in fok ((if colons then [58] else []) ++ m)
     | _ => fok []
     end) in
  let+ ss :=
    (match precision with
     | OP_Seconds => let+ s := write_hundreds secs in fok ((if colons then [58] else []) ++ s)
     | _ => fok []
     end) in
  fok (hh ++ mm ++ ss).
Definition offset_format (f : OffsetFormat) (off : Z) : fres :=
  if of_allow_zulu f && (off =? 0) then fok [90] else
  let* '(sign, off) := (if off <? 0 then let* n := neg_i32 off in Val (45, n) else Val (43, off)) in
  offset_format_abs f sign off.

Definition nth_name (l : list bytes) (i : Z) : fres := let* s := index l i in fok s.

Definition ndt_year (n : DateTime.ndt) : Z := Date.d_year (DateTime.nd_date n).

(* pub(crate) fn write_rfc3339(w, dt: NaiveDateTime, off: FixedOffset, secform: AutoSi, use_z) *)
Definition write_rfc3339_auto (dt : DateTime.ndt) (off : Z) (use_z : bool) : fres :=
  let d := DateTime.nd_date dt in let t := DateTime.nd_time dt in
  let year := Date.d_year d in
  let+ y :=
    (if (0 <=? year) && (year <=? 9999) then
       let+ a := write_hundreds (as_u8 (Z.quot year 100)) in
       let+ b := write_hundreds (as_u8 (Z.rem year 100)) in fok (a ++ b)
     else fok (fmt_int true true 5 year)) in
  let* month := Date.d_month d in
  let* day := Date.d_day d in
  let+ mo := write_hundreds (as_u8 month) in
  let+ da := write_hundreds (as_u8 day) in
  let '(hour, min, sec) := Time.hms t in
  let nano := Time.nanosecond t in
  let* '(sec, nano) :=
    (if nano >=? 1000000000 then
       let* s := add_u32 sec 1 in let* n := sub_u32 nano 1000000000 in Val (s, n)
     else Val (sec, nano)) in
  let+ hh := write_hundreds (as_u8 hour) in
  let+ mi := write_hundreds (as_u8 min) in
  let+ ss := write_hundreds (as_u8 sec) in
  let frac :=
    if nano =? 0 then []
    else if Z.rem nano 1000000 =? 0 then 46 :: fmt_int false true 3 (Z.quot nano 1000000)
    else if Z.rem nano 1000 =? 0 then 46 :: fmt_int false true 6 (Z.quot nano 1000)
    else 46 :: fmt_int false true 9 nano in
  let+ o := offset_format (mk_of OP_Minutes C_Colon use_z PadZero) off in
  fok (y ++ [45] ++ mo ++ [45] ++ da ++ [84] ++ hh ++ [58] ++ mi ++ [58] ++ ss ++ frac ++ o).

(* pub(crate) fn write_rfc2822(w, dt: NaiveDateTime, off: FixedOffset) *)
Definition write_rfc2822 (dt : DateTime.ndt) (off : Z) : fres :=
  let d := DateTime.nd_date dt in let t := DateTime.nd_time dt in
  let year := Date.d_year d in
  if negb ((0 <=? year) && (year <=? 9999)) then ferr else
  let* wd := Date.d_weekday d in
  let* wi := wd_num_days_from_sunday wd in
  let+ wn := nth_name LOC_SHORT_WEEKDAYS (as_usize wi) in
  let* day := Date.d_day d in
  let+ dd := (if day <? 10 then let* c := add_u8 48 (as_u8 day) in fok [c] else write_hundreds (as_u8 day)) in
  let* m0 := d_month0 d in
  let+ mn := nth_name LOC_SHORT_MONTHS (as_usize m0) in
  let+ y1 := write_hundreds (as_u8 (Z.quot year 100)) in
  let+ y2 := write_hundreds (as_u8 (Z.rem year 100)) in
  let '(hour, min, sec) := Time.hms t in
  let+ hh := write_hundreds (as_u8 hour) in
  let+ mi := write_hundreds (as_u8 min) in
  let* sec := add_u32 sec (Z.quot (Time.nanosecond t) 1000000000) in
  let+ ss := write_hundreds (as_u8 sec) in
  let+ o := offset_format (mk_of OP_Minutes C_None false PadZero) off in
  fok (wn ++ [44; 32] ++ dd ++ [32] ++ mn ++ [32] ++ y1 ++ y2 ++ [32] ++ hh ++ [58] ++ mi ++ [58] ++ ss ++ [32] ++ o).

(* char::to_lowercase on the (ASCII) AM/PM markers *)
Definition ascii_lower (c : Z) : Z := if (65 <=? c) && (c <=? 90) then c + 32 else c.

(* fn format_fixed(&self, w, spec: &Fixed) *)
Definition format_fixed (a : fmt_args) (spec : Fixed) : fres :=
  match spec, fa_date a, fa_time a, fa_off a with
  | F_ShortMonthName, Some d, _, _ => let* m0 := d_month0 d in nth_name LOC_SHORT_MONTHS (as_usize m0)
  | F_LongMonthName, Some d, _, _ => let* m0 := d_month0 d in nth_name LOC_LONG_MONTHS (as_usize m0)
  | F_ShortWeekdayName, Some d, _, _ =>
      let* wd := Date.d_weekday d in let* i := wd_num_days_from_sunday wd in
      nth_name LOC_SHORT_WEEKDAYS (as_usize i)
  | F_LongWeekdayName, Some d, _, _ =>
      let* wd := Date.d_weekday d in let* i := wd_num_days_from_sunday wd in
      nth_name LOC_LONG_WEEKDAYS (as_usize i)
  | F_LowerAmPm, _, Some t, _ =>
      let+ ampm := nth_name LOC_AM_PM (if fst (Time.hour12 t) then 1 else 0) in
      fok (map ascii_lower ampm)
  | F_UpperAmPm, _, Some t, _ => nth_name LOC_AM_PM (if fst (Time.hour12 t) then 1 else 0)
  | F_Nanosecond, _, Some t, _ =>
      let nano := Z.rem (Time.nanosecond t) 1000000000 in
      if nano =? 0 then fok []
      else if Z.rem nano 1000000 =? 0 then fok (LOC_DECIMAL_POINT ++ fmt_int false true 3 (Z.quot nano 1000000))
      else if Z.rem nano 1000 =? 0 then fok (LOC_DECIMAL_POINT ++ fmt_int false true 6 (Z.quot nano 1000))
      else fok (LOC_DECIMAL_POINT ++ fmt_int false true 9 nano)
  | F_Nanosecond3, _, Some t, _ =>
      fok (LOC_DECIMAL_POINT ++ fmt_int false true 3 (Z.rem (Z.quot (Time.nanosecond t) 1000000) 1000))
  | F_Nanosecond6, _, Some t, _ =>
      fok (LOC_DECIMAL_POINT ++ fmt_int false true 6 (Z.rem (Z.quot (Time.nanosecond t) 1000) 1000000))
  | F_Nanosecond9, _, Some t, _ =>
      fok (LOC_DECIMAL_POINT ++ fmt_int false true 9 (Z.rem (Time.nanosecond t) 1000000000))
  | F_Internal I_Nanosecond3NoDot, _, Some t, _ =>
      fok (fmt_int false true 3 (Z.rem (Z.quot (Time.nanosecond t) 1000000) 1000))
  | F_Internal I_Nanosecond6NoDot, _, Some t, _ =>
      fok (fmt_int false true 6 (Z.rem (Z.quot (Time.nanosecond t) 1000) 1000000))
  | F_Internal I_Nanosecond9NoDot, _, Some t, _ =>
      fok (fmt_int false true 9 (Z.rem (Time.nanosecond t) 1000000000))
  | F_TimezoneName, _, _, Some (name, _) => fok name
  | F_TimezoneOffset, _, _, Some (_, off) => offset_format (mk_of OP_Minutes C_Maybe false PadZero) off
  | F_TimezoneOffsetZ, _, _, Some (_, off) => offset_format (mk_of OP_Minutes C_Maybe true PadZero) off
  | F_TimezoneOffsetColon, _, _, Some (_, off) => offset_format (mk_of OP_Minutes C_Colon false PadZero) off
  | F_TimezoneOffsetColonZ, _, _, Some (_, off) => offset_format (mk_of OP_Minutes C_Colon true PadZero) off
  | F_TimezoneOffsetDoubleColon, _, _, Some (_, off) => offset_format (mk_of OP_Seconds C_Colon false PadZero) off
  | F_TimezoneOffsetTripleColon, _, _, Some (_, off) => offset_format (mk_of OP_Hours C_None false PadZero) off
  | F_RFC2822, Some d, Some t, Some (_, off) => write_rfc2822 (DateTime.mk_ndt d t) off
  | F_RFC3339, Some d, Some t, Some (_, off) => write_rfc3339_auto (DateTime.mk_ndt d t) off false
  | _, _, _, _ => ferr
  end.

Definition format_item (a : fmt_args) (it : Item) : fres :=
  match it with
  | Literal s | Space s => fok s
  | INumeric spec pad => format_numeric a spec pad
  | IFixed spec => format_fixed a spec
  | IError => ferr
  end.

(** [DelayedFormat::write_to] over an explicit item list (the `format_with_items` methods accept
    any iterator): stops at the first failing item *)
Fixpoint write_items (a : fmt_args) (items : list Item) (acc : bytes) : fres :=
  match items with
  | [] => fok acc
  | it :: r => let+ s := format_item a it in write_items a r (acc ++ s)
  end.

(** [DelayedFormat<StrftimeItems>::write_to]: `for item in self.items.clone() { ...? }` drives the
    iterator lazily and leaves the loop at the first `Err`.  Fuel: see [sf_bound]. *)
Fixpoint write_to (fuel : nat) (a : fmt_args) (st : sfi) (acc : bytes) : fres :=
  match fuel with
  | O => OutOfFuel
  | S f =>
    let* '(o, st') := sf_next st in
    match o with
    | None => fok acc
    | Some it => let+ s := format_item a it in write_to f a st' (acc ++ s)
    end
  end.
(* impl Display for DelayedFormat: write_to a String, then f.pad (no width given: identity) *)
Definition delayed_display (a : fmt_args) (st : sfi) : fres :=
  write_to (S (sf_bound (sf_remainder st) + List.length (sf_queue st))) a st [].

(** Display for FixedOffset / Utc: the `name` part of [fa_off] *)
Definition fixed_offset_display (local_minus_utc : Z) : R bytes :=
  let offset := local_minus_utc in
  let* '(sign, offset) := (if offset <? 0 then let* n := neg_i32 offset in Val (45, n) else Val (43, offset)) in
  let* sec := rem_euclid in_i32 offset 60 in
  let* mins := div_euclid in_i32 offset 60 in
  let* min := rem_euclid in_i32 mins 60 in
  let* hour := div_euclid in_i32 mins 60 in
  if sec =? 0 then Val ([sign] ++ fmt_int false true 2 hour ++ [58] ++ fmt_int false true 2 min)
  else Val ([sign] ++ fmt_int false true 2 hour ++ [58] ++ fmt_int false true 2 min ++ [58] ++ fmt_int false true 2 sec).
Definition utc_display : bytes := [85; 84; 67].   (* "UTC" *)

(** the `format_with_items` constructors *)
Definition fa_of_date (d : Z) : fmt_args := mk_fa (Some d) None None.
Definition fa_of_time (t : Time.ntime) : fmt_args := mk_fa None (Some t) None.
Definition fa_of_ndt (n : DateTime.ndt) : fmt_args := mk_fa (Some (DateTime.nd_date n)) (Some (DateTime.nd_time n)) None.
(* DateTime<FixedOffset>::format_with_items: overflowing_naive_local + new_with_offset *)
Definition fa_of_dtz (z : DateTime.dtz) : R fmt_args :=
  let* local := DateTime.overflowing_naive_local z in
  let* name := fixed_offset_display (DateTime.dz_off z) in
  Val (mk_fa (Some (DateTime.nd_date local)) (Some (DateTime.nd_time local)) (Some (name, DateTime.dz_off z))).
(* DateTime<Utc>::format_with_items *)
Definition fa_of_utc (n : DateTime.ndt) : R fmt_args :=
  let* local := DateTime.overflowing_naive_local (DateTime.mk_dtz n 0) in
  Val (mk_fa (Some (DateTime.nd_date local)) (Some (DateTime.nd_time local)) (Some (utc_display, 0))).
