(** C09 dispatcher: the models are Model/Show.v (Debug / Display writers), Model/FromStr.v (the
    FromStr impls) and Model/Parse.v (parse_internal, parse_rfc3339_relaxed); Weekday / Month text forms are
    those of Model/C19.v.  This file only maps case lines to model calls.  No proofs here.
      tx.show  type form value   -> text            (form 0 = Display, 1 = Debug)
      tx.parse type <bytes>      -> value | err:<ParseErrorKind> (ParseWeekdayError / ParseMonthError)
      tx.rt    type form value   -> parse(show value)
    types: 0 NaiveDate, 1 NaiveTime, 2 NaiveDateTime, 3 DateTime<FixedOffset>, 4 DateTime<Utc>,
           5 FixedOffset (seconds east), 6 Weekday, 7 Month (no Display: form 0 is a bad argument). *)
From Coq Require Import ZArith List Bool String.
From V Require Import Base.Int Base.IO Base.Utf8 Model.DateTime Model.Scan Model.Parse Model.FromStr Model.Show.
From V Require Model.Date Model.Time Model.C19.
Import ListNotations.
Open Scope Z_scope.

(* the text of [value] of type [ty] in form [form]; None: arguments do not decode *)
Definition show (ty form : Z) (v : val) : option (R bytes) :=
  if negb ((form =? 0) || (form =? 1)) then None else
  let dbg := form =? 1 in
  if ty =? 0 then
    match dec_date v with Some d => Some (to_text (if dbg then date_debug [] d else date_display [] d)) | None => None end
  else if ty =? 1 then
    match Time.dec_time v with Some t => Some (to_text (if dbg then time_debug [] t else time_display [] t)) | None => None end
  else if ty =? 2 then
    match dec_ndt v with Some a => Some (to_text (if dbg then ndt_debug [] a else ndt_display [] a)) | None => None end
  else if ty =? 3 then
    match dec_dtz v with Some a => Some (to_text (if dbg then dtz_debug false [] a else dtz_display false [] a)) | None => None end
  else if ty =? 4 then
    match dec_dtz v with
    | Some a => if dz_off a =? 0 then Some (to_text (if dbg then dtz_debug true [] a else dtz_display true [] a)) else None
    | None => None end
  else if ty =? 5 then
    match v with
    | VInt secs => match east_opt secs with
                   | Some off => Some (to_text (if dbg then fixed_debug [] off else fixed_display [] off))
                   | None => None end
    | _ => None end
  else if ty =? 6 then
    match C19.dec_wd v with Some w => Some (to_text (if dbg then wd_debug [] w else wd_display [] w)) | None => None end
  else if ty =? 7 then
    match C19.dec_mo v with Some m => if dbg then Some (to_text (mo_debug [] m)) else None | None => None end
  else None.

Definition vres {A} (enc : A -> val) (r : PR A) : val := val_of_PR enc r.
Definition vname (enc : Z -> val) (err : string) (r : R (option Z)) : val :=
  val_of_R (fun o => match o with Some x => enc x | None => VErr (bytes_of_string err) end) r.
Definition parse_text (ty : Z) (s : bytes) : option val :=
  if ty =? 0 then Some (vres enc_date (naive_date_from_str s))
  else if ty =? 1 then Some (vres Time.enc_time (naive_time_from_str s))
  else if ty =? 2 then Some (vres enc_ndt (naive_datetime_from_str s))
  else if ty =? 3 then Some (vres enc_dtz (datetime_fixed_from_str s))
  else if ty =? 4 then Some (vres enc_dtz (datetime_utc_from_str s))
  else if ty =? 5 then Some (vres VInt (fixed_offset_from_str s))
  else if ty =? 6 then Some (vname C19.enc_wd "ParseWeekdayError" (C19.wd_from_str s))
  else if ty =? 7 then Some (vname C19.enc_mo "ParseMonthError" (C19.mo_from_str s))
  else None.

Definition run (op : bytes) (args : list val) : val :=
  if op_is op "tx.show" then
    match args with
    | [VInt ty; VInt form; v] =>
        match show ty form v with Some r => val_of_R VStr r | None => VBad end
    | _ => VBad end
  else if op_is op "tx.parse" then
    match args with
    | [VInt ty; VStr s] =>
        if utf8_valid s then match parse_text ty s with Some o => o | None => VBad end else VBad
    | _ => VBad end
  else if op_is op "tx.rt" then
    match args with
    | [VInt ty; VInt form; v] =>
        match show ty form v with
        | Some (Val s) => match parse_text ty s with Some o => o | None => VBad end
        | Some Panic => VPanic
        | Some OutOfFuel => VFuel
        | None => VBad
        end
    | _ => VBad end
  else VErr B"NOOP".
