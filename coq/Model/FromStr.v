(** Executable model of the [FromStr] impls that are built on the item-driven reader
    (Model/Parse.v) with FIXED item lists:
      NaiveDate      src/naive/date/mod.rs       parse(ITEMS) ; to_naive_date
      NaiveTime      src/naive/time/mod.rs       parse_and_remainder(HOUR_AND_MINUTE) ;
                                                 parse_and_remainder(SECOND_AND_NANOS).unwrap_or(s) ;
                                                 parse(TRAILING_WHITESPACE) ; to_naive_time
      NaiveDateTime  src/naive/datetime/mod.rs   parse(ITEMS) ; to_naive_datetime_with_offset(0)
      DateTime<FixedOffset>  src/format/parse.rs [datetime_from_str] of Model/Parse.v
      DateTime<Utc>  src/datetime/mod.rs         the former, then with_timezone(&Utc)
      FixedOffset    src/offset/fixed.rs         scan::timezone_offset ; east_opt
    (Weekday / Month: Model/C19.v [wd_from_str] / [mo_from_str]).
    The item lists come from Gen/TextForms.v (regenerated from the Rust source on every run).

    NaiveTime keeps using its [Parsed] after a FAILED second call, which may have set [second]
    before failing (e.g. "12:34:56.x"), whereas Model/Parse.v returns the error only.  That state
    is unobservable: if the remainder after HOUR_AND_MINUTE is white space only, the second list
    fails at its literal ':' before any setter ran ([parsed] unchanged); otherwise the final
    [parse(.., TRAILING_WHITESPACE)] answers TOO_LONG without looking at [parsed].  Continuing
    from the state before the failed call therefore gives the same result in every case.
    Shared by C09 (and usable by C20).  No proofs in this file. *)
From Coq Require Import ZArith List Bool String.
From V Require Import Base.Int Base.IO Base.Utf8 Model.Scan Model.Items Gen.TextForms Model.Parse.
From V Require Model.Parsed Model.Time Model.DateTime.
Import ListNotations.
Open Scope Z_scope.

(** ** impl str::FromStr for NaiveDate *)
Definition naive_date_from_str (s : bytes) : PR Z :=
  let+ p := parse Model.Parsed.parsed_new s FS_NAIVE_DATE_ITEMS in
  pr_of (Model.Parsed.to_naive_date p).

(** ** impl str::FromStr for NaiveTime *)
Definition naive_time_from_str (s : bytes) : PR Model.Time.ntime :=
  let+ '(p, s) := parse_and_remainder Model.Parsed.parsed_new s FS_HOUR_AND_MINUTE in
  (* Seconds are optional, don't fail if parsing them doesn't succeed. *)
  let* r2 := parse_and_remainder p s FS_SECOND_AND_NANOS in
  let '(p, s) := match r2 with POk (p2, s2) => (p2, s2) | PErr _ => (p, s) end in
  let+ p := parse p s FS_TRAILING_WHITESPACE in
  pr_of (Model.Parsed.to_naive_time p).

(** ** impl str::FromStr for NaiveDateTime *)
Definition naive_datetime_from_str (s : bytes) : PR Model.DateTime.ndt :=
  let+ p := parse Model.Parsed.parsed_new s FS_NAIVE_DATETIME_ITEMS in
  pr_of (Model.Parsed.to_naive_datetime_with_offset p FS_NAIVE_DATETIME_OFFSET).

(** ** impl str::FromStr for DateTime<FixedOffset> / DateTime<Utc> *)
Definition datetime_fixed_from_str (s : bytes) : PR Model.DateTime.dtz := datetime_from_str s.
(* s.parse::<DateTime<FixedOffset>>().map(|dt| dt.with_timezone(&Utc)) *)
Definition datetime_utc_from_str (s : bytes) : PR Model.DateTime.dtz :=
  let+ dt := datetime_from_str s in
  pok (Model.DateTime.with_timezone dt 0).

(** ** impl FromStr for FixedOffset
    let (_, offset) = scan::timezone_offset(s, scan::colon_or_space, false, false, true)?;
    Self::east_opt(offset).ok_or(OUT_OF_RANGE) *)
Definition fixed_offset_from_str (s : bytes) : PR Z :=
  let+ '(_, offset) := timezone_offset s colon_or_space false false true in
  match Model.DateTime.east_opt offset with
  | Some off => pok off
  | None => perr_ OutOfRange
  end.
