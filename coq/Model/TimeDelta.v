(** Executable model of src/time_delta.rs (everything except the f32/f64 accessors), in the
    trapping-integer monad of Base.Int.  Mirrors the Rust line by line; constants come from
    Gen/TimeDelta.v (regenerated from the source on every run).  No proofs here. *)
From Coq Require Import ZArith List Bool String.
From V Require Import Base.Int Base.IO Gen.TimeDelta.
Import ListNotations.
Open Scope Z_scope.

Record td := mk_td { secs : Z; nanos : Z }.

Definition NPS := TD_NANOS_PER_SEC.

(* pub const fn new(secs: i64, nanos: u32) -> Option<TimeDelta> *)
Definition td_new (s n : Z) : option td :=
  if (s <? TD_MIN_secs) || (s >? TD_MAX_secs) || (n >=? TD_NEW_NANOS_BOUND)
     || ((s =? TD_MAX_secs) && (n >? as_u32 TD_MAX_nanos))
     || ((s =? TD_MIN_secs) && (n <? as_u32 TD_MIN_nanos))
  then None else Some (mk_td s (as_i32 n)).

Definition div_mod_floor_64 (a b : Z) : R (Z * Z) :=
  let* q := div_euclid in_i64 a b in
  let* r := rem_euclid in_i64 a b in Val (q, r).

Definition try_seconds (s : Z) : option td := td_new s 0.
Definition try_unit (per : Z) (n : Z) : option td :=
  match checked_mul in_i64 n per with Some s => try_seconds s | None => None end.
Definition try_weeks := try_unit TD_SECS_PER_WEEK.
Definition try_days := try_unit TD_SECS_PER_DAY.
Definition try_hours := try_unit TD_SECS_PER_HOUR.
Definition try_minutes := try_unit TD_SECS_PER_MINUTE.

Definition try_milliseconds (ms : Z) : R (option td) :=
  if ms <? - i64_max then Val None else
  let* '(s, millis) := div_mod_floor_64 ms TD_MILLIS_PER_SEC in
  let* n := mul_i32 (as_i32 millis) TD_NANOS_PER_MILLI in
  Val (Some (mk_td s n)).

Definition microseconds (us : Z) : R td :=
  let* '(s, micros) := div_mod_floor_64 us TD_MICROS_PER_SEC in
  let* n := mul_i32 (as_i32 micros) TD_NANOS_PER_MICRO in
  Val (mk_td s n).

Definition nanoseconds (ns : Z) : R td :=
  let* '(s, n) := div_mod_floor_64 ns (as_i64 NPS) in
  Val (mk_td s (as_i32 n)).

Definition num_seconds (d : td) : R Z :=
  if (secs d <? 0) && (nanos d >? 0) then add_i64 (secs d) 1 else Val (secs d).
Definition subsec_nanos (d : td) : R Z :=
  if (secs d <? 0) && (nanos d >? 0) then sub_i32 (nanos d) NPS else Val (nanos d).
Definition num_minutes d := let* s := num_seconds d in div_i64 s TD_SECS_PER_MINUTE.
Definition num_hours d := let* s := num_seconds d in div_i64 s TD_SECS_PER_HOUR.
Definition num_days d := let* s := num_seconds d in div_i64 s TD_SECS_PER_DAY.
Definition num_weeks d := let* s := num_days d in div_i64 s 7.
Definition subsec_millis d := let* n := subsec_nanos d in div_i32 n TD_NANOS_PER_MILLI.
Definition subsec_micros d := let* n := subsec_nanos d in div_i32 n TD_NANOS_PER_MICRO.
Definition num_milliseconds (d : td) : R Z :=
  let* s := num_seconds d in
  let* secs_part := mul_i64 s TD_MILLIS_PER_SEC in
  let* sn := subsec_nanos d in
  let* nanos_part := div_i32 sn TD_NANOS_PER_MILLI in
  add_i64 secs_part nanos_part.
Definition num_microseconds (d : td) : R (option Z) :=
  let* s := num_seconds d in
  match checked_mul in_i64 s TD_MICROS_PER_SEC with
  | None => Val None
  | Some secs_part =>
    let* sn := subsec_nanos d in
    let* nanos_part := div_i32 sn TD_NANOS_PER_MICRO in
    Val (checked_add in_i64 secs_part nanos_part)
  end.
Definition num_nanoseconds (d : td) : R (option Z) :=
  let* s := num_seconds d in
  match checked_mul in_i64 s (as_i64 NPS) with
  | None => Val None
  | Some secs_part =>
    let* nanos_part := subsec_nanos d in
    Val (checked_add in_i64 secs_part nanos_part)
  end.
Definition is_zero (d : td) : bool := (secs d =? 0) && (nanos d =? 0).

Definition td_checked_add (a b : td) : R (option td) :=
  let* s := add_i64 (secs a) (secs b) in
  let* n := add_i32 (nanos a) (nanos b) in
  if n >=? NPS then
    let* n' := sub_i32 n NPS in let* s' := add_i64 s 1 in Val (td_new s' (as_u32 n'))
  else Val (td_new s (as_u32 n)).

Definition td_checked_sub (a b : td) : R (option td) :=
  let* s := sub_i64 (secs a) (secs b) in
  let* n := sub_i32 (nanos a) (nanos b) in
  if n <? 0 then
    let* n' := add_i32 n NPS in let* s' := sub_i64 s 1 in Val (td_new s' (as_u32 n'))
  else Val (td_new s (as_u32 n)).

Definition td_checked_mul (a : td) (rhs : Z) : R (option td) :=
  let* total_nanos := mul_i64 (nanos a) rhs in
  let* '(extra_secs, n) := div_mod_floor_64 total_nanos (as_i64 NPS) in
  let* p := mul_i128 (secs a) rhs in
  let* s := add_i128 p extra_secs in
  if (s <=? i64_min) || (s >=? i64_max) then Val None
  else Val (td_new (as_i64 s) (as_u32 n)).

Definition td_checked_div (a : td) (rhs : Z) : R (option td) :=
  if rhs =? 0 then Val None else
  let* s := div_i64 (secs a) rhs in
  let* carry := rem_i64 (secs a) rhs in
  let* cn := mul_i64 carry (as_i64 NPS) in
  let* extra_nanos := div_i64 cn rhs in
  let* q := div_i32 (nanos a) rhs in
  let* n := add_i32 q (as_i32 extra_nanos) in
  if n <? 0 then
    let* s' := sub_i64 s 1 in let* n' := add_i32 n NPS in Val (Some (mk_td s' n'))
  else if n >=? NPS then
    let* s' := add_i64 s 1 in let* n' := sub_i32 n NPS in Val (Some (mk_td s' n'))
  else Val (Some (mk_td s n)).

Definition td_abs (a : td) : R td :=
  if (secs a <? 0) && negb (nanos a =? 0) then
    let* s1 := add_i64 (secs a) 1 in let* s := abs_i64 s1 in
    let* n := sub_i32 NPS (nanos a) in Val (mk_td s n)
  else let* s := abs_i64 (secs a) in Val (mk_td s (nanos a)).

Definition td_neg (a : td) : R td :=
  if nanos a =? 0 then let* s := neg_i64 (secs a) in let* s' := sub_i64 s 0 in Val (mk_td s' 0)
  else let* n := sub_i32 NPS (nanos a) in
       let* s := neg_i64 (secs a) in let* s' := sub_i64 s 1 in Val (mk_td s' n).

Definition td_cmp (a b : td) : Z := cmp_lex [secs a; nanos a] [secs b; nanos b].

(* from_std(duration): as_secs : u64, subsec_nanos : u32 (< 10^9 by Duration's invariant) *)
Definition from_std (dsecs dnanos : Z) : option td :=
  if dsecs >? as_u64 TD_MAX_secs then None else td_new (as_i64 dsecs) dnanos.
Definition to_std (a : td) : option (Z * Z) :=
  if secs a <? 0 then None else Some (as_u64 (secs a), as_u32 (nanos a)).

Definition op_add a b := unwrap_r (td_checked_add a b).
Definition op_sub a b := unwrap_r (td_checked_sub a b).
Definition op_mul a k := unwrap_r (td_checked_mul a k).
Definition op_div a k := unwrap_r (td_checked_div a k).
Fixpoint td_sum (l : list td) (acc : td) : R td :=
  match l with [] => Val acc | x :: r => let* acc' := op_add acc x in td_sum r acc' end.

(** Display.  [core::fmt] integer formatting is modelled: [{}] prints the decimal of an i64,
    [{:0w$}] left-pads with zeros to width w. *)
Fixpoint strip_loop (fuel : nat) (digits figures : Z) : R (Z * Z) :=
  match fuel with
  | O => OutOfFuel
  | S f =>
    let* dv := div_i32 digits 10 in
    let* last := rem_i32 digits 10 in
    if negb (last =? 0) then Val (digits, figures)
    else let* fg := sub_usize figures 1 in strip_loop f dv fg
  end.
Definition pad0 (w : Z) (s : bytes) : bytes :=
  repeat 48 (Z.to_nat (w - Z.of_nat (List.length s))) ++ s.
Definition td_display (a : td) : R bytes :=
  let* '(ab, sign) := (if secs a <? 0 then let* n := td_neg a in Val (n, B"-") else Val (a, [])) in
  let head := sign ++ B"P" in
  if (secs ab =? 0) && (nanos ab =? 0) then Val (head ++ B"0D") else
  let body := head ++ B"T" ++ dec_of_Z (secs ab) in
  if nanos ab >? 0 then
    let* '(fd, fg) := strip_loop 10 (nanos ab) 9 in
    Val (body ++ B"." ++ pad0 fg (dec_of_Z fd) ++ B"S")
  else Val (body ++ B"S").

(** ** Codecs of the case protocol shared by every property that uses durations *)
Definition enc_td (d : td) : val := VTup [VInt (secs d); VInt (nanos d)].
(* inputs are decoded exactly as the harness does: through [TimeDelta::new] on (i64, u32) *)
Definition dec_td (v : val) : option td :=
  match v with
  | VTup [VInt s; VInt n] => if in_i64 s && in_u32 n then td_new s n else None
  | _ => None
  end.
Definition vo_td (o : option td) : val := val_of_option enc_td o.
Definition arg_i64 (v : val) : option Z := match v with VInt z => if in_i64 z then Some z else None | _ => None end.
Definition arg_i32 (v : val) : option Z := match v with VInt z => if in_i32 z then Some z else None | _ => None end.
Definition arg_u32 (v : val) : option Z := match v with VInt z => if in_u32 z then Some z else None | _ => None end.
Definition arg_u64 (v : val) : option Z := match v with VInt z => if in_u64 z then Some z else None | _ => None end.

