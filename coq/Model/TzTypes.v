(** Shared vocabulary of the tz_info model (src/offset/local/tz_info/): the error enum, the
    [Result]-in-[R] monad, zone data types, [LocalTimeType::new], [TimeZoneName::new] and the
    [Cursor] of parser.rs.  Re-exported by Model/TzParser.v.  No proofs here. *)
From Coq Require Import ZArith List Bool String.
From V Require Import Base.Int Base.IO Gen.TzInfo.
Import ListNotations.
Open Scope Z_scope.

(** tz_info::Error, variant names only (the payload is a message text or a std error) *)
Inductive tzerr :=
| EDateTime | EFindLocalTimeType | ELocalTimeType | EInvalidSlice | EInvalidTzFile
| EInvalidTzString | EIo | EOutOfRange | EParseInt | EProjectDateTime | ESystemTime
| ETimeZone | ETransitionRule | EUnsupportedTzFile | EUnsupportedTzString | EUtf8.

Definition tzerr_name (e : tzerr) : bytes :=
  match e with
  | EDateTime => B"DateTime" | EFindLocalTimeType => B"FindLocalTimeType"
  | ELocalTimeType => B"LocalTimeType" | EInvalidSlice => B"InvalidSlice"
  | EInvalidTzFile => B"InvalidTzFile" | EInvalidTzString => B"InvalidTzString"
  | EIo => B"Io" | EOutOfRange => B"OutOfRange" | EParseInt => B"ParseInt"
  | EProjectDateTime => B"ProjectDateTime" | ESystemTime => B"SystemTime"
  | ETimeZone => B"TimeZone" | ETransitionRule => B"TransitionRule"
  | EUnsupportedTzFile => B"UnsupportedTzFile" | EUnsupportedTzString => B"UnsupportedTzString"
  | EUtf8 => B"Utf8"
  end.

Inductive res (A : Type) : Type := Ok (a : A) | Err (e : tzerr).
Arguments Ok {A} a.
Arguments Err {A} e.

(** [Result<_, Error>] inside a function that may trap: Rust's [?] *)
Definition rbind {A T} (x : R (res A)) (f : A -> R (res T)) : R (res T) :=
  match x with
  | Val (Ok a) => f a
  | Val (Err e) => Val (Err e)
  | Panic => Panic
  | OutOfFuel => OutOfFuel
  end.
Notation "'let+' x ':=' e 'in' k" := (rbind e (fun x => k))
  (at level 200, x name, e at level 100, k at level 200).
Notation "'let+' ' p ':=' e 'in' k" := (rbind e (fun p => k))
  (at level 200, p pattern, e at level 100, k at level 200).
Definition ok {A} (a : A) : R (res A) := Val (Ok a).
Definition fail {A} (e : tzerr) : R (res A) := Val (Err e).
(** a trapping computation used where a value is expected *)
Definition lift {A} (x : R A) : R (res A) := bind x (fun a => Val (Ok a)).

Definition mul_usize a b := chk in_usize (a * b).
Definition zlen {A} (l : list A) : Z := Z.of_nat (List.length l).

(** sequential map with early exit (a [for] loop pushing into a Vec, [?] inside) *)
Fixpoint map_res {A T} (f : A -> R (res T)) (l : list A) : R (res (list T)) :=
  match l with
  | [] => ok []
  | a :: r => let+ b := f a in let+ bs := map_res f r in ok (b :: bs)
  end.

(** [&s[lo..hi]], [&s[lo..]], [&s[..hi]] with their bounds checks *)
Definition slice (s : bytes) (lo hi : Z) : R bytes :=
  if (0 <=? lo) && (lo <=? hi) && (hi <=? zlen s)
  then Val (firstn (Z.to_nat (hi - lo)) (skipn (Z.to_nat lo) s)) else Panic.
Definition slice_from (s : bytes) (lo : Z) : R bytes := slice s lo (zlen s).
Definition slice_to (s : bytes) (hi : Z) : R bytes := slice s 0 hi.

(** ** Zone data *)
(* TimeZoneName is a length-prefixed [u8; 8]; its content is the byte string itself *)
Record ltt := mk_ltt { ut_offset : Z; is_dst : bool; name : option bytes }.
Record transition := mk_tr { tr_time : Z; tr_idx : Z }.
Record leap := mk_leap { lp_time : Z; lp_corr : Z }.
Inductive rule_day :=
| Julian1WithoutLeap (d : Z)
| Julian0WithLeap (d : Z)
| MonthWeekday (month week week_day : Z).
Record alt_time := mk_alt {
  a_std : ltt; a_dst : ltt;
  dst_start : rule_day; dst_start_time : Z;
  dst_end : rule_day; dst_end_time : Z }.
Inductive trule := Fixed (l : ltt) | Alternate (a : alt_time).
Record timezone := mk_tz {
  transitions : list transition;
  local_time_types : list ltt;
  leap_seconds : list leap;
  extra_rule : option trule }.

Inductive mlt (A : Type) : Type := MNone | MSingle (a : A) | MAmbiguous (a b : A).
Arguments MNone {A}.
Arguments MSingle {A} a.
Arguments MAmbiguous {A} a b.

Definition opt_bytes_eqb (a b : option bytes) : bool :=
  match a, b with
  | Some x, Some y => bytes_eqb x y
  | None, None => true
  | _, _ => false
  end.

(* b'0'..=b'9' | b'A'..=b'Z' | b'a'..=b'z' | b'+' | b'-' *)
Definition is_name_char (b : Z) : bool :=
  ((48 <=? b) && (b <=? 57)) || ((65 <=? b) && (b <=? 90)) || ((97 <=? b) && (b <=? 122))
  || (b =? 43) || (b =? 45).

(* TimeZoneName::new: the while loop writes bytes[i + 1] for i < len <= 7 (in bounds of [u8; 8]) *)
Fixpoint name_loop (input : bytes) (i : Z) : R (res unit) :=
  match input with
  | [] => ok tt
  | b :: r =>
      if is_name_char b then
        let* _ := rassert (i + 1 <? 8) in     (* bytes[i + 1] = b *)
        name_loop r (i + 1)
      else fail ELocalTimeType
  end.
Definition tz_name_new (input : bytes) : R (res bytes) :=
  let len := zlen input in
  if negb ((TZ_NAME_MIN <=? len) && (len <=? TZ_NAME_MAX)) then fail ELocalTimeType else
  let+ _ := name_loop input 0 in ok input.

(* LocalTimeType::new *)
Definition ltt_new (off : Z) (dst : bool) (nm : option bytes) : R (res ltt) :=
  if off =? i32_min then fail ELocalTimeType else
  match nm with
  | Some n => let+ n' := tz_name_new n in ok (mk_ltt off dst (Some n'))
  | None => ok (mk_ltt off dst None)
  end.

(** ** Cursor (parser.rs) *)
Record cursor := mk_cur { remaining : bytes; read_count : Z }.
Definition cur_new (b : bytes) : cursor := mk_cur b 0.
Definition peek (c : cursor) : option Z := match remaining c with [] => None | x :: _ => Some x end.
Definition cur_is_empty (c : cursor) : bool := match remaining c with [] => true | _ => false end.

(* read_exact: both [get(..count)] and [get(count..)] succeed iff count <= len.  The length test
   comes first so that [Z.to_nat] is only ever applied to a count bounded by the input size. *)
Definition read_exact (c : cursor) (count : Z) : R (res (bytes * cursor)) :=
  if (0 <=? count) && (count <=? zlen (remaining c)) then
    let n := Z.to_nat count in
    let* rc := add_usize (read_count c) count in
    ok (firstn n (remaining c), mk_cur (skipn n (remaining c)) rc)
  else fail EIo.

Definition be_uint (l : bytes) : Z := fold_left (fun acc b => acc * 256 + b) l 0.
(* buf.copy_from_slice(src) on a [0; n] buffer: panics unless src.len() == n *)
Definition copy_from_slice (n : Z) (src : bytes) : R bytes :=
  if zlen src =? n then Val src else Panic.
Definition read_be_u32 (c : cursor) : R (res (Z * cursor)) :=
  let+ '(b, c') := read_exact c 4 in
  let* buf := copy_from_slice 4 b in
  ok (be_uint buf, c').

Definition read_tag (c : cursor) (tag : bytes) : R (res cursor) :=
  let+ '(b, c') := read_exact c (zlen tag) in
  if bytes_eqb b tag then ok c' else fail EIo.
Fixpoint starts_with (s tag : bytes) : bool :=
  match tag, s with
  | [], _ => true
  | t :: tag', x :: s' => (x =? t) && starts_with s' tag'
  | _ :: _, [] => false
  end.
Definition read_optional_tag (c : cursor) (tag : bytes) : R (res (bool * cursor)) :=
  if starts_with (remaining c) tag then
    let+ '(_, c') := read_exact c (zlen tag) in ok (true, c')
  else ok (false, c).

Fixpoint prefix_len (f : Z -> bool) (s : bytes) : Z :=
  match s with
  | x :: r => if f x then 1 + prefix_len f r else 0
  | [] => 0
  end.
(* read_while(f): position of the first byte with !f, or everything *)
Definition read_while (c : cursor) (f : Z -> bool) : R (res (bytes * cursor)) :=
  read_exact c (prefix_len f (remaining c)).
(* read_until(f): position of the first byte with f, or everything *)
Definition read_until (c : cursor) (f : Z -> bool) : R (res (bytes * cursor)) :=
  read_exact c (prefix_len (fun x => negb (f x)) (remaining c)).

Definition is_ascii_digit (b : Z) : bool := (48 <=? b) && (b <=? 57).
Definition is_ascii_alphabetic (b : Z) : bool :=
  ((65 <=? b) && (b <=? 90)) || ((97 <=? b) && (b <=? 122)).
Definition is_ascii_whitespace (b : Z) : bool :=
  (b =? 32) || (b =? 9) || (b =? 10) || (b =? 12) || (b =? 13).

(* read_int::<T>(): the digits (always valid UTF-8) go through [str::parse::<T>]: an empty
   string and a value above T::MAX are ParseIntError (Empty / PosOverflow) *)
Definition digits_value (l : bytes) : Z := fold_left (fun acc b => acc * 10 + (b - 48)) l 0.
Definition read_int (c : cursor) (tmax : Z) : R (res (Z * cursor)) :=
  let+ '(b, c') := read_while c is_ascii_digit in
  match b with
  | [] => fail EParseInt
  | _ => let v := digits_value b in if v <=? tmax then ok (v, c') else fail EParseInt
  end.

(* read_be_i32 / read_be_i64 on a slice *)
Definition read_be_i32 (b : bytes) : R (res Z) :=
  if negb (zlen b =? 4) then fail EInvalidSlice else
  let* buf := copy_from_slice 4 b in ok (as_i32 (be_uint buf)).
Definition read_be_i64 (b : bytes) : R (res Z) :=
  if negb (zlen b =? 8) then fail EInvalidSlice else
  let* buf := copy_from_slice 8 b in ok (as_i64 (be_uint buf)).
