(** Executable model of the RFC 3339 reader and writer:
      src/format/parse.rs       parse_rfc3339 (MAX_RFC3339_OFFSET)
      src/format/parsed.rs      the setters it calls and (narrow copy, see below) Parsed::to_datetime
      src/format/formatting.rs  write_hundreds, OffsetFormat::format (every precision / colon /
                                padding combination), SecondsFormat, write_rfc3339
      src/datetime/mod.rs       parse_from_rfc3339, to_rfc3339, to_rfc3339_opts
    on top of Model/Scan.v (scanners), Model/Date.v, Model/Time.v, Model/DateTime.v.
    Literals come from Gen/ScanTables.v.  No proofs in this file. *)
From Coq Require Import ZArith List Bool String.
From V Require Import Base.Int Base.IO Base.Utf8 Gen.ScanTables Model.Scan Model.DateTime.
From V Require Model.Date Model.Time.
Import ListNotations.
Open Scope Z_scope.

(** * The fields of [Parsed] that the RFC 3339 reader sets *)
Record parsed := mk_parsed {
  p_year : option Z; p_month : option Z; p_day : option Z;
  p_hour_div_12 : option Z; p_hour_mod_12 : option Z;
  p_minute : option Z; p_second : option Z; p_nanosecond : option Z;
  p_offset : option Z }.
Definition parsed_new : parsed := mk_parsed None None None None None None None None None.

(* fn set_if_consistent<T: PartialEq>(old: &mut Option<T>, new: T) -> ParseResult<()> *)
Definition set_if_consistent (old : option Z) (new : Z) : presult (option Z) :=
  match old with
  | Some o => if negb (o =? new) then PErr Impossible else POk (Some new)
  | None => POk (Some new)
  end.
Definition set_year (p : parsed) (value : Z) : presult parsed :=
  if negb (in_i32 value) then PErr OutOfRange else
  match set_if_consistent (p_year p) value with
  | POk y => POk (mk_parsed y (p_month p) (p_day p) (p_hour_div_12 p) (p_hour_mod_12 p) (p_minute p) (p_second p) (p_nanosecond p) (p_offset p))
  | PErr e => PErr e end.
Definition set_month (p : parsed) (value : Z) : presult parsed :=
  if negb ((P_MONTH_LO <=? value) && (value <=? P_MONTH_HI)) then PErr OutOfRange else
  match set_if_consistent (p_month p) (as_u32 value) with
  | POk x => POk (mk_parsed (p_year p) x (p_day p) (p_hour_div_12 p) (p_hour_mod_12 p) (p_minute p) (p_second p) (p_nanosecond p) (p_offset p))
  | PErr e => PErr e end.
Definition set_day (p : parsed) (value : Z) : presult parsed :=
  if negb ((P_DAY_LO <=? value) && (value <=? P_DAY_HI)) then PErr OutOfRange else
  match set_if_consistent (p_day p) (as_u32 value) with
  | POk x => POk (mk_parsed (p_year p) (p_month p) x (p_hour_div_12 p) (p_hour_mod_12 p) (p_minute p) (p_second p) (p_nanosecond p) (p_offset p))
  | PErr e => PErr e end.
Definition set_hour (p : parsed) (value : Z) : R (presult parsed) :=
  let* dm :=
    (if (P_HOUR_AM_LO <=? value) && (value <=? P_HOUR_AM_HI) then Val (Some (0, as_u32 value))
     else if (P_HOUR_PM_LO <=? value) && (value <=? P_HOUR_PM_HI) then
       let* m := sub_u32 (as_u32 value) P_HOUR_PM_SUB in Val (Some (1, m))
     else Val None) in
  match dm with
  | None => Val (PErr OutOfRange)
  | Some (hour_div_12, hour_mod_12) =>
    match set_if_consistent (p_hour_div_12 p) hour_div_12 with
    | PErr e => Val (PErr e)
    | POk d =>
      match set_if_consistent (p_hour_mod_12 p) hour_mod_12 with
      | PErr e => Val (PErr e)
      | POk m => Val (POk (mk_parsed (p_year p) (p_month p) (p_day p) d m (p_minute p) (p_second p) (p_nanosecond p) (p_offset p)))
      end
    end
  end.
Definition set_minute (p : parsed) (value : Z) : presult parsed :=
  if negb ((P_MINUTE_LO <=? value) && (value <=? P_MINUTE_HI)) then PErr OutOfRange else
  match set_if_consistent (p_minute p) (as_u32 value) with
  | POk x => POk (mk_parsed (p_year p) (p_month p) (p_day p) (p_hour_div_12 p) (p_hour_mod_12 p) x (p_second p) (p_nanosecond p) (p_offset p))
  | PErr e => PErr e end.
Definition set_second (p : parsed) (value : Z) : presult parsed :=
  if negb ((P_SECOND_LO <=? value) && (value <=? P_SECOND_HI)) then PErr OutOfRange else
  match set_if_consistent (p_second p) (as_u32 value) with
  | POk x => POk (mk_parsed (p_year p) (p_month p) (p_day p) (p_hour_div_12 p) (p_hour_mod_12 p) (p_minute p) x (p_nanosecond p) (p_offset p))
  | PErr e => PErr e end.
Definition set_nanosecond (p : parsed) (value : Z) : presult parsed :=
  if negb ((P_NANOSECOND_LO <=? value) && (value <=? P_NANOSECOND_HI)) then PErr OutOfRange else
  match set_if_consistent (p_nanosecond p) (as_u32 value) with
  | POk x => POk (mk_parsed (p_year p) (p_month p) (p_day p) (p_hour_div_12 p) (p_hour_mod_12 p) (p_minute p) (p_second p) x (p_offset p))
  | PErr e => PErr e end.
Definition set_offset (p : parsed) (value : Z) : presult parsed :=
  if negb (in_i32 value) then PErr OutOfRange else
  match set_if_consistent (p_offset p) value with
  | POk x => POk (mk_parsed (p_year p) (p_month p) (p_day p) (p_hour_div_12 p) (p_hour_mod_12 p) (p_minute p) (p_second p) (p_nanosecond p) x)
  | PErr e => PErr e end.

(** * parse_rfc3339 *)
(* parsed.set_x(try_consume!(scan::number(s, lo, hi)))? *)
Definition consume_number (p : parsed) (s : bytes) (lo hi : Z) (set : parsed -> Z -> R (presult parsed))
  : PR (parsed * bytes) :=
  let+ '(s', v) := number s lo hi in
  let+ p' := set p v in
  pok (p', s').
Definition pure_set (f : parsed -> Z -> presult parsed) : parsed -> Z -> R (presult parsed) :=
  fun p v => Val (f p v).

Definition parse_rfc3339 (p : parsed) (s : bytes) : PR (parsed * bytes) :=
  let+ '(p, s) := consume_number p s R3_YEAR_MIN R3_YEAR_MAX (pure_set set_year) in
  let+ s := char s 45 in
  let+ '(p, s) := consume_number p s R3_MONTH_MIN R3_MONTH_MAX (pure_set set_month) in
  let+ s := char s 45 in
  let+ '(p, s) := consume_number p s R3_DAY_MIN R3_DAY_MAX (pure_set set_day) in
  let+ s :=
    match s with
    | c :: _ => if existsb (Z.eqb c) R3_SEPARATORS then plift (str_from s 1) else perr_ Invalid
    | [] => perr_ TooShort
    end in
  let+ '(p, s) := consume_number p s R3_HOUR_MIN R3_HOUR_MAX set_hour in
  let+ s := char s 58 in
  let+ '(p, s) := consume_number p s R3_MINUTE_MIN R3_MINUTE_MAX (pure_set set_minute) in
  let+ s := char s 58 in
  let+ '(p, s) := consume_number p s R3_SECOND_MIN R3_SECOND_MAX (pure_set set_second) in
  let+ '(p, s) :=
    (if starts_with_byte s 46 then
       let* s1 := str_from s 1 in
       let+ '(s2, nano) := nanosecond s1 in
       let+ p' := Val (set_nanosecond p nano) in
       pok (p', s2)
     else pok (p, s)) in
  let+ '(s, offset) := timezone_offset s (fun s => char s 58) true false true in
  if negb ((- MAX_RFC3339_OFFSET <=? offset) && (offset <=? MAX_RFC3339_OFFSET)) then perr_ OutOfRange else
  let+ p := Val (set_offset p offset) in
  pok (p, s).

(** * Resolution *)
(* narrow copy of Parsed::to_datetime for the RFC 3339 field set; replace by Model/Parsed.v *)
(* to_naive_date, (year, month, day) branch.  With only [year] given, resolve_year is the identity
   ((y, None, None) => Ok(y)); verify_isoweekdate / verify_ordinal compare fields that are all
   None here and are taken as true; quarter is None. *)
Definition to_naive_date (p : parsed) : PR Z :=
  match p_year p, p_month p, p_day p with
  | Some year, Some month, Some day =>
      let* o := Date.from_ymd_opt year month day in
      match o with Some d => pok d | None => perr_ OutOfRange end
  | _, _, _ => perr_ NotEnough
  end.
Definition to_naive_time (p : parsed) : PR Time.ntime :=
  let+ hour_div_12 :=
    match p_hour_div_12 p with
    | Some v => if (0 <=? v) && (v <=? 1) then pok v else perr_ OutOfRange
    | None => perr_ NotEnough end in
  let+ hour_mod_12 :=
    match p_hour_mod_12 p with
    | Some v => if (0 <=? v) && (v <=? 11) then pok v else perr_ OutOfRange
    | None => perr_ NotEnough end in
  let* h12 := mul_u32 hour_div_12 12 in
  let* hour := add_u32 h12 hour_mod_12 in
  let+ minute :=
    match p_minute p with
    | Some v => if (0 <=? v) && (v <=? 59) then pok v else perr_ OutOfRange
    | None => perr_ NotEnough end in
  let+ '(second, nano) :=
    (let v := match p_second p with Some v => v | None => 0 end in
     if (0 <=? v) && (v <=? 59) then pok (v, 0)
     else if v =? 60 then pok (59, 1000000000)
     else perr_ OutOfRange) in
  let+ extra :=
    match p_nanosecond p with
    | Some v =>
        if (0 <=? v) && (v <=? 999999999) then
          match p_second p with Some _ => pok v | None => perr_ NotEnough end
        else perr_ OutOfRange
    | None => pok 0
    end in
  let* nano := add_u32 nano extra in
  let* o := Time.from_hms_nano_opt hour minute second nano in
  match o with Some t => pok t | None => perr_ OutOfRange end.
(* to_naive_datetime_with_offset with [timestamp] = None *)
Definition to_naive_datetime_with_offset (p : parsed) (offset : Z) : PR ndt :=
  let* date := to_naive_date p in
  let* time := to_naive_time p in
  match date, time with
  | POk d, POk t =>
      let datetime := mk_ndt d t in
      let* ts := dt_timestamp datetime in
      let* _ := sub_i64 ts offset in
      pok datetime
  | PErr e, _ => perr_ e           (* date?; *)
  | _, PErr e => perr_ e           (* time?; *)
  end.
Definition to_datetime (p : parsed) : PR dtz :=
  match p_offset p with
  | None => perr_ NotEnough
  | Some offset =>
      let+ datetime := to_naive_datetime_with_offset p offset in
      match east_opt offset with
      | None => perr_ OutOfRange
      | Some off =>
          let* m := from_local_datetime off datetime in
          match m with
          | MNone => perr_ Impossible
          | MSingle t => pok t
          | MAmbiguous _ _ => perr_ NotEnough
          end
      end
  end.

(* DateTime::<FixedOffset>::parse_from_rfc3339 *)
Definition parse_from_rfc3339 (s : bytes) : PR dtz :=
  let+ '(p, s') := parse_rfc3339 parsed_new s in
  if negb (is_empty s') then perr_ TooLong else to_datetime p.

(** * Writer *)
(* a [fmt::Result]-returning writer appending to [w]: None = Err(fmt::Error) *)
Definition W := R (option bytes).
Definition write_char (w : bytes) (c : Z) : option bytes := Some (w ++ [c]).
(* pub(crate) fn write_hundreds(w, n: u8) *)
Definition write_hundreds (w : bytes) (n : Z) : option bytes :=
  if n >=? 100 then None else
  let tens := 48 + Z.quot n 10 in
  let ones := 48 + Z.rem n 10 in
  Some (w ++ [tens; ones]).

(* core::fmt: exactly [k] low decimal digits of n, most significant first *)
Fixpoint low_digits (k : nat) (n : Z) : bytes :=
  match k with O => [] | S k' => low_digits k' (n / 10) ++ [48 + n mod 10] end.
(* core::fmt "{:0w$}" for an unsigned value: at least w digits *)
Definition fmt_zero_pad (w : Z) (n : Z) : bytes :=
  if n <? 10 ^ w then low_digits (Z.to_nat w) n else dec_nonneg n.
(* core::fmt "{:+05}" for an i32: sign always, zero padded to width 5 including the sign *)
Definition fmt_plus_05 (n : Z) : bytes :=
  (if n <? 0 then 45 else 43) :: fmt_zero_pad 4 (Z.abs n).

(* OffsetPrecision: 0 Hours 1 Minutes 2 Seconds 3 OptionalMinutes 4 OptionalSeconds
   5 OptionalMinutesAndSeconds;  Colons: 0 None 1 Colon 2 Maybe;  Pad: 0 None 1 Zero 2 Space *)
Record offset_format := mk_of { of_precision : Z; of_colons : Z; of_allow_zulu : bool; of_padding : Z }.
Definition obind_ {X Y} (x : option X) (f : X -> R (option Y)) : R (option Y) :=
  match x with Some a => f a | None => Val None end.
Notation "'let!' x ':=' e 'in' k" := (obind_ e (fun x => k))
  (at level 200, x name, e at level 100, k at level 200).

(* impl OffsetFormat { fn format(&self, w, off: FixedOffset) -> fmt::Result } *)
Definition offset_format_format (f : offset_format) (w : bytes) (off : Z) : W :=
  if of_allow_zulu f && (off =? 0) then Val (write_char w 90) else
  let* '(sign, off) := (if off <? 0 then let* n := neg_i32 off in Val (45, n) else Val (43, off)) in
  let prec := of_precision f in
  (* (precision, hours, mins, secs) *)
  let* '(precision, hours, mins, secs) :=
    (if prec =? 0 then
       let* h := div_i32 off OF_SECS_PER_HOUR in Val (0, as_u8 h, 0, 0)
     else if (prec =? 1) || (prec =? 3) then
       let* a := add_i32 off OF_ROUND_ADD in
       let* minutes := div_i32 a OF_SECS_PER_MINUTE in
       let* m := rem_i32 minutes 60 in
       let* h := div_i32 minutes 60 in
       let mins := as_u8 m in
       Val ((if (prec =? 3) && (mins =? 0) then 0 else 1), as_u8 h, mins, 0)
     else
       let* minutes := div_i32 off 60 in
       let* s := rem_i32 off 60 in
       let* m := rem_i32 minutes 60 in
       let* h := div_i32 minutes 60 in
       let secs := as_u8 s in let mins := as_u8 m in
       Val ((if negb (prec =? 2) && (secs =? 0) then
               (if (prec =? 5) && (mins =? 0) then 0 else 1)
             else 2), as_u8 h, mins, secs)) in
  let colons := of_colons f =? 1 in
  let! w :=
    (if hours <? 10 then
       match (if of_padding f =? 2 then write_char w 32 else Some w) with
       | None => None
       | Some w =>
         match write_char w sign with
         | None => None
         | Some w =>
           match (if of_padding f =? 1 then write_char w 48 else Some w) with
           | None => None
           | Some w => write_char w (48 + hours)
           end
         end
       end
     else
       match write_char w sign with None => None | Some w => write_hundreds w hours end) in
  let! w :=
    (if (precision =? 1) || (precision =? 2) then
       match (if colons then write_char w 58 else Some w) with
       | None => None | Some w => write_hundreds w mins end
     else Some w) in
  let! w :=
    (if precision =? 2 then
       match (if colons then write_char w 58 else Some w) with
       | None => None | Some w => write_hundreds w secs end
     else Some w) in
  Val (Some w).

(* SecondsFormat: 0 Secs 1 Millis 2 Micros 3 Nanos 4 AutoSi 5 __NonExhaustive *)
Definition write_frac (w : bytes) (width : Z) (v : Z) : option bytes :=
  Some (w ++ [46] ++ fmt_zero_pad width v).

(* pub(crate) fn write_rfc3339(w, dt: NaiveDateTime, off: FixedOffset, secform, use_z) *)
Definition write_rfc3339 (w : bytes) (dt : ndt) (off : Z) (secform : Z) (use_z : bool) : W :=
  let year := Date.d_year (nd_date dt) in
  let* wy :=
    (if (W3_YEAR_LO <=? year) && (year <=? W3_YEAR_HI) then
       let* q := div_i32 year 100 in
       let* r := rem_i32 year 100 in
       Val (match write_hundreds w (as_u8 q) with
            | None => None | Some w => write_hundreds w (as_u8 r) end)
     else Val (Some (w ++ fmt_plus_05 year))) in
  let! w := wy in
  let! w := write_char w 45 in
  let* month := Date.d_month (nd_date dt) in
  let! w := write_hundreds w (as_u8 month) in
  let! w := write_char w 45 in
  let* day := Date.d_day (nd_date dt) in
  let! w := write_hundreds w (as_u8 day) in
  let! w := write_char w 84 in
  let '(hour, min, sec) := Time.hms (nd_time dt) in
  let nano := Time.nanosecond (nd_time dt) in
  let* '(sec, nano) :=
    (if nano >=? W3_LEAP_NANO then
       let* s := add_u32 sec 1 in let* n := sub_u32 nano W3_LEAP_NANO in Val (s, n)
     else Val (sec, nano)) in
  let! w := write_hundreds w (as_u8 hour) in
  let! w := write_char w 58 in
  let! w := write_hundreds w (as_u8 min) in
  let! w := write_char w 58 in
  let! w := write_hundreds w (as_u8 sec) in
  let* ws :=
    (if secform =? 0 then Val (Some w)
     else if secform =? 1 then Val (write_frac w W3_MILLIS_WIDTH (Z.quot nano W3_MILLIS_DIV))
     else if secform =? 2 then Val (write_frac w W3_MICROS_WIDTH (Z.quot nano W3_MICROS_DIV))
     else if secform =? 3 then Val (write_frac w W3_NANOS_WIDTH nano)
     else if secform =? 4 then
       if nano =? 0 then Val (Some w)
       else if Z.rem nano W3_AUTO_MILLIS_MOD =? 0 then Val (write_frac w W3_AUTO_MILLIS_WIDTH (Z.quot nano W3_AUTO_MILLIS_DIV))
       else if Z.rem nano W3_AUTO_MICROS_MOD =? 0 then Val (write_frac w W3_AUTO_MICROS_WIDTH (Z.quot nano W3_AUTO_MICROS_DIV))
       else Val (write_frac w W3_NANOS_WIDTH nano)
     else Panic (* SecondsFormat::__NonExhaustive => unreachable!() *)) in
  let! w := ws in
  offset_format_format (mk_of 1 1 use_z 1) w off.

(* DateTime::to_rfc3339 / to_rfc3339_opts: [.expect("writing rfc3339 datetime to string should never fail")] *)
Definition to_rfc3339 (a : dtz) : R bytes :=
  let* naive := overflowing_naive_local a in
  unwrap_r (write_rfc3339 [] naive (dz_off a) 4 false).
(* repaired (fixes/C15-rfc3339-opts-local.diff): reads the wall clock with overflowing_naive_local(), as
   to_rfc3339 does; the original used the panicking naive_local() *)
Definition to_rfc3339_opts (a : dtz) (secform : Z) (use_z : bool) : R bytes :=
  let* naive := overflowing_naive_local a in
  unwrap_r (write_rfc3339 [] naive (dz_off a) secform use_z).
