(** C11 dispatcher: maps case lines to the RFC 2822 reader/writer model (Model/Rfc2822.v on top of
    Model/Scan.v, Model/Parsed.v, Model/DateTime.v).  No proofs here.
      r2.parse <bytes>   DateTime::parse_from_rfc2822
      r2.write Z         DateTime::to_rfc2822
      r2.fmt Z           the same writer reached through the [Fixed::RFC2822] formatting item
                         (DateTime::format_with_items(..).to_string(): DelayedFormat hands the
                         overflowing local date and time and the offset to write_rfc2822; a
                         [fmt::Error] makes [to_string] panic)
      r2.rt Z            parse_from_rfc2822(&to_rfc2822()) *)
From Coq Require Import ZArith List Bool String.
From V Require Import Base.Int Base.IO Base.Utf8 Model.Scan Model.DateTime.
From V Require Export Model.Rfc2822.
Import ListNotations.
Open Scope Z_scope.

Definition val_of_presult {X} (f : X -> val) (r : presult X) : val :=
  match r with POk a => f a | PErr e => VErr (perr_name e) end.

Definition r2_parse (s : bytes) : val :=
  val_of_R (val_of_presult enc_dtz) (parse_from_rfc2822 s).
Definition r2_rt (a : dtz) : val :=
  val_of_R (fun v => v) (let* t := to_rfc2822 a in Val (r2_parse t)).

Definition run (op : bytes) (args : list val) : val :=
  if op_is op "r2.parse" then
    match args with
    | [VStr s] => if utf8_valid s then r2_parse s else VBad
    | _ => VBad end
  else if op_is op "r2.write" || op_is op "r2.fmt" then
    match args with
    | [z] => match dec_dtz z with Some a => val_of_R VStr (to_rfc2822 a) | None => VBad end
    | _ => VBad end
  else if op_is op "r2.rt" then
    match args with
    | [z] => match dec_dtz z with Some a => r2_rt a | None => VBad end
    | _ => VBad end
  else VErr B"NOOP".
