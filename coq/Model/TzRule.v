(** Executable model of src/offset/local/tz_info/rule.rs: the POSIX TZ string reader
    ([TransitionRule::from_tz_string] and its helpers) and the rule evaluation
    ([RuleDay::transition_date], [RuleDay::unix_time], [days_since_unix_epoch],
    [UtcDateTime::from_timespec], both rule lookups).  Line by line, trapping integer arithmetic
    in [R]; constants and month tables come from Gen/TzInfo.v.  No proofs here. *)
From Coq Require Import ZArith List Bool String.
From V Require Import Base.Int Base.IO Gen.TzInfo Model.TzTypes.
Import ListNotations.
Open Scope Z_scope.

(** ** Grammar *)

(* parse_name *)
Definition parse_name (c : cursor) : R (res (bytes * cursor)) :=
  match peek c with
  | Some 60 (* '<' *) =>
      let+ '(_, c) := read_exact c 1 in
      let+ '(unquoted, c) := read_until c (fun x => x =? 62) in
      let+ '(_, c) := read_exact c 1 in
      ok (unquoted, c)
  | _ => read_while c is_ascii_alphabetic
  end.

(* parse_hhmmss: three i32 values *)
Definition parse_hhmmss (c : cursor) : R (res (Z * Z * Z * cursor)) :=
  let+ '(hour, c) := read_int c i32_max in
  let+ '(colon, c) := read_optional_tag c [58] in
  if colon then
    let+ '(minute, c) := read_int c i32_max in
    let+ '(colon2, c) := read_optional_tag c [58] in
    if colon2 then
      let+ '(second, c) := read_int c i32_max in ok (hour, minute, second, c)
    else ok (hour, minute, 0, c)
  else ok (hour, 0, 0, c).

(* parse_signed_hhmmss *)
Definition parse_signed_hhmmss (c : cursor) : R (res (Z * Z * Z * Z * cursor)) :=
  let+ '(sign, c) :=
    match peek c with
    | Some ch =>
        if (ch =? 43) || (ch =? 45) then
          let+ '(_, c') := read_exact c 1 in
          ok (if ch =? 45 then -1 else 1, c')
        else ok (1, c)
    | None => ok (1, c)
    end in
  let+ '(hour, minute, second, c) := parse_hhmmss c in
  ok (sign, hour, minute, second, c).

Definition hms_secs (sign hour minute second : Z) : R Z :=
  let* h := mul_i32 hour 3600 in
  let* m := mul_i32 minute 60 in
  let* hm := add_i32 h m in
  let* s := add_i32 hm second in
  mul_i32 sign s.

(* parse_offset *)
Definition parse_offset (c : cursor) : R (res (Z * cursor)) :=
  let+ '(sign, hour, minute, second, c) := parse_signed_hhmmss c in
  if negb ((0 <=? hour) && (hour <=? TZR_OFFSET_HOUR_MAX)) then fail EInvalidTzString else
  if negb ((0 <=? minute) && (minute <=? TZR_MINSEC_MAX)) then fail EInvalidTzString else
  if negb ((0 <=? second) && (second <=? TZR_MINSEC_MAX)) then fail EInvalidTzString else
  let* v := hms_secs sign hour minute second in ok (v, c).

(* parse_rule_time *)
Definition parse_rule_time (c : cursor) : R (res (Z * cursor)) :=
  let+ '(hour, minute, second, c) := parse_hhmmss c in
  if negb ((0 <=? hour) && (hour <=? TZR_RULE_HOUR_MAX)) then fail EInvalidTzString else
  if negb ((0 <=? minute) && (minute <=? TZR_MINSEC_MAX)) then fail EInvalidTzString else
  if negb ((0 <=? second) && (second <=? TZR_MINSEC_MAX)) then fail EInvalidTzString else
  let* v := hms_secs 1 hour minute second in ok (v, c).

(* parse_rule_time_extended *)
Definition parse_rule_time_extended (c : cursor) : R (res (Z * cursor)) :=
  let+ '(sign, hour, minute, second, c) := parse_signed_hhmmss c in
  if negb ((TZR_RULE_EXT_HOUR_MIN <=? hour) && (hour <=? TZR_RULE_EXT_HOUR_MAX)) then fail EInvalidTzString else
  if negb ((0 <=? minute) && (minute <=? TZR_MINSEC_MAX)) then fail EInvalidTzString else
  if negb ((0 <=? second) && (second <=? TZR_MINSEC_MAX)) then fail EInvalidTzString else
  let* v := hms_secs sign hour minute second in ok (v, c).

(* RuleDay::julian_1 / julian_0 / month_weekday *)
Definition julian_1 (d : Z) : res rule_day :=
  if negb ((TZR_JULIAN1_MIN <=? d) && (d <=? TZR_JULIAN1_MAX)) then Err ETransitionRule
  else Ok (Julian1WithoutLeap d).
Definition julian_0 (d : Z) : res rule_day :=
  if d >? TZR_JULIAN0_MAX then Err ETransitionRule else Ok (Julian0WithLeap d).
Definition month_weekday (m w wd : Z) : res rule_day :=
  if negb ((1 <=? m) && (m <=? 12)) then Err ETransitionRule else
  if negb ((1 <=? w) && (w <=? 5)) then Err ETransitionRule else
  if wd >? 6 then Err ETransitionRule else Ok (MonthWeekday m w wd).

(* RuleDay::parse *)
Definition rule_day_parse (c : cursor) (ext : bool) : R (res (rule_day * Z * cursor)) :=
  let+ '(date, c) :=
    match peek c with
    | Some 77 (* 'M' *) =>
        let+ '(_, c) := read_exact c 1 in
        let+ '(month, c) := read_int c u8_max in
        let+ c := read_tag c [46] in
        let+ '(week, c) := read_int c u8_max in
        let+ c := read_tag c [46] in
        let+ '(week_day, c) := read_int c u8_max in
        let+ d := Val (month_weekday month week week_day) in ok (d, c)
    | Some 74 (* 'J' *) =>
        let+ '(_, c) := read_exact c 1 in
        let+ '(n, c) := read_int c u16_max in
        let+ d := Val (julian_1 n) in ok (d, c)
    | _ =>
        let+ '(n, c) := read_int c u16_max in
        let+ d := Val (julian_0 n) in ok (d, c)
    end in
  let+ '(slash, c) := read_optional_tag c [47] in
  if negb slash then ok (date, TZR_DEFAULT_RULE_TIME, c)
  else if ext then let+ '(t, c) := parse_rule_time_extended c in ok (date, t, c)
  else let+ '(t, c) := parse_rule_time c in ok (date, t, c).

(* AlternateTime::new *)
Definition alt_new (std dst : ltt) (ds : rule_day) (dst_ : Z) (de : rule_day) (det : Z) : res alt_time :=
  if negb ((Z.abs dst_ <? TZ_SECONDS_PER_WEEK) && (Z.abs det <? TZ_SECONDS_PER_WEEK))
  then Err ETransitionRule else Ok (mk_alt std dst ds dst_ de det).

(* TransitionRule::from_tz_string *)
Definition from_tz_string (tz_string : bytes) (ext : bool) : R (res trule) :=
  let c := cur_new tz_string in
  let+ '(std_name, c) := parse_name c in
  let+ '(std_offset, c) := parse_offset c in
  if cur_is_empty c then
    let* off := neg_i32 std_offset in
    let+ l := ltt_new off false (Some std_name) in ok (Fixed l)
  else
  let+ '(dst_name, c) := parse_name c in
  let+ '(dst_offset, c) :=
    match peek c with
    | Some 44 (* ',' *) => let* v := sub_i32 std_offset TZR_DEFAULT_DST_SHIFT in ok (v, c)
    | Some _ => parse_offset c
    | None => fail EUnsupportedTzString
    end in
  if cur_is_empty c then fail EUnsupportedTzString else
  let+ c := read_tag c [44] in
  let+ '(dst_start, dst_start_time, c) := rule_day_parse c ext in
  let+ c := read_tag c [44] in
  let+ '(dst_end, dst_end_time, c) := rule_day_parse c ext in
  if negb (cur_is_empty c) then fail EInvalidTzString else
  let* so := neg_i32 std_offset in
  let+ std := ltt_new so false (Some std_name) in
  let* dofs := neg_i32 dst_offset in
  let+ dst := ltt_new dofs true (Some dst_name) in
  let+ a := Val (alt_new std dst dst_start dst_start_time dst_end dst_end_time) in
  ok (Alternate a).

(** ** Evaluation *)

(* is_leap_year(year: i32): Rust % truncates *)
Definition is_leap_year (year : Z) : bool :=
  (Z.rem year 400 =? 0) || ((Z.rem year 4 =? 0) && negb (Z.rem year 100 =? 0)).
Definition b2z (b : bool) : Z := if b then 1 else 0.

(* days_since_unix_epoch(year: i32, month: usize, month_day: i64) -> i64 *)
Definition days_since_unix_epoch (year month month_day : Z) : R Z :=
  let leap := is_leap_year year in
  let* y70 := sub_i64 year 1970 in
  let* result := mul_i64 y70 365 in
  let* result :=
    if year >=? 1970 then
      let* a := sub_i64 year 1968 in let* a := div_i64 a 4 in let* result := add_i64 result a in
      let* b := sub_i64 year 1900 in let* b := div_i64 b 100 in let* result := sub_i64 result b in
      let* c := sub_i64 year 1600 in let* c := div_i64 c 400 in let* result := add_i64 result c in
      if leap && (month <? 3) then sub_i64 result 1 else Val result
    else
      let* a := sub_i64 year 1972 in let* a := div_i64 a 4 in let* result := add_i64 result a in
      let* b := sub_i64 year 2000 in let* b := div_i64 b 100 in let* result := sub_i64 result b in
      let* c := sub_i64 year 2000 in let* c := div_i64 c 400 in let* result := add_i64 result c in
      if leap && (month >=? 3) then add_i64 result 1 else Val result in
  let* mi := sub_usize month 1 in
  let* cum := index TZ_CUMUL_DAY_IN_MONTHS_NORMAL_YEAR mi in
  let* t := add_i64 cum month_day in
  let* t := sub_i64 t 1 in
  add_i64 result t.

(* slice::binary_search on a strictly increasing slice: Ok(i) when s[i] == key, otherwise
   Err(number of elements below key).  (found, index) *)
Fixpoint count_below (s : list Z) (key : Z) : Z :=
  match s with
  | x :: r => if x <? key then 1 + count_below r key else 0
  | [] => 0
  end.
Definition binary_search (s : list Z) (key : Z) : bool * Z :=
  let i := count_below s key in
  match nth_z_aux s (Z.to_nat i) with
  | Some x => (x =? key, i)
  | None => (false, i)
  end.
(* match s.binary_search(&k) { Ok(x) => x + 1, Err(x) => x } *)
Definition search_next (s : list Z) (key : Z) : R Z :=
  let '(found, i) := binary_search s key in if found then add_usize i 1 else Val i.

Fixpoint add_lists (a b : list Z) (k : Z) : list Z :=
  match a, b with
  | x :: a', y :: b' => (x + y * k) :: add_lists a' b' k
  | _, _ => []
  end.

(* RuleDay::transition_date(year) -> (month: usize, month_day: i64) *)
Definition transition_date (d : rule_day) (year : Z) : R (Z * Z) :=
  match d with
  | Julian1WithoutLeap year_day =>
      let* k := sub_i64 year_day 1 in
      let* month := search_next TZ_CUMUL_DAY_IN_MONTHS_NORMAL_YEAR k in
      let* mi := sub_usize month 1 in
      let* cum := index TZ_CUMUL_DAY_IN_MONTHS_NORMAL_YEAR mi in
      let* month_day := sub_i64 year_day cum in
      Val (month, month_day)
  | Julian0WithLeap year_day =>
      let leap := b2z (is_leap_year year) in
      let cumul := add_lists TZR_CUMUL_J0_BASE TZR_CUMUL_J0_LEAP leap in
      let* month := search_next cumul year_day in
      let* mi := sub_usize month 1 in
      let* cum := index cumul mi in
      let* t := add_i64 1 year_day in
      let* month_day := sub_i64 t cum in
      Val (month, month_day)
  | MonthWeekday rule_month week week_day =>
      let leap := b2z (is_leap_year year) in
      let month := rule_month in
      let* mi := sub_usize month 1 in
      let* dim := index TZ_DAY_IN_MONTHS_NORMAL_YEAR mi in
      let* day_in_month := if month =? 2 then add_i64 dim leap else Val dim in
      let* d1 := days_since_unix_epoch year month 1 in
      let* d4 := add_i64 4 d1 in
      let* week_day_of_first_month_day := rem_euclid in_i64 d4 TZ_DAYS_PER_WEEK in
      let* dd := sub_i64 week_day week_day_of_first_month_day in
      let* r := rem_euclid in_i64 dd TZ_DAYS_PER_WEEK in
      let* first_week_day_occurrence_in_month := add_i64 1 r in
      let* w1 := sub_i64 week 1 in
      let* wk := mul_i64 w1 TZ_DAYS_PER_WEEK in
      let* month_day := add_i64 first_week_day_occurrence_in_month wk in
      let* month_day := if month_day >? day_in_month then sub_i64 month_day TZ_DAYS_PER_WEEK else Val month_day in
      Val (month, month_day)
  end.

(* RuleDay::unix_time(year, day_time_in_utc) *)
Definition rule_unix_time (d : rule_day) (year day_time_in_utc : Z) : R Z :=
  let* '(month, month_day) := transition_date d year in
  let* days := days_since_unix_epoch year month month_day in
  let* s := mul_i64 days TZ_SECONDS_PER_DAY in
  add_i64 s day_time_in_utc.

(* the month loop of from_timespec over DAY_IN_MONTHS_LEAP_YEAR_FROM_MARCH *)
Fixpoint month_loop (tbl : list Z) (month remaining_days : Z) : R (Z * Z) :=
  match tbl with
  | [] => Val (month, remaining_days)
  | days :: r =>
      if remaining_days <? days then Val (month, remaining_days)
      else let* rd := sub_i64 remaining_days days in
           let* m := add_usize month 1 in
           month_loop r m rd
  end.

(* UtcDateTime::from_timespec(unix_time) -> (year, month, month_day, hour, minute, second) *)
Definition from_timespec (unix_time : Z) : R (res (Z * Z * Z * Z * Z * Z)) :=
  match checked_sub in_i64 unix_time TZR_UNIX_OFFSET_SECS with
  | None => fail EOutOfRange
  | Some seconds =>
    let* remaining_days := div_i64 seconds TZ_SECONDS_PER_DAY in
    let* remaining_seconds := rem_i64 seconds TZ_SECONDS_PER_DAY in
    let* '(remaining_seconds, remaining_days) :=
      if remaining_seconds <? 0 then
        let* rs := add_i64 remaining_seconds TZ_SECONDS_PER_DAY in
        let* rd := sub_i64 remaining_days 1 in Val (rs, rd)
      else Val (remaining_seconds, remaining_days) in
    let* cycles_400_years := div_i64 remaining_days TZR_DAYS_PER_400_YEARS in
    let* remaining_days := rem_i64 remaining_days TZR_DAYS_PER_400_YEARS in
    let* '(remaining_days, cycles_400_years) :=
      if remaining_days <? 0 then
        let* rd := add_i64 remaining_days TZR_DAYS_PER_400_YEARS in
        let* cy := sub_i64 cycles_400_years 1 in Val (rd, cy)
      else Val (remaining_days, cycles_400_years) in
    let* q := div_i64 remaining_days TZR_DAYS_PER_100_YEARS in
    let cycles_100_years := Z.min q 3 in
    let* p := mul_i64 cycles_100_years TZR_DAYS_PER_100_YEARS in
    let* remaining_days := sub_i64 remaining_days p in
    let* q := div_i64 remaining_days TZR_DAYS_PER_4_YEARS in
    let cycles_4_years := Z.min q 24 in
    let* p := mul_i64 cycles_4_years TZR_DAYS_PER_4_YEARS in
    let* remaining_days := sub_i64 remaining_days p in
    let* q := div_i64 remaining_days TZR_DAYS_PER_NORMAL_YEAR in
    let remaining_years := Z.min q 3 in
    let* p := mul_i64 remaining_years TZR_DAYS_PER_NORMAL_YEAR in
    let* remaining_days := sub_i64 remaining_days p in
    let* y := add_i64 TZR_OFFSET_YEAR remaining_years in
    let* p := mul_i64 cycles_4_years 4 in let* y := add_i64 y p in
    let* p := mul_i64 cycles_100_years 100 in let* y := add_i64 y p in
    let* p := mul_i64 cycles_400_years 400 in let* year := add_i64 y p in
    let* '(month, remaining_days) := month_loop TZR_DAY_IN_MONTHS_LEAP_YEAR_FROM_MARCH 0 remaining_days in
    let* month := add_usize month 2 in
    let* '(month, year) :=
      if month >=? as_usize TZR_MONTHS_PER_YEAR then
        let* m := sub_usize month (as_usize TZR_MONTHS_PER_YEAR) in
        let* y := add_i64 year 1 in Val (m, y)
      else Val (month, year) in
    let* month := add_usize month 1 in
    let* month_day := add_i64 1 remaining_days in
    let* hour := div_i64 remaining_seconds TZR_SECONDS_PER_HOUR in
    let* mq := div_i64 remaining_seconds TZR_SECONDS_PER_MINUTE in
    let* minute := rem_i64 mq TZR_MINUTES_PER_HOUR in
    let* second := rem_i64 remaining_seconds TZR_SECONDS_PER_MINUTE in
    if (year >=? i32_min) && (year <=? i32_max) then
      ok (as_i32 year, as_u8 month, as_u8 month_day, as_u8 hour, as_u8 minute, as_u8 second)
    else fail EOutOfRange
  end.

(* AlternateTime::find_local_time_type(unix_time) *)
Definition alt_find_local_time_type (a : alt_time) (unix_time : Z) : R (res ltt) :=
  let* dst_start_time_in_utc := sub_i64 (dst_start_time a) (ut_offset (a_std a)) in
  let* dst_end_time_in_utc := sub_i64 (dst_end_time a) (ut_offset (a_dst a)) in
  let+ '(current_year, _, _, _, _, _) := from_timespec unix_time in
  if negb ((i32_min + 2 <=? current_year) && (current_year <=? i32_max - 2)) then fail EOutOfRange else
  let* cur_start := rule_unix_time (dst_start a) current_year dst_start_time_in_utc in
  let* cur_end := rule_unix_time (dst_end a) current_year dst_end_time_in_utc in
  let* is_dst_now :=
    if cur_start <=? cur_end then
      if unix_time <? cur_start then
        let* py := sub_i32 current_year 1 in
        let* prev_end := rule_unix_time (dst_end a) py dst_end_time_in_utc in
        if unix_time <? prev_end then
          let* py := sub_i32 current_year 1 in
          let* prev_start := rule_unix_time (dst_start a) py dst_start_time_in_utc in
          Val (prev_start <=? unix_time)
        else Val false
      else if unix_time <? cur_end then Val true
      else
        let* ny := add_i32 current_year 1 in
        let* next_start := rule_unix_time (dst_start a) ny dst_start_time_in_utc in
        if next_start <=? unix_time then
          let* ny := add_i32 current_year 1 in
          let* next_end := rule_unix_time (dst_end a) ny dst_end_time_in_utc in
          Val (unix_time <? next_end)
        else Val false
    else
      if unix_time <? cur_end then
        let* py := sub_i32 current_year 1 in
        let* prev_start := rule_unix_time (dst_start a) py dst_start_time_in_utc in
        if unix_time <? prev_start then
          let* py := sub_i32 current_year 1 in
          let* prev_end := rule_unix_time (dst_end a) py dst_end_time_in_utc in
          Val (unix_time <? prev_end)
        else Val true
      else if unix_time <? cur_start then Val false
      else
        let* ny := add_i32 current_year 1 in
        let* next_end := rule_unix_time (dst_end a) ny dst_end_time_in_utc in
        if next_end <=? unix_time then
          let* ny := add_i32 current_year 1 in
          let* next_start := rule_unix_time (dst_start a) ny dst_start_time_in_utc in
          Val (next_start <=? unix_time)
        else Val true in
  if is_dst_now then ok (a_dst a) else ok (a_std a).

(* AlternateTime::find_local_time_type_from_local: the wall-clock reading arrives as
   (local_time.year(), local_time.and_utc().timestamp()).  Ambiguous pairs in the
   (earliest, latest) order of fixes/C05-ambiguous-order.diff (larger offset first); the
   hemisphere test compares the two transitions' local times as repaired by
   fixes/C05-rule-same-month.diff (the unrepaired code compared their months only). *)
Definition alt_find_local_time_type_from_local (a : alt_time) (current_year local_time : Z)
  : R (res (mlt ltt)) :=
  let std := a_std a in let dst := a_dst a in
  let* s0 := rule_unix_time (dst_start a) current_year 0 in
  let* dst_start_transition_start := add_i64 s0 (dst_start_time a) in
  let* s0' := rule_unix_time (dst_start a) current_year 0 in
  let* t := add_i64 s0' (dst_start_time a) in
  let* t := add_i64 t (ut_offset dst) in
  let* dst_start_transition_end := sub_i64 t (ut_offset std) in
  let* e0 := rule_unix_time (dst_end a) current_year 0 in
  let* dst_end_transition_start := add_i64 e0 (dst_end_time a) in
  let* e0' := rule_unix_time (dst_end a) current_year 0 in
  let* t := add_i64 e0' (dst_end_time a) in
  let* t := add_i64 t (ut_offset std) in
  let* dst_end_transition_end := sub_i64 t (ut_offset dst) in
  match ut_offset std ?= ut_offset dst with
  | Eq => ok (MSingle std)
  | Lt =>
      if dst_start_transition_start <? dst_end_transition_start then
        if local_time <=? dst_start_transition_start then ok (MSingle std)
        else if (local_time >? dst_start_transition_start) && (local_time <? dst_start_transition_end) then ok MNone
        else if (local_time >=? dst_start_transition_end) && (local_time <? dst_end_transition_end) then ok (MSingle dst)
        else if (local_time >=? dst_end_transition_end) && (local_time <=? dst_end_transition_start) then ok (MAmbiguous dst std)
        else ok (MSingle std)
      else
        if local_time <? dst_end_transition_end then ok (MSingle dst)
        else if (local_time >=? dst_end_transition_end) && (local_time <=? dst_end_transition_start) then ok (MAmbiguous dst std)
        else if (local_time >? dst_end_transition_end) && (local_time <? dst_start_transition_start) then ok (MSingle std)
        else if (local_time >=? dst_start_transition_start) && (local_time <? dst_start_transition_end) then ok MNone
        else ok (MSingle dst)
  | Gt =>
      if dst_start_transition_start <? dst_end_transition_start then
        if local_time <? dst_start_transition_end then ok (MSingle std)
        else if (local_time >=? dst_start_transition_end) && (local_time <=? dst_start_transition_start) then ok (MAmbiguous std dst)
        else if (local_time >? dst_start_transition_start) && (local_time <? dst_end_transition_start) then ok (MSingle dst)
        else if (local_time >=? dst_end_transition_start) && (local_time <? dst_end_transition_end) then ok MNone
        else ok (MSingle std)
      else
        if local_time <=? dst_end_transition_start then ok (MSingle dst)
        else if (local_time >? dst_end_transition_start) && (local_time <? dst_end_transition_end) then ok MNone
        else if (local_time >=? dst_end_transition_end) && (local_time <? dst_start_transition_end) then ok (MSingle std)
        else if (local_time >=? dst_start_transition_end) && (local_time <=? dst_start_transition_start) then ok (MAmbiguous std dst)
        else ok (MSingle dst)
  end.

(* TransitionRule::find_local_time_type / find_local_time_type_from_local *)
Definition rule_find_local_time_type (r : trule) (unix_time : Z) : R (res ltt) :=
  match r with
  | Fixed l => ok l
  | Alternate a => alt_find_local_time_type a unix_time
  end.
Definition rule_find_local_time_type_from_local (r : trule) (current_year local_time : Z) : R (res (mlt ltt)) :=
  match r with
  | Fixed l => ok (MSingle l)
  | Alternate a => alt_find_local_time_type_from_local a current_year local_time
  end.
