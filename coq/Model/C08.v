(** C08 dispatcher.  The month stepping and field replacement functions are in Model/Date.v, the
    week helpers, n-th weekday, month length, quarter and common-era year in Model/DateExtra.v, the
    NaiveDateTime forms in Model/DateTime.v; this file adds [DateTime::years_since]
    (src/datetime/mod.rs) and maps case lines to model calls.  No proofs here. *)
From Coq Require Import ZArith List Bool String.
From V Require Import Base.Int Base.IO Model.TimeDelta.
From V Require Export Model.Date Model.DateExtra.
From V Require Model.Time Model.DateTime.
Import ListNotations.
Open Scope Z_scope.


(** derived [PartialOrd] of NaiveTime: lexicographic on (secs, frac) *)
Definition time_lt (a b : Time.ntime) : bool :=
  (Time.tsecs a <? Time.tsecs b) || ((Time.tsecs a =? Time.tsecs b) && (Time.tfrac a <? Time.tfrac b)).

(** [DateTime::time()]: [self.datetime.time() + self.offset.fix()] *)
Definition dz_time (a : DateTime.dtz) : R Time.ntime := Time.op_add_offset (DateTime.nd_time (DateTime.dz_utc a)) (DateTime.dz_off a).

(** pub fn years_since(&self, base: Self) -> Option<u32>  (DateTime<Tz>, fixed offsets) *)
Definition dz_years_since (a base : DateTime.dtz) : R (option Z) :=
  let* la := DateTime.overflowing_naive_local a in
  let* lb := DateTime.overflowing_naive_local base in
  let* years := sub_i32 (d_year (DateTime.nd_date la)) (d_year (DateTime.nd_date lb)) in
  let* m1 := d_month (DateTime.nd_date la) in let* dd1 := d_day (DateTime.nd_date la) in let* t1 := dz_time a in
  let* m2 := d_month (DateTime.nd_date lb) in let* dd2 := d_day (DateTime.nd_date lb) in let* t2 := dz_time base in
  let earlier_time :=
    (m1 <? m2) || ((m1 =? m2) && ((dd1 <? dd2) || ((dd1 =? dd2) && time_lt t1 t2))) in
  let* years := sub_i32 years (if earlier_time then 1 else 0) in
  Val (if 0 <=? years then Some (as_u32 years) else None).

(** impl Add<Months> / Sub<Months> for NaiveDateTime: [checked_{add,sub}_months(rhs).expect(..)] *)
Definition ndt_op_add_months (a : DateTime.ndt) (m : Z) : R DateTime.ndt := unwrap_r (DateTime.ndt_checked_add_months a m).
Definition ndt_op_sub_months (a : DateTime.ndt) (m : Z) : R DateTime.ndt := unwrap_r (DateTime.ndt_checked_sub_months a m).
(** impl Datelike for NaiveDateTime delegates every accessor to [self.date]; the provided methods
    (quarter, year_ce, num_days_in_month: src/traits.rs) read those accessors *)
Definition ndt_prov (a : DateTime.ndt) : R val :=
  let d := DateTime.nd_date a in
  let* q := d_quarter d in
  let* yce := d_year_ce d in
  let* dim := d_num_days_in_month d in
  let* m := d_month d in let* m0 := sub_u32 m 1 in
  let* dd := d_day d in let* d0 := sub_u32 dd 1 in
  let* o0 := sub_u32 (d_ordinal d) 1 in
  let* wd := d_weekday d in
  Val (VTup [VInt q; val_of_bool (fst yce); VInt (snd yce); VInt dim; VInt (d_year d); VInt m; VInt m0;
             VInt dd; VInt d0; VInt (d_ordinal d); VInt o0; VInt wd]).
(** impl PartialEq for NaiveWeek: [self.first_day() == other.first_day()] ([ne] is the provided [!eq]);
    impl Hash: [self.first_day().hash(state)] — the observable is equality of the hashed keys *)
Definition week_eq_obs (w1 w2 : nweek) : R val :=
  let* a := week_first_day w1 in let* b := week_first_day w2 in
  let* a' := week_first_day w1 in let* b' := week_first_day w2 in
  let* ha := week_first_day w1 in let* hb := week_first_day w2 in
  Val (VTup [val_of_bool (a =? b); val_of_bool (negb (a' =? b')); val_of_bool (ha =? hb)]).

(** argument decoders *)
Definition arg_u8 (v : val) : option Z := match v with VInt z => if in_u8 z then Some z else None | _ => None end.
Definition arg_wd (v : val) : option Z :=
  match v with VInt z => if (0 <=? z) && (z <=? 6) then Some z else None | _ => None end.
Definition arg_month (v : val) : option Z :=
  match v with VInt z => if (1 <=? z) && (z <=? 12) then Some z else None | _ => None end.
Definition vo_date (o : option Z) : val := val_of_option DateTime.enc_date o.
Definition vo_ndt (o : option DateTime.ndt) : val := val_of_option DateTime.enc_ndt o.
Definition vo_int (o : option Z) : val := val_of_option VInt o.

(** field selector of [d8.with]: 0 year 1 month 2 month0 3 day 4 day0 5 ordinal 6 ordinal0 *)
Definition field_of (s : bytes) : option Z :=
  if op_is s "year" then Some 0 else if op_is s "month" then Some 1 else if op_is s "month0" then Some 2
  else if op_is s "day" then Some 3 else if op_is s "day0" then Some 4
  else if op_is s "ordinal" then Some 5 else if op_is s "ordinal0" then Some 6 else None.
Definition arg_field (f : Z) (v : val) : option Z := if f =? 0 then arg_i32 v else arg_u32 v.
Definition d_with (f d x : Z) : R (option Z) :=
  if f =? 0 then with_year d x else if f =? 1 then with_month d x else if f =? 2 then with_month0 d x
  else if f =? 3 then with_day d x else if f =? 4 then with_day0 d x
  else if f =? 5 then with_ordinal d x else with_ordinal0 d x.

Definition run (op : bytes) (args : list val) : val :=
  let d_u32 (f : Z -> Z -> val) := match args with
     | [a; b] => match DateTime.dec_date a, arg_u32 b with Some d, Some n => f d n | _, _ => VBad end | _ => VBad end in
  let ndt_u32 (f : DateTime.ndt -> Z -> val) := match args with
     | [a; b] => match DateTime.dec_ndt a, arg_u32 b with Some d, Some n => f d n | _, _ => VBad end | _ => VBad end in
  let d_wd (f : Z -> Z -> val) := match args with
     | [a; b] => match DateTime.dec_date a, arg_wd b with Some d, Some w => f d w | _, _ => VBad end | _ => VBad end in
  let d_1 (f : Z -> val) := match args with
     | [a] => match DateTime.dec_date a with Some d => f d | None => VBad end | _ => VBad end in
  let pair (p : Z * Z) := VTup [DateTime.enc_date (fst p); DateTime.enc_date (snd p)] in
  if op_is op "d8.addm" then d_u32 (fun d n => val_of_R vo_date (checked_add_months d n))
  else if op_is op "d8.subm" then d_u32 (fun d n => val_of_R vo_date (checked_sub_months d n))
  else if op_is op "d8.opaddm" then d_u32 (fun d n => val_of_R DateTime.enc_date (d_op_add_months d n))
  else if op_is op "d8.opsubm" then d_u32 (fun d n => val_of_R DateTime.enc_date (d_op_sub_months d n))
  else if op_is op "d8.with" then
    match args with
    | [VStr s; a; b] =>
        match field_of s with
        | Some f => match DateTime.dec_date a, arg_field f b with
                    | Some d, Some x => val_of_R vo_date (d_with f d x) | _, _ => VBad end
        | None => VBad end
    | _ => VBad end
  else if op_is op "d8.wfirst" then d_wd (fun d w => val_of_R vo_date (week_checked_first_day (d_week d w)))
  else if op_is op "d8.wlast" then d_wd (fun d w => val_of_R vo_date (week_checked_last_day (d_week d w)))
  else if op_is op "d8.week" then d_wd (fun d w => val_of_R (val_of_option pair) (week_checked_days (d_week d w)))
  else if op_is op "d8.wfirstp" then d_wd (fun d w => val_of_R DateTime.enc_date (week_first_day (d_week d w)))
  else if op_is op "d8.wlastp" then d_wd (fun d w => val_of_R DateTime.enc_date (week_last_day (d_week d w)))
  else if op_is op "d8.wdaysp" then d_wd (fun d w => val_of_R pair (week_days (d_week d w)))
  else if op_is op "d8.nthwd" then
    match args with
    | [a; b; c; e] => match arg_i32 a, arg_u32 b, arg_wd c, arg_u8 e with
        | Some y, Some m, Some w, Some n => val_of_R vo_date (from_weekday_of_month_opt y m w n)
        | _, _, _, _ => VBad end
    | _ => VBad end
  else if op_is op "d8.years" then
    match args with
    | [a; b] => match DateTime.dec_date a, DateTime.dec_date b with
        | Some d, Some base => val_of_R vo_int (years_since d base) | _, _ => VBad end
    | _ => VBad end
  else if op_is op "d8.dtyears" then
    match args with
    | [a; b] => match DateTime.dec_dtz a, DateTime.dec_dtz b with
        | Some d, Some base => val_of_R vo_int (dz_years_since d base) | _, _ => VBad end
    | _ => VBad end
  else if op_is op "d8.quarter" then d_1 (fun d => val_of_R VInt (d_quarter d))
  else if op_is op "d8.yce" then d_1 (fun d => val_of_R (fun p => VTup [val_of_bool (fst p); VInt (snd p)]) (d_year_ce d))
  else if op_is op "d8.dim" then d_1 (fun d => val_of_R VInt (d_num_days_in_month d))
  else if op_is op "d8.mdays" then
    match args with
    | [a; b] => match arg_month a, arg_i32 b with
        | Some m, Some y => val_of_R vo_int (month_num_days m y) | _, _ => VBad end
    | _ => VBad end
  else if op_is op "d8.ndt.addm" then ndt_u32 (fun d n => val_of_R vo_ndt (DateTime.ndt_checked_add_months d n))
  else if op_is op "d8.ndt.subm" then ndt_u32 (fun d n => val_of_R vo_ndt (DateTime.ndt_checked_sub_months d n))
  else if op_is op "d8.ndt.with" then
    match args with
    | [VStr s; a; b] =>
        match field_of s with
        | Some f => match DateTime.dec_ndt a, arg_field f b with
                    | Some d, Some x => val_of_R vo_ndt (DateTime.ndt_with f d x) | _, _ => VBad end
        | None => VBad end
    | _ => VBad end
  else if op_is op "d8.ndt.opaddm" then ndt_u32 (fun d n => val_of_R DateTime.enc_ndt (ndt_op_add_months d n))
  else if op_is op "d8.ndt.opsubm" then ndt_u32 (fun d n => val_of_R DateTime.enc_ndt (ndt_op_sub_months d n))
  else if op_is op "d8.ndt.prov" then
    match args with
    | [a] => match DateTime.dec_ndt a with Some x => val_of_R (fun v => v) (ndt_prov x) | None => VBad end
    | _ => VBad end
  else if op_is op "d8.months_u32" then
    match args with [a] => match arg_u32 a with Some n => VInt n | None => VBad end | _ => VBad end
  else if op_is op "d8.weq" then
    match args with
    | [a; b; c; e] => match DateTime.dec_date a, arg_wd b, DateTime.dec_date c, arg_wd e with
        | Some d1, Some w1, Some d2, Some w2 => val_of_R (fun v => v) (week_eq_obs (d_week d1 w1) (d_week d2 w2))
        | _, _, _, _ => VBad end
    | _ => VBad end
  (* NaiveDate::from_weekday_of_month (deprecated): expect(..) of the _opt form *)
  else if op_is op "d8.pnthwd" then
    match args with
    | [a; b; c; e] => match arg_i32 a, arg_u32 b, arg_wd c, arg_u8 e with
        | Some y, Some m, Some w, Some n => val_of_R DateTime.enc_date (unwrap_r (from_weekday_of_month_opt y m w n))
        | _, _, _, _ => VBad end
    | _ => VBad end
  else VErr B"NOOP".
