(** Executable model of src/format/scan.rs, function by function: number, nanosecond,
    nanosecond_fixed, short_month0, short_weekday, short_or_long_month0, short_or_long_weekday,
    char, space, colon_or_space, timezone_offset (generic in the colon-consuming closure, with the
    allow_zulu / allow_missing_minutes / allow_tz_minus_sign flags), timezone_offset_2822 and
    comment_2822 (state machine).  A [&str] is the list of its bytes (Base/Utf8.v); [&s[i..]]
    traps ([Panic]) unless [i] is a char boundary, exactly as Rust's slicing does.  A
    [ParseResult<T>] that may also trap is [PR T = R (presult T)].  Tables and literals come from
    Gen/ScanTables.v (regenerated from the Rust source on every run).
    Shared by C09, C10, C11, C13, C14, C15.  No proofs in this file. *)
From Coq Require Import ZArith List Bool String.
From V Require Import Base.Int Base.IO Base.Utf8 Gen.ScanTables.
Import ListNotations.
Open Scope Z_scope.

(** ** ParseErrorKind / ParseResult *)
Inductive perr := OutOfRange | Impossible | NotEnough | Invalid | TooShort | TooLong | BadFormat.
Definition perr_name (e : perr) : bytes :=
  match e with
  | OutOfRange => B"OutOfRange" | Impossible => B"Impossible" | NotEnough => B"NotEnough"
  | Invalid => B"Invalid" | TooShort => B"TooShort" | TooLong => B"TooLong" | BadFormat => B"BadFormat"
  end.
Inductive presult (A : Type) : Type := POk (a : A) | PErr (e : perr).
Arguments POk {A} a.
Arguments PErr {A} e.
Definition PR (A : Type) : Type := R (presult A).
Definition pok {A} (a : A) : PR A := Val (POk a).
Definition perr_ {A} (e : perr) : PR A := Val (PErr e).
(* the [?] operator inside a function that may also trap *)
Definition pbind {X Y} (x : PR X) (f : X -> PR Y) : PR Y :=
  bind x (fun r => match r with POk a => f a | PErr e => Val (PErr e) end).
Notation "'let+' x ':=' e 'in' k" := (pbind e (fun x => k))
  (at level 200, x name, e at level 100, k at level 200).
Notation "'let+' ' p ':=' e 'in' k" := (pbind e (fun p => k))
  (at level 200, p pattern, e at level 100, k at level 200).
(* a trapping computation used where a ParseResult is expected *)
Definition plift {A} (x : R A) : PR A := bind x (fun a => Val (POk a)).

Definition mul_u8 a b := chk in_u8 (a * b).

(** ** number(s, min, max) *)
(* the tail [Ok((&s[core::cmp::min(max, bytes.len())..], n))] *)
Definition number_end (s : bytes) (max n : Z) : PR (bytes * Z) :=
  let* rest := str_from s (Z.min max (blen s)) in pok (rest, n).
(* the [for (i, c) in bytes.iter().take(max).cloned().enumerate()] loop: [l] is what is left of
   the iterator, [i] the index *)
Fixpoint number_loop (s l : bytes) (i min max n : Z) {struct l} : PR (bytes * Z) :=
  match l with
  | [] => number_end s max n
  | c :: r =>
    if max <=? i then number_end s max n else
    if negb (is_ascii_digit c) then
      if i <? min then perr_ Invalid
      else let* rest := str_from s i in pok (rest, n)
    else
      match checked_mul in_i64 n 10 with
      | None => perr_ OutOfRange
      | Some n10 =>
        let* d := sub_u8 c 48 in
        match checked_add in_i64 n10 d with
        | None => perr_ OutOfRange
        | Some n' => number_loop s r (i + 1) min max n'
        end
      end
  end.
Definition number (s : bytes) (min max : Z) : PR (bytes * Z) :=
  let* _ := rassert (min <=? max) in
  if blen s <? min then perr_ TooShort
  else number_loop s s 0 min max 0.

(** ** nanosecond / nanosecond_fixed *)
Definition nanosecond (s : bytes) : PR (bytes * Z) :=
  let origlen := blen s in
  let+ '(s1, v) := number s NANOSECOND_MIN_DIGITS NANOSECOND_MAX_DIGITS in
  let* consumed := sub_usize origlen (blen s1) in
  let* scale := index SCALE consumed in
  match checked_mul in_i64 v scale with
  | None => perr_ OutOfRange
  | Some v' =>
    let s2 := trim_start_matches is_ascii_digit s1 in
    pok (s2, v')
  end.
Definition nanosecond_fixed (s : bytes) (digits : Z) : PR (bytes * Z) :=
  let+ '(s1, v) := number s digits digits in
  let* scale := index SCALE_FIXED digits in
  match checked_mul in_i64 v scale with
  | None => perr_ OutOfRange
  | Some v' => pok (s1, v')
  end.

(** ** short_month0 / short_weekday and the long forms *)
Fixpoint assoc_bytes (k : bytes) (t : list (bytes * Z)) : option Z :=
  match t with
  | [] => None
  | (k', v) :: r => if bytes_eqb k k' then Some v else assoc_bytes k r
  end.
(* (buf[0] | bit, buf[1] | bit, buf[2] | bit) *)
Definition key3 (buf : bytes) (bit : Z) : R bytes :=
  let* a := index buf 0 in let* b := index buf 1 in let* c := index buf 2 in
  Val [Z.lor a bit; Z.lor b bit; Z.lor c bit].
Definition short_month0 (s : bytes) : PR (bytes * Z) :=
  if blen s <? SHORT_MONTH_LEN then perr_ TooShort else
  let* key := key3 s SHORT_MONTH_BIT in
  match assoc_bytes key SHORT_MONTH_ARMS with
  | None => perr_ Invalid
  | Some month0 => let* rest := str_from s SHORT_MONTH_REST in pok (rest, month0)
  end.
(* the weekday is its discriminant, Mon = 0 .. Sun = 6 *)
Definition short_weekday (s : bytes) : PR (bytes * Z) :=
  if blen s <? SHORT_WEEKDAY_LEN then perr_ TooShort else
  let* key := key3 s SHORT_WEEKDAY_BIT in
  match assoc_bytes key SHORT_WEEKDAY_ARMS with
  | None => perr_ Invalid
  | Some wd => let* rest := str_from s SHORT_WEEKDAY_REST in pok (rest, wd)
  end.
(* "tries to consume the suffix if possible" *)
Definition consume_suffix (s suffix : bytes) : R bytes :=
  if blen s >=? blen suffix then
    let* pre := slice_to s (blen suffix) in
    if eq_ignore_ascii_case pre suffix then str_from s (blen suffix) else Val s
  else Val s.
Definition short_or_long_month0 (s : bytes) : PR (bytes * Z) :=
  let+ '(s1, month0) := short_month0 s in
  let* suffix := index LONG_MONTH_SUFFIXES (as_usize month0) in
  let* s2 := consume_suffix s1 suffix in
  pok (s2, month0).
(* weekday.num_days_from_monday() of a discriminant is the discriminant itself
   (days_since(Mon): lhs < rhs is impossible for rhs = 0) *)
Definition short_or_long_weekday (s : bytes) : PR (bytes * Z) :=
  let+ '(s1, wd) := short_weekday s in
  let* suffix := index LONG_WEEKDAY_SUFFIXES (as_usize wd) in
  let* s2 := consume_suffix s1 suffix in
  pok (s2, wd).

(** ** char / space / colon_or_space *)
Definition char (s : bytes) (c1 : Z) : PR bytes :=
  match s with
  | c :: _ => if c =? c1 then let* r := str_from s 1 in pok r else perr_ Invalid
  | [] => perr_ TooShort
  end.
Definition space (s : bytes) : PR bytes :=
  let s_ := trim_start s in
  if blen s_ <? blen s then pok s_
  else if is_empty s then perr_ TooShort
  else perr_ Invalid.
Definition colon_or_space (s : bytes) : PR bytes :=
  pok (trim_start_matches (fun c => (c =? 58) || is_whitespace c) s).

(** ** timezone_offset *)
(* const fn digits(s: &str) -> ParseResult<(u8, u8)> *)
Definition tz_digits (s : bytes) : presult (Z * Z) :=
  match s with a :: b :: _ => POk (a, b) | _ => PErr TooShort end.
(* (d1 - b'0') * 10 + (d2 - b'0') in u8, then i32::from *)
Definition two_digit_value (d1 d2 : Z) : R Z :=
  let* a := sub_u8 d1 48 in let* a10 := mul_u8 a 10 in
  let* b := sub_u8 d2 48 in add_u8 a10 b.

Definition timezone_offset (s : bytes) (consume_colon : bytes -> PR bytes)
    (allow_zulu allow_missing_minutes allow_tz_minus_sign : bool) : PR (bytes * Z) :=
  let zulu := allow_zulu && match s with c :: _ => (c =? 90) || (c =? 122) | [] => false end in
  if zulu then let* r := str_from s 1 in pok (r, 0) else
  let+ '(negative, s) :=
    match next_code_point s with
    | Some (c, _) =>
        if c =? 43 then let* r := str_from s (len_utf8 43) in pok (false, r)
        else if c =? 45 then let* r := str_from s (len_utf8 45) in pok (true, r)
        else if c =? TZ_MINUS_SIGN then
          if negb allow_tz_minus_sign then perr_ Invalid
          else let* r := str_from s (len_utf8 TZ_MINUS_SIGN) in pok (true, r)
        else perr_ Invalid
    | None => perr_ TooShort
    end in
  (* hours (00--99) *)
  let+ hours :=
    match tz_digits s with
    | PErr e => perr_ e
    | POk (h1, h2) =>
        if is_ascii_digit h1 && is_ascii_digit h2 then plift (two_digit_value h1 h2)
        else perr_ Invalid
    end in
  let* s := str_from s 2 in
  (* colons (and possibly other separators) *)
  let+ s := consume_colon s in
  (* minutes (00--59) *)
  let+ minutes :=
    match tz_digits s with
    | POk (m1, m2) =>
        if (TZ_MIN_TENS_LO <=? m1) && (m1 <=? TZ_MIN_TENS_HI) && is_ascii_digit m2
        then plift (two_digit_value m1 m2)
        else if (TZ_MIN_OOR_TENS_LO <=? m1) && (m1 <=? TZ_MIN_OOR_TENS_HI) && is_ascii_digit m2
        then perr_ OutOfRange
        else perr_ Invalid
    | PErr _ => if allow_missing_minutes then pok 0 else perr_ TooShort
    end in
  let+ s :=
    (let len := blen s in
     if len >=? 2 then plift (str_from s 2)
     else if len =? 0 then pok s
     else perr_ TooShort) in
  let* hs := mul_i32 hours TZ_SECS_PER_HOUR in
  let* ms := mul_i32 minutes TZ_SECS_PER_MINUTE in
  let* seconds := add_i32 hs ms in
  if (negative : bool) then let* n := neg_i32 seconds in pok (s, n) else pok (s, seconds).

(** ** timezone_offset_2822 *)
(* s.as_bytes().iter().position(|&c| !c.is_ascii_alphabetic()).unwrap_or(s.len()) *)
Fixpoint alpha_prefix_len (s : bytes) : Z :=
  match s with
  | c :: r => if is_ascii_alphabetic c then 1 + alpha_prefix_len r else 0
  | [] => 0
  end.
Fixpoint assoc_ignore_case (name : bytes) (t : list (bytes * Z)) : option Z :=
  match t with
  | [] => None
  | (k, v) :: r => if eq_ignore_ascii_case name k then Some v else assoc_ignore_case name r
  end.
Definition in_ranges (c : Z) (l : list (Z * Z)) : bool :=
  existsb (fun '(lo, hi) => (lo <=? c) && (c <=? hi)) l.
Definition timezone_offset_2822 (s : bytes) : PR (bytes * Z) :=
  let upto := alpha_prefix_len s in
  if upto >? 0 then
    let* name := slice_to s upto in
    let* s' := str_from s upto in
    match assoc_ignore_case name TZ2822_NAMES with
    | Some o => let* secs := mul_i32 o TZ2822_SECS_PER_HOUR in pok (s', secs)
    | None =>
        if blen name =? 1 then
          let* c := index name 0 in
          if in_ranges c TZ2822_MILITARY then pok (s', 0) else perr_ Invalid
        else perr_ Invalid
    end
  else timezone_offset s (fun s => pok s) false false false.

(** ** comment_2822 *)
Inductive comment_state := CStart | CNext (depth : Z) | CEscape (depth : Z).
(* the [for (i, c) in s.bytes().enumerate()] loop over what is left ([l]) of [s] *)
Fixpoint comment_loop (s l : bytes) (i : Z) (state : comment_state) : PR (bytes * unit) :=
  match l with
  | [] => perr_ TooShort
  | c :: r =>
    match state with
    | CStart => if c =? 40 then comment_loop s r (i + 1) (CNext 1) else perr_ Invalid
    | CNext depth =>
        if (depth =? 1) && (c =? 41) then
          let* j := add_usize i 1 in let* rest := str_from s j in pok (rest, tt)
        else if c =? 92 then comment_loop s r (i + 1) (CEscape depth)
        else if c =? 40 then let* d := add_usize depth 1 in comment_loop s r (i + 1) (CNext d)
        else if c =? 41 then let* d := sub_usize depth 1 in comment_loop s r (i + 1) (CNext d)
        else comment_loop s r (i + 1) (CNext depth)
    | CEscape depth => comment_loop s r (i + 1) (CNext depth)
    end
  end.
Definition comment_2822 (s : bytes) : PR (bytes * unit) :=
  let s := trim_start s in
  comment_loop s s 0 CStart.
