(** Executable model of the item-driven reader of src/format/parse.rs, function by function:
    [set_weekday_with_num_days_from_sunday], [set_weekday_with_number_from_monday],
    [parse_rfc2822], [parse_rfc3339_relaxed], [parse_internal] (every arm: Literal / OwnedLiteral,
    Space / OwnedSpace, Numeric with the width/sign/setter table, every Fixed item incl. the
    internal ones, Error), [parse], [parse_and_remainder], and the `parse_from_str` /
    `parse_and_remainder` entry points of NaiveDate, NaiveTime, NaiveDateTime and
    DateTime<FixedOffset> (which drive a [StrftimeItems] iterator lazily).

    A [&str] is the list of its bytes (Base/Utf8.v); every `&s[i..]` is [str_from] and traps
    ([Panic]) off a char boundary exactly as Rust's slicing does.  A [ParseResult<T>] that may
    also trap is [PR T] (Model/Scan.v).  The scanners are Model/Scan.v, the field record and its
    setters / resolution Model/Parsed.v (imported qualified: it has its own copy of the error
    enumeration, converted by [perr_of]), the items Model/Items.v.  All literal data of the
    function bodies (the Numeric table, weekday-number maps, AM/PM letters, digit counts, the
    time-zone flags of every arm, DATE_ITEMS / TIME_ITEMS, the RFC 2822 year rules) comes from
    Gen/ParseTable.v, regenerated from the Rust source on every run (tools/translate_parse.py).

    On an error the Rust functions leave the caller's [Parsed] partially filled ("otherwise
    `parsed` should not be used"); the model returns the error only.
    Shared by C09, C11, C13, C15.  No proofs in this file. *)
From Coq Require Import ZArith List Bool String.
From V Require Import Base.Int Base.IO Base.Utf8 Gen.ScanTables Model.Scan Model.Items Gen.ParseTable.
From V Require Model.Parsed Model.Strftime Model.Time Model.DateTime.
Import ListNotations.
Open Scope Z_scope.

(** * Glue between the two copies of ParseErrorKind / ParseResult *)
Definition perr_of (e : Model.Parsed.perr) : perr :=
  match e with
  | Model.Parsed.OutOfRange => OutOfRange | Model.Parsed.Impossible => Impossible
  | Model.Parsed.NotEnough => NotEnough | Model.Parsed.Invalid => Invalid
  | Model.Parsed.TooShort => TooShort | Model.Parsed.TooLong => TooLong
  | Model.Parsed.BadFormat => BadFormat
  end.
Definition pres_of {A} (r : Model.Parsed.res A) : presult A :=
  match r with Model.Parsed.Ok a => POk a | Model.Parsed.Err e => PErr (perr_of e) end.
(* a resolution function of Model/Parsed.v as a [PR] *)
Definition pr_of {A} (x : R (Model.Parsed.res A)) : PR A := bind x (fun r => Val (pres_of r)).
(* `parsed.set_x(v)?` : the state afterwards, or the error *)
Definition setq (r : Model.Parsed.parsed * Model.Parsed.res unit) : PR Model.Parsed.parsed :=
  match r with
  | (p, Model.Parsed.Ok _) => pok p
  | (_, Model.Parsed.Err e) => perr_ (perr_of e)
  end.

Fixpoint zassoc {A} (k : Z) (l : list (Z * A)) : option A :=
  match l with [] => None | (k', v) :: r => if k =? k' then Some v else zassoc k r end.

(* str::starts_with(&str) *)
Definition starts_with (s prefix : bytes) : bool :=
  match strip_prefix prefix s with Some _ => true | None => false end.

(** * The setters reachable from the Numeric table, by their number in Gen/ParseTable.v
    (0..21 = Parsed::set_* in the order of Model/Parsed.v [apply_setter]; 100 / 101 the two local
    functions).  11 (set_weekday) and 14 (set_ampm) do not have the type
    `fn(&mut Parsed, i64) -> ParseResult<()>` and cannot occur in the table. *)
(* fn set_weekday_with_num_days_from_sunday(p: &mut Parsed, v: i64) -> ParseResult<()> *)
Definition set_weekday_with_num_days_from_sunday (p : Model.Parsed.parsed) (v : Z) : PR Model.Parsed.parsed :=
  match zassoc v PN_WD_FROM_SUN with
  | Some wd => setq (Model.Parsed.set_weekday p wd)
  | None => perr_ OutOfRange
  end.
(* fn set_weekday_with_number_from_monday(p: &mut Parsed, v: i64) -> ParseResult<()> *)
Definition set_weekday_with_number_from_monday (p : Model.Parsed.parsed) (v : Z) : PR Model.Parsed.parsed :=
  match zassoc v PN_WD_FROM_MON with
  | Some wd => setq (Model.Parsed.set_weekday p wd)
  | None => perr_ OutOfRange
  end.
Definition set_by_code (code : Z) (p : Model.Parsed.parsed) (v : Z) : PR Model.Parsed.parsed :=
  if code =? 0 then setq (Model.Parsed.set_year p v)
  else if code =? 1 then setq (Model.Parsed.set_year_div_100 p v)
  else if code =? 2 then setq (Model.Parsed.set_year_mod_100 p v)
  else if code =? 3 then setq (Model.Parsed.set_isoyear p v)
  else if code =? 4 then setq (Model.Parsed.set_isoyear_div_100 p v)
  else if code =? 5 then setq (Model.Parsed.set_isoyear_mod_100 p v)
  else if code =? 6 then setq (Model.Parsed.set_quarter p v)
  else if code =? 7 then setq (Model.Parsed.set_month p v)
  else if code =? 8 then setq (Model.Parsed.set_week_from_sun p v)
  else if code =? 9 then setq (Model.Parsed.set_week_from_mon p v)
  else if code =? 10 then setq (Model.Parsed.set_isoweek p v)
  else if code =? 12 then setq (Model.Parsed.set_ordinal p v)
  else if code =? 13 then setq (Model.Parsed.set_day p v)
  else if code =? 15 then setq (Model.Parsed.set_hour12 p v)
  else if code =? 16 then let* r := Model.Parsed.set_hour p v in setq r
  else if code =? 17 then setq (Model.Parsed.set_minute p v)
  else if code =? 18 then setq (Model.Parsed.set_second p v)
  else if code =? 19 then setq (Model.Parsed.set_nanosecond p v)
  else if code =? 20 then setq (Model.Parsed.set_timestamp p v)
  else if code =? 21 then setq (Model.Parsed.set_offset p v)
  else if code =? 100 then set_weekday_with_num_days_from_sunday p v
  else if code =? 101 then set_weekday_with_number_from_monday p v
  else Panic.

(* `parsed.set_x(try_consume!(scan::number(s, lo, hi)))?` *)
Definition consume_number (p : Model.Parsed.parsed) (s : bytes) (lohi : Z * Z) (code : Z)
  : PR (Model.Parsed.parsed * bytes) :=
  let+ '(s', v) := number s (fst lohi) (snd lohi) in
  let+ p' := set_by_code code p v in
  pok (p', s').

(** * parse_rfc2822 *)
(* match (yearlen, year) { (2, 0..=49) => year += 2000, (2, 50..=99) => year += 1900,
                           (3, _) => year += 1900, (_, _) => {} } *)
Fixpoint rfc2822_year (rules : list (Z * (Z * Z * Z))) (yearlen year : Z) : R Z :=
  match rules with
  | [] => Val year
  | (len, (lo, hi, add)) :: r =>
      if (yearlen =? len) && (lo <=? year) && (year <=? hi) then add_i64 year add
      else rfc2822_year r yearlen year
  end.
(* while let Ok((s_out, ())) = scan::comment_2822(s) { s = s_out; } -- a comment is at least
   two bytes, so [length s] iterations always suffice *)
Fixpoint skip_comments (fuel : nat) (s : bytes) : R bytes :=
  match fuel with
  | O => OutOfFuel
  | S f =>
    let* r := comment_2822 s in
    match r with
    | POk (s_out, _) => skip_comments f s_out
    | PErr _ => Val s
    end
  end.

Definition parse_rfc2822 (p : Model.Parsed.parsed) (s : bytes) : PR (Model.Parsed.parsed * bytes) :=
  let s := trim_start s in
  let+ '(p, s) :=
    (let* r := short_weekday s in
     match r with
     | POk (s_, weekday) =>
         if negb (starts_with_byte s_ 44) then perr_ Invalid else
         let* s1 := str_from s_ 1 in
         let+ p := setq (Model.Parsed.set_weekday p weekday) in
         pok (p, s1)
     | PErr _ => pok (p, s)
     end) in
  let s := trim_start s in
  let+ '(p, s) := consume_number p s P2822_DAY 13 in
  let+ s := space s in
  let+ '(s, month0) := short_month0 s in
  let* month := add_i64 1 month0 in
  let+ p := setq (Model.Parsed.set_month p month) in
  let+ s := space s in
  let prevlen := blen s in
  let+ '(s, year) := number s (fst P2822_YEAR) (snd P2822_YEAR) in
  let* yearlen := sub_usize prevlen (blen s) in
  let* year := rfc2822_year P2822_YEAR_RULES yearlen year in
  let+ p := setq (Model.Parsed.set_year p year) in
  let+ s := space s in
  let+ '(p, s) := consume_number p s P2822_HOUR 16 in
  let+ s := char (trim_start s) 58 in
  let s := trim_start s in
  let+ '(p, s) := consume_number p s P2822_MINUTE 17 in
  let+ '(p, s) :=
    (let* r := char (trim_start s) 58 in
     match r with
     | POk s_ => consume_number p (if P2822_SECOND_TRIM then trim_start s_ else s_) P2822_SECOND 18
     | PErr _ => pok (p, s)
     end) in
  let+ s := space s in
  let+ '(s, offset) := timezone_offset_2822 s in
  let+ p := setq (Model.Parsed.set_offset p offset) in
  let* s := skip_comments (S (List.length s)) s in
  pok (p, s).

(** * parse_internal: one item *)
(* Item::Numeric(ref spec, ref _pad) *)
Definition parse_numeric (p : Model.Parsed.parsed) (s : bytes) (spec : Numeric)
  : PR (Model.Parsed.parsed * bytes) :=
  match zassoc (numeric_idx spec) PN_TABLE with
  | None => Panic
  | Some (width, signed, code) =>
    let s := trim_start s in
    let+ '(s, v) :=
      (if (signed : bool) then
         if starts_with_byte s 45 then
           let* s1 := str_from s 1 in
           let+ '(s_, v) := number s1 PN_MIN_DIGITS PN_SIGNED_MAX_DIGITS in
           match checked_sub in_i64 0 v with
           | Some n => pok (s_, n)
           | None => perr_ OutOfRange
           end
         else if starts_with_byte s 43 then
           let* s1 := str_from s 1 in
           number s1 PN_MIN_DIGITS PN_SIGNED_MAX_DIGITS
         else number s PN_MIN_DIGITS width
       else number s PN_MIN_DIGITS width) in
    let+ p := set_by_code code p v in
    pok (p, s)
  end.

(* the arms `let offset = try_consume!(scan::timezone_offset(s.trim_start(), scan::colon_or_space,
   allow_zulu, allow_missing_minutes, allow_tz_minus_sign)); parsed.set_offset(i64::from(offset))?;` *)
Definition parse_tz_item (p : Model.Parsed.parsed) (s : bytes) (idx : Z) : PR (Model.Parsed.parsed * bytes) :=
  match zassoc idx P_TZ_FLAGS with
  | None => Panic
  | Some (allow_zulu, allow_missing_minutes, allow_tz_minus_sign) =>
    let+ '(s, offset) := timezone_offset (trim_start s) colon_or_space
                           allow_zulu allow_missing_minutes allow_tz_minus_sign in
    let+ p := setq (Model.Parsed.set_offset p offset) in
    pok (p, s)
  end.

(* &Nanosecond | &Nanosecond3 | &Nanosecond6 | &Nanosecond9 *)
Definition parse_dot_nanosecond (p : Model.Parsed.parsed) (s : bytes) : PR (Model.Parsed.parsed * bytes) :=
  if starts_with_byte s 46 then
    let* s1 := str_from s 1 in
    let+ '(s, nano) := nanosecond s1 in
    let+ p := setq (Model.Parsed.set_nanosecond p nano) in
    pok (p, s)
  else pok (p, s).

(* &Internal(InternalFixed { val: InternalInternal::Nanosecond<n>NoDot }) *)
Definition parse_nodot (p : Model.Parsed.parsed) (s : bytes) (idx : Z) : PR (Model.Parsed.parsed * bytes) :=
  match zassoc idx P_NODOT with
  | None => Panic
  | Some (minlen, digits) =>
    if blen s <? minlen then perr_ TooShort else
    let+ '(s, nano) := nanosecond_fixed s digits in
    let+ p := setq (Model.Parsed.set_nanosecond p nano) in
    pok (p, s)
  end.

(* &LowerAmPm | &UpperAmPm *)
Definition parse_ampm (p : Model.Parsed.parsed) (s : bytes) : PR (Model.Parsed.parsed * bytes) :=
  if blen s <? P_AMPM_LEN then perr_ TooShort else
  let* a := index s 0 in
  let* b := index s 1 in
  match assoc_bytes [Z.lor a P_AMPM_BIT; Z.lor b P_AMPM_BIT] P_AMPM_ARMS with
  | None => perr_ Invalid
  | Some ampm =>
    let+ p := setq (Model.Parsed.set_ampm p ampm) in
    let* s := str_from s P_AMPM_REST in
    pok (p, s)
  end.

(* Item::Fixed(ref spec); [relaxed] is the callee of the RFC3339 arm (tied below) *)
Definition parse_fixed (relaxed : Model.Parsed.parsed -> bytes -> PR (Model.Parsed.parsed * bytes))
    (p : Model.Parsed.parsed) (s : bytes) (spec : Fixed) : PR (Model.Parsed.parsed * bytes) :=
  match spec with
  | F_ShortMonthName =>
      let+ '(s, month0) := short_month0 s in
      let* m := add_i64 month0 1 in
      let+ p := setq (Model.Parsed.set_month p m) in pok (p, s)
  | F_LongMonthName =>
      let+ '(s, month0) := short_or_long_month0 s in
      let* m := add_i64 month0 1 in
      let+ p := setq (Model.Parsed.set_month p m) in pok (p, s)
  | F_ShortWeekdayName =>
      let+ '(s, weekday) := short_weekday s in
      let+ p := setq (Model.Parsed.set_weekday p weekday) in pok (p, s)
  | F_LongWeekdayName =>
      let+ '(s, weekday) := short_or_long_weekday s in
      let+ p := setq (Model.Parsed.set_weekday p weekday) in pok (p, s)
  | F_LowerAmPm | F_UpperAmPm => parse_ampm p s
  | F_Nanosecond | F_Nanosecond3 | F_Nanosecond6 | F_Nanosecond9 => parse_dot_nanosecond p s
  | F_Internal I_Nanosecond3NoDot | F_Internal I_Nanosecond6NoDot | F_Internal I_Nanosecond9NoDot =>
      parse_nodot p s (fixed_idx spec)
  | F_TimezoneName =>
      pok (p, trim_start_matches (fun c => negb (is_whitespace c)) s)
  | F_TimezoneOffsetColon | F_TimezoneOffsetDoubleColon | F_TimezoneOffsetTripleColon
  | F_TimezoneOffset | F_TimezoneOffsetColonZ | F_TimezoneOffsetZ
  | F_Internal I_TimezoneOffsetPermissive => parse_tz_item p s (fixed_idx spec)
  | F_RFC2822 => parse_rfc2822 p s
  | F_RFC3339 => relaxed p s
  end.

Definition parse_item (relaxed : Model.Parsed.parsed -> bytes -> PR (Model.Parsed.parsed * bytes))
    (p : Model.Parsed.parsed) (s : bytes) (it : Item) : PR (Model.Parsed.parsed * bytes) :=
  match it with
  | Literal prefix =>                      (* also OwnedLiteral *)
      if blen s <? blen prefix then perr_ TooShort
      else if negb (starts_with s prefix) then perr_ Invalid
      else let* r := str_from s (blen prefix) in pok (p, r)
  | Space _ => pok (p, trim_start s)       (* also OwnedSpace *)
  | INumeric spec _pad => parse_numeric p s spec
  | IFixed spec => parse_fixed relaxed p s spec
  | IError => perr_ BadFormat
  end.

(* `for item in items { match *item.borrow() { ... } } Ok(s)` over an explicit item list *)
Fixpoint parse_items (relaxed : Model.Parsed.parsed -> bytes -> PR (Model.Parsed.parsed * bytes))
    (p : Model.Parsed.parsed) (s : bytes) (items : list Item) : PR (Model.Parsed.parsed * bytes) :=
  match items with
  | [] => pok (p, s)
  | it :: r => let+ '(p, s) := parse_item relaxed p s it in parse_items relaxed p s r
  end.

(** * parse_rfc3339_relaxed.  Its two calls of parse_internal run over the constant lists
    DATE_ITEMS / TIME_ITEMS; an RFC3339 item inside them would recurse for ever ([OutOfFuel]). *)
Definition parse_rfc3339_relaxed (p : Model.Parsed.parsed) (s : bytes) : PR (Model.Parsed.parsed * bytes) :=
  let inner := parse_items (fun _ _ => OutOfFuel) in
  let+ '(p, s) := inner p s P_RELAXED_DATE_ITEMS in
  let+ s :=
    match s with
    | c :: _ => if existsb (Z.eqb c) P_RELAXED_SEPARATORS then plift (str_from s 1) else perr_ Invalid
    | [] => perr_ TooShort
    end in
  let+ '(p, s) := inner p s P_RELAXED_TIME_ITEMS in
  let s := trim_start s in
  let n := blen P_RELAXED_UTC in
  let* utc := (if blen s >=? n then let* pre := slice_to s n in Val (eq_ignore_ascii_case P_RELAXED_UTC pre)
               else Val false) in
  let+ '(s, offset) :=
    (if (utc : bool) then let* r := str_from s n in pok (r, 0)
     else let '(z, mm, ms) := P_RELAXED_TZ_FLAGS in timezone_offset s colon_or_space z mm ms) in
  let+ p := setq (Model.Parsed.set_offset p offset) in
  pok (p, s).

(** * parse_internal / parse / parse_and_remainder over an item list *)
Definition parse_internal (p : Model.Parsed.parsed) (s : bytes) (items : list Item)
  : PR (Model.Parsed.parsed * bytes) :=
  parse_items parse_rfc3339_relaxed p s items.
(* match parse_internal(..) { Ok("") => Ok(()), Ok(_) => Err(TOO_LONG), Err(e) => Err(e) } *)
Definition parse_end (r : PR (Model.Parsed.parsed * bytes)) : PR Model.Parsed.parsed :=
  let+ '(p, s) := r in
  if is_empty s then pok p else perr_ TooLong.
Definition parse (p : Model.Parsed.parsed) (s : bytes) (items : list Item) : PR Model.Parsed.parsed :=
  parse_end (parse_internal p s items).
Definition parse_and_remainder (p : Model.Parsed.parsed) (s : bytes) (items : list Item)
  : PR (Model.Parsed.parsed * bytes) :=
  parse_internal p s items.

(* impl str::FromStr for DateTime<FixedOffset> *)
Definition datetime_from_str (s : bytes) : PR Model.DateTime.dtz :=
  let+ '(p, s) := parse_rfc3339_relaxed Model.Parsed.parsed_new s in
  if negb (is_empty (trim_start s)) then perr_ TooLong
  else pr_of (Model.Parsed.to_datetime p).

(** * The same loop driven by a [StrftimeItems] iterator (items are produced lazily: the loop
    returns at the first failing item without asking for the next one).  Fuel: the iterator's
    termination bound [sf_bound]. *)
Fixpoint parse_sf_loop (fuel : nat) (p : Model.Parsed.parsed) (s : bytes) (st : Model.Strftime.sfi)
  : PR (Model.Parsed.parsed * bytes) :=
  match fuel with
  | O => OutOfFuel
  | S f =>
    let* '(o, st') := Model.Strftime.sf_next st in
    match o with
    | None => pok (p, s)
    | Some it =>
        let+ '(p, s) := parse_item parse_rfc3339_relaxed p s it in
        parse_sf_loop f p s st'
    end
  end.
Definition parse_internal_sf (p : Model.Parsed.parsed) (s : bytes) (fmt : bytes)
  : PR (Model.Parsed.parsed * bytes) :=
  parse_sf_loop (S (Model.Strftime.sf_bound fmt)) p s (Model.Strftime.sf_new fmt).
Definition parse_sf (s fmt : bytes) : PR Model.Parsed.parsed :=
  parse_end (parse_internal_sf Model.Parsed.parsed_new s fmt).

(** * Entry points.  kind 0 NaiveDate, 1 NaiveTime, 2 NaiveDateTime, 3 DateTime<FixedOffset> *)
Definition date_parse_from_str (s fmt : bytes) : PR Z :=
  let+ p := parse_sf s fmt in pr_of (Model.Parsed.to_naive_date p).
Definition time_parse_from_str (s fmt : bytes) : PR Model.Time.ntime :=
  let+ p := parse_sf s fmt in pr_of (Model.Parsed.to_naive_time p).
Definition ndt_parse_from_str (s fmt : bytes) : PR Model.DateTime.ndt :=
  let+ p := parse_sf s fmt in pr_of (Model.Parsed.to_naive_datetime_with_offset p 0).
Definition dt_parse_from_str (s fmt : bytes) : PR Model.DateTime.dtz :=
  let+ p := parse_sf s fmt in pr_of (Model.Parsed.to_datetime p).

Definition date_parse_and_remainder (s fmt : bytes) : PR (Z * bytes) :=
  let+ '(p, r) := parse_internal_sf Model.Parsed.parsed_new s fmt in
  let+ d := pr_of (Model.Parsed.to_naive_date p) in pok (d, r).
Definition time_parse_and_remainder (s fmt : bytes) : PR (Model.Time.ntime * bytes) :=
  let+ '(p, r) := parse_internal_sf Model.Parsed.parsed_new s fmt in
  let+ t := pr_of (Model.Parsed.to_naive_time p) in pok (t, r).
Definition ndt_parse_and_remainder (s fmt : bytes) : PR (Model.DateTime.ndt * bytes) :=
  let+ '(p, r) := parse_internal_sf Model.Parsed.parsed_new s fmt in
  let+ d := pr_of (Model.Parsed.to_naive_datetime_with_offset p 0) in pok (d, r).
Definition dt_parse_and_remainder (s fmt : bytes) : PR (Model.DateTime.dtz * bytes) :=
  let+ '(p, r) := parse_internal_sf Model.Parsed.parsed_new s fmt in
  let+ d := pr_of (Model.Parsed.to_datetime p) in pok (d, r).

(** * Case protocol helper *)
Definition val_of_PR {A} (f : A -> val) (r : PR A) : val :=
  match r with
  | Val (POk a) => f a
  | Val (PErr e) => VErr (perr_name e)
  | Panic => VPanic
  | OutOfFuel => VFuel
  end.
