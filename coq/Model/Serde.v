(** Executable model of chrono's serde support (feature "serde"), impl by impl:
      src/naive/date/mod.rs  mod serde        Serialize = collect_str(Debug),   Deserialize = visit_str: value.parse()
      src/naive/time/serde.rs                 Serialize = collect_str(Display), Deserialize = visit_str: value.parse()
      src/naive/datetime/serde.rs             Serialize = collect_str(Debug),   Deserialize = visit_str: value.parse();
                                              ts_seconds, ts_milliseconds, ts_microseconds, ts_nanoseconds and
                                              their _option variants (serialize, visit_i64, visit_u64,
                                              visit_some / visit_none / visit_unit)
      src/datetime/serde.rs                   Serialize for DateTime<Tz> = collect_str(FormatIso8601):
                                              write_rfc3339(local reading, offset.fix(), AutoSi, use_z = true);
                                              Deserialize for DateTime<FixedOffset> = visit_str: value.parse(),
                                              for DateTime<Utc> / DateTime<Local> the same then with_timezone;
                                              the same eight ts_* modules for DateTime<Utc>
      src/time_delta.rs      mod serde        Serialize = (secs, nanos) as (i64, i32); Deserialize = the pair,
                                              then TimeDelta::new(secs, nanos as u32) or "TimeDelta out of bounds"
      src/weekday.rs  weekday_serde           collect_str(Display) / visit_str: value.parse()
      src/month.rs    month_serde             collect_str(self.name()) / visit_str: value.parse()
      src/lib.rs      serde::invalid_ts       the error "value is not a legal timestamp: {value}"

    A serializer is a function into a value [sval] of a small serde data model (what the impl hands to
    the [Serializer]); a deserializer / visitor is a function from such a value (what the
    [Deserializer] hands to the visitor).  serde's own dispatch and the two data formats are NOT
    modelled beyond [carry]: how a written value comes back from serde_json / bincode (JSON has one
    number syntax: a non-negative integer is handed to visit_u64, a negative one to visit_i64;
    bincode hands back exactly what was written) -- an assumption listed in trusted_base.json and
    exercised concretely by the harness.
    The shapes of the sixteen helper modules and their literals are read from the Rust source on
    every run (Gen/SerdeConsts.v, tools/translate_serde.py); the writers / readers of the string
    forms are Model/Show.v, Model/Rfc3339.v, Model/FromStr.v, Model/C19.v.  No proofs in this file. *)
From Coq Require Import ZArith List Bool String.
From V Require Import Base.Int Base.IO Base.Utf8 Gen.SerdeConsts Model.Scan Model.TimeDelta Model.DateTime
  Model.Rfc3339 Model.Parse Model.FromStr Model.Show.
From V Require Model.Date Model.Time Model.C19.
Import ListNotations.
Open Scope Z_scope.

(** * the data model *)
Inductive sval :=
| SStr (s : bytes)          (* serialize_str / collect_str  -> visit_str *)
| SI64 (z : Z)              (* serialize_i64                -> visit_i64 *)
| SI32 (z : Z)              (* serialize_i32 (the nanosecond half of a TimeDelta) *)
| SU64 (z : Z)              (* a non-negative number of a self-describing format -> visit_u64 *)
| STup (l : list sval)      (* serialize_tuple *)
| SNone                     (* serialize_none               -> visit_none *)
| SSome (v : sval)          (* serialize_some               -> visit_some *)
| SUnit.                    (*                                 visit_unit *)

(** errors: [ser::Error::custom] / [de::Error::custom] messages, and serde's own "invalid type" *)
Inductive serr :=
| EParse (e : perr)         (* E::custom(ParseError) *)
| EInvalidTs (value : Z)    (* invalid_ts(value): "value is not a legal timestamp: {value}" *)
| ETdBounds                 (* "TimeDelta out of bounds" *)
| EWeekday                  (* "short or long weekday names expected" *)
| EMonth                    (* "short (3-letter) or full month names expected" *)
| ESerNanos                 (* "value out of range for a timestamp with nanosecond precision" *)
| EInvalidType.             (* a visitor method the impl does not define (serde's default) *)
Inductive sres (A : Type) : Type := SOk (a : A) | SErr (e : serr).
Arguments SOk {A} a.
Arguments SErr {A} e.
Definition SR (A : Type) : Type := R (sres A).
Definition sok {A} (a : A) : SR A := Val (SOk a).
Definition serr_ {A} (e : serr) : SR A := Val (SErr e).
Definition sbind {X Y} (x : SR X) (f : X -> SR Y) : SR Y :=
  bind x (fun r => match r with SOk a => f a | SErr e => Val (SErr e) end).
Notation "'let$' x ':=' e 'in' k" := (sbind e (fun x => k))
  (at level 200, x name, e at level 100, k at level 200).
Definition smap {X Y} (f : X -> Y) (x : SR X) : SR Y := sbind x (fun a => sok (f a)).

Definition serr_name (e : serr) : bytes :=
  match e with
  | EParse p => perr_name p
  | EInvalidTs _ => B"InvalidTimestamp"
  | ETdBounds => B"TimeDeltaOutOfBounds"
  | EWeekday => B"WeekdayName"
  | EMonth => B"MonthName"
  | ESerNanos => B"SerNanosRange"
  | EInvalidType => B"InvalidType"
  end.

(** * serializers of the string forms
    [serializer.collect_str(&x)]: the Display text of [x]; a [fmt::Error] from the impl panics
    (serde's default collect_str is [to_string()]; serde_json's expects an io error behind it). *)
Definition collect_str (x : W) : SR sval := let* s := to_text x in sok (SStr s).

(* impl Serialize for NaiveDate: FormatWrapped displays with Debug *)
Definition ser_date (d : Z) : SR sval :=
  collect_str (if SD_DATE_WRITER =? 1 then date_debug [] d else date_display [] d).
(* impl Serialize for NaiveTime: collect_str(&self) *)
Definition ser_time (t : Time.ntime) : SR sval :=
  collect_str (if SD_TIME_WRITER =? 1 then time_debug [] t else time_display [] t).
(* impl Serialize for NaiveDateTime *)
Definition ser_ndt (a : ndt) : SR sval :=
  collect_str (if SD_NDT_WRITER =? 1 then ndt_debug [] a else ndt_display [] a).
(* impl<Tz: TimeZone> Serialize for DateTime<Tz> (Utc: offset.fix() = 0)
     let naive = self.inner.overflowing_naive_local();     (naive_local() before the repair)
     let offset = self.inner.offset.fix();
     write_rfc3339(f, naive, offset, SecondsFormat::AutoSi, true) *)
Definition ser_dtz (a : dtz) : SR sval :=
  let* naive := (if SD_DT_LOCAL_OVERFLOWING =? 1 then overflowing_naive_local a else naive_local a) in
  collect_str (write_rfc3339 [] naive (dz_off a) SD_DT_SECFORM (SD_DT_USE_Z =? 1)).
(* impl Serialize for Weekday: collect_str(&self) (Display) *)
Definition ser_wd (w : Z) : SR sval := collect_str (wd_display [] w).
(* impl Serialize for Month: collect_str(self.name()) *)
Definition ser_mo (m : Z) : SR sval := let* nm := C19.mo_name m in sok (SStr nm).
(* impl Serialize for TimeDelta: <(i64, i32) as Serialize>::serialize(&(self.secs, self.nanos), ..) *)
Definition ser_td (d : td) : SR sval := sok (STup [SI64 (secs d); SI32 (nanos d)]).

(** * deserializers of the string forms: [deserializer.deserialize_str(V)], V::visit_str = value.parse() *)
Definition de_str {A} (parse : bytes -> PR A) (v : sval) : SR A :=
  match v with
  | SStr s => let* r := parse s in Val (match r with POk a => SOk a | PErr e => SErr (EParse e) end)
  | _ => serr_ EInvalidType
  end.
Definition de_date : sval -> SR Z := de_str naive_date_from_str.
Definition de_time : sval -> SR Time.ntime := de_str naive_time_from_str.
Definition de_ndt : sval -> SR ndt := de_str naive_datetime_from_str.
Definition de_dt_fixed : sval -> SR dtz := de_str datetime_fixed_from_str.
(* deserialize_str(DateTimeVisitor).map(|dt| dt.with_timezone(&Utc)) *)
Definition de_dt_utc (v : sval) : SR dtz := smap (fun dt => with_timezone dt 0) (de_dt_fixed v).
(* ... .map(|dt| dt.with_timezone(&Local)): the instant is kept; which offset Local attaches is the
   subject of C05/C18, so the model (and the harness) reports the UTC reading only *)
Definition de_dt_local (v : sval) : SR dtz := smap (fun dt => with_timezone dt 0) (de_dt_fixed v).
Definition de_name (parse : bytes -> R (option Z)) (e : serr) (v : sval) : SR Z :=
  match v with
  | SStr s => let* o := parse s in Val (match o with Some x => SOk x | None => SErr e end)
  | _ => serr_ EInvalidType
  end.
Definition de_wd : sval -> SR Z := de_name C19.wd_from_str EWeekday.
Definition de_mo : sval -> SR Z := de_name C19.mo_from_str EMonth.

(** * TimeDelta: the pair is read by serde's own (i64, i32) impl (primitive visitors accept an
    integer of either sign class when it fits the type), then TimeDelta::new(secs, nanos as u32) *)
Definition prim_int (inr : Z -> bool) (v : sval) : SR Z :=
  match v with
  | SI64 z | SI32 z | SU64 z => if inr z then sok z else serr_ EInvalidType
  | _ => serr_ EInvalidType
  end.
Definition de_td (v : sval) : SR td :=
  match v with
  | STup [a; b] =>
      let$ secs := prim_int in_i64 a in
      let$ nanos := prim_int in_i32 b in
      match td_new secs (as_u32 nanos) with
      | Some d => sok d
      | None => serr_ ETdBounds
      end
  | _ => serr_ EInvalidType
  end.

(** * the sixteen timestamp helper modules: m = 8*z + 2*u + o (see tools/translate_serde.py) *)
Definition is_option_mod (m : Z) : bool := m mod 2 =? 1.
(* what serialize() hands to serialize_i64 / serialize_some *)
Definition ts_accessor (acc : Z) (a : ndt) : SR Z :=
  if acc =? 0 then let* t := dt_timestamp a in sok t
  else if acc =? 1 then let* t := dt_timestamp_millis a in sok t
  else if acc =? 2 then let* t := dt_timestamp_micros a in sok t
  else if acc =? 3 then
    (* timestamp_nanos_opt().ok_or(ser::Error::custom("value out of range ..."))? *)
    let* o := dt_timestamp_nanos_opt a in
    match o with Some t => sok t | None => serr_ ESerNanos end
  else Panic.
(* pub fn serialize(dt, serializer) of a plain module *)
Definition ts_serialize (m : Z) (a : ndt) : SR sval :=
  let* acc := C19.tab SD_SER m in
  let$ t := ts_accessor acc a in sok (SI64 t).
(* pub fn serialize(opt, serializer) of an _option module *)
Definition ts_serialize_option (m : Z) (o : option ndt) : SR sval :=
  let* acc := C19.tab SD_SER m in
  match o with
  | Some a => let$ t := ts_accessor acc a in sok (SSome (SI64 t))
  | None => sok SNone
  end.

(* DateTime::from_timestamp..(..)[.map(|dt| dt.naive_utc())].ok_or_else(|| invalid_ts(value)) *)
Definition or_invalid_ts (value : Z) (r : R (option ndt)) : SR ndt :=
  let* o := r in match o with Some a => sok a | None => serr_ (EInvalidTs value) end.
(* fn visit_i64(self, value: i64) of the visitor of base module [b] *)
Definition ts_visit_i64 (b value : Z) : SR ndt :=
  let* '(form, (d, (r, k))) := C19.tab SD_I64 b in
  if form =? 0 then or_invalid_ts value (dt_from_timestamp value 0)
  else if form =? 1 then or_invalid_ts value (dt_from_timestamp_millis value)
  else if form =? 2 then or_invalid_ts value (dt_from_timestamp_micros value)
  else if form =? 3 then
    (* from_timestamp(value.div_euclid(d), (value.rem_euclid(r) * k) as u32) *)
    let* q := div_euclid in_i64 value d in
    let* rm := rem_euclid in_i64 value r in
    let* n := mul_i64 rm k in
    or_invalid_ts value (dt_from_timestamp q (as_u32 n))
  else Panic.
(* fn visit_u64(self, value: u64) *)
Definition ts_visit_u64 (b value : Z) : SR ndt :=
  let* '(form, (d, (r, k))) := C19.tab SD_U64 b in
  if form =? 0 then
    (* if value > i64::MAX as u64 { Err(invalid_ts(value)) } else { from_timestamp(value as i64, 0) } *)
    if value >? as_u64 i64_max then serr_ (EInvalidTs value)
    else or_invalid_ts value (dt_from_timestamp (as_i64 value) 0)
  else if form =? 3 then
    (* from_timestamp((value / d) as i64, ((value % r) * k) as u32) *)
    let* q := div_u64 value d in
    let* rm := rem_u64 value r in
    let* n := mul_u64 rm k in
    or_invalid_ts value (dt_from_timestamp (as_i64 q) (as_u32 n))
  else Panic.
(* d.deserialize_i64(Visitor): the visitor defines visit_i64 and visit_u64 only *)
Definition ts_visit_int (b : Z) (v : sval) : SR ndt :=
  match v with
  | SI64 z => ts_visit_i64 b z
  | SU64 z => ts_visit_u64 b z
  | _ => serr_ EInvalidType
  end.
(* pub fn deserialize(d) of a plain module *)
Definition ts_deserialize (m : Z) (v : sval) : SR ndt :=
  let* b := C19.tab SD_VIS m in ts_visit_int b v.
(* pub fn deserialize(d) of an _option module: d.deserialize_option(OptionVisitor) with
   visit_some = d.deserialize_i64(Visitor).map(Some), visit_none = visit_unit = Ok(None) *)
Definition ts_deserialize_option (m : Z) (v : sval) : SR (option ndt) :=
  let* b := C19.tab SD_VIS m in
  match v with
  | SSome x => smap Some (ts_visit_int b x)
  | SNone => sok None
  | SUnit => sok None
  | _ => serr_ EInvalidType
  end.

(** * the carriers (assumed): what the reader is handed for a written value.  fmt 0 = serde_json,
    1 = bincode, other = handed over unchanged *)
Fixpoint carry_json (v : sval) : sval :=
  match v with
  | SI64 z | SI32 z => if z <? 0 then SI64 z else SU64 z
  | SSome x => SSome (carry_json x)
  | STup l => STup (map carry_json l)
  | _ => v
  end.
Definition carry (fmt : Z) (v : sval) : sval := if fmt =? 0 then carry_json v else v.
