(** C06 dispatcher: the model itself is Model/TimeDelta.v (shared with the properties that use
    durations); this file only maps case lines to model calls.  No proofs here. *)
From Coq Require Import ZArith List Bool String.
From V Require Import Base.Int Base.IO Gen.TimeDelta.
From V Require Export Model.TimeDelta.
Import ListNotations.
Open Scope Z_scope.

Definition td_acc (d : td) : R val :=
  let* w := num_weeks d in let* dd := num_days d in let* h := num_hours d in
  let* m := num_minutes d in let* s := num_seconds d in let* ms := num_milliseconds d in
  let* us := num_microseconds d in let* ns := num_nanoseconds d in
  let* sm := subsec_millis d in let* su := subsec_micros d in let* sn := subsec_nanos d in
  Val (VTup [VInt w; VInt dd; VInt h; VInt m; VInt s; VInt ms;
             val_of_option VInt us; val_of_option VInt ns; VInt sm; VInt su; VInt sn;
             val_of_bool (is_zero d)]).

Fixpoint dec_tds (l : list val) : option (list td) :=
  match l with
  | [] => Some []
  | v :: r => match dec_td v, dec_tds r with Some d, Some ds => Some (d :: ds) | _, _ => None end
  end.

Definition run (op : bytes) (args : list val) : val :=
  let i64_1 (f : Z -> val) := match args with [a] => match arg_i64 a with Some z => f z | None => VBad end | _ => VBad end in
  let td_1 (f : td -> val) := match args with [a] => match dec_td a with Some d => f d | None => VBad end | _ => VBad end in
  let td_2 (f : td -> td -> val) := match args with
     | [a; b] => match dec_td a, dec_td b with Some x, Some y => f x y | _, _ => VBad end | _ => VBad end in
  let td_k (f : td -> Z -> val) := match args with
     | [a; b] => match dec_td a, arg_i32 b with Some x, Some k => f x k | _, _ => VBad end | _ => VBad end in
  if op_is op "td.new" then
    match args with [a; b] => match arg_i64 a, arg_u32 b with Some s, Some n => vo_td (td_new s n) | _, _ => VBad end | _ => VBad end
  else if op_is op "td.weeks" then i64_1 (fun z => vo_td (try_weeks z))
  else if op_is op "td.days" then i64_1 (fun z => vo_td (try_days z))
  else if op_is op "td.hours" then i64_1 (fun z => vo_td (try_hours z))
  else if op_is op "td.minutes" then i64_1 (fun z => vo_td (try_minutes z))
  else if op_is op "td.seconds" then i64_1 (fun z => vo_td (try_seconds z))
  else if op_is op "td.millis" then i64_1 (fun z => val_of_R vo_td (try_milliseconds z))
  (* the panicking constructors: expect of the try_ form *)
  else if op_is op "td.pweeks" then i64_1 (fun z => val_of_R enc_td (unwrap (try_weeks z)))
  else if op_is op "td.pdays" then i64_1 (fun z => val_of_R enc_td (unwrap (try_days z)))
  else if op_is op "td.phours" then i64_1 (fun z => val_of_R enc_td (unwrap (try_hours z)))
  else if op_is op "td.pminutes" then i64_1 (fun z => val_of_R enc_td (unwrap (try_minutes z)))
  else if op_is op "td.pseconds" then i64_1 (fun z => val_of_R enc_td (unwrap (try_seconds z)))
  else if op_is op "td.pmillis" then i64_1 (fun z => val_of_R enc_td (unwrap_r (try_milliseconds z)))
  else if op_is op "td.micros" then i64_1 (fun z => val_of_R enc_td (microseconds z))
  else if op_is op "td.nanos" then i64_1 (fun z => val_of_R enc_td (nanoseconds z))
  else if op_is op "td.acc" then td_1 (fun d => val_of_R (fun v => v) (td_acc d))
  else if op_is op "td.add" then td_2 (fun a b => val_of_R vo_td (td_checked_add a b))
  else if op_is op "td.sub" then td_2 (fun a b => val_of_R vo_td (td_checked_sub a b))
  else if op_is op "td.mul" then td_k (fun a k => val_of_R vo_td (td_checked_mul a k))
  else if op_is op "td.div" then td_k (fun a k => val_of_R vo_td (td_checked_div a k))
  else if op_is op "td.neg" then td_1 (fun d => val_of_R enc_td (td_neg d))
  else if op_is op "td.abs" then td_1 (fun d => val_of_R enc_td (td_abs d))
  else if op_is op "td.cmp" then td_2 (fun a b => VInt (td_cmp a b))
  else if op_is op "td.fromstd" then
    match args with [a; b] => match arg_u64 a, arg_u32 b with
      | Some s, Some n => if n <? 1000000000 then vo_td (from_std s n) else VBad
      | _, _ => VBad end | _ => VBad end
  else if op_is op "td.tostd" then td_1 (fun d => val_of_option (fun '(s, n) => VTup [VInt s; VInt n]) (to_std d))
  else if op_is op "td.disp" then td_1 (fun d => val_of_R VStr (td_display d))
  else if op_is op "td.opadd" then td_2 (fun a b => val_of_R enc_td (op_add a b))
  else if op_is op "td.opsub" then td_2 (fun a b => val_of_R enc_td (op_sub a b))
  else if op_is op "td.opmul" then td_k (fun a k => val_of_R enc_td (op_mul a k))
  else if op_is op "td.opdiv" then td_k (fun a k => val_of_R enc_td (op_div a k))
  else if op_is op "td.sum" then
    match args with [VTup l] => match dec_tds l with Some ds => val_of_R enc_td (td_sum ds (mk_td 0 0)) | None => VBad end | _ => VBad end
  (* impl AddAssign / SubAssign: let new = self.checked_add(&rhs).expect(..); *self = new *)
  else if op_is op "td.opaddasg" then td_2 (fun a b => val_of_R enc_td (unwrap_r (td_checked_add a b)))
  else if op_is op "td.opsubasg" then td_2 (fun a b => val_of_R enc_td (unwrap_r (td_checked_sub a b)))
  (* impl Sum<TimeDelta>: iter.fold(TimeDelta::zero(), |acc, x| acc + x) *)
  else if op_is op "td.sumv" then
    match args with [VTup l] => match dec_tds l with Some ds => val_of_R enc_td (td_sum ds (mk_td 0 0)) | None => VBad end | _ => VBad end
  (* MIN, MAX, zero(), min_value() = MIN, max_value() = MAX *)
  else if op_is op "td.consts" then
    match args with
    | [] => let lo := mk_td TD_MIN_secs TD_MIN_nanos in let hi := mk_td TD_MAX_secs TD_MAX_nanos in
            VTup [enc_td lo; enc_td hi; enc_td (mk_td 0 0); enc_td lo; enc_td hi]
    | _ => VBad end
  else VErr B"NOOP".
