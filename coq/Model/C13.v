(** C13 dispatcher: maps the `fp.*` case lines to the shared models Model/Format.v (formatter,
    C12) and Model/Parse.v (item-driven reader), and models the text perturbation of the `fp.rtx`
    op (harness/src/ops/c13.rs [perturbed]).  No proofs here. *)
From Coq Require Import ZArith List Bool String.
From V Require Import Base.Int Base.IO Model.Items.
From V Require Model.Scan Model.Parse Model.Parsed Model.Strftime Model.Format.
From V Require Model.Date Model.Time Model.DateTime.
Import ListNotations.
Open Scope Z_scope.

(* decoding of the formatted value by kind: 0 NaiveDate 1 NaiveTime 2 NaiveDateTime 3 DateTime<FixedOffset> *)
Definition dec_fa (kind : Z) (v : val) : option (R Model.Format.fmt_args) :=
  if kind =? 0 then option_map (fun d => Val (Model.Format.fa_of_date d)) (Model.DateTime.dec_date v)
  else if kind =? 1 then option_map (fun t => Val (Model.Format.fa_of_time t)) (Model.Time.dec_time v)
  else if kind =? 2 then option_map (fun n => Val (Model.Format.fa_of_ndt n)) (Model.DateTime.dec_ndt v)
  else if kind =? 3 then option_map Model.Format.fa_of_dtz (Model.DateTime.dec_dtz v)
  else None.

(* value.format(fmt).to_string() through `write!`: Some text / None = fmt::Error *)
Definition format_str (ra : R Model.Format.fmt_args) (f : bytes) : R (option bytes) :=
  let* a := ra in Model.Format.delayed_display a (Model.Strftime.sf_new f).

(* T::parse_from_str(text, fmt), result in the canonical encoding *)
Definition parse_kind (kind : Z) (text f : bytes) : val :=
  if kind =? 0 then Model.Parse.val_of_PR Model.DateTime.enc_date (Model.Parse.date_parse_from_str text f)
  else if kind =? 1 then Model.Parse.val_of_PR Model.Time.enc_time (Model.Parse.time_parse_from_str text f)
  else if kind =? 2 then Model.Parse.val_of_PR Model.DateTime.enc_ndt (Model.Parse.ndt_parse_from_str text f)
  else Model.Parse.val_of_PR Model.DateTime.enc_dtz (Model.Parse.dt_parse_from_str text f).
Definition parse_rem_kind (kind : Z) (text f : bytes) : val :=
  let pair {A} (enc : A -> val) (x : A * bytes) := VTup [enc (fst x); VStr (snd x)] in
  if kind =? 0 then Model.Parse.val_of_PR (pair Model.DateTime.enc_date) (Model.Parse.date_parse_and_remainder text f)
  else if kind =? 1 then Model.Parse.val_of_PR (pair Model.Time.enc_time) (Model.Parse.time_parse_and_remainder text f)
  else if kind =? 2 then Model.Parse.val_of_PR (pair Model.DateTime.enc_ndt) (Model.Parse.ndt_parse_and_remainder text f)
  else Model.Parse.val_of_PR (pair Model.DateTime.enc_dtz) (Model.Parse.dt_parse_and_remainder text f).

(* format, then parse what was written *)
Definition after_format (kind : Z) (text : R (option bytes)) (f : bytes) : val :=
  match text with
  | Val (Some s) => parse_kind kind s f
  | Val None => VErr B"fmt"
  | Panic => VPanic
  | OutOfFuel => VFuel
  end.

(** ** The perturbation of fp.rtx *)
Definition lcg (x : Z) : Z * Z :=
  let x' := (x * 6364136223846793005 + 1442695040888963407) mod 18446744073709551616 in
  (x', x' / 8589934592).
Definition WS : list bytes := [[32]; [9]; [10]; [227; 128; 128]; [194; 160]].
Definition is_alpha (c : Z) : bool := ((65 <=? c) && (c <=? 90)) || ((97 <=? c) && (c <=? 122)).
Fixpoint flip_case (s : bytes) (x : Z) : bytes * Z :=
  match s with
  | [] => ([], x)
  | c :: r =>
      if is_alpha c then
        let '(x1, d) := lcg x in
        let '(r', x2) := flip_case r x1 in
        ((if d mod 2 =? 1 then Z.lxor c 32 else c) :: r', x2)
      else let '(r', x2) := flip_case r x in (c :: r', x2)
  end.
Fixpoint surplus (k : nat) (x : Z) : bytes * Z :=
  match k with
  | O => ([], x)
  | S k' =>
      let '(x1, d) := lcg x in
      let '(r, x2) := surplus k' x1 in
      (nth (Z.to_nat (d mod 5)) WS [] ++ r, x2)
  end.
Definition is_name_item (it : Item) : bool :=
  match it with
  | IFixed F_ShortMonthName | IFixed F_LongMonthName | IFixed F_ShortWeekdayName
  | IFixed F_LongWeekdayName | IFixed F_LowerAmPm | IFixed F_UpperAmPm => true
  | _ => false
  end.
(* `for it in StrftimeItems::new(f) { let piece = format_item(v, &it)?; ... }` (lazy iterator) *)
Fixpoint perturbed_loop (fuel : nat) (a : Model.Format.fmt_args) (st : Model.Strftime.sfi) (x : Z) (acc : bytes)
  : R (option bytes) :=
  match fuel with
  | O => OutOfFuel
  | S f =>
    let* '(o, st') := Model.Strftime.sf_next st in
    match o with
    | None => Val (Some acc)
    | Some it =>
      let* po := Model.Format.format_item a it in
      match po with
      | None => Val None
      | Some piece =>
        if is_name_item it then
          let '(p', x') := flip_case piece x in perturbed_loop f a st' x' (acc ++ p')
        else match it with
             | Space _ =>
                 let '(x1, d) := lcg x in
                 let '(extra, x2) := surplus (Z.to_nat (d mod 3)) x1 in
                 perturbed_loop f a st' x2 (acc ++ piece ++ extra)
             | _ => perturbed_loop f a st' x (acc ++ piece)
             end
      end
    end
  end.
Definition perturbed (ra : R Model.Format.fmt_args) (f : bytes) (seed : Z) : R (option bytes) :=
  let* a := ra in
  perturbed_loop (S (Model.Strftime.sf_bound f)) a (Model.Strftime.sf_new f) seed [].

(** ** explicit item lists (fp.irt / fp.iparse): the inverse of Model/Items.v [enc_item] *)
Definition numeric_of_idx (k : Z) : option Numeric :=
  find (fun n => numeric_idx n =? k)
       [N_Year; N_YearDiv100; N_YearMod100; N_IsoYear; N_IsoYearDiv100; N_IsoYearMod100; N_Quarter; N_Month; N_Day;
        N_WeekFromSun; N_WeekFromMon; N_IsoWeek; N_NumDaysFromSun; N_WeekdayFromMon; N_Ordinal; N_Hour; N_Hour12;
        N_Minute; N_Second; N_Nanosecond; N_Timestamp].
Definition fixed_of_idx (k : Z) : option Fixed :=
  find (fun f => fixed_idx f =? k)
       [F_ShortMonthName; F_LongMonthName; F_ShortWeekdayName; F_LongWeekdayName; F_LowerAmPm; F_UpperAmPm;
        F_Nanosecond; F_Nanosecond3; F_Nanosecond6; F_Nanosecond9; F_TimezoneName; F_TimezoneOffsetColon;
        F_TimezoneOffsetDoubleColon; F_TimezoneOffsetTripleColon; F_TimezoneOffsetColonZ; F_TimezoneOffset;
        F_TimezoneOffsetZ; F_RFC2822; F_RFC3339; F_Internal I_TimezoneOffsetPermissive;
        F_Internal I_Nanosecond3NoDot; F_Internal I_Nanosecond6NoDot; F_Internal I_Nanosecond9NoDot].
Definition pad_of_idx (k : Z) : option Pad :=
  if k =? 0 then Some PadNone else if k =? 1 then Some PadZero else if k =? 2 then Some PadSpace else None.
Definition dec_item (v : val) : option Item :=
  match v with
  | VTup [VInt 0; VStr s] => if Model.Strftime.utf8_valid s then Some (Literal s) else None
  | VTup [VInt 1; VStr s] => if Model.Strftime.utf8_valid s then Some (Space s) else None
  | VTup [VInt 2; VInt n; VInt p] =>
      match numeric_of_idx n, pad_of_idx p with Some n', Some p' => Some (INumeric n' p') | _, _ => None end
  | VTup [VInt 3; VInt f] => option_map IFixed (fixed_of_idx f)
  | VTup [VInt 4] => Some IError
  | _ => None
  end.
Fixpoint dec_items (l : list val) : option (list Item) :=
  match l with
  | [] => Some []
  | v :: r => match dec_item v, dec_items r with Some i, Some is => Some (i :: is) | _, _ => None end
  end.

(* format::parse(&mut Parsed::new(), text, items) and the resolution of the kind *)
Definition parse_items_kind (kind : Z) (text : bytes) (items : list Item) : val :=
  let p := Model.Parse.parse Model.Parsed.parsed_new text items in
  let resolve {A} (f : Model.Parsed.parsed -> Model.Scan.PR A) : Model.Scan.PR A := Model.Scan.pbind p f in
  if kind =? 0 then Model.Parse.val_of_PR Model.DateTime.enc_date
                      (resolve (fun q => Model.Parse.pr_of (Model.Parsed.to_naive_date q)))
  else if kind =? 1 then Model.Parse.val_of_PR Model.Time.enc_time
                      (resolve (fun q => Model.Parse.pr_of (Model.Parsed.to_naive_time q)))
  else if kind =? 2 then Model.Parse.val_of_PR Model.DateTime.enc_ndt
                      (resolve (fun q => Model.Parse.pr_of (Model.Parsed.to_naive_datetime_with_offset q 0)))
  else Model.Parse.val_of_PR Model.DateTime.enc_dtz
                      (resolve (fun q => Model.Parse.pr_of (Model.Parsed.to_datetime q))).
(* value.format_with_items(items.iter()).to_string() through `write!` *)
Definition format_items (ra : R Model.Format.fmt_args) (items : list Item) : R (option bytes) :=
  let* a := ra in Model.Format.write_items a items [].
Definition after_format_items (kind : Z) (text : R (option bytes)) (items : list Item) : val :=
  match text with
  | Val (Some s) => parse_items_kind kind s items
  | Val None => VErr B"fmt"
  | Panic => VPanic
  | OutOfFuel => VFuel
  end.

Definition run (op : bytes) (args : list val) : val :=
  if op_is op "fp.fmt" then
    match args with
    | [VInt kind; v; VStr f] =>
        if Model.Strftime.utf8_valid f then
          match dec_fa kind v with
          | None => VBad
          | Some ra => match format_str ra f with
                       | Val (Some s) => VStr s | Val None => VErr B"fmt" | Panic => VPanic | OutOfFuel => VFuel
                       end
          end
        else VBad
    | _ => VBad
    end
  else if op_is op "fp.rt" then
    match args with
    | [VInt kind; v; VStr f] =>
        if Model.Strftime.utf8_valid f then
          match dec_fa kind v with
          | None => VBad
          | Some ra => after_format kind (format_str ra f) f
          end
        else VBad
    | _ => VBad
    end
  else if op_is op "fp.rtx" then
    match args with
    | [VInt kind; v; VStr f; VInt seed] =>
        if Model.Strftime.utf8_valid f && in_u64 seed then
          match dec_fa kind v with
          | None => VBad
          | Some ra => after_format kind (perturbed ra f seed) f
          end
        else VBad
    | _ => VBad
    end
  (* the same through owned items (StrftimeItems::parse_to_owned, then format::parse over the owned
     list): Item::OwnedLiteral / Item::OwnedSpace are read exactly like Literal / Space *)
  else if op_is op "fp.rtxo" then
    match args with
    | [VInt kind; v; VStr f; VInt seed] =>
        if Model.Strftime.utf8_valid f && in_u64 seed then
          match dec_fa kind v with
          | None => VBad
          | Some ra => after_format kind (perturbed ra f seed) f
          end
        else VBad
    | _ => VBad
    end
  else if op_is op "fp.parse" then
    match args with
    | [VInt kind; VStr text; VStr f] =>
        if Model.Strftime.utf8_valid f && Model.Strftime.utf8_valid text && (0 <=? kind) && (kind <=? 3) then
          match parse_kind kind text f with
          | VErr e => VErr e
          | VPanic => VPanic
          | VFuel => VFuel
          | v =>
              match dec_fa kind v with
              | None => VErr B"MODEL"          (* the reader returned an unrepresentable value *)
              | Some ra => VTup [v; after_format kind (format_str ra f) f]
              end
          end
        else VBad
    | _ => VBad
    end
  else if op_is op "fp.rem" then
    match args with
    | [VInt kind; v; VStr f; VStr tail] =>
        if Model.Strftime.utf8_valid f && Model.Strftime.utf8_valid tail then
          match dec_fa kind v with
          | None => VBad
          | Some ra =>
              match format_str ra f with
              | Val (Some s) => parse_rem_kind kind (s ++ tail) f
              | Val None => VErr B"fmt"
              | Panic => VPanic
              | OutOfFuel => VFuel
              end
          end
        else VBad
    | _ => VBad
    end
  else if op_is op "fp.irt" then
    match args with
    | [VInt kind; v; VTup l] =>
        match dec_fa kind v, dec_items l with
        | Some ra, Some items => after_format_items kind (format_items ra items) items
        | _, _ => VBad
        end
    | _ => VBad
    end
  else if op_is op "fp.iparse" then
    match args with
    | [VInt kind; VStr text; VTup l] =>
        if Model.Strftime.utf8_valid text && (0 <=? kind) && (kind <=? 3) then
          match dec_items l with
          | None => VBad
          | Some items =>
              match parse_items_kind kind text items with
              | VErr e => VErr e
              | VPanic => VPanic
              | VFuel => VFuel
              | v =>
                  match dec_fa kind v with
                  | None => VErr B"MODEL"
                  | Some ra => VTup [v; after_format_items kind (format_items ra items) items]
                  end
              end
          end
        else VBad
    | _ => VBad
    end
  else VErr B"NOOP".
