(** C15 -- fallible operations fail by value.  Cross-cutting: the model is the UNION of all properties'
    models.  [run] asks every property's dispatcher in turn (each answers [err:NOOP] for an op that is
    not its own) and adds the [c15.*] ops: the public fallible entry points that no other property's
    ops call directly (harness/src/ops/c15.rs).  Every [c15.*] op is a 1-3 line composition of the
    shared models (Model/Date.v, Time.v, DateTime.v, Strftime.v, Format.v, Parse.v).  No proofs here.

    All property models are required QUALIFIED (they define [run], [arg_off], [vo_ndt] ... each). *)
From Coq Require Import ZArith List Bool String.
From V Require Import Base.Int Base.IO.
From V Require Model.C01 Model.C01b Model.C02 Model.C03 Model.C04 Model.C05 Model.C06 Model.C07 Model.C08 Model.C09
               Model.C10 Model.C11 Model.C12 Model.C13 Model.C14 Model.C16 Model.C17 Model.C18 Model.C19.
From V Require Model.Items Model.Strftime Model.Format Model.Scan Model.Parse Model.Parsed
               Model.Date Model.Time Model.DateTime Model.TimeDelta Gen.ErrText.
Import ListNotations.
Open Scope Z_scope.

(** * first-match dispatch over the properties' dispatchers *)
Definition runner := bytes -> list val -> val.
Definition is_noop (v : val) : bool := match v with VErr s => bytes_eqb s B"NOOP" | _ => false end.
Fixpoint first_run (rs : list runner) (op : bytes) (args : list val) : val :=
  match rs with
  | [] => VErr B"NOOP"
  | r :: rest => let v := r op args in if is_noop v then first_run rest op args else v
  end.
Definition owners : list runner :=
  [Model.C01b.run (* = Model.C01.run plus the ops of Model/C01b.v *); Model.C02.run; Model.C03.run; Model.C04.run; Model.C05.run; Model.C06.run; Model.C07.run;
   Model.C08.run; Model.C09.run; Model.C10.run; Model.C11.run; Model.C12.run; Model.C13.run; Model.C14.run;
   Model.C16.run; Model.C17.run; Model.C18.run; Model.C19.run].

(** * the [c15.*] ops *)
Definition vo_ndt (o : option Model.DateTime.ndt) : val := val_of_option Model.DateTime.enc_ndt o.
Definition v_mlt (m : Model.DateTime.mlt Model.DateTime.dtz) : val := Model.DateTime.enc_mlt Model.DateTime.enc_dtz m.
Definition arg_u32 := Model.TimeDelta.arg_u32.
Definition arg_off (v : val) : option Z :=
  match v with VInt z => if in_i32 z then Model.DateTime.east_opt z else None | _ => None end.
Definition arg_flag (v : val) : option bool :=
  match v with VInt 0 => Some false | VInt 1 => Some true | _ => None end.

(* NaiveDate::and_hms*_opt: [let time = try_opt!(NaiveTime::from_hms*_opt(..)); Some(self.and_time(time))] *)
Definition d_and_time_opt (d : Z) (rt : R (option Model.Time.ntime)) : R (option Model.DateTime.ndt) :=
  let* ot := rt in
  Val (match ot with Some t => Some (Model.DateTime.mk_ndt d t) | None => None end).
Definition d_and_hms_opt (d h m s : Z) := d_and_time_opt d (Model.Time.from_hms_opt h m s).
Definition d_and_hms_milli_opt (d h m s x : Z) := d_and_time_opt d (Model.Time.from_hms_milli_opt h m s x).
Definition d_and_hms_micro_opt (d h m s x : Z) := d_and_time_opt d (Model.Time.from_hms_micro_opt h m s x).
Definition d_and_hms_nano_opt (d h m s x : Z) := d_and_time_opt d (Model.Time.from_hms_nano_opt h m s x).

(* NaiveDateTime::and_local_timezone(tz) = tz.from_local_datetime(self) *)
Definition ndt_and_local_timezone (a : Model.DateTime.ndt) (off : Z) := Model.DateTime.from_local_datetime off a.
(* impl Timelike for NaiveDateTime: with_hour .. with_nanosecond (fields 7..10 of [ndt_with]) *)
Definition ndt_with_time_field (field : Z) (a : Model.DateTime.ndt) (x : Z) : R (option Model.DateTime.ndt) :=
  if (7 <=? field) && (field <=? 10) then Model.DateTime.ndt_with field a x else Panic.
(* TimeZone::offset_from_local_date / offset_from_local_datetime of FixedOffset and Utc: Single(self) *)
Definition offset_from_local (off : Z) : val := VTup [VTup [VInt off]; VTup [VInt off]].
(* MappedLocalTime::{single, earliest, latest} *)
Definition mlt_sel (m : Model.DateTime.mlt Z) : val :=
  VTup [val_of_option VInt (Model.DateTime.mlt_single m); val_of_option VInt (Model.DateTime.mlt_earliest m);
        val_of_option VInt (Model.DateTime.mlt_latest m)].

(* StrftimeItems::parse / parse_to_owned:
   [self.into_iter().map(|item| if item == Item::Error { Err(BAD_FORMAT) } else { Ok(item) }).collect()]:
   the first Error item ends the collection with Err.  The iterator is drained with the proved
   termination bound as fuel; not ending within it is reported as FUEL (the real call would not return). *)
Definition is_error_item (i : Model.Items.Item) : bool := match i with Model.Items.IError => true | _ => false end.
Definition sf_items (s : bytes) (lenient : bool) : R (option (list Model.Items.Item)) :=
  Model.Strftime.sf_take (S (Model.Strftime.sf_bound s)) (Model.Strftime.mk_sfi s [] lenient) [].
Definition sf_parse (s : bytes) (lenient : bool) : val :=
  match sf_items s lenient with
  | Val (Some l) => if existsb is_error_item l then VErr B"BadFormat" else Model.Items.enc_items l
  | Val None => VFuel
  | Panic => VPanic
  | OutOfFuel => VFuel
  end.
(* StrftimeItems::new(fmt).take(13 * fmt.len() + 14).count() *)
Definition item_count (s : bytes) (lenient : bool) : val :=
  let cap := 13 * Z.of_nat (List.length s) + 14 in
  match sf_items s lenient with
  | Val (Some l) => VInt (Z.min (Z.of_nat (List.length l)) cap)
  | Val None => VInt cap
  | Panic => VPanic
  | OutOfFuel => VFuel
  end.

(* format::parse_and_remainder(&mut Parsed::new(), text, items) *)
Definition parse_and_remainder_items (text : bytes) (items : list Model.Items.Item) : val :=
  Model.Parse.val_of_PR (fun pr : Model.Parsed.parsed * bytes => VStr (snd pr))
    (Model.Parse.parse_and_remainder Model.Parsed.parsed_new text items).

(* Display / Debug of the error types: to_string() / format!("{:?}") of a value obtained through the public API.  The texts are
   the literals of the impls (Gen/ErrText.v).  [which]: 0 ParseError Display ([variant] = ParseErrorKind 0..6 in declaration
   order), 1 / 2 OutOfRange Display / Debug, 3 / 4 ParseMonthError Display / Debug, 5 / 6 ParseWeekdayError Display / Debug,
   7 RoundingError Display ([variant] 0..2), 8 OutOfRangeError Display; [variant] = 0 where the type has one value *)
Definition err_text (which variant : Z) : option bytes :=
  let one (t : bytes) := if variant =? 0 then Some t else None in
  let nth (l : list bytes) := if variant <? 0 then None else nth_error l (Z.to_nat variant) in
  if which =? 0 then nth Gen.ErrText.ET_PARSE_ERROR
  else if which =? 1 then one Gen.ErrText.ET_OUT_OF_RANGE_DISPLAY
  else if which =? 2 then one Gen.ErrText.ET_OUT_OF_RANGE_DEBUG
  else if which =? 3 then one Gen.ErrText.ET_PARSE_MONTH_DISPLAY
  else if which =? 4 then one Gen.ErrText.ET_PARSE_MONTH_DEBUG
  else if which =? 5 then one Gen.ErrText.ET_PARSE_WEEKDAY_DISPLAY
  else if which =? 6 then one Gen.ErrText.ET_PARSE_WEEKDAY_DEBUG
  else if which =? 7 then nth Gen.ErrText.ET_ROUNDING_ERROR
  else if which =? 8 then one Gen.ErrText.ET_OUT_OF_RANGE_ERROR
  else None.
(* impl fmt::Debug for IsoWeek: "{:04}-W{:02}" for the years 0..=9999, "{:+05}-W{:02}" otherwise *)
Definition isoweek_debug (d : Z) : R bytes :=
  let* w := Model.Date.d_iso_week d in
  let year := Model.Date.iw_year w in
  let week := Model.Date.iw_week w in
  if (Gen.ErrText.ET_ISOWEEK_LO <=? year) && (year <=? Gen.ErrText.ET_ISOWEEK_HI)
  then Val (Model.Format.fmt_int false true 4 year ++ Gen.ErrText.ET_ISOWEEK_SEP ++ Model.Format.fmt_int false true 2 week)
  else Val (Model.Format.fmt_int true true 5 year ++ Gen.ErrText.ET_ISOWEEK_SEP ++ Model.Format.fmt_int false true 2 week).
(* impl Debug for WeekdaySet: write!(f, "WeekdaySet({:0>7b})", self.0) -- the 7 bits, most significant first *)
Fixpoint bin_digits (n : nat) (v : Z) : bytes :=
  match n with O => [] | S k => (48 + Z.land (Z.shiftr v (Z.of_nat k)) 1) :: bin_digits k v end.
Definition wdset_debug (bits : Z) : bytes :=
  Gen.ErrText.ET_WDSET_PRE ++ bin_digits (Z.to_nat Gen.ErrText.ET_WDSET_BITS) bits ++ Gen.ErrText.ET_WDSET_POST.

Definition run_c15 (op : bytes) (args : list val) : val :=
  let d_hmsx (f : Z -> Z -> Z -> Z -> Z -> R (option Model.DateTime.ndt)) :=
    match args with
    | [d; h; m; s; x] =>
        match Model.DateTime.dec_date d, arg_u32 h, arg_u32 m with
        | Some d, Some h, Some m =>
            match arg_u32 s, arg_u32 x with
            | Some s, Some x => val_of_R vo_ndt (f d h m s x)
            | _, _ => VBad end
        | _, _, _ => VBad end
    | _ => VBad end in
  let n_o (f : Model.DateTime.ndt -> Z -> val) :=
    match args with
    | [n; o] => match Model.DateTime.dec_ndt n, arg_off o with Some a, Some off => f a off | _, _ => VBad end
    | _ => VBad end in
  let s_l (f : bytes -> bool -> val) :=
    match args with
    | [VStr s; l] => match arg_flag l with
                     | Some b => if Model.Strftime.utf8_valid s then f s b else VBad
                     | None => VBad end
    | _ => VBad end in
  if op_is op "c15.d.hms" then
    match args with
    | [d; h; m; s] =>
        match Model.DateTime.dec_date d, arg_u32 h, arg_u32 m, arg_u32 s with
        | Some d, Some h, Some m, Some s => val_of_R vo_ndt (d_and_hms_opt d h m s)
        | _, _, _, _ => VBad end
    | _ => VBad end
  else if op_is op "c15.d.hmsm" then d_hmsx d_and_hms_milli_opt
  else if op_is op "c15.d.hmsu" then d_hmsx d_and_hms_micro_opt
  else if op_is op "c15.d.hmsn" then d_hmsx d_and_hms_nano_opt
  else if op_is op "c15.ndt.addoff" then n_o (fun a off => val_of_R vo_ndt (Model.DateTime.ndt_checked_add_offset a off))
  else if op_is op "c15.ndt.suboff" then n_o (fun a off => val_of_R vo_ndt (Model.DateTime.ndt_checked_sub_offset a off))
  else if op_is op "c15.ndt.andtz" then n_o (fun a off => val_of_R v_mlt (ndt_and_local_timezone a off))
  else if op_is op "c15.ndt.witht" then
    match args with
    | [VInt field; n; x] =>
        match Model.DateTime.dec_ndt n, arg_u32 x with
        | Some a, Some x => if (7 <=? field) && (field <=? 10) then val_of_R vo_ndt (ndt_with_time_field field a x) else VBad
        | _, _ => VBad end
    | _ => VBad end
  else if op_is op "c15.offlocal" then
    match args with
    | [o; n] => match arg_off o, Model.DateTime.dec_ndt n with Some off, Some _ => offset_from_local off | _, _ => VBad end
    | _ => VBad end
  else if op_is op "c15.mlt" then
    match args with
    | [VTup []] => mlt_sel (@Model.DateTime.MNone Z)
    | [VTup [VInt a]] => if in_i64 a then mlt_sel (Model.DateTime.MSingle a) else VBad
    | [VTup [VInt a; VInt b]] => if in_i64 a && in_i64 b then mlt_sel (Model.DateTime.MAmbiguous a b) else VBad
    | _ => VBad end
  else if op_is op "c15.sfparse" then s_l sf_parse
  else if op_is op "c15.sfowned" then s_l sf_parse
  else if op_is op "c15.itemcount" then s_l item_count
  else if op_is op "c15.writeto" then
    match args with
    | [VInt kind; v; VStr f; l] =>
        match arg_flag l with
        | Some b => if Model.Strftime.utf8_valid f then Model.C12.run_fmt b kind v f else VBad
        | None => VBad end
    | _ => VBad end
  else if op_is op "c15.rem" then
    match args with
    | [VInt kind; VStr text; VStr f] =>
        if Model.Strftime.utf8_valid f && Model.Strftime.utf8_valid text && (0 <=? kind) && (kind <=? 3)
        then Model.C13.parse_rem_kind kind text f else VBad
    | _ => VBad end
  else if op_is op "c15.prem" then
    match args with
    | [VStr text; VTup l] =>
        if Model.Strftime.utf8_valid text then
          match Model.C13.dec_items l with
          | Some items => parse_and_remainder_items text items
          | None => VBad end
        else VBad
    | _ => VBad end
  else if op_is op "c15.errtext" then
    match args with
    | [VInt w; VInt v] => match err_text w v with Some t => VStr t | None => VBad end
    | _ => VBad end
  else if op_is op "c15.isoweek.dbg" then
    match args with
    | [d] => match Model.DateTime.dec_date d with Some d => val_of_R VStr (isoweek_debug d) | None => VBad end
    | _ => VBad end
  else if op_is op "c15.wdset.dbg" then
    match args with
    | [VInt b] => if (0 <=? b) && (b <? 128) then VStr (wdset_debug b) else VBad
    | _ => VBad end
  else VErr B"NOOP".

Definition run (op : bytes) (args : list val) : val := first_run (owners ++ [run_c15]) op args.
