(** Executable model of src/round.rs: [SubsecRound] (round_subsecs, trunc_subsecs, span_for_digits),
    [DurationRound] for [NaiveDateTime] and [DateTime<Tz>] (duration_round, duration_trunc,
    duration_round_up and the three generic helper functions) and [RoundingError].
    The Rust code is generic over [T: Timelike + Add<TimeDelta> + Sub<TimeDelta>]; the model takes the
    three operations it uses as a dictionary [tl T] and instantiates it for NaiveTime, NaiveDateTime
    and DateTime<Tz> (Tz = Utc / FixedOffset).  Trapping integer arithmetic in the [R] monad; the
    literals come from Gen/Round.v.  No proofs in this file. *)
From Coq Require Import ZArith List Bool String.
From V Require Import Base.Int Base.IO Gen.Round Model.TimeDelta Model.DateTime.
From V Require Model.Date Model.Time.
Import ListNotations.
Open Scope Z_scope.

(* pub enum RoundingError *)
Inductive rerr := DurationExceedsTimestamp | DurationExceedsLimit | TimestampExceedsLimit.

(** The operations of [T] that round.rs uses: [Timelike::nanosecond], [Add<TimeDelta>], [Sub<TimeDelta>]. *)
Record tl (T : Type) := mk_tl {
  tl_nanosecond : T -> R Z;
  tl_add : T -> td -> R T;
  tl_sub : T -> td -> R T }.
Arguments mk_tl {T}. Arguments tl_nanosecond {T}. Arguments tl_add {T}. Arguments tl_sub {T}.

(* NaiveTime: nanosecond = frac; + and - wrap around (overflowing_add_signed(..).0) *)
Definition time_ops : tl Time.ntime :=
  mk_tl (fun t => Val (Time.nanosecond t)) Time.op_add_td Time.op_sub_td.
(* NaiveDateTime: nanosecond = time.nanosecond(); + is checked_add_signed(..).expect(..) *)
Definition ndt_op_add (a : ndt) (d : td) : R ndt := unwrap_r (ndt_checked_add_signed a d).
Definition ndt_op_sub (a : ndt) (d : td) : R ndt := unwrap_r (ndt_checked_sub_signed a d).
Definition ndt_ops : tl ndt :=
  mk_tl (fun a => Val (Time.nanosecond (nd_time a))) ndt_op_add ndt_op_sub.
(* DateTime<Tz>: nanosecond = overflowing_naive_local().nanosecond(); + is checked_add_signed(..).expect(..) *)
Definition dz_op_add (a : dtz) (d : td) : R dtz := unwrap_r (dz_checked_add_signed a d).
Definition dz_op_sub (a : dtz) (d : td) : R dtz := unwrap_r (dz_checked_sub_signed a d).
Definition dz_nanosecond (a : dtz) : R Z :=
  let* l := overflowing_naive_local a in Val (Time.nanosecond (nd_time l)).
Definition dz_ops : tl dtz := mk_tl dz_nanosecond dz_op_add dz_op_sub.

(* const fn span_for_digits(digits: u16) -> u32 : match arms, first hit wins, default arm last *)
Fixpoint match_arms (keys vals : list Z) (dflt x : Z) : Z :=
  match keys, vals with
  | k :: ks, v :: vs => if x =? k then v else match_arms ks vs dflt x
  | _, _ => dflt
  end.
Definition span_for_digits (digits : Z) : Z := match_arms RD_SPAN_KEYS RD_SPAN_VALS RD_SPAN_DEFAULT digits.

(* fn round_subsecs(self, digits: u16) -> T *)
Definition round_subsecs {T} (ops : tl T) (self : T) (digits : Z) : R T :=
  let span := span_for_digits digits in
  let* ns := tl_nanosecond ops self in
  let* delta_down := rem_u32 ns span in
  if delta_down >? 0 then
    let* delta_up := sub_u32 span delta_down in
    if delta_up <=? delta_down then
      let* d := nanoseconds delta_up in tl_add ops self d
    else
      let* d := nanoseconds delta_down in tl_sub ops self d
  else Val self.

(* fn trunc_subsecs(self, digits: u16) -> T *)
Definition trunc_subsecs {T} (ops : tl T) (self : T) (digits : Z) : R T :=
  let span := span_for_digits digits in
  let* ns := tl_nanosecond ops self in
  let* delta_down := rem_u32 ns span in
  if delta_down >? 0 then
    let* d := nanoseconds delta_down in tl_sub ops self d
  else Val self.

(** The common prefix of the three helpers:
      if let Some(span) = duration.num_nanoseconds() {
          if span <= 0 { return Err(DurationExceedsLimit); }
          let stamp = naive.and_utc().timestamp_nanos_opt().ok_or(TimestampExceedsLimit)?;
          let delta_down = stamp % span;  ...
      } else { Err(DurationExceedsLimit) }
    [k] is the rest of the function given (span, delta_down). *)
Definition with_span_stamp {T} (naive : ndt) (duration : td)
           (k : Z -> Z -> R (T + rerr)) : R (T + rerr) :=
  let* on := num_nanoseconds duration in
  match on with
  | Some span =>
      if span <=? RD_SPAN_GUARD then Val (inr DurationExceedsLimit) else
      let* os := dt_timestamp_nanos_opt naive in
      match os with
      | None => Val (inr TimestampExceedsLimit)
      | Some stamp =>
          let* delta_down := rem_i64 stamp span in
          k span delta_down
      end
  | None => Val (inr DurationExceedsLimit)
  end.

Definition ok_add {T} (ops : tl T) (original : T) (ns : Z) : R (T + rerr) :=
  let* d := nanoseconds ns in let* r := tl_add ops original d in Val (inl r).
Definition ok_sub {T} (ops : tl T) (original : T) (ns : Z) : R (T + rerr) :=
  let* d := nanoseconds ns in let* r := tl_sub ops original d in Val (inl r).

(* fn duration_round<T>(naive: NaiveDateTime, original: T, duration: TimeDelta) -> Result<T, RoundingError> *)
Definition duration_round {T} (ops : tl T) (naive : ndt) (original : T) (duration : td) : R (T + rerr) :=
  with_span_stamp naive duration (fun span delta_down =>
    if delta_down =? 0 then Val (inl original) else
    let* '(delta_up, delta_down) :=
      (if delta_down <? 0 then
         let* a := abs_i64 delta_down in
         let* a' := abs_i64 delta_down in
         let* b := sub_i64 span a' in Val (a, b)
       else
         let* u := sub_i64 span delta_down in Val (u, delta_down)) in
    if delta_up <=? delta_down then ok_add ops original delta_up
    else ok_sub ops original delta_down).

(* fn duration_trunc<T>(..): match delta_down.cmp(&0) { Equal, Greater, Less } *)
Definition duration_trunc {T} (ops : tl T) (naive : ndt) (original : T) (duration : td) : R (T + rerr) :=
  with_span_stamp naive duration (fun span delta_down =>
    let c := cmpZ delta_down 0 in
    if c =? 0 then Val (inl original)
    else if c =? 1 then ok_sub ops original delta_down
    else let* a := abs_i64 delta_down in let* x := sub_i64 span a in ok_sub ops original x).

(* fn duration_round_up<T>(..) *)
Definition duration_round_up {T} (ops : tl T) (naive : ndt) (original : T) (duration : td) : R (T + rerr) :=
  with_span_stamp naive duration (fun span delta_down =>
    let c := cmpZ delta_down 0 in
    if c =? 0 then Val (inl original)
    else if c =? 1 then let* x := sub_i64 span delta_down in ok_add ops original x
    else let* a := abs_i64 delta_down in ok_add ops original a).

(** impl DurationRound for NaiveDateTime *)
Definition ndt_duration_round (a : ndt) (d : td) := duration_round ndt_ops a a d.
Definition ndt_duration_trunc (a : ndt) (d : td) := duration_trunc ndt_ops a a d.
Definition ndt_duration_round_up (a : ndt) (d : td) := duration_round_up ndt_ops a a d.

(** impl<Tz: TimeZone> DurationRound for DateTime<Tz>.
    Modelled with the repair fixes/C17-round-naive-local.diff applied: the wall-clock reading is
    taken with [overflowing_naive_local] (never traps) instead of [naive_local] (which traps when
    the wall clock leaves NaiveDateTime's range although an Err value is due). *)
Definition dz_duration_round (a : dtz) (d : td) :=
  let* l := overflowing_naive_local a in duration_round dz_ops l a d.
Definition dz_duration_trunc (a : dtz) (d : td) :=
  let* l := overflowing_naive_local a in duration_trunc dz_ops l a d.
Definition dz_duration_round_up (a : dtz) (d : td) :=
  let* l := overflowing_naive_local a in duration_round_up dz_ops l a d.

(** The unrepaired code ([self.naive_local()]), kept for the refutation witness. *)
Definition dz_duration_round_orig (a : dtz) (d : td) :=
  let* l := naive_local a in duration_round dz_ops l a d.
Definition dz_duration_trunc_orig (a : dtz) (d : td) :=
  let* l := naive_local a in duration_trunc dz_ops l a d.
Definition dz_duration_round_up_orig (a : dtz) (d : td) :=
  let* l := naive_local a in duration_round_up dz_ops l a d.

(** Codec of Result<T, RoundingError> *)
Definition enc_rerr (e : rerr) : val :=
  match e with
  | DurationExceedsTimestamp => VErr B"DurationExceedsTimestamp"
  | DurationExceedsLimit => VErr B"DurationExceedsLimit"
  | TimestampExceedsLimit => VErr B"TimestampExceedsLimit"
  end.
Definition enc_res {T} (f : T -> val) (r : T + rerr) : val :=
  match r with inl x => f x | inr e => enc_rerr e end.
Definition arg_u16 (v : val) : option Z := match v with VInt z => if in_u16 z then Some z else None | _ => None end.
