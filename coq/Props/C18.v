(** C18 — Local uses the zone the environment names, and notices changes. Theorems only. *)
From Coq Require Import ZArith List Bool.
From V Require Import Base.Int Base.IO Gen.LocalCache Model.C18 Proofs.C18.
Import ListNotations.
Open Scope Z_scope.

Theorem C18_sel_empty : forall zone HASH ARG ANS (O : oracle zone HASH ARG ANS) w,
  from_posix_tz O w [] = Some (o_utc O).
Proof. exact @sel_empty. Qed.
Print Assumptions C18_sel_empty.

Theorem C18_sel_unset : forall zone HASH ARG ANS (O : oracle zone HASH ARG ANS) w,
  tz_local O w None = read_zone w LC_LOCALTIME_FILE.
Proof. exact @sel_unset. Qed.
Print Assumptions C18_sel_unset.

Theorem C18_fresh_thread_current : forall zone HASH ARG ANS (O : oracle zone HASH ARG ANS) mono w local d,
  tl_offset O mono w None local d =
    (Some (cache_default O mono w), o_answer O (current_zone O w (env_var w LC_ENV_NAME)) local d).
Proof. exact @fresh_thread_current. Qed.
Print Assumptions C18_fresh_thread_current.
