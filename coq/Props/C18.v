(** C18 — Local uses the zone the environment names, and notices changes.  Theorems only: each is
    closed by [exact] of a lemma of Proofs/C18.v and followed by [Print Assumptions].

    The subject is the state machine of Model/C18.v (transcription of src/offset/local/unix.rs,
    TimeZone::local/from_posix_tz/find_tz_file and the glue of src/offset/local/mod.rs): a world
    (TZ variable, wall clock, monotonic clock, mtime of /etc/localtime, file table), one optional
    cache per thread, operations SetTZ/UnsetTZ/Advance/ClockStep/Touch/Convert/Spawn/Join.
    Every theorem holds for ARBITRARY oracles [O] (what a file parses to, what a rule parses to, the
    hash, the system zone name, the lookup inside a zone) and, unless it says otherwise, for both
    choices [mono] of the clock that stamps the cache (Gen.LC_CLOCK_MONOTONIC tells which one the
    tree under test uses).  [exec O mono s ops] is the state after a history, [answers] its answers,
    [zone_at O w] the zone selected for the value TZ has in world [w], [K mono w] the reading of the
    stamping clock, [elapsed ops] the time that passed (sum of the Advance steps). *)
From Coq Require Import ZArith List Bool String.
From V Require Import Base.Int Base.IO Gen.LocalCache Model.C18 Proofs.C18.
Import ListNotations.
Open Scope Z_scope.

(** ** Selection: which source is used for each shape of TZ, and the fallback chain *)

(* TZ empty: UTC *)
Theorem C18_sel_empty : forall zone HASH ARG ANS (O : oracle zone HASH ARG ANS) w,
  from_posix_tz O w [] = Some (o_utc O).
Proof. exact @sel_empty. Qed.
Print Assumptions C18_sel_empty.

(* TZ unset (or not valid UTF-8, which env::var reports as absent): the file /etc/localtime *)
Theorem C18_sel_unset : forall zone HASH ARG ANS (O : oracle zone HASH ARG ANS) w,
  tz_local O w None = read_zone w LC_LOCALTIME_FILE.
Proof. exact @sel_unset. Qed.
Print Assumptions C18_sel_unset.

Theorem C18_sel_localtime_name : forall zone HASH ARG ANS (O : oracle zone HASH ARG ANS) w,
  from_posix_tz O w LC_LOCALTIME_NAME = read_zone w LC_LOCALTIME_FILE.
Proof. exact @sel_localtime_name. Qed.
Print Assumptions C18_sel_localtime_name.

(* what a name resolves to is well defined: an absolute path is itself, a relative one is the
   first of the zoneinfo directories (in the order of the source) that has it *)
Theorem C18_names_file : forall zone (w : world zone) name,
  names_file w name (find_tz_file w name) /\
  (forall a b, names_file w name a -> names_file w name b -> a = b).
Proof. exact @names_file_spec. Qed.
Print Assumptions C18_names_file.

(* leading colon: the rest must name a readable TZif file; it is never read as a rule *)
Theorem C18_sel_colon : forall zone HASH ARG ANS (O : oracle zone HASH ARG ANS) w rest res,
  names_file w rest res ->
  bytes_eqb (LC_FILE_PREFIX :: rest) LC_LOCALTIME_NAME = false ->
  from_posix_tz O w (LC_FILE_PREFIX :: rest) = match res with Some (Some z) => Some z | _ => None end.
Proof. exact @sel_colon. Qed.
Print Assumptions C18_sel_colon.

(* any other non-empty value: a file of that name wins, readable or not; only when no such file
   exists the blank-trimmed text is read as a POSIX rule *)
Theorem C18_sel_plain : forall zone HASH ARG ANS (O : oracle zone HASH ARG ANS) w c0 rest res,
  names_file w (c0 :: rest) res ->
  bytes_eqb (c0 :: rest) LC_LOCALTIME_NAME = false -> c0 <> LC_FILE_PREFIX ->
  from_posix_tz O w (c0 :: rest) =
    match res with
    | Some (Some z) => Some z
    | Some None => None
    | None => o_rule O (trim_ws (c0 :: rest))
    end.
Proof. exact @sel_plain. Qed.
Print Assumptions C18_sel_plain.

(* the chain: the named source; else the zoneinfo file of the system's zone name; else UTC *)
Theorem C18_sel_chain : forall zone HASH ARG ANS (O : oracle zone HASH ARG ANS) w var,
  current_zone O w var =
    match tz_local O w var with
    | Some z => z
    | None =>
        match o_iana O with
        | Some n => match w_files w (LC_TZDB_LOCATION ++ 47 :: n) with Some (Some z) => z | _ => o_utc O end
        | None => o_utc O
        end
    end.
Proof. exact @sel_chain. Qed.
Print Assumptions C18_sel_chain.

(* the selection depends on the file table and the value only (not on clocks, mtime, caches) *)
Theorem C18_sel_files_only : forall zone HASH ARG ANS (O : oracle zone HASH ARG ANS) (w w' : world zone) var,
  w_files w = w_files w' -> current_zone O w var = current_zone O w' var.
Proof. exact @current_zone_files. Qed.
Print Assumptions C18_sel_files_only.

(** ** New thread *)
Theorem C18_new_thread_fresh : forall zone HASH ARG ANS (O : oracle zone HASH ARG ANS) mono s local d,
  st_cur s = None ->
  snd (step O mono s (Convert local d)) = Some (o_answer O (zone_at O (st_world s)) local d).
Proof. exact @new_thread_fresh. Qed.
Print Assumptions C18_new_thread_fresh.

Theorem C18_spawn_then_convert : forall zone HASH ARG ANS (O : oracle zone HASH ARG ANS) mono s local d,
  snd (step O mono (fst (step O mono s Spawn)) (Convert local d)) =
    Some (o_answer O (zone_at O (st_world s)) local d).
Proof. exact @spawn_then_convert. Qed.
Print Assumptions C18_spawn_then_convert.

(** ** Invariants of the cache, for all histories *)

(* every cache holds the zone selected for ONE value TZ has taken, stamped with the source of that
   same value *)
Theorem C18_invariant : forall zone HASH ARG ANS (O : oracle zone HASH ARG ANS) mono,
  hash_injective O -> forall w0 ops,
  Forall (ogood O (fun v => In v (tz_values w0 ops)) w0)
         (st_cur (exec O mono (init_state w0) ops) :: st_stack (exec O mono (init_state w0) ops)).
Proof. exact @invariant. Qed.
Print Assumptions C18_invariant.

(* ... more precisely a snapshot: at some point of the history the stamping clock read
   c_last_checked, and the cache holds the source stamp and the zone of the value TZ had then *)
Theorem C18_stamp_invariant : forall zone HASH ARG ANS (O : oracle zone HASH ARG ANS) mono,
  hash_injective O -> forall w0 ops c,
  In (Some c) (caches (exec O mono (init_state w0) ops)) ->
  exists p1 p2, ops = p1 ++ p2 /\
    c_last_checked c = K mono (st_world (exec O mono (init_state w0) p1)) /\
    src_matches O (c_source c) (env_of (w_tz (st_world (exec O mono (init_state w0) p1)))) /\
    c_zone c = zone_at O (st_world (exec O mono (init_state w0) p1)).
Proof. exact @stamp_invariant. Qed.
Print Assumptions C18_stamp_invariant.

(** ** No mixing *)
Theorem C18_one_zone_per_conversion : forall zone HASH ARG ANS (O : oracle zone HASH ARG ANS) mono
    (w : world zone) (c : @cache zone HASH) local d,
  exists z, snd (cache_offset O mono w c local d) = o_answer O z local d /\
            c_zone (fst (cache_offset O mono w c local d)) = z /\
            (z = c_zone c \/ z = zone_at O w).
Proof. exact @one_zone_per_conversion. Qed.
Print Assumptions C18_one_zone_per_conversion.

Theorem C18_no_mixing : forall zone HASH ARG ANS (O : oracle zone HASH ARG ANS) mono,
  hash_injective O -> forall w0 ops,
  Forall (fun a => exists v local d, In v (tz_values w0 ops) /\
                                     a = o_answer O (current_zone O w0 (env_of v)) local d)
         (answers O mono (init_state w0) ops).
Proof. exact @no_mixing. Qed.
Print Assumptions C18_no_mixing.

(** ** Freshness, for all histories: if TZ has kept its value through [quiet_ops] (any conversions,
    thread switches, clock steps, touches) and at least one second has passed meanwhile, the next
    conversion on whatever thread is running uses the zone the environment names.
    [time_ok]: time does not run backwards; with wall-clock stamps ([mono = false]) the wall clock
    must not be set back either. *)
Theorem C18_freshness : forall zone HASH ARG ANS (O : oracle zone HASH ARG ANS) mono,
  hash_injective O -> forall w0 pre quiet_ops local d,
  Forall (time_ok mono) (pre ++ quiet_ops) -> Forall keeps_tz quiet_ops ->
  NANOS_PER_SEC <= elapsed quiet_ops ->
  let s := exec O mono (init_state w0) (pre ++ quiet_ops) in
  snd (step O mono s (Convert local d)) = Some (o_answer O (zone_at O (st_world s)) local d).
Proof. exact @freshness. Qed.
Print Assumptions C18_freshness.

(* the tree under test: unconditional once its cache is stamped with the monotonic clock *)
Theorem C18_freshness_this_tree : forall zone HASH ARG ANS (O : oracle zone HASH ARG ANS),
  hash_injective O -> forall w0 pre quiet_ops local d,
  Forall (fun o => match o with
                   | Advance dt => 0 <= dt
                   | ClockStep dt => LC_CLOCK_MONOTONIC = true \/ 0 <= dt
                   | _ => True end) (pre ++ quiet_ops) ->
  Forall keeps_tz quiet_ops -> NANOS_PER_SEC <= elapsed quiet_ops ->
  let s := exec O LC_CLOCK_MONOTONIC (init_state w0) (pre ++ quiet_ops) in
  snd (step O LC_CLOCK_MONOTONIC s (Convert local d)) = Some (o_answer O (zone_at O (st_world s)) local d).
Proof. exact (fun zone HASH ARG ANS O => @freshness zone HASH ARG ANS O LC_CLOCK_MONOTONIC). Qed.
Print Assumptions C18_freshness_this_tree.

(* with wall-clock stamps the restriction on clock steps cannot be dropped (known finding
   C18-wall-clock-set-back): time only runs forward, TZ is quiet for 10.5 s, and still the old zone
   is used *)
Theorem C18_freshness_wall_clock_refuted :
  exists x pre qo local d,
    Forall (fun o => 0 <= dt_of o) (pre ++ qo) /\ Forall keeps_tz qo /\ NANOS_PER_SEC <= elapsed qo /\
    let s := exec (xoracle x) false (init_state (xinit x)) (pre ++ qo) in
    snd (step (xoracle x) false s (Convert local d)) <>
      Some (o_answer (xoracle x) (zone_at (xoracle x) (st_world s)) local d).
Proof. exact freshness_wall_clock_refuted. Qed.
Print Assumptions C18_freshness_wall_clock_refuted.

Theorem C18_backstep_monotonic_ok :
  let s := exec (xoracle demo_world) true (init_state (xinit demo_world)) (backstep_pre ++ backstep_quiet) in
  snd (step (xoracle demo_world) true s (Convert false noon)) = Some (VInt (-18000)).
Proof. exact backstep_monotonic_ok. Qed.
Print Assumptions C18_backstep_monotonic_ok.

(** ** Non-vacuity: the hypothesis on the hash is satisfiable, and a history in which the answers
    follow TZ: AAA-3 / changed 0.4 s ago: still +3 / a new thread: -5 at once / 1.1 s: -5 /
    file zone after 1 s / unset: 0.999999999 s later still the file, one ns later UTC *)
Example C18_hash_hypothesis_inhabited : forall x, hash_injective (xoracle x).
Proof. exact xoracle_hash_injective. Qed.
Print Assumptions C18_hash_hypothesis_inhabited.

Example C18_demo_history : forall mono,
  answers (xoracle demo_world) mono (init_state (xinit demo_world))
    [SetTZ B"AAA-3"; Convert false noon; SetTZ B"BBB+5"; Advance 400000000; Convert false noon; Spawn; Convert true noon; Join;
     Advance 700000000; Convert false noon; SetTZ B":/tmp/z"; Advance 1000000000; Convert false noon; UnsetTZ;
     Advance 999999999; Convert false noon; Advance 1; Convert false noon] =
  [VInt 10800; VInt 10800; VTup [VInt (-18000)]; VInt (-18000); VInt 3600; VInt 3600; VInt 0].
Proof. exact demo_answers. Qed.
Print Assumptions C18_demo_history.

(* the direction switch (instant lookup vs wall-clock lookup) in a zone with a transition *)
Example C18_demo_direction : forall mono,
  answers (xoracle demo_world) mono (init_state (xinit demo_world))
    [SetTZ B"/tmp/step"; Convert false (2000, 1, 1800); Convert true (2000, 1, 1800); Convert true (2000, 1, 7200);
     Convert true (2000, 1, 11640); Convert false (1999, 365, 86399)] =
  [VInt 11640; VTup [VInt 4380]; VTup []; VTup [VInt 11640]; VInt 4380].
Proof. exact demo_direction. Qed.
Print Assumptions C18_demo_direction.
