(** C18 — Local uses the zone the environment names, and notices changes.  Theorems only: each is
    closed by [exact] of a lemma of Proofs/C18.v and followed by [Print Assumptions].

    The subject is the state machine of Model/C18.v (transcription of src/offset/local/unix.rs,
    TimeZone::local/from_posix_tz/find_tz_file and the glue of src/offset/local/mod.rs): a world
    (TZ variable, wall clock, monotonic clock, mtime of /etc/localtime, file table), one optional
    cache per thread, operations SetTZ/UnsetTZ/Advance/ClockStep/Touch/Convert/Spawn/Join.
    Every theorem holds for ARBITRARY oracles [O] (what a file parses to, what a rule parses to, the
    hash, the system zone name, the lookup inside a zone) and, unless it says otherwise, for both
    choices [mono] of the clock that stamps the cache (Gen.LC_CLOCK_MONOTONIC tells which one the
    tree under test uses).  [exec O mono s ops] is the state after a history, [answers] its answers,
    [zone_at O w] the zone selected for the value TZ has in world [w], [K mono w] the reading of the
    stamping clock, [elapsed ops] the time that passed (sum of the Advance steps). *)
From Coq Require Import ZArith List Bool String.
From V Require Import Base.Int Base.IO Gen.LocalCache Model.C18 Proofs.C18 Proofs.C18Select Proofs.C18Ops.
Import ListNotations.
Open Scope Z_scope.

(** ** Selection: which source is used for each shape of TZ, and the fallback chain *)

(* TZ empty: UTC *)
Theorem C18_sel_empty : forall zone HASH ARG ANS (O : oracle zone HASH ARG ANS) w,
  from_posix_tz O w [] = Some (o_utc O).
Proof. exact @sel_empty. Qed.
Print Assumptions C18_sel_empty.

(* TZ unset (or not valid UTF-8, which env::var reports as absent): the file /etc/localtime *)
Theorem C18_sel_unset : forall zone HASH ARG ANS (O : oracle zone HASH ARG ANS) w,
  tz_local O w None = read_zone w LC_LOCALTIME_FILE.
Proof. exact @sel_unset. Qed.
Print Assumptions C18_sel_unset.

Theorem C18_sel_localtime_name : forall zone HASH ARG ANS (O : oracle zone HASH ARG ANS) w,
  from_posix_tz O w LC_LOCALTIME_NAME = read_zone w LC_LOCALTIME_FILE.
Proof. exact @sel_localtime_name. Qed.
Print Assumptions C18_sel_localtime_name.

(* what a name resolves to is well defined: an absolute path is itself, a relative one is the
   first of the zoneinfo directories (in the order of the source) that has it *)
Theorem C18_names_file : forall zone (w : world zone) name,
  names_file w name (find_tz_file w name) /\
  (forall a b, names_file w name a -> names_file w name b -> a = b).
Proof. exact @names_file_spec. Qed.
Print Assumptions C18_names_file.

(* leading colon: the rest must name a readable TZif file; it is never read as a rule *)
Theorem C18_sel_colon : forall zone HASH ARG ANS (O : oracle zone HASH ARG ANS) w rest res,
  names_file w rest res ->
  bytes_eqb (LC_FILE_PREFIX :: rest) LC_LOCALTIME_NAME = false ->
  from_posix_tz O w (LC_FILE_PREFIX :: rest) = match res with Some (Some z) => Some z | _ => None end.
Proof. exact @sel_colon. Qed.
Print Assumptions C18_sel_colon.

(* any other non-empty value: a file of that name wins, readable or not; only when no such file
   exists the blank-trimmed text is read as a POSIX rule *)
Theorem C18_sel_plain : forall zone HASH ARG ANS (O : oracle zone HASH ARG ANS) w c0 rest res,
  names_file w (c0 :: rest) res ->
  bytes_eqb (c0 :: rest) LC_LOCALTIME_NAME = false -> c0 <> LC_FILE_PREFIX ->
  from_posix_tz O w (c0 :: rest) =
    match res with
    | Some (Some z) => Some z
    | Some None => None
    | None => o_rule O (trim_ws (c0 :: rest))
    end.
Proof. exact @sel_plain. Qed.
Print Assumptions C18_sel_plain.

(* the chain: the named source; else the zoneinfo file of the system's zone name; else UTC *)
Theorem C18_sel_chain : forall zone HASH ARG ANS (O : oracle zone HASH ARG ANS) w var,
  current_zone O w var =
    match tz_local O w var with
    | Some z => z
    | None =>
        match o_iana O with
        | Some n => match w_files w (LC_TZDB_LOCATION ++ 47 :: n) with Some (Some z) => z | _ => o_utc O end
        | None => o_utc O
        end
    end.
Proof. exact @sel_chain. Qed.
Print Assumptions C18_sel_chain.

(* the selection depends on the file table and the value only (not on clocks, mtime, caches) *)
Theorem C18_sel_files_only : forall zone HASH ARG ANS (O : oracle zone HASH ARG ANS) (w w' : world zone) var,
  w_files w = w_files w' -> current_zone O w var = current_zone O w' var.
Proof. exact @current_zone_files. Qed.
Print Assumptions C18_sel_files_only.

(** ** New thread *)
Theorem C18_new_thread_fresh : forall zone HASH ARG ANS (O : oracle zone HASH ARG ANS) mono s local d,
  st_cur s = None ->
  snd (step O mono s (Convert local d)) = Some (o_answer O (zone_at O (st_world s)) local d).
Proof. exact @new_thread_fresh. Qed.
Print Assumptions C18_new_thread_fresh.

Theorem C18_spawn_then_convert : forall zone HASH ARG ANS (O : oracle zone HASH ARG ANS) mono s local d,
  snd (step O mono (fst (step O mono s Spawn)) (Convert local d)) =
    Some (o_answer O (zone_at O (st_world s)) local d).
Proof. exact @spawn_then_convert. Qed.
Print Assumptions C18_spawn_then_convert.

(** ** Invariants of the cache, for all histories *)

(* every cache holds the zone selected for ONE value TZ has taken, stamped with the source of that
   same value *)
Theorem C18_invariant : forall zone HASH ARG ANS (O : oracle zone HASH ARG ANS) mono,
  hash_injective O -> forall w0 ops,
  Forall (ogood O (fun v => In v (tz_values w0 ops)) w0)
         (st_cur (exec O mono (init_state w0) ops) :: st_stack (exec O mono (init_state w0) ops)).
Proof. exact @invariant. Qed.
Print Assumptions C18_invariant.

(* ... more precisely a snapshot: at some point of the history the stamping clock read
   c_last_checked, and the cache holds the source stamp and the zone of the value TZ had then *)
Theorem C18_stamp_invariant : forall zone HASH ARG ANS (O : oracle zone HASH ARG ANS) mono,
  hash_injective O -> forall w0 ops c,
  In (Some c) (caches (exec O mono (init_state w0) ops)) ->
  exists p1 p2, ops = p1 ++ p2 /\
    c_last_checked c = K mono (st_world (exec O mono (init_state w0) p1)) /\
    src_matches O (c_source c) (env_of (w_tz (st_world (exec O mono (init_state w0) p1)))) /\
    c_zone c = zone_at O (st_world (exec O mono (init_state w0) p1)).
Proof. exact @stamp_invariant. Qed.
Print Assumptions C18_stamp_invariant.

(** ** No mixing *)
Theorem C18_one_zone_per_conversion : forall zone HASH ARG ANS (O : oracle zone HASH ARG ANS) mono
    (w : world zone) (c : @cache zone HASH) local d,
  exists z, snd (cache_offset O mono w c local d) = o_answer O z local d /\
            c_zone (fst (cache_offset O mono w c local d)) = z /\
            (z = c_zone c \/ z = zone_at O w).
Proof. exact @one_zone_per_conversion. Qed.
Print Assumptions C18_one_zone_per_conversion.

Theorem C18_no_mixing : forall zone HASH ARG ANS (O : oracle zone HASH ARG ANS) mono,
  hash_injective O -> forall w0 ops,
  Forall (fun a => exists v local d, In v (tz_values w0 ops) /\
                                     a = o_answer O (current_zone O w0 (env_of v)) local d)
         (answers O mono (init_state w0) ops).
Proof. exact @no_mixing. Qed.
Print Assumptions C18_no_mixing.

(** ** Freshness, for all histories: if TZ has kept its value through [quiet_ops] (any conversions,
    thread switches, clock steps, touches) and at least one second has passed meanwhile, the next
    conversion on whatever thread is running uses the zone the environment names.
    [time_ok]: time does not run backwards; with wall-clock stamps ([mono = false]) the wall clock
    must not be set back either. *)
Theorem C18_freshness : forall zone HASH ARG ANS (O : oracle zone HASH ARG ANS) mono,
  hash_injective O -> forall w0 pre quiet_ops local d,
  Forall (time_ok mono) (pre ++ quiet_ops) -> Forall keeps_tz quiet_ops ->
  NANOS_PER_SEC <= elapsed quiet_ops ->
  let s := exec O mono (init_state w0) (pre ++ quiet_ops) in
  snd (step O mono s (Convert local d)) = Some (o_answer O (zone_at O (st_world s)) local d).
Proof. exact @freshness. Qed.
Print Assumptions C18_freshness.

(* the tree under test: unconditional once its cache is stamped with the monotonic clock *)
Theorem C18_freshness_this_tree : forall zone HASH ARG ANS (O : oracle zone HASH ARG ANS),
  hash_injective O -> forall w0 pre quiet_ops local d,
  Forall (fun o => match o with
                   | Advance dt => 0 <= dt
                   | ClockStep dt => LC_CLOCK_MONOTONIC = true \/ 0 <= dt
                   | _ => True end) (pre ++ quiet_ops) ->
  Forall keeps_tz quiet_ops -> NANOS_PER_SEC <= elapsed quiet_ops ->
  let s := exec O LC_CLOCK_MONOTONIC (init_state w0) (pre ++ quiet_ops) in
  snd (step O LC_CLOCK_MONOTONIC s (Convert local d)) = Some (o_answer O (zone_at O (st_world s)) local d).
Proof. exact (fun zone HASH ARG ANS O => @freshness zone HASH ARG ANS O LC_CLOCK_MONOTONIC). Qed.
Print Assumptions C18_freshness_this_tree.

(* with wall-clock stamps the restriction on clock steps cannot be dropped (known finding
   C18-wall-clock-set-back): time only runs forward, TZ is quiet for 10.5 s, and still the old zone
   is used *)
Theorem C18_freshness_wall_clock_refuted :
  exists x pre qo local d,
    Forall (fun o => 0 <= dt_of o) (pre ++ qo) /\ Forall keeps_tz qo /\ NANOS_PER_SEC <= elapsed qo /\
    let s := exec (xoracle x) false (init_state (xinit x)) (pre ++ qo) in
    snd (step (xoracle x) false s (Convert local d)) <>
      Some (o_answer (xoracle x) (zone_at (xoracle x) (st_world s)) local d).
Proof. exact freshness_wall_clock_refuted. Qed.
Print Assumptions C18_freshness_wall_clock_refuted.

Theorem C18_backstep_monotonic_ok :
  let s := exec (xoracle demo_world) true (init_state (xinit demo_world)) (backstep_pre ++ backstep_quiet) in
  snd (step (xoracle demo_world) true s (Convert false noon)) = Some (VInt (-18000)).
Proof. exact backstep_monotonic_ok. Qed.
Print Assumptions C18_backstep_monotonic_ok.

(** ** Non-vacuity: the hypothesis on the hash is satisfiable, and a history in which the answers
    follow TZ: AAA-3 / changed 0.4 s ago: still +3 / a new thread: -5 at once / 1.1 s: -5 /
    file zone after 1 s / unset: 0.999999999 s later still the file, one ns later UTC *)
Example C18_hash_hypothesis_inhabited : forall x, hash_injective (xoracle x).
Proof. exact xoracle_hash_injective. Qed.
Print Assumptions C18_hash_hypothesis_inhabited.

Example C18_demo_history : forall mono,
  answers (xoracle demo_world) mono (init_state (xinit demo_world))
    [SetTZ B"AAA-3"; Convert false noon; SetTZ B"BBB+5"; Advance 400000000; Convert false noon; Spawn; Convert true noon; Join;
     Advance 700000000; Convert false noon; SetTZ B":/tmp/z"; Advance 1000000000; Convert false noon; UnsetTZ;
     Advance 999999999; Convert false noon; Advance 1; Convert false noon] =
  [VInt 10800; VInt 10800; VTup [VInt (-18000)]; VInt (-18000); VInt 3600; VInt 3600; VInt 0].
Proof. exact demo_answers. Qed.
Print Assumptions C18_demo_history.

(* the direction switch (instant lookup vs wall-clock lookup) in a zone with a transition *)
Example C18_demo_direction : forall mono,
  answers (xoracle demo_world) mono (init_state (xinit demo_world))
    [SetTZ B"/tmp/step"; Convert false (2000, 1, 1800); Convert true (2000, 1, 1800); Convert true (2000, 1, 7200);
     Convert true (2000, 1, 11640); Convert false (1999, 365, 86399)] =
  [VInt 11640; VTup [VInt 4380]; VTup []; VTup [VInt 11640]; VInt 4380].
Proof. exact demo_direction. Qed.
Print Assumptions C18_demo_direction.

(** ** Selection in explicit form (Proofs/C18Select.v).
    [candidates name]: the paths a name stands for, in the order they are tried (the name itself when
    absolute, else dir/name for the zoneinfo directories of the source in their order);
    [opened w name]: the first candidate that opens; [shape_of var]: unset / empty / "localtime" /
    colon + rest / plain; [route O w sh]: what TimeZone::local answers for that shape (None = Err);
    [system_route O w]: fallback_timezone; [parsed f]: the zone of a file that opened and parsed. *)

(* the literals of the tree under test *)
Theorem C18_constants_this_tree :
  LC_ZONE_INFO_DIRECTORIES =
    [B"/usr/share/zoneinfo"; B"/share/zoneinfo"; B"/etc/zoneinfo"; B"/usr/share/lib/zoneinfo"] /\
  LC_TZDB_LOCATION = B"/usr/share/zoneinfo" /\
  LC_LOCALTIME_NAME = B"localtime" /\ LC_UNSET_NAME = B"localtime" /\
  LC_LOCALTIME_FILE = B"/etc/localtime" /\ LC_MTIME_FILE = B"/etc/localtime" /\
  [LC_FILE_PREFIX] = B":" /\ LC_ENV_NAME = B"TZ".
Proof. exact constants_this_tree. Qed.
Print Assumptions C18_constants_this_tree.

(* the file used is the candidate of LEAST index that opens (parsable or not) *)
Theorem C18_find_tz_file_least : forall zone (w : world zone) name f,
  find_tz_file w name = Some f <->
  exists i p, nth_error (candidates name) i = Some p /\ w_files w p = Some f /\
              forall j q, (j < i)%nat -> nth_error (candidates name) j = Some q -> w_files w q = None.
Proof. exact @find_tz_file_least. Qed.
Print Assumptions C18_find_tz_file_least.

(* nothing is found exactly when no candidate opens *)
Theorem C18_find_tz_file_none : forall zone (w : world zone) name,
  find_tz_file w name = None <-> forall p, In p (candidates name) -> w_files w p = None.
Proof. exact @find_tz_file_none. Qed.
Print Assumptions C18_find_tz_file_none.

(* absolute paths are opened directly *)
Theorem C18_find_tz_file_absolute : forall zone (w : world zone) p,
  candidates (47 :: p) = [47 :: p] /\ find_tz_file w (47 :: p) = w_files w (47 :: p).
Proof. exact (fun zone w p => conj (candidates_absolute p) (@find_tz_file_absolute zone w p)). Qed.
Print Assumptions C18_find_tz_file_absolute.

(* relative names: the four directories, in this order, first that opens *)
Theorem C18_find_tz_file_relative : forall zone (w : world zone) name, is_absolute name = false ->
  find_tz_file w name =
    first_some [w_files w (B"/usr/share/zoneinfo" ++ 47 :: name); w_files w (B"/share/zoneinfo" ++ 47 :: name);
                w_files w (B"/etc/zoneinfo" ++ 47 :: name); w_files w (B"/usr/share/lib/zoneinfo" ++ 47 :: name)].
Proof. exact @find_tz_file_relative. Qed.
Print Assumptions C18_find_tz_file_relative.

Theorem C18_is_absolute_spec : forall name, is_absolute name = true <-> exists p, name = 47 :: p.
Proof. exact is_absolute_spec. Qed.
Print Assumptions C18_is_absolute_spec.

(* the shapes partition the values of the variable *)
Theorem C18_shape_of_spec : forall var,
  match shape_of var with
  | ShUnset => var = None
  | ShEmpty => var = Some []
  | ShLocaltime => var = Some LC_LOCALTIME_NAME
  | ShColon rest => var = Some (LC_FILE_PREFIX :: rest)
  | ShPlain s => var = Some s /\ s <> [] /\ s <> LC_LOCALTIME_NAME /\ forall rest, s <> LC_FILE_PREFIX :: rest
  end.
Proof. exact shape_of_spec. Qed.
Print Assumptions C18_shape_of_spec.

Theorem C18_shape_of_complete :
  shape_of None = ShUnset /\ shape_of (Some []) = ShEmpty /\ shape_of (Some LC_LOCALTIME_NAME) = ShLocaltime /\
  (forall rest, shape_of (Some (LC_FILE_PREFIX :: rest)) = ShColon rest) /\
  (forall s, s <> [] -> s <> LC_LOCALTIME_NAME -> (forall rest, s <> LC_FILE_PREFIX :: rest) ->
             shape_of (Some s) = ShPlain s).
Proof. exact (conj shape_of_unset (conj shape_of_empty (conj shape_of_localtime (conj shape_of_colon shape_of_plain)))). Qed.
Print Assumptions C18_shape_of_complete.

(* TimeZone::local, for every value: the route of its shape *)
Theorem C18_tz_local_route : forall zone HASH ARG ANS (O : oracle zone HASH ARG ANS) (w : world zone) var,
  tz_local O w var =
    match shape_of var with
    | ShUnset => parsed (w_files w LC_LOCALTIME_FILE)
    | ShLocaltime => parsed (w_files w LC_LOCALTIME_FILE)
    | ShEmpty => Some (o_utc O)
    | ShColon rest => parsed (opened w rest)
    | ShPlain s => match opened w s with Some f => parsed (Some f) | None => o_rule O (trim_ws s) end
    end.
Proof. exact @tz_local_route. Qed.
Print Assumptions C18_tz_local_route.

(* ":" + absolute path: the colon is stripped and that file is opened directly *)
Theorem C18_route_colon_absolute : forall zone HASH ARG ANS (O : oracle zone HASH ARG ANS) (w : world zone) p,
  tz_local O w (Some (LC_FILE_PREFIX :: 47 :: p)) = parsed (w_files w (47 :: p)).
Proof. exact @route_colon_absolute. Qed.
Print Assumptions C18_route_colon_absolute.

(* ":" + relative name: first directory that has it; never read as a rule *)
Theorem C18_route_colon_relative : forall zone HASH ARG ANS (O : oracle zone HASH ARG ANS) (w : world zone) rest,
  is_absolute rest = false ->
  tz_local O w (Some (LC_FILE_PREFIX :: rest)) =
    parsed (first_some (map (fun d => w_files w (d ++ 47 :: rest)) LC_ZONE_INFO_DIRECTORIES)).
Proof. exact @route_colon_relative. Qed.
Print Assumptions C18_route_colon_relative.

Theorem C18_route_plain_absolute : forall zone HASH ARG ANS (O : oracle zone HASH ARG ANS) (w : world zone) p,
  tz_local O w (Some (47 :: p)) =
    match w_files w (47 :: p) with Some f => parsed (Some f) | None => o_rule O (trim_ws (47 :: p)) end.
Proof. exact @route_plain_absolute. Qed.
Print Assumptions C18_route_plain_absolute.

(* relative name: dir_i/name for the least i that opens; if none opens, the trimmed text as a POSIX rule *)
Theorem C18_route_plain_relative : forall zone HASH ARG ANS (O : oracle zone HASH ARG ANS) (w : world zone) s,
  shape_of (Some s) = ShPlain s -> is_absolute s = false ->
  tz_local O w (Some s) =
    match first_some (map (fun d => w_files w (d ++ 47 :: s)) LC_ZONE_INFO_DIRECTORIES) with
    | Some f => parsed (Some f)
    | None => o_rule O (trim_ws s)
    end.
Proof. exact @route_plain_relative. Qed.
Print Assumptions C18_route_plain_relative.

(* exactly when the TZ route fails *)
Theorem C18_route_fails_iff : forall zone HASH ARG ANS (O : oracle zone HASH ARG ANS) (w : world zone) sh,
  route O w sh = None <->
  match sh with
  | ShUnset | ShLocaltime => forall z, w_files w LC_LOCALTIME_FILE <> Some (Some z)
  | ShEmpty => False
  | ShColon rest => forall z, opened w rest <> Some (Some z)
  | ShPlain s => opened w s = Some None \/ (opened w s = None /\ o_rule O (trim_ws s) = None)
  end.
Proof. exact @route_fails_iff. Qed.
Print Assumptions C18_route_fails_iff.

(* exactly when the system zone route fails (it looks under TZDB_LOCATION only) *)
Theorem C18_system_route_fails_iff : forall zone HASH ARG ANS (O : oracle zone HASH ARG ANS) (w : world zone),
  fallback_timezone O w = system_route O w /\
  (system_route O w = None <->
   (o_iana O = None \/
    exists n, o_iana O = Some n /\ forall z, w_files w (LC_TZDB_LOCATION ++ 47 :: n) <> Some (Some z))).
Proof. exact (fun zone HASH ARG ANS O w => conj (fallback_system_route O w) (system_route_fails_iff O w)). Qed.
Print Assumptions C18_system_route_fails_iff.

(* THE CHAIN: zone chosen = first of [TZ route; system zone route] that succeeds, else UTC *)
Theorem C18_chain_first : forall zone HASH ARG ANS (O : oracle zone HASH ARG ANS) (w : world zone) var,
  current_zone O w var =
    match first_some [route O w (shape_of var); system_route O w] with Some z => z | None => o_utc O end.
Proof. exact @chain_first. Qed.
Print Assumptions C18_chain_first.

(* ... and which stage is taken (the failure conditions are C18_route_fails_iff / C18_system_route_fails_iff) *)
Theorem C18_chain_stages : forall zone HASH ARG ANS (O : oracle zone HASH ARG ANS) (w : world zone) var,
  (exists z, route O w (shape_of var) = Some z /\ current_zone O w var = z) \/
  (route O w (shape_of var) = None /\ exists z, system_route O w = Some z /\ current_zone O w var = z) \/
  (route O w (shape_of var) = None /\ system_route O w = None /\ current_zone O w var = o_utc O).
Proof. exact @chain_stages. Qed.
Print Assumptions C18_chain_stages.

(* a file of that name opens but does not parse: NOT tried as a rule, system zone *)
Theorem C18_unparsable_file_not_rule : forall zone HASH ARG ANS (O : oracle zone HASH ARG ANS) (w : world zone) s,
  shape_of (Some s) = ShPlain s -> opened w s = Some None ->
  current_zone O w (Some s) = match system_route O w with Some z => z | None => o_utc O end.
Proof. exact @unparsable_file_not_rule. Qed.
Print Assumptions C18_unparsable_file_not_rule.

Theorem C18_colon_failure_system : forall zone HASH ARG ANS (O : oracle zone HASH ARG ANS) (w : world zone) rest,
  (forall z, opened w rest <> Some (Some z)) ->
  current_zone O w (Some (LC_FILE_PREFIX :: rest)) = match system_route O w with Some z => z | None => o_utc O end.
Proof. exact @colon_failure_system. Qed.
Print Assumptions C18_colon_failure_system.

Theorem C18_garbage_system : forall zone HASH ARG ANS (O : oracle zone HASH ARG ANS) (w : world zone) s,
  shape_of (Some s) = ShPlain s -> opened w s = None -> o_rule O (trim_ws s) = None ->
  current_zone O w (Some s) = match system_route O w with Some z => z | None => o_utc O end.
Proof. exact @garbage_system. Qed.
Print Assumptions C18_garbage_system.

(* TZ="" is UTC whatever the files and the system zone are *)
Theorem C18_empty_is_utc : forall zone HASH ARG ANS (O : oracle zone HASH ARG ANS) (w : world zone),
  current_zone O w (Some []) = o_utc O.
Proof. exact @empty_is_utc. Qed.
Print Assumptions C18_empty_is_utc.

(* at the level of the raw variable *)
Theorem C18_zone_at_chain : forall zone HASH ARG ANS (O : oracle zone HASH ARG ANS) (w : world zone),
  zone_at O w = match first_some [route O w (shape_of (env_of (w_tz w))); system_route O w] with
                | Some z => z | None => o_utc O end.
Proof. exact @zone_at_chain. Qed.
Print Assumptions C18_zone_at_chain.

Theorem C18_zone_at_empty : forall zone HASH ARG ANS (O : oracle zone HASH ARG ANS) (w : world zone),
  w_tz w = Some [] -> zone_at O w = o_utc O.
Proof. exact @zone_at_empty. Qed.
Print Assumptions C18_zone_at_empty.

Theorem C18_zone_at_not_unicode : forall zone HASH ARG ANS (O : oracle zone HASH ARG ANS) (w : world zone) b,
  w_tz w = Some b -> utf8_valid b = false ->
  zone_at O w = current_zone O w None /\ shape_of (env_of (w_tz w)) = ShUnset.
Proof. exact @zone_at_not_unicode. Qed.
Print Assumptions C18_zone_at_not_unicode.

(* TZ unset: /etc/localtime, else the system zone file, else UTC *)
Theorem C18_zone_at_unset : forall zone HASH ARG ANS (O : oracle zone HASH ARG ANS) (w : world zone),
  w_tz w = None ->
  zone_at O w = match first_some [parsed (w_files w LC_LOCALTIME_FILE); system_route O w] with
                | Some z => z | None => o_utc O end.
Proof. exact @zone_at_unset. Qed.
Print Assumptions C18_zone_at_unset.

Example C18_selection_inhabited :
  sel_zone sel_world (Some B"Foo") = 3600 /\ sel_zone sel_world (Some B":Foo") = 3600 /\
  sel_zone sel_world (Some B"Bar") = -3600 /\
  sel_zone sel_world (Some B"/etc/zoneinfo/Foo") = 7200 /\ sel_zone sel_world (Some B":/etc/zoneinfo/Foo") = 7200 /\
  sel_zone sel_world (Some []) = 0 /\ sel_zone sel_world (Some B"localtime") = 32400 /\ sel_zone sel_world None = 32400 /\
  z_off (zone_at (xoracle sel_world) (set_tz (xinit sel_world) (Some [255; 254]))) = 32400 /\
  sel_zone sel_world (Some B"AAA-3") = 10800 /\ sel_zone sel_world (Some B" AAA-3 ") = 10800 /\
  sel_zone sel_world (Some B"Junk") = 18000 /\ sel_zone sel_world (Some B"/tmp/bad") = 18000 /\
  sel_zone sel_world (Some B":AAA-3") = 18000 /\ sel_zone sel_world (Some B"!!") = 18000 /\
  sel_zone sel_world_bare None = 0 /\ sel_zone sel_world_bare (Some B"!!") = 0 /\ sel_zone sel_world_bare (Some B"Foo") = 3600.
Proof. exact selection_inhabited. Qed.
Print Assumptions C18_selection_inhabited.

Example C18_shapes_inhabited :
  shape_of (Some B"Foo") = ShPlain B"Foo" /\ shape_of (Some B":Foo") = ShColon B"Foo" /\
  shape_of (Some B"localtime") = ShLocaltime /\ shape_of (Some B"") = ShEmpty /\
  shape_of (env_of (Some [255; 254])) = ShUnset /\
  opened (xinit sel_world) B"Junk" = Some None /\ opened (xinit sel_world) B"!!" = None /\
  system_route (xoracle sel_world) (xinit sel_world) = Some (zfixed 18000) /\
  system_route (xoracle sel_world_bare) (xinit sel_world_bare) = None.
Proof. exact shapes_inhabited. Qed.
Print Assumptions C18_shapes_inhabited.

(** ** The dispatcher, the steps of a history, the cache check written out (Proofs/C18Ops.v) *)

Theorem C18_dispatch : forall op args,
  run op args =
    if op_is op "lc.history" then
      match args with
      | [VTup steps; w; VTup times] =>
          match dec_world w, dec_steps steps, dec_times times with
          | Some x, Some s, Some t => history x s t
          | _, _, _ => VBad
          end
      | _ => VBad
      end
    else VErr B"NOOP".
Proof. exact dispatch. Qed.
Print Assumptions C18_dispatch.

Theorem C18_history_answers : forall x steps times,
  history x steps times =
    match ops_of steps times 0 0 with
    | Some ops => VTup (answers (xoracle x) LC_CLOCK_MONOTONIC (init_state (xinit x)) ops)
    | None => VBad
    end.
Proof. exact history_answers. Qed.
Print Assumptions C18_history_answers.

Theorem C18_xinit_world : forall x,
  w_tz (xinit x) = None /\ w_wall (xinit x) = 0 /\ w_mono (xinit x) = 0 /\ w_mtime (xinit x) = Some 0 /\
  forall p, w_files (xinit x) p = assoc p (x_files x).
Proof. exact xinit_world. Qed.
Print Assumptions C18_xinit_world.

(* harness steps -> operations: defined when there is one reading per step; the TZ changes,
   conversions and thread switches in order (sleep / skip / clock-step steps only show in the
   readings; no Touch is ever produced); at each conversion the world reads the measured clocks *)
Theorem C18_ops_of_defined : forall steps times wall mono,
  ops_of steps times wall mono <> None <-> List.length steps = List.length times.
Proof. exact ops_of_defined. Qed.
Print Assumptions C18_ops_of_defined.

Theorem C18_ops_of_skeleton : forall steps times wall mono ops,
  ops_of steps times wall mono = Some ops ->
  filter (fun o => negb (is_clock_op o)) ops = flat_map op_of_xstep steps.
Proof. exact ops_of_skeleton. Qed.
Print Assumptions C18_ops_of_skeleton.

Theorem C18_ops_of_clocks : forall HASH ANS (O : oracle xzone HASH (Z * Z * Z) ANS) mono steps times wall mn ops
    (s : @state xzone HASH),
  ops_of steps times wall mn = Some ops -> w_wall (st_world s) = wall -> w_mono (st_world s) = mn ->
  conv_clocks O mono s ops = conv_readings steps times.
Proof. exact ops_of_clocks. Qed.
Print Assumptions C18_ops_of_clocks.

(* every step kind: what it changes (world fields, caches of the threads, answer) *)
Theorem C18_step_effect : forall zone HASH ARG ANS (O : oracle zone HASH ARG ANS) mono (s : @state zone HASH) (o : op ARG),
  let w := st_world s in
  let s' := fst (step O mono s o) in
  let a := snd (step O mono s o) in
  w_files (st_world s') = w_files w /\
  match o with
  | SetTZ v => a = None /\ caches s' = caches s /\ world_fields (st_world s') = (Some v, w_wall w, w_mono w, w_mtime w)
  | UnsetTZ => a = None /\ caches s' = caches s /\ world_fields (st_world s') = (None, w_wall w, w_mono w, w_mtime w)
  | Advance dt => a = None /\ caches s' = caches s /\
                  world_fields (st_world s') = (w_tz w, w_wall w + dt, w_mono w + dt, w_mtime w)
  | ClockStep dt => a = None /\ caches s' = caches s /\
                    world_fields (st_world s') = (w_tz w, w_wall w + dt, w_mono w, w_mtime w)
  | Touch m => a = None /\ caches s' = caches s /\ world_fields (st_world s') = (w_tz w, w_wall w, w_mono w, m)
  | Convert local d =>
      let c' := cache_check O mono w (match st_cur s with Some c => c | None => cache_default O mono w end) in
      st_world s' = w /\ st_cur s' = Some c' /\ st_stack s' = st_stack s /\
      a = Some (o_answer O (c_zone c') local d)
  | Spawn => a = None /\ st_world s' = w /\ st_cur s' = None /\ st_stack s' = st_cur s :: st_stack s
  | Join => a = None /\ st_world s' = w /\
            caches s' = match st_stack s with [] => caches s | _ :: _ => st_stack s end
  end.
Proof. exact @step_effect. Qed.
Print Assumptions C18_step_effect.

(* a spawned thread, whatever it does, leaves the spawning thread's cache as it was *)
Theorem C18_spawn_join : forall zone HASH ARG ANS (O : oracle zone HASH ARG ANS) mono (s : @state zone HASH) (mid : list (op ARG)),
  Forall (fun o => match o with Spawn | Join => False | _ => True end) mid ->
  let s' := exec O mono s (Spawn :: mid ++ [Join]) in
  st_cur s' = st_cur s /\ st_stack s' = st_stack s.
Proof. exact @spawn_join. Qed.
Print Assumptions C18_spawn_join.

Theorem C18_join_nothing : forall zone HASH ARG ANS (O : oracle zone HASH ARG ANS) mono (s : @state zone HASH),
  st_stack s = [] -> fst (step O mono s (@Join ARG)) = s.
Proof. exact @join_nothing. Qed.
Print Assumptions C18_join_nothing.

(* the reuse window: stamp not in the future of the stamping clock and less than 1 s old *)
Theorem C18_cache_check_spec : forall zone HASH ARG ANS (O : oracle zone HASH ARG ANS) mono (w : world zone) (c : @cache zone HASH),
  cache_check O mono w c =
    if (c_last_checked c <=? K mono w) && (K mono w - c_last_checked c <? NANOS_PER_SEC) then c
    else cache_refresh O mono w c.
Proof. exact @cache_check_spec. Qed.
Print Assumptions C18_cache_check_spec.

(* Source::new: TZ set (valid UTF-8) -> hash of the value; else mtime of /etc/localtime (wall clock
   when unavailable) *)
Theorem C18_source_of_world : forall zone HASH ARG ANS (O : oracle zone HASH ARG ANS) (w : world zone),
  source_new O w (env_var w LC_ENV_NAME) =
    match env_of (w_tz w) with
    | Some b => Environment (o_hash O b)
    | None => LocalTime (mtime_stamp w)
    end.
Proof. exact @source_of_world. Qed.
Print Assumptions C18_source_of_world.

Theorem C18_cache_refresh_spec : forall zone HASH ARG ANS (O : oracle zone HASH ARG ANS) mono (w : world zone) (c : @cache zone HASH),
  cache_refresh O mono w c =
    {| c_zone :=
         match c_source c, env_of (w_tz w) with
         | LocalTime m0, None => if m0 =? mtime_stamp w then c_zone c else zone_at O w
         | Environment h, Some b => if o_hash_eqb O h (o_hash O b) then c_zone c else zone_at O w
         | LocalTime _, Some _ => zone_at O w
         | Environment _, None => zone_at O w
         end;
       c_source := match env_of (w_tz w) with
                   | Some b => Environment (o_hash O b)
                   | None => LocalTime (mtime_stamp w)
                   end;
       c_last_checked := K mono w |}.
Proof. exact @cache_refresh_spec. Qed.
Print Assumptions C18_cache_refresh_spec.

(** TZ unset: Source::LocalTime and the mtime-based refresh *)
Theorem C18_default_unset : forall zone HASH ARG ANS (O : oracle zone HASH ARG ANS) mono (w : world zone),
  env_of (w_tz w) = None ->
  cache_default O mono w =
    {| c_zone := current_zone O w None; c_source := LocalTime (mtime_stamp w); c_last_checked := K mono w |}.
Proof. exact @default_unset. Qed.
Print Assumptions C18_default_unset.

Theorem C18_unset_convert : forall zone HASH ARG ANS (O : oracle zone HASH ARG ANS) mono (w : world zone)
    (c : @cache zone HASH) m0 local d,
  c_source c = LocalTime m0 -> env_of (w_tz w) = None ->
  cache_offset O mono w c local d =
    if (c_last_checked c <=? K mono w) && (K mono w - c_last_checked c <? NANOS_PER_SEC)
    then (c, o_answer O (c_zone c) local d)
    else let z := if m0 =? mtime_stamp w then c_zone c else current_zone O w None in
         ({| c_zone := z; c_source := LocalTime (mtime_stamp w); c_last_checked := K mono w |}, o_answer O z local d).
Proof. exact @unset_convert. Qed.
Print Assumptions C18_unset_convert.

(* two worlds (file table, mtime and clocks may all differ): /etc/localtime is read again exactly
   when its mtime stamp changed *)
Theorem C18_localtime_replaced : forall zone HASH ARG ANS (O : oracle zone HASH ARG ANS) mono (w1 w2 : world zone) local d,
  env_of (w_tz w1) = None -> env_of (w_tz w2) = None -> K mono w1 + NANOS_PER_SEC <= K mono w2 ->
  snd (cache_offset O mono w2 (cache_default O mono w1) local d) =
    o_answer O (if mtime_stamp w1 =? mtime_stamp w2 then current_zone O w1 None else current_zone O w2 None) local d.
Proof. exact @localtime_replaced. Qed.
Print Assumptions C18_localtime_replaced.

Theorem C18_touch_noticed : forall zone HASH ARG ANS (O : oracle zone HASH ARG ANS) mono (s : @state zone HASH)
    (c : @cache zone HASH) m0 m1 local d,
  st_cur s = Some c -> c_source c = LocalTime m0 -> env_of (w_tz (st_world s)) = None ->
  w_mtime (st_world s) = Some m1 -> c_last_checked c + NANOS_PER_SEC <= K mono (st_world s) ->
  st_cur (fst (step O mono s (Convert local d))) =
    Some {| c_zone := if m0 =? m1 then c_zone c else current_zone O (st_world s) None;
            c_source := LocalTime m1; c_last_checked := K mono (st_world s) |}.
Proof. exact @touch_noticed. Qed.
Print Assumptions C18_touch_noticed.

Theorem C18_switch_selects_again : forall zone HASH ARG ANS (O : oracle zone HASH ARG ANS) mono (w : world zone) (c : @cache zone HASH),
  (match c_source c, env_of (w_tz w) with
   | LocalTime _, Some _ | Environment _, None => True | _, _ => False end) ->
  c_zone (cache_refresh O mono w c) = zone_at O w.
Proof. exact @switch_selects_again. Qed.
Print Assumptions C18_switch_selects_again.

Example C18_touch_inhabited : forall mono,
  let stamp ops := option_map (fun c => (c_source c, c_last_checked c))
                              (st_cur (exec (xoracle demo_world) mono (init_state (xinit demo_world)) ops)) in
  stamp [Convert false noon] = Some (LocalTime 0, 0) /\
  stamp (firstn 4 touch_history) = Some (LocalTime 0, 0) /\
  stamp touch_history = Some (LocalTime 5, 1000000000) /\
  answers (xoracle demo_world) mono (init_state (xinit demo_world)) touch_history = [VInt 0; VInt 0; VInt 0].
Proof. exact touch_inhabited. Qed.
Print Assumptions C18_touch_inhabited.

Example C18_dispatch_inhabited :
  run B"lc.history"
    [VTup [VTup [VInt 0; VStr B"AAA-3"]; VTup [VInt 3; VInt 0; VTup [VInt 2020; VInt 100; VInt 43200; VInt 0]];
           VTup [VInt 0; VStr B""]; VTup [VInt 6; VInt 1000];
           VTup [VInt 3; VInt 1; VTup [VInt 2020; VInt 100; VInt 43200; VInt 0]]];
     VTup [VTup []; VTup [VTup [VStr B"AAA-3"; VInt 10800]]; VNone];
     VTup [VTup [VInt 0; VInt 0; VInt 0; VInt 0]; VTup [VInt 5; VInt 5; VInt 6; VInt 6]; VTup [VInt 7; VInt 7; VInt 8; VInt 8];
           VTup [VInt 9; VInt 9; VInt 1000000009; VInt 1000000009]; VTup [VInt 1000000010; VInt 1000000010; VInt 1000000011; VInt 1000000011]]]
  = VTup [VInt 10800; VTup [VInt 0]] /\
  run B"lc.nothing" [] = VErr B"NOOP" /\ run B"lc.history" [] = VBad.
Proof. exact dispatch_inhabited. Qed.
Print Assumptions C18_dispatch_inhabited.

(** ** End to end: state machine + explicit chain *)
Theorem C18_freshness_chain : forall zone HASH ARG ANS (O : oracle zone HASH ARG ANS) mono,
  hash_injective O -> forall w0 pre quiet_ops local d,
  Forall (time_ok mono) (pre ++ quiet_ops) -> Forall keeps_tz quiet_ops ->
  NANOS_PER_SEC <= elapsed quiet_ops ->
  let s := exec O mono (init_state w0) (pre ++ quiet_ops) in
  snd (step O mono s (Convert local d)) =
    Some (o_answer O (match first_some [route O (st_world s) (shape_of (env_of (w_tz (st_world s))));
                                        system_route O (st_world s)] with
                      | Some z => z | None => o_utc O end) local d).
Proof. exact freshness_chain. Qed.
Print Assumptions C18_freshness_chain.

Theorem C18_new_thread_chain : forall zone HASH ARG ANS (O : oracle zone HASH ARG ANS) mono (s : @state zone HASH) local d,
  st_cur s = None ->
  snd (step O mono s (Convert local d)) =
    Some (o_answer O (match first_some [route O (st_world s) (shape_of (env_of (w_tz (st_world s))));
                                        system_route O (st_world s)] with
                      | Some z => z | None => o_utc O end) local d).
Proof. exact new_thread_chain. Qed.
Print Assumptions C18_new_thread_chain.
