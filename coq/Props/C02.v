From Coq Require Import ZArith List Bool.
From V Require Import Base.Int Base.IO Model.DateTime Model.C02 Proofs.C02.
Open Scope Z_scope.
Theorem C02_naive_timestamp : forall a, naive_timestamp a = dt_timestamp a.
Proof. exact naive_timestamp_eq. Qed.
Print Assumptions C02_naive_timestamp.
