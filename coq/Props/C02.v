(** C02 — Unix timestamps and UTC date-times correspond one-to-one.
    Property theorems only: each is closed by [exact] of a lemma of Proofs/C02.v and followed by
    [Print Assumptions].

    Vocabulary (Proofs/C02.v): a model date-time [a : ndt] is [valid_ndt] when its date is produced by
    the checked constructor ([valid_date]), 0 <= second of day < 86400 and 0 <= nanosecond field < 2*10^9;
    [nonleap a] = nanosecond field < 10^9.  Its position on the time axis is read through the calendar
    *specification* Spec/Gregorian.v (not through the model):
      secs_of a = unix_secs (dn_of_yo year ordinal) (second of day)     seconds since 1970-01-01T00:00:00Z
      instant a = secs_of a * 10^9 + nanosecond field                    nanoseconds since the epoch.
    [SEC_MIN, SEC_MAX] = [-8334601228800, 8210266876799] and [NS_MIN, NS_MAX] are the first and last
    instants of the years -262143 ..= 262142, computed from the specification.

    CALENDAR FACTS.  Proofs/C02.v and Proofs/C02Holds.v prove every theorem inside a Section whose
    hypotheses are four statements about Model/Date.v that belong to property C01
    ([date_facts] = C01_from_days /\ C01_num_days /\ C01_days_back, and [C01_fields]); Proofs/C02Date.v
    discharges them from the shared calendar library (Proofs/Date.v: from_num_days_from_ce_opt_spec,
    num_days_from_ce_spec, date_of_dn_repr, from_num_days_from_ce_opt_dn, repr_dn_in_range; C08Date:
    from_yo_opt_spec, repr_acc), see [C02_calendar_facts_discharged].  All theorems below are therefore
    unconditional. *)
From Coq Require Import String ZArith List Bool.
From V Require Import Base.Int Base.IO Spec.Gregorian Gen.DateTimeConsts Gen.TsConsts Gen.TimeDelta.
From V Require Model.Date Model.Time.
From V Require Judge.C02.
From V Require Import Model.DateTime Model.C02 Proofs.C02 Proofs.C02Holds Proofs.C02Date Proofs.C02All.
Import ListNotations.
Open Scope Z_scope.

(** the numeric literals of the Rust functions, re-read from /repo on every run, are the ones the
    model and the proofs use (a changed literal breaks this obligation) *)
Theorem C02_source_literals :
  [TS_DAY_SECS; TS_MS_MUL; TS_US_MUL; TS_NS_BORROW; TS_NS_MUL; TS_SUB_MS_DIV; TS_SUB_US_DIV;
   TS_FROM_MS_DIV; TS_FROM_MS_REM; TS_FROM_MS_MUL; TS_FROM_US_DIV; TS_FROM_US_REM; TS_FROM_US_MUL;
   TS_FROM_NS_DIV; TS_FROM_NS_REM; TS_SYS_NS; TS_NAIVE_US_DIV; TS_NAIVE_US_REM; TS_NAIVE_US_MUL;
   UNIX_EPOCH_DAY; DT_SECS_PER_DAY; TD_NANOS_PER_SEC]
  = [86400; 1000; 1000000; 1000000000; 1000000000; 1000000; 1000;
     1000; 1000; 1000000; 1000000; 1000000; 1000;
     1000000000; 1000000000; 1000000000; 1000000; 1000000; 1000;
     EPOCH_DN; 86400; 1000000000].
Proof. exact ts_literals. Qed.
Print Assumptions C02_source_literals.

(** the calendar facts the proofs rest on hold (discharged from Proofs/Date.v) *)
Theorem C02_calendar_facts_discharged : date_facts /\ C01_fields.
Proof. exact calendar_facts. Qed.
Print Assumptions C02_calendar_facts_discharged.

(** * Construction: for ALL secs : i64 and nsecs : u32 *)
(* never panics; Some(the date-time that far from the epoch) or None, None exactly when the count is
   outside the range or the nanosecond field is invalid (>= 10^9 unless < 2*10^9 on a second = 59 mod 60) *)
Theorem C02_from_timestamp_spec :
  forall secs nsecs, in_i64 secs = true -> in_u32 nsecs = true ->
  exists r, dt_from_timestamp secs nsecs = Val r /\
    match r with
    | Some a => valid_ndt a /\ secs_of a = secs /\ dfrac a = nsecs /\ (nsecs < G \/ (nsecs < 2 * G /\ secs mod 60 = 59))
    | None => ~ (SEC_MIN <= secs <= SEC_MAX /\ (nsecs < G \/ (nsecs < 2 * G /\ secs mod 60 = 59)))
    end.
Proof. exact u_from_timestamp_spec. Qed.
Print Assumptions C02_from_timestamp_spec.

(* milliseconds / microseconds: for ALL i64; the result is the non-leap date-time whose instant is
   exactly the count (hence the fields floor toward negative infinity); None exactly out of range *)
Theorem C02_from_timestamp_millis_spec :
  forall ms, in_i64 ms = true ->
  exists r, dt_from_timestamp_millis ms = Val r /\
    match r with
    | Some a => valid_ndt a /\ nonleap a /\ instant a = ms * 1000000
    | None => ~ (NS_MIN <= ms * 1000000 <= NS_MAX)
    end.
Proof. exact u_from_timestamp_millis_spec. Qed.
Print Assumptions C02_from_timestamp_millis_spec.
Theorem C02_from_timestamp_micros_spec :
  forall us, in_i64 us = true ->
  exists r, dt_from_timestamp_micros us = Val r /\
    match r with
    | Some a => valid_ndt a /\ nonleap a /\ instant a = us * 1000
    | None => ~ (NS_MIN <= us * 1000 <= NS_MAX)
    end.
Proof. exact u_from_timestamp_micros_spec. Qed.
Print Assumptions C02_from_timestamp_micros_spec.
(* nanoseconds: total on i64 — the [expect] never fires *)
Theorem C02_from_timestamp_nanos_total :
  forall ns, in_i64 ns = true ->
  exists a, dt_from_timestamp_nanos ns = Val a /\ valid_ndt a /\ nonleap a /\ instant a = ns.
Proof. exact u_from_timestamp_nanos_spec. Qed.
Print Assumptions C02_from_timestamp_nanos_total.

(** * Accessors on every valid date-time *)
Theorem C02_timestamp :
  forall a, valid_ndt a -> dt_timestamp a = Val (secs_of a).
Proof. exact u_timestamp_spec. Qed.
Print Assumptions C02_timestamp.
(* no i64 overflow in timestamp_millis / timestamp_micros anywhere in the range (leap-second values included) *)
Theorem C02_timestamp_millis_no_overflow :
  forall a, valid_ndt a -> dt_timestamp_millis a = Val (secs_of a * 1000 + dfrac a / 1000000).
Proof. exact u_timestamp_millis_val. Qed.
Print Assumptions C02_timestamp_millis_no_overflow.
Theorem C02_timestamp_micros_no_overflow :
  forall a, valid_ndt a -> dt_timestamp_micros a = Val (secs_of a * 1000000 + dfrac a / 1000).
Proof. exact u_timestamp_micros_val. Qed.
Print Assumptions C02_timestamp_micros_no_overflow.
(* non-leap values: floor of the instant in each unit *)
Theorem C02_timestamp_floor :
  forall a, valid_ndt a -> nonleap a -> dt_timestamp a = Val (instant a / G).
Proof. exact u_timestamp_floor. Qed.
Print Assumptions C02_timestamp_floor.
Theorem C02_timestamp_millis_floor :
  forall a, valid_ndt a -> nonleap a -> dt_timestamp_millis a = Val (instant a / 1000000).
Proof. exact u_timestamp_millis_floor. Qed.
Print Assumptions C02_timestamp_millis_floor.
Theorem C02_timestamp_micros_floor :
  forall a, valid_ndt a -> nonleap a -> dt_timestamp_micros a = Val (instant a / 1000).
Proof. exact u_timestamp_micros_floor. Qed.
Print Assumptions C02_timestamp_micros_floor.
Theorem C02_timestamp_subsec : forall a, valid_ndt a ->
  dt_subsec_nanos a = dfrac a /\ dt_subsec_micros a = dfrac a / 1000 /\ dt_subsec_millis a = dfrac a / 1000000.
Proof. exact subsec_spec. Qed.
Print Assumptions C02_timestamp_subsec.
(* nanosecond accessor: the exact count, None exactly when it does not fit i64; never panics (the
   re-association of the negative branch is covered: the statement is over all valid non-leap values) *)
Theorem C02_timestamp_nanos_opt_spec :
  forall a, valid_ndt a -> nonleap a ->
  dt_timestamp_nanos_opt a = Val (if in_i64 (instant a) then Some (instant a) else None).
Proof. exact u_timestamp_nanos_opt_spec. Qed.
Print Assumptions C02_timestamp_nanos_opt_spec.
(* the same on the leap-second values from_timestamp can produce (second 59), reading the count as
   timestamp * 10^9 + subsec_nanos like timestamp_millis / _micros do *)
Theorem C02_timestamp_nanos_opt_leap59 :
  forall a, valid_ndt a -> dsecs a mod 60 = 59 ->
  dt_timestamp_nanos_opt a = Val (if in_i64 (instant a) then Some (instant a) else None).
Proof. exact u_timestamp_nanos_opt_leap59. Qed.
Print Assumptions C02_timestamp_nanos_opt_leap59.
(* observation (outside the property's domain): a leap-second fraction on a second other than 59 --
   reachable through with_second/with_nanosecond only -- just below the i64 window reports None although
   timestamp * 10^9 + subsec_nanos fits: 1677-09-21T00:12:42 + 1_999_999_999 ns *)
Theorem C02_timestamp_nanos_opt_leap_gap_observation :
  let a := mk_ndt 13742219 (Time.mk_time 762 1999999999) in
  Date.from_yo_opt 1677 264 = Val (Some 13742219) /\ dt_timestamp a = Val (-9223372038) /\
  in_i64 (-9223372038 * G + 1999999999) = true /\ dt_timestamp_nanos_opt a = Val None /\
  dt_timestamp_micros a = Val (-9223372036000001).
Proof. exact nanos_opt_leap_gap. Qed.
Print Assumptions C02_timestamp_nanos_opt_leap_gap_observation.
Theorem C02_timestamp_nanos_spec :
  forall a, valid_ndt a -> nonleap a ->
  dt_timestamp_nanos a = if in_i64 (instant a) then Val (instant a) else Panic.
Proof. exact u_timestamp_nanos_spec. Qed.
Print Assumptions C02_timestamp_nanos_spec.

(** * Round trips, both directions, all four units *)
(* count -> date-time -> count *)
Theorem C02_roundtrip_secs :
  forall secs nsecs a, in_i64 secs = true -> in_u32 nsecs = true ->
  dt_from_timestamp secs nsecs = Val (Some a) ->
  dt_timestamp a = Val secs /\ dt_subsec_nanos a = nsecs.
Proof. exact u_roundtrip_secs. Qed.
Print Assumptions C02_roundtrip_secs.
Theorem C02_roundtrip_millis :
  forall ms a, in_i64 ms = true -> dt_from_timestamp_millis ms = Val (Some a) -> dt_timestamp_millis a = Val ms.
Proof. exact u_roundtrip_millis. Qed.
Print Assumptions C02_roundtrip_millis.
Theorem C02_roundtrip_micros :
  forall us a, in_i64 us = true -> dt_from_timestamp_micros us = Val (Some a) -> dt_timestamp_micros a = Val us.
Proof. exact u_roundtrip_micros. Qed.
Print Assumptions C02_roundtrip_micros.
Theorem C02_roundtrip_nanos :
  forall ns, in_i64 ns = true ->
  exists a, dt_from_timestamp_nanos ns = Val a /\ dt_timestamp_nanos_opt a = Val (Some ns).
Proof. exact u_roundtrip_nanos. Qed.
Print Assumptions C02_roundtrip_nanos.
(* date-time -> count -> date-time: seconds + nanosecond field give back the value itself (also for a
   leap-second value on a second 59); milliseconds / microseconds give back the value truncated to the unit *)
Theorem C02_back_secs :
  forall a, valid_ndt a -> (nonleap a \/ dsecs a mod 60 = 59) ->
  exists s, dt_timestamp a = Val s /\ dt_from_timestamp s (dt_subsec_nanos a) = Val (Some a).
Proof. exact u_back_secs. Qed.
Print Assumptions C02_back_secs.
Theorem C02_back_millis :
  forall a, valid_ndt a -> nonleap a ->
  exists ms, dt_timestamp_millis a = Val ms /\
    dt_from_timestamp_millis ms = Val (Some (with_frac a (dfrac a - dfrac a mod 1000000))).
Proof. exact u_back_millis. Qed.
Print Assumptions C02_back_millis.
Theorem C02_back_micros :
  forall a, valid_ndt a -> nonleap a ->
  exists us, dt_timestamp_micros a = Val us /\
    dt_from_timestamp_micros us = Val (Some (with_frac a (dfrac a - dfrac a mod 1000))).
Proof. exact u_back_micros. Qed.
Print Assumptions C02_back_micros.
Theorem C02_back_nanos :
  forall a ns, valid_ndt a -> nonleap a ->
  dt_timestamp_nanos_opt a = Val (Some ns) -> dt_from_timestamp_nanos ns = Val a.
Proof. exact u_back_nanos. Qed.
Print Assumptions C02_back_nanos.
(* one-to-one: distinct valid non-leap date-times have distinct instants *)
Theorem C02_instant_injective :
  forall a b, valid_ndt a -> valid_ndt b -> nonleap a -> nonleap b -> instant a = instant b -> a = b.
Proof. exact u_instant_inj. Qed.
Print Assumptions C02_instant_injective.

(** * Zone-generic and NaiveDateTime wrappers: the same function up to attaching the offset *)
Theorem C02_tz_timestamp_opt : forall off secs nsecs,
  tz_timestamp_opt off secs nsecs = rmap (lift_off off) (dt_from_timestamp secs nsecs).
Proof. exact tz_opt_eq. Qed.
Print Assumptions C02_tz_timestamp_opt.
Theorem C02_tz_timestamp_millis_opt : forall off ms,
  tz_timestamp_millis_opt off ms = rmap (lift_off off) (dt_from_timestamp_millis ms).
Proof. exact tz_millis_eq. Qed.
Print Assumptions C02_tz_timestamp_millis_opt.
Theorem C02_tz_timestamp_micros : forall off us,
  tz_timestamp_micros off us = rmap (lift_off off) (dt_from_timestamp_micros us).
Proof. exact tz_micros_eq. Qed.
Print Assumptions C02_tz_timestamp_micros.
Theorem C02_tz_timestamp_nanos : forall off ns,
  tz_timestamp_nanos off ns = rmap (fun u => mk_dtz u off) (dt_from_timestamp_nanos ns).
Proof. exact tz_nanos_eq. Qed.
Print Assumptions C02_tz_timestamp_nanos.
Theorem C02_tz_timestamp_panicking : forall off secs nsecs,
  tz_timestamp off secs nsecs = rmap (fun u => mk_dtz u off) (unwrap_r (dt_from_timestamp secs nsecs)).
Proof. exact tz_timestamp_eq. Qed.
Print Assumptions C02_tz_timestamp_panicking.
Theorem C02_tz_timestamp_millis_panicking : forall off ms,
  tz_timestamp_millis off ms = rmap (fun u => mk_dtz u off) (unwrap_r (dt_from_timestamp_millis ms)).
Proof. exact tz_timestamp_millis_eq. Qed.
Print Assumptions C02_tz_timestamp_millis_panicking.
Theorem C02_naive_from_timestamp_opt : forall secs nsecs,
  naive_from_timestamp_opt secs nsecs = dt_from_timestamp secs nsecs.
Proof. exact naive_opt_eq. Qed.
Print Assumptions C02_naive_from_timestamp_opt.
Theorem C02_naive_from_timestamp_millis : forall ms, naive_from_timestamp_millis ms = dt_from_timestamp_millis ms.
Proof. exact naive_millis_eq. Qed.
Print Assumptions C02_naive_from_timestamp_millis.
Theorem C02_naive_from_timestamp_micros : forall us, naive_from_timestamp_micros us = dt_from_timestamp_micros us.
Proof. exact naive_micros_eq. Qed.
Print Assumptions C02_naive_from_timestamp_micros.
(* the Option-returning nanosecond wrapper agrees with the total one unless [from_timestamp] refuses,
   which C02_from_timestamp_nanos_total excludes for every i64 *)
Theorem C02_naive_from_timestamp_nanos : forall ns,
  naive_from_timestamp_nanos ns = rmap Some (dt_from_timestamp_nanos ns) \/
  (exists s n, dt_from_timestamp s n = Val None /\ naive_from_timestamp_nanos ns = Val None /\ dt_from_timestamp_nanos ns = Panic).
Proof. exact naive_nanos_eq. Qed.
Print Assumptions C02_naive_from_timestamp_nanos.

(** * SystemTime (over the model of std's Unix timespec; partial in that sense: the platform
      representation is modelled, not verified) *)
(* From<SystemTime>: for the triple (before_epoch?, secs, nanos) that duration_since(UNIX_EPOCH) reports,
   the result is the UTC date-time with exactly that instant; a panic exactly when no such date-time exists *)
Theorem C02_from_systime_partial :
  forall before ds dn, 0 <= ds <= i64_max -> 0 <= dn < G ->
  let t := sys_ns before ds dn in
  (NS_MIN <= t <= NS_MAX ->
     exists a, dt_from_systime before ds dn = Val (mk_dtz a 0) /\ valid_ndt a /\ nonleap a /\ instant a = t) /\
  (~ (NS_MIN <= t <= NS_MAX) -> dt_from_systime before ds dn = Panic).
Proof. exact u_from_systime_spec. Qed.
Print Assumptions C02_from_systime_partial.
(* From<DateTime<Tz>>: never panics, the timespec (s, n) is normalised and s*10^9 + n is the instant,
   whatever the offset *)
Theorem C02_systime_from_dt_partial :
  forall z, valid_ndt (dz_utc z) ->
  exists s n, systime_from_dt z = Val (s, n) /\ 0 <= n < G /\ s * G + n = instant (dz_utc z).
Proof. exact u_systime_from_dt_spec. Qed.
Print Assumptions C02_systime_from_dt_partial.
Theorem C02_duration_since_epoch : forall s n, 0 <= n < G ->
  let '(b, ds, dn) := st_since_epoch (s, n) in
  0 <= ds /\ 0 <= dn < G /\ sys_ns b ds dn = s * G + n /\ (b = true -> 0 < ds * G + dn).
Proof. exact st_since_epoch_spec. Qed.
Print Assumptions C02_duration_since_epoch.

(** * The executable property (Judge/C02.v, the oracle applied to the implementation's outputs)
      accepts the model's output on every in-domain case of the constructor and accessor operations.
      (closing the loop implementation ~ model |= judge on these operations) *)
Theorem C02_holds_from :
  forall secs nsecs, in_i64 secs = true -> in_u32 nsecs = true ->
  Judge.C02.judge B"ts.from" [VInt secs; VInt nsecs] (run B"ts.from" [VInt secs; VInt nsecs]) = JOk.
Proof. exact u_holds_from. Qed.
Print Assumptions C02_holds_from.
Theorem C02_holds_fromms :
  forall x, in_i64 x = true -> Judge.C02.judge B"ts.fromms" [VInt x] (run B"ts.fromms" [VInt x]) = JOk.
Proof. exact u_holds_fromms. Qed.
Print Assumptions C02_holds_fromms.
Theorem C02_holds_fromus :
  forall x, in_i64 x = true -> Judge.C02.judge B"ts.fromus" [VInt x] (run B"ts.fromus" [VInt x]) = JOk.
Proof. exact u_holds_fromus. Qed.
Print Assumptions C02_holds_fromus.
Theorem C02_holds_fromns :
  forall x, in_i64 x = true -> Judge.C02.judge B"ts.fromns" [VInt x] (run B"ts.fromns" [VInt x]) = JOk.
Proof. exact u_holds_fromns. Qed.
Print Assumptions C02_holds_fromns.
Theorem C02_holds_of :
  forall a, valid_ndt a -> nonleap a ->
  Judge.C02.judge B"ts.of" [enc_ndt a] (run B"ts.of" [enc_ndt a]) = JOk.
Proof. exact u_holds_of. Qed.
Print Assumptions C02_holds_of.

(** * The constants (op ts.consts): DateTime::<Utc>::UNIX_EPOCH / NaiveDateTime::UNIX_EPOCH is
      1970-01-01T00:00:00 (the date the checked constructor returns for (1970, 1, 1), time 00:00:00), the
      instant 0 with timestamp 0; MIN_UTC / NaiveDateTime::MIN and MAX_UTC / NaiveDateTime::MAX are valid
      non-leap values whose instants are exactly the first and last nanosecond of the supported years
      (NS_MIN / NS_MAX of Spec/Gregorian.v), with timestamps SEC_MIN / SEC_MAX ... *)
Theorem C02_consts :
  Date.from_ymd_opt 1970 1 1 = Val (Some D_EPOCH) /\
  (valid_ndt NDT_EPOCH /\ nonleap NDT_EPOCH /\ instant NDT_EPOCH = 0 /\ dt_timestamp NDT_EPOCH = Val 0) /\
  (valid_ndt NDT_MIN /\ nonleap NDT_MIN /\ instant NDT_MIN = NS_MIN /\ dt_timestamp NDT_MIN = Val SEC_MIN) /\
  (valid_ndt NDT_MAX /\ nonleap NDT_MAX /\ instant NDT_MAX = NS_MAX /\ dt_timestamp NDT_MAX = Val SEC_MAX).
Proof. exact consts_spec. Qed.
Print Assumptions C02_consts.
(* ... and they are the extreme values: every valid date-time lies between them (second counts for every
   value; instants for the non-leap ones - the leap-second readings of the last second are the only values
   the derived order puts after MAX) *)
Theorem C02_consts_extreme : forall a, valid_ndt a ->
  secs_of NDT_MIN <= secs_of a <= secs_of NDT_MAX /\
  (nonleap a -> instant NDT_MIN <= instant a <= instant NDT_MAX).
Proof. exact consts_extreme. Qed.
Print Assumptions C02_consts_extreme.
(* the observation the op reports: the three constants in both types (offset 0 on the DateTime<Utc> ones)
   and the timestamps of the epoch and of the two ends *)
Theorem C02_consts_observation :
  ts_consts = Val (VTup [enc_dtz (mk_dtz NDT_EPOCH 0); VInt 0; enc_ndt NDT_EPOCH;
                         enc_dtz (mk_dtz NDT_MIN 0); enc_dtz (mk_dtz NDT_MAX 0);
                         enc_ndt NDT_MIN; enc_ndt NDT_MAX; VInt SEC_MIN; VInt SEC_MAX]).
Proof. exact ts_consts_val. Qed.
Print Assumptions C02_consts_observation.

(** * The [Default] impls (op ts.defaults): NaiveDate::default() is the date the checked constructor returns for
      (1970, 1, 1), NaiveTime::default() is 00:00:00, NaiveDateTime::default() is the epoch value NDT_EPOCH of
      C02_consts (valid, non-leap, instant 0, timestamp 0), DateTime::<Utc>::default() and
      DateTime::<FixedOffset>::default() are that value with offset 0; none of them panics. *)
Theorem C02_defaults :
  date_default = Val D_EPOCH /\ time_default = Val T_MIN /\ ndt_default = Val NDT_EPOCH /\
  dtz_default_utc = Val (mk_dtz NDT_EPOCH 0) /\ dtz_default_fixed = Val (mk_dtz NDT_EPOCH 0).
Proof. exact defaults_spec. Qed.
Print Assumptions C02_defaults.
(* the observation the op reports: the five values and the timestamps (0) of the two zoned ones *)
Theorem C02_defaults_observation :
  ts_defaults = Val (VTup [enc_date D_EPOCH; Time.enc_time T_MIN; enc_ndt NDT_EPOCH;
                           enc_dtz (mk_dtz NDT_EPOCH 0); enc_dtz (mk_dtz NDT_EPOCH 0); VInt 0; VInt 0]).
Proof. exact ts_defaults_val. Qed.
Print Assumptions C02_defaults_observation.

(** * The accessor observation of op ts.of / ts.naive_of, as a value: on a non-leap value all seven readings
      are functions of the instant; on a leap-second value (any second) nothing panics and the documented
      pair (timestamp, subsec_nanos) and the sub-second quotients are as stated *)
Theorem C02_accessors_observation : forall a, valid_ndt a -> nonleap a ->
  ts_acc a = Val (VTup [VInt (instant a / G); VInt (instant a / 1000000); VInt (instant a / 1000);
     val_of_option VInt (if in_i64 (instant a) then Some (instant a) else None);
     VInt (dfrac a / 1000000); VInt (dfrac a / 1000); VInt (dfrac a)]).
Proof. exact ts_acc_nonleap. Qed.
Print Assumptions C02_accessors_observation.
Theorem C02_accessors_observation_leap : forall a, valid_ndt a -> exists x1 x2 x3,
  ts_acc a = Val (VTup [VInt (secs_of a); x1; x2; x3;
                        VInt (dfrac a / 1000000); VInt (dfrac a / 1000); VInt (dfrac a)]).
Proof. exact ts_acc_any. Qed.
Print Assumptions C02_accessors_observation_leap.
(* timestamp_nanos_opt never panics, whatever the value (the leap-second gap of the observation above
   yields None, not a panic) *)
Theorem C02_timestamp_nanos_opt_total : forall a, valid_ndt a -> exists r, dt_timestamp_nanos_opt a = Val r.
Proof. exact nanos_opt_total. Qed.
Print Assumptions C02_timestamp_nanos_opt_total.

(** * C02_holds: on EVERY case line - all 28 ops of the dispatcher (constructors in the four reporting
      styles Option / panic / MappedLocalTime / DateTime<Tz>, accessors incl. leap-second values, the round
      trips in both directions, the deprecated NaiveDateTime wrappers, both SystemTime conversions, the
      constants, the Default impls), arbitrary argument lists - whenever the judge of Judge/C02.v has an opinion (the case is
      in the property's domain) it accepts the model's output.  Supersedes the per-op forms
      C02_holds_from .. C02_holds_of above (kept under their names). *)
Theorem C02_holds : forall op args,
  Judge.C02.judge op args (run op args) <> JSkip -> Judge.C02.judge op args (run op args) = JOk.
Proof. exact Proofs.C02All.C02_holds. Qed.
Print Assumptions C02_holds.
Example C02_holds_inhabited :
  Judge.C02.judge B"ts.tz" [VInt 3600; VInt 1431648000; VInt 0] (run B"ts.tz" [VInt 3600; VInt 1431648000; VInt 0]) = JOk /\
  Judge.C02.judge B"ts.back" [VTup [VInt 2015; VInt 135; VInt 59; VInt 1500000000]]
     (run B"ts.back" [VTup [VInt 2015; VInt 135; VInt 59; VInt 1500000000]]) = JOk /\
  Judge.C02.judge B"ts.systime" [VInt 1; VInt 5; VInt 1] (run B"ts.systime" [VInt 1; VInt 5; VInt 1]) = JOk /\
  Judge.C02.judge B"ts.tosys" [VTup [VInt 1969; VInt 365; VInt 86399; VInt 5; VInt (-3600)]]
     (run B"ts.tosys" [VTup [VInt 1969; VInt 365; VInt 86399; VInt 5; VInt (-3600)]]) = JOk /\
  Judge.C02.judge B"ts.naive_ofns" [VTup [VInt 262142; VInt 365; VInt 86399; VInt 999999999]]
     (run B"ts.naive_ofns" [VTup [VInt 262142; VInt 365; VInt 86399; VInt 999999999]]) = JOk.
Proof. exact holds_examples. Qed.
Print Assumptions C02_holds_inhabited.

(** * The hypotheses are inhabited by a non-trivial value (computed, independent of the calendar library) *)
Example C02_example_2015 : exists a, dt_from_timestamp 1431648000 0 = Val (Some a) /\
  valid_ndt a /\ nonleap a /\ instant a = 1431648000 * G /\ dt_timestamp_nanos_opt a = Val (Some (1431648000 * G)).
Proof. exact example_valid. Qed.
Print Assumptions C02_example_2015.
