(** C13 — Parsing with a format string inverts formatting with it.
    Property theorems only: each is closed by [exact] of a lemma from Proofs/C13.v and followed by
    [Print Assumptions].  The reader is the line-by-line model Model/Parse.v of
    src/format/parse.rs [parse_internal]; [parse_item relaxed p s it] is one iteration of its loop on
    item [it] with field record [p] and remaining input [s] ([relaxed] = the callee of the RFC3339 arm). *)
From Coq Require Import ZArith List Bool.
From V Require Import Base.Int Base.IO Base.Utf8 Model.Scan Model.Items Model.Parse Proofs.Utf8 Proofs.Scan Proofs.C13.
From V Require Model.Parsed.
Import ListNotations.
Open Scope Z_scope.

(* literal text is consumed exactly, whatever follows *)
Theorem C13_literal_inverse : forall relaxed p l rest, starts_ok rest = true ->
  parse_item relaxed p (l ++ rest) (Literal l) = pok (p, rest).
Proof. exact parse_literal_inverse. Qed.
Print Assumptions C13_literal_inverse.

(* white space in the format accepts any amount of (ASCII) white space in the text *)
Theorem C13_space_inverse : forall relaxed p fmt_ws ws rest,
  ascii_ws ws -> first_cp_fails is_whitespace rest ->
  parse_item relaxed p (ws ++ rest) (Space fmt_ws) = pok (p, rest).
Proof. exact parse_space_inverse. Qed.
Print Assumptions C13_space_inverse.

(* an unsigned numeric field: padding, then at most [width] digits, follow condition when shorter *)
Theorem C13_numeric_unsigned_inverse : forall p spec width code pad ds rest,
  numeric_entry spec = Some (width, false, code) ->
  ascii_ws pad ->
  forallb is_ascii_digit ds = true -> 1 <= blen ds <= width ->
  (blen ds < width -> not_digit_start rest = true) ->
  utf8_valid rest = true -> digits_value ds 0 <= i64_max ->
  parse_numeric p (pad ++ ds ++ rest) spec =
  (let+ p' := set_by_code code p (digits_value ds 0) in pok (p', rest)).
Proof. exact parse_numeric_unsigned. Qed.
Print Assumptions C13_numeric_unsigned_inverse.

(* a signed field printed with its sign *)
Theorem C13_numeric_signed_inverse : forall p spec width code pad (neg : bool) ds rest,
  numeric_entry spec = Some (width, true, code) ->
  ascii_ws pad ->
  forallb is_ascii_digit ds = true -> 1 <= blen ds <= u64_max ->
  not_digit_start rest = true ->
  utf8_valid rest = true -> digits_value ds 0 <= i64_max ->
  parse_numeric p (pad ++ (if neg then 45 else 43) :: ds ++ rest) spec =
  (let+ p' := set_by_code code p (if neg then - digits_value ds 0 else digits_value ds 0) in pok (p', rest)).
Proof. exact parse_numeric_signed. Qed.
Print Assumptions C13_numeric_signed_inverse.
