(** C13 — Parsing with a format string inverts formatting with it.
    Theorem-only file: each statement is closed by [exact] of a lemma of Proofs/C13*.v and followed
    by [Print Assumptions].

    Vocabulary.  The reader is Model/Parse.v, the line-by-line model of src/format/parse.rs:
    [parse_item relaxed p s it] is one iteration of parse_internal's loop on item [it] with field
    record [p] and remaining input [s]; [parse_items] the loop, [parse] / [parse_and_remainder] the
    two public entry points over an item list.  The formatter is Model/Format.v ([format_item],
    [write_items]).  [PR] is a ParseResult that may also trap; [pok]/[perr_] its values.
    [write] is the field write an item performs ([W_code c v] = the setter number [c] of the
    reader's Numeric table applied to [v], [W_weekday], [W_ampm], [W_none]); [run_writes] performs a
    list of writes in order through the real setters of Model/Parsed.v.
    [item_reads relaxed it t rest e]: for every field record, item [it] applied to [t ++ rest]
    consumes exactly [t] and has effect [e].
    [reads_b it t rest] is the computable recogniser "text [t] is a rendering of [it] that the reader
    takes back exactly in front of [rest]" (padding, sign, digits and the width / follow condition
    for numeric items; names in any letter case; AM/PM; the fraction forms; +hhmm / +hh:mm);
    [unambiguous_b] chains it over an item list, [unambiguous_ws_b] additionally lets white space of
    the format take the space padding of the next field, [family_member a items tail] renders every
    item of [items] for the value [a] with the formatter and runs [unambiguous_ws_b]. *)
From Coq Require Import ZArith List Bool.
From V Require Import Base.Int Base.IO Base.Utf8 Model.Scan Model.Items Model.Parse
  Proofs.Utf8 Proofs.Scan Proofs.C13 Proofs.C13Reads Proofs.C13Fmt Proofs.C13Examples Proofs.C13Names Proofs.C13Digits Proofs.C13Safe Proofs.C13Time Proofs.C13Date Proofs.C13OneWay Proofs.C13View Proofs.C13DateTime Proofs.C13DateForms Proofs.C13TimeForms Proofs.C13Zoned Proofs.C13General Proofs.C13Static Proofs.C13ZonedGeneral.
From V Require Model.Parsed Model.Format Model.Strftime Model.Time Model.DateTime Spec.StrftimeDoc Spec.Gregorian Proofs.C12 Proofs.C14.
Import ListNotations.
Open Scope Z_scope.

(** ** item_inverse, item kind by item kind *)
(* literal text is consumed exactly, whatever follows; a literal that is not there is refused *)
Theorem C13_literal_inverse : forall relaxed p l rest, starts_ok rest = true ->
  parse_item relaxed p (l ++ rest) (Literal l) = pok (p, rest).
Proof. exact parse_literal_inverse. Qed.
Print Assumptions C13_literal_inverse.

Theorem C13_literal_mismatch_refused : forall relaxed p l s,
  strip_prefix l s = None -> exists e, parse_item relaxed p s (Literal l) = perr_ e.
Proof. exact parse_literal_mismatch. Qed.
Print Assumptions C13_literal_mismatch_refused.

(* white space in the format accepts any amount of (ASCII) white space in the text: surplus white
   space wherever the format has white space *)
Theorem C13_space_inverse : forall relaxed p fmt_ws ws rest,
  ascii_ws ws -> first_cp_fails is_whitespace rest ->
  parse_item relaxed p (ws ++ rest) (Space fmt_ws) = pok (p, rest).
Proof. exact parse_space_inverse. Qed.
Print Assumptions C13_space_inverse.

(* a numeric field printed without a sign: any padding modifier (none / zeros are digits / spaces),
   at most [width] digits, and when fewer are printed the rest must not start with a digit *)
Theorem C13_numeric_nosign_inverse : forall p spec width (signed : bool) code pad ds rest,
  numeric_entry spec = Some (width, signed, code) ->
  ascii_ws pad ->
  forallb is_ascii_digit ds = true -> 1 <= blen ds <= width ->
  (blen ds < width -> not_digit_start rest = true) ->
  utf8_valid rest = true -> digits_value ds 0 <= i64_max ->
  parse_numeric p (pad ++ ds ++ rest) spec =
  (let+ p' := set_by_code code p (digits_value ds 0) in pok (p', rest)).
Proof. exact parse_numeric_nosign. Qed.
Print Assumptions C13_numeric_nosign_inverse.

(* a signed field (year, ISO year, timestamp) printed with its sign: signed and five-digit years *)
Theorem C13_numeric_signed_inverse : forall p spec width code pad (neg : bool) ds rest,
  numeric_entry spec = Some (width, true, code) ->
  ascii_ws pad ->
  forallb is_ascii_digit ds = true -> 1 <= blen ds <= u64_max ->
  not_digit_start rest = true ->
  utf8_valid rest = true -> digits_value ds 0 <= i64_max ->
  parse_numeric p (pad ++ (if neg then 45 else 43) :: ds ++ rest) spec =
  (let+ p' := set_by_code code p (if neg then - digits_value ds 0 else digits_value ds 0) in pok (p', rest)).
Proof. exact parse_numeric_signed. Qed.
Print Assumptions C13_numeric_signed_inverse.

(* the reader's width / sign / setter table, entry by entry (regenerated from parse.rs on every run);
   the Timestamp entry is signed: the repaired code *)
Theorem C13_numeric_table : forall spec, numeric_entry spec = Some (numeric_table_expected spec).
Proof. exact numeric_table. Qed.
Print Assumptions C13_numeric_table.

(* %s reads back the negative timestamps it prints (refuted on the code before /repo f453be6,
   where the entry was unsigned and "-1" gave Err(Invalid)) *)
Theorem C13_timestamp_negative_inverse : forall p pad ds rest,
  ascii_ws pad -> forallb is_ascii_digit ds = true -> 1 <= blen ds <= u64_max ->
  not_digit_start rest = true -> utf8_valid rest = true -> digits_value ds 0 <= i64_max ->
  parse_numeric p (pad ++ 45 :: ds ++ rest) N_Timestamp =
  (let+ p' := setq (Model.Parsed.set_timestamp p (- digits_value ds 0)) in pok (p', rest)).
Proof. exact timestamp_negative_inverse. Qed.
Print Assumptions C13_timestamp_negative_inverse.

Example C13_timestamp_minus_one :
  parse Model.Parsed.parsed_new [45; 49] [INumeric N_Timestamp PadNone] =
  setq (Model.Parsed.set_timestamp Model.Parsed.parsed_new (-1)).
Proof. exact timestamp_minus_one. Qed.
Print Assumptions C13_timestamp_minus_one.

(* the two printed offset forms +hhmm and +hh:mm, for every flag combination of the offset items *)
Theorem C13_offset_inverse : forall sg h1 h2 sep m1 m2 rest az am ams,
  (sg = 43 \/ sg = 45) -> (sep = [] \/ sep = [58]) ->
  is_ascii_digit h1 = true -> is_ascii_digit h2 = true ->
  48 <= m1 <= 53 -> is_ascii_digit m2 = true -> utf8_valid rest = true ->
  timezone_offset (sg :: h1 :: h2 :: sep ++ m1 :: m2 :: rest) colon_or_space az am ams =
  pok (rest, off_value (sg =? 45) h1 h2 m1 m2).
Proof. exact timezone_offset_printed. Qed.
Print Assumptions C13_offset_inverse.

(* item_inverse for every invertible item kind at once: whatever [reads_b] accepts, the reader
   consumes exactly and performs exactly the recognised write (Literal, Space, every Numeric item
   signed or not, short / long month and weekday names in any case, AM/PM in any case, %.f %.3f
   %.6f %.9f, %3f %6f %9f, %z %:z and the other offset items) *)
Theorem C13_item_inverse : forall relaxed it t rest w,
  reads_b it t rest = Some w -> item_reads relaxed it t rest (eff_of w).
Proof. exact reads_b_sound. Qed.
Print Assumptions C13_item_inverse.

(** ** names in any letter case: every case variant of a printed month name, weekday name or
    AM/PM marker (default locale tables, regenerated from locales.rs) is recognised, hence read back
    exactly (C13_item_inverse) *)
Theorem C13_long_month_any_case : forall m0 t rest, 0 <= m0 < 12 ->
  case_variant t (month_name true m0) -> starts_ok rest = true ->
  reads_b (IFixed F_LongMonthName) t rest = Some (W_code 7 (m0 + 1)).
Proof. exact long_month_any_case. Qed.
Print Assumptions C13_long_month_any_case.
Theorem C13_short_month_any_case : forall m0 t rest, 0 <= m0 < 12 ->
  case_variant t (month_name false m0) -> starts_ok rest = true ->
  reads_b (IFixed F_ShortMonthName) t rest = Some (W_code 7 (m0 + 1)).
Proof. exact short_month_any_case. Qed.
Print Assumptions C13_short_month_any_case.
Theorem C13_long_weekday_any_case : forall wd t rest, 0 <= wd < 7 ->
  case_variant t (weekday_name true wd) -> starts_ok rest = true ->
  reads_b (IFixed F_LongWeekdayName) t rest = Some (W_weekday wd).
Proof. exact long_weekday_any_case. Qed.
Print Assumptions C13_long_weekday_any_case.
Theorem C13_short_weekday_any_case : forall wd t rest, 0 <= wd < 7 ->
  case_variant t (weekday_name false wd) -> starts_ok rest = true ->
  reads_b (IFixed F_ShortWeekdayName) t rest = Some (W_weekday wd).
Proof. exact short_weekday_any_case. Qed.
Print Assumptions C13_short_weekday_any_case.
Theorem C13_ampm_any_case : forall (pm lower : bool) t rest,
  case_variant t (ampm_name pm) -> starts_ok rest = true ->
  reads_b (IFixed (if lower then F_LowerAmPm else F_UpperAmPm)) t rest = Some (W_ampm (if pm then 1 else 0)).
Proof. exact ampm_any_case. Qed.
Print Assumptions C13_ampm_any_case.
Example C13_case_variant_example :
  case_variant [115; 69; 80; 116; 69; 109; 66; 101; 82] (month_name true 8) /\
  case_variant [112; 109] (ampm_name true).
Proof. exact case_variant_example. Qed.
Print Assumptions C13_case_variant_example.

(** ** every padding modifier: the documented rendering of a numeric field ([pad_num] of
    Spec/StrftimeDoc.v, which C12 proves the formatter prints) is recognised with its value *)
Theorem C13_decimal_digits : forall n, 0 <= n -> digit_string (dec_nonneg n) n.
Proof. exact dec_nonneg_digits. Qed.
Print Assumptions C13_decimal_digits.

Theorem C13_pad_num_unsigned_reads : forall spec width (signed : bool) code p w v rest,
  numeric_entry spec = Some (width, signed, code) ->
  0 <= v -> 0 <= w <= width -> 1 <= width -> v < 10 ^ width -> v <= i64_max ->
  utf8_valid rest = true ->
  (not_digit_start rest = true \/
   (match p with StrftimeDoc.DZero => Z.max w (blen (dec_nonneg v)) | _ => blen (dec_nonneg v) end) = width) ->
  reads_numeric spec (StrftimeDoc.pad_num p w false v) rest = Some (W_code code v).
Proof. exact pad_num_unsigned_reads. Qed.
Print Assumptions C13_pad_num_unsigned_reads.

(* signed and five-digit years: "+12345", "-0001", "   -5" *)
Theorem C13_pad_num_signed_reads : forall spec width code p w v rest,
  numeric_entry spec = Some (width, true, code) ->
  0 <= w <= 1000 -> Z.abs v <= i64_max ->
  not_digit_start rest = true -> utf8_valid rest = true ->
  reads_numeric spec (StrftimeDoc.pad_num p w true v) rest = Some (W_code code v).
Proof. exact pad_num_signed_reads. Qed.
Print Assumptions C13_pad_num_signed_reads.

(** ** composition: the decision procedure is sound for the whole loop *)
Theorem C13_unambiguous_sound : forall relaxed l tail ws, unambiguous_b l tail = Some ws ->
  forall p, parse_items relaxed p (text_of l ++ tail) (map fst l) =
            (let+ p' := run_writes ws p in pok (p', tail)).
Proof. exact unambiguous_sound. Qed.
Print Assumptions C13_unambiguous_sound.

Theorem C13_unambiguous_ws_sound : forall relaxed l tail ws, unambiguous_ws_b l tail = Some ws ->
  forall p, parse_items relaxed p (text_of l ++ tail) (map fst l) =
            (let+ p' := run_writes ws p in pok (p', tail)).
Proof. exact unambiguous_ws_sound. Qed.
Print Assumptions C13_unambiguous_ws_sound.

(** ** format_parse_roundtrip.  PARTIAL: the statement goes from the formatter's output to the
    field record the reader builds ([run_writes ws p], the recognised writes applied through the
    real setters).  Missing for the full statement `= Ok (trunc_to_precision items v)`:
    (i) that the recognised writes carry the fields of the value (C12's render_item_spec gives the
    printed numbers; not linked here), (ii) that Parsed resolution of those fields returns the value
    (C14's resolve_complete), (iii) RFC2822 / RFC3339 / TimezoneName items are not recognised by
    [reads_b].  Both links are made, at full strength, for two sub-families below: NaiveTime with
    "%H:%M:%S" (C13_time_hms_roundtrip) and NaiveDate with "%Y-%m-%d" (C13_date_ymd_roundtrip, through
    C14's completeness theorem).  The end-to-end statement is checked by computation on boundary values
    (C13_roundtrips_hold) and by the correspondence run with the independent judge. *)
Theorem C13_format_parse_roundtrip_partial : forall a items texts ws p,
  Forall2 (renders a) items texts ->
  unambiguous_ws_b (combine items texts) [] = Some ws ->
  Model.Format.write_items a items [] = Model.Format.fok (List.concat texts) /\
  parse p (List.concat texts) items = run_writes ws p.
Proof. exact format_parse_partial. Qed.
Print Assumptions C13_format_parse_roundtrip_partial.

Theorem C13_format_parse_remainder_partial : forall a items texts tail ws p,
  Forall2 (renders a) items texts ->
  unambiguous_ws_b (combine items texts) tail = Some ws ->
  parse_and_remainder p (List.concat texts ++ tail) items = (let+ p' := run_writes ws p in pok (p', tail)).
Proof. exact format_parse_remainder_partial. Qed.
Print Assumptions C13_format_parse_remainder_partial.

(** ** format_parse_roundtrip at FULL strength for a sub-family in which every numeric item is
    followed by a literal: NaiveTime with "%H:%M:%S" / %T / %X.  For EVERY time of day, leap seconds
    included, parsing the formatted text returns the value truncated to whole seconds with the
    leap-second flag kept -- through formatter, reader and field resolution; first over the item
    list, then over the format strings (lazily driven StrftimeItems, as parse_from_str does). *)
Theorem C13_time_hms_roundtrip : forall t, valid_time t ->
  exists text,
    Model.Format.write_items (Model.Format.fa_of_time t) Gen.Strftime.SF_T_FMT [] = Model.Format.fok text /\
    (let+ p := parse Model.Parsed.parsed_new text Gen.Strftime.SF_T_FMT in pr_of (Model.Parsed.to_naive_time p))
    = pok (trunc_secs t).
Proof. exact time_hms_roundtrip. Qed.
Print Assumptions C13_time_hms_roundtrip.

Theorem C13_time_hms_parse_from_str : forall t fmt, valid_time t -> In fmt hms_formats ->
  exists text,
    Model.Format.delayed_display (Model.Format.fa_of_time t) (Model.Strftime.sf_new fmt) = Model.Format.fok text /\
    time_parse_from_str text fmt = pok (trunc_secs t).
Proof. exact time_hms_parse_from_str. Qed.
Print Assumptions C13_time_hms_parse_from_str.

Example C13_time_hms_roundtrip_inhabited :
  valid_time (Model.Time.mk_time 86399 1999999999) /\ valid_time (Model.Time.mk_time 2094 26490000).
Proof. exact time_hms_roundtrip_inhabited. Qed.
Print Assumptions C13_time_hms_roundtrip_inhabited.

(** ** format_parse_roundtrip at FULL strength for the date-only family "%Y-%m-%d" / %F, linked to
    C14's field-resolution theorems (completeness of to_naive_date, premise-free since the ISO-week
    facts are proved): for EVERY NaiveDate -- every year -262143..=262142, with the explicit sign the
    formatter prints outside 0..=9999 -- parsing the formatted text returns the date itself, through
    formatter, reader and field resolution.  [repr y o d]: d is the packed word of the valid (year,
    ordinal) in range (Proofs/C08Sweeps.v). *)
Theorem C13_date_ymd_roundtrip : forall y o d, Proofs.C08Sweeps.repr y o d ->
  exists text,
    Model.Format.write_items (Model.Format.fa_of_date d) YMD_FMT [] = Model.Format.fok text /\
    (let+ p := parse Model.Parsed.parsed_new text YMD_FMT in pr_of (Model.Parsed.to_naive_date p)) = pok d.
Proof. exact date_ymd_roundtrip. Qed.
Print Assumptions C13_date_ymd_roundtrip.

Theorem C13_date_ymd_parse_from_str : forall y o d fmt, Proofs.C08Sweeps.repr y o d -> In fmt ymd_formats ->
  exists text,
    Model.Format.delayed_display (Model.Format.fa_of_date d) (Model.Strftime.sf_new fmt) = Model.Format.fok text /\
    date_parse_from_str text fmt = pok d.
Proof. exact date_ymd_parse_from_str. Qed.
Print Assumptions C13_date_ymd_parse_from_str.

Example C13_date_ymd_roundtrip_inhabited :
  Proofs.C08Sweeps.repr 2014 365 (Proofs.C08Sweeps.mkdate 2014 365) /\
  Proofs.C08Sweeps.repr (-262143) 1 (Proofs.C08Sweeps.mkdate (-262143) 1) /\
  Proofs.C08Sweeps.repr 262142 365 (Proofs.C08Sweeps.mkdate 262142 365).
Proof. exact date_ymd_roundtrip_inhabited. Qed.
Print Assumptions C13_date_ymd_roundtrip_inhabited.

(** ** format_parse_roundtrip END TO END for NaiveDateTime with "%Y-%m-%dT%H:%M:%S" and
    "%Y-%m-%d %H:%M:%S" (item lists [NDT_T_FMT] / [NDT_SP_FMT]; also spelled %FT%T / %F %T): for EVERY
    in-range date and EVERY time of day, leap second on :59 included, parsing the formatted text
    returns the value truncated to whole seconds (leap flag kept) -- through formatter, reader and
    Parsed::to_naive_datetime_with_offset (date by C14's completeness theorem, time by C14's
    to_naive_time completeness, the timestamp cross-check by the calendar lemmas). *)
Theorem C13_ndt_roundtrip : forall y o v items,
  Proofs.C08Sweeps.repr y o (Model.DateTime.nd_date v) -> valid_time (Model.DateTime.nd_time v) ->
  In items [NDT_T_FMT; NDT_SP_FMT] ->
  exists text,
    Model.Format.write_items (Model.Format.fa_of_ndt v) items [] = Model.Format.fok text /\
    (let+ p := parse Model.Parsed.parsed_new text items in
     pr_of (Model.Parsed.to_naive_datetime_with_offset p 0)) = pok (trunc_ndt v).
Proof. exact ndt_roundtrip. Qed.
Print Assumptions C13_ndt_roundtrip.

Theorem C13_ndt_parse_from_str : forall y o v fmt,
  Proofs.C08Sweeps.repr y o (Model.DateTime.nd_date v) -> valid_time (Model.DateTime.nd_time v) ->
  In fmt ndt_formats ->
  exists text,
    Model.Format.delayed_display (Model.Format.fa_of_ndt v) (Model.Strftime.sf_new fmt) = Model.Format.fok text /\
    ndt_parse_from_str text fmt = pok (trunc_ndt v).
Proof. exact ndt_sep_parse_from_str. Qed.
Print Assumptions C13_ndt_parse_from_str.

Example C13_ndt_roundtrip_inhabited :
  Proofs.C08Sweeps.repr 2015 181 (Proofs.C08Sweeps.mkdate 2015 181) /\ valid_time (Model.Time.mk_time 86399 1999999999).
Proof. exact ndt_roundtrip_inhabited. Qed.
Print Assumptions C13_ndt_roundtrip_inhabited.

(** ** format_parse_roundtrip END TO END for the other two date forms of NaiveDate: the ordinal form
    "%Y-%j" ([YJ_FMT]) and the ISO week form "%G-W%V-%u" ([ISOW_FMT]; ISO year with its sign outside
    0..=9999, ISO week 01..53, weekday 1..7 from Monday).  For EVERY NaiveDate, parsing the formatted
    text returns the date itself; resolution by C14's completeness theorem on the (year, ordinal)
    and (ISO year, ISO week, weekday) combinations. *)
Theorem C13_date_yj_roundtrip : forall y o d, Proofs.C08Sweeps.repr y o d ->
  exists text,
    Model.Format.write_items (Model.Format.fa_of_date d) YJ_FMT [] = Model.Format.fok text /\
    (let+ p := parse Model.Parsed.parsed_new text YJ_FMT in pr_of (Model.Parsed.to_naive_date p)) = pok d.
Proof. exact date_yj_roundtrip. Qed.
Print Assumptions C13_date_yj_roundtrip.

Theorem C13_date_yj_parse_from_str : forall y o d, Proofs.C08Sweeps.repr y o d ->
  exists text,
    Model.Format.delayed_display (Model.Format.fa_of_date d) (Model.Strftime.sf_new yj_format) = Model.Format.fok text /\
    date_parse_from_str text yj_format = pok d.
Proof. exact date_yj_parse_from_str. Qed.
Print Assumptions C13_date_yj_parse_from_str.

Theorem C13_date_isow_roundtrip : forall y o d, Proofs.C08Sweeps.repr y o d ->
  exists text,
    Model.Format.write_items (Model.Format.fa_of_date d) ISOW_FMT [] = Model.Format.fok text /\
    (let+ p := parse Model.Parsed.parsed_new text ISOW_FMT in pr_of (Model.Parsed.to_naive_date p)) = pok d.
Proof. exact date_isow_roundtrip. Qed.
Print Assumptions C13_date_isow_roundtrip.

Theorem C13_date_isow_parse_from_str : forall y o d, Proofs.C08Sweeps.repr y o d ->
  exists text,
    Model.Format.delayed_display (Model.Format.fa_of_date d) (Model.Strftime.sf_new isow_format) = Model.Format.fok text /\
    date_parse_from_str text isow_format = pok d.
Proof. exact date_isow_parse_from_str. Qed.
Print Assumptions C13_date_isow_parse_from_str.

Example C13_date_forms_roundtrip_inhabited :
  Proofs.C08Sweeps.repr 2014 365 (Proofs.C08Sweeps.mkdate 2014 365) /\
  Proofs.C08Sweeps.repr (-262143) 1 (Proofs.C08Sweeps.mkdate (-262143) 1).
Proof. exact date_forms_roundtrip_inhabited. Qed.
Print Assumptions C13_date_forms_roundtrip_inhabited.

(** ** format_parse_roundtrip END TO END for NaiveTime with a fraction and in 12-hour form, for
    EVERY time of day (leap second on :59 included; second 60 is printed and read back):
    "%H:%M:%S%.f" ([HMSF F_Nanosecond]; the shortest of 0 / 3 / 6 / 9 digits): the value itself;
    "%H:%M:%S%.3f" / "%.6f" / "%.9f" ([HMSF (fixed_frac k)]): the value truncated to the printed
    precision [trunc_frac k] -- the truncation the property states; nothing is lost with %.9f;
    "%I:%M:%S %p" / %r ([IMSP_FMT]): the value truncated to whole seconds.
    Through formatter, reader and Parsed::to_naive_time (C14's completeness theorem). *)
Theorem C13_time_auto_roundtrip : forall t, valid_time t ->
  exists text,
    Model.Format.write_items (Model.Format.fa_of_time t) (HMSF F_Nanosecond) [] = Model.Format.fok text /\
    (let+ p := parse Model.Parsed.parsed_new text (HMSF F_Nanosecond) in pr_of (Model.Parsed.to_naive_time p)) = pok t.
Proof. exact time_auto_roundtrip. Qed.
Print Assumptions C13_time_auto_roundtrip.

Theorem C13_time_auto_parse_from_str : forall t fmt, valid_time t -> In fmt time_auto_formats ->
  exists text,
    Model.Format.delayed_display (Model.Format.fa_of_time t) (Model.Strftime.sf_new fmt) = Model.Format.fok text /\
    time_parse_from_str text fmt = pok t.
Proof. exact time_auto_parse_from_str. Qed.
Print Assumptions C13_time_auto_parse_from_str.

Theorem C13_time_frac_roundtrip : forall t k, valid_time t -> k = 3 \/ k = 6 \/ k = 9 ->
  exists text,
    Model.Format.write_items (Model.Format.fa_of_time t) (HMSF (fixed_frac k)) [] = Model.Format.fok text /\
    (let+ p := parse Model.Parsed.parsed_new text (HMSF (fixed_frac k)) in pr_of (Model.Parsed.to_naive_time p))
    = pok (trunc_frac k t).
Proof. exact time_frac_roundtrip. Qed.
Print Assumptions C13_time_frac_roundtrip.

Theorem C13_time_frac_parse_from_str : forall t k, valid_time t -> k = 3 \/ k = 6 \/ k = 9 ->
  exists text,
    Model.Format.delayed_display (Model.Format.fa_of_time t) (Model.Strftime.sf_new (time_frac_format k)) = Model.Format.fok text /\
    time_parse_from_str text (time_frac_format k) = pok (trunc_frac k t).
Proof. exact time_frac_parse_from_str. Qed.
Print Assumptions C13_time_frac_parse_from_str.

Theorem C13_trunc_frac_9_is_identity : forall t, valid_time t -> trunc_frac 9 t = t.
Proof. exact trunc_frac_9. Qed.
Print Assumptions C13_trunc_frac_9_is_identity.

Theorem C13_time_12h_roundtrip : forall t, valid_time t ->
  exists text,
    Model.Format.write_items (Model.Format.fa_of_time t) IMSP_FMT [] = Model.Format.fok text /\
    (let+ p := parse Model.Parsed.parsed_new text IMSP_FMT in pr_of (Model.Parsed.to_naive_time p)) = pok (trunc_secs t).
Proof. exact time_12h_roundtrip. Qed.
Print Assumptions C13_time_12h_roundtrip.

Theorem C13_time_12h_parse_from_str : forall t fmt, valid_time t -> In fmt time_12h_formats ->
  exists text,
    Model.Format.delayed_display (Model.Format.fa_of_time t) (Model.Strftime.sf_new fmt) = Model.Format.fok text /\
    time_parse_from_str text fmt = pok (trunc_secs t).
Proof. exact time_12h_parse_from_str. Qed.
Print Assumptions C13_time_12h_parse_from_str.

Example C13_time_forms_inhabited :
  valid_time (Model.Time.mk_time 86399 1999999999) /\
  trunc_frac 3 (Model.Time.mk_time 86399 1999999999) = Model.Time.mk_time 86399 1999000000 /\
  trunc_frac 6 (Model.Time.mk_time 2094 26490708) = Model.Time.mk_time 2094 26490000.
Proof. exact time_forms_inhabited. Qed.
Print Assumptions C13_time_forms_inhabited.

(** ** format_parse_roundtrip END TO END for DateTime<FixedOffset> with "%Y-%m-%dT%H:%M:%S%z"
    ([DTZ_FMT false]) and "%Y-%m-%dT%H:%M:%S%:z" ([DTZ_FMT true]).  [valid_dtz yu ou z]: the UTC date
    is the NaiveDate (yu, ou), the time is a time of day (leap second on :59 allowed), the offset is
    a whole number of minutes strictly inside +-24 h (the two items print hours and minutes only:
    other offsets are rounded) and the wall-clock date is itself a NaiveDate (fails only on the
    first / last day of the range, C09's recorded finding).  Parsing the formatted text returns the
    value truncated to whole seconds with the same offset -- through format_with_items
    (overflowing_naive_local, the offset's Display name), formatter, reader and Parsed::to_datetime
    (date, time, timestamp cross-check with the offset, east_opt, from_local_datetime). *)
Theorem C13_dtz_roundtrip : forall yu ou z colon, valid_dtz yu ou z ->
  exists a text,
    Model.Format.fa_of_dtz z = Val a /\
    Model.Format.write_items a (DTZ_FMT colon) [] = Model.Format.fok text /\
    (let+ p := parse Model.Parsed.parsed_new text (DTZ_FMT colon) in pr_of (Model.Parsed.to_datetime p)) = pok (trunc_dtz z).
Proof. exact dtz_roundtrip. Qed.
Print Assumptions C13_dtz_roundtrip.

Theorem C13_dtz_parse_from_str : forall yu ou z colon, valid_dtz yu ou z ->
  exists a text,
    Model.Format.fa_of_dtz z = Val a /\
    Model.Format.delayed_display a (Model.Strftime.sf_new (dtz_format colon)) = Model.Format.fok text /\
    dt_parse_from_str text (dtz_format colon) = pok (trunc_dtz z).
Proof. exact dtz_parse_from_str. Qed.
Print Assumptions C13_dtz_parse_from_str.

Example C13_dtz_roundtrip_inhabited :
  valid_dtz 2016 366 (Model.DateTime.mk_dtz (Model.DateTime.mk_ndt (Proofs.C08Sweeps.mkdate 2016 366)
                        (Model.Time.mk_time 86399 1500000000)) (-34200)).
Proof. exact dtz_roundtrip_inhabited. Qed.
Print Assumptions C13_dtz_roundtrip_inhabited.

(* the writes of the reader run through the real setters: whenever every recognised write puts a
   field of the record [F] (within the setter's range) the setters succeed from any record below
   [F] -- repeated and redundant items included -- and the result stays below [F] *)
Theorem C13_writes_below_view : forall F ws p, Proofs.C14.extends p F -> Forall (w_ok F) ws ->
  run_writes ws p = pok (apply_ws ws p) /\ Proofs.C14.extends (apply_ws ws p) F.
Proof. exact run_view. Qed.
Print Assumptions C13_writes_below_view.

(** ** The GENERAL composition (formatter -> text -> reader -> Parsed -> resolution) over arbitrary item
    lists.  Vocabulary: [sv] is the specification-level value of C12 (Spec/StrftimeDoc.v: day number,
    second of the day, nanoseconds, leap flag); [doc_render sv it] the documented rendering of item
    [it] for it ([render_num] / [render_fix] of the documentation table; [None] for an unsupported item
    kind, a field the value lacks, or no documented claim); [gview sv on] the field record holding
    every date / time field of the value, [on] being the nanosecond field the fraction items print
    ([doc_item sv on it t]: [t] is the documented rendering and the item's fraction, if any, is [on]).
    Supported item kinds: literals, white space, every Numeric item except IsoYearDiv100 and Timestamp,
    month and weekday names, AM/PM, %.f %.3f %.6f %.9f %3f %6f %9f, %z %:z (on whole-minute offsets). *)
(* through C12: the documented rendering is what the formatter prints *)
Theorem C13_doc_render_is_printed : forall a sv it t, Proofs.C12.args_view a sv ->
  doc_render sv it = Some t -> Model.Format.format_item a it = Model.Format.fok t.
Proof. exact doc_render_renders. Qed.
Print Assumptions C13_doc_render_is_printed.

(* the link that was missing: whatever the reader recognises in the documented rendering of an item
   is a write of a field OF THE VALUE, within the setter's range (no follow condition needed) *)
Theorem C13_item_value : forall sv on it t rest w, sv_bounds sv ->
  (forall o, Spec.StrftimeDoc.sv_off sv = Some o -> o mod 60 = 0) -> doc_item sv on it t ->
  reads_b it t rest = Some w -> w_ok (gview sv on) w.
Proof. exact item_value. Qed.
Print Assumptions C13_item_value.

Theorem C13_numeric_reads_value : forall spec width (signed : bool) code p w force x rest wr,
  numeric_entry spec = Some (width, signed, code) ->
  reads_numeric spec (Spec.StrftimeDoc.pad_num p w force x) rest = Some wr ->
  wr = W_code code x /\ (signed = false -> 0 <= x).
Proof. exact reads_pad_num_value. Qed.
Print Assumptions C13_numeric_reads_value.

(* the view is typed and sound for the date it was taken from (C14's vocabulary) *)
Theorem C13_view_sound : forall sv on d dn, Spec.StrftimeDoc.sv_dn sv = Some dn -> Proofs.C12.date_view d dn ->
  Proofs.C14.date_sound (gview sv on) d.
Proof. exact gview_date_sound. Qed.
Print Assumptions C13_view_sound.

(** format_parse_roundtrip, GENERAL form.  PARTIAL -- side conditions that remain:
    (1) the items are of the supported kinds and have a documented rendering for the value
        ([doc_item]; excludes %s, %Z, %::z %:::z %#z, %+, RFC 2822, and %C %y %g on negative years);
    (2) the reader takes the text back ([reader_takes]: accepted by [unambiguous_b], or by
        [unambiguous_ws_b] where white space of the format takes the space padding of the next number
        with it; a hypothesis here, decidable for a given value, discharged for every value by the
        class theorems below);
    (3) the field set the reader builds contains a documented sufficient combination
        ([date_comb_b Y IY] / [time_comb_b], decidable): each year group absent or given in full, or as
        century + two-digit year, or as the two-digit year alone when the (ISO) year is in 1970..=2069;
    (4) all fraction items of the list print the same nanosecond value [on];
    (5) for DateTime<FixedOffset> (C13_general_dtz_roundtrip_partial below) the value is in [valid_dtz]:
        whole-minute offset, wall-clock date a NaiveDate.
    Result: parsing the formatted text returns the date itself / the time [time_kept p t] made of the
    printed fields of [t] (hour and minute; the second with the leap flag if printed, else 0; the
    printed fraction digits [on] if any) / the date-time of both. *)
Theorem C13_general_date_roundtrip_partial : forall y o d items texts ws,
  Proofs.C08Sweeps.repr y o d ->
  Forall2 (doc_item (sv_of_date (Spec.Gregorian.dn_of_yo y o)) None) items texts ->
  reader_takes (combine items texts) ws ->
  date_comb_b y (fst (Spec.Gregorian.iso_of_dn (Spec.Gregorian.dn_of_yo y o))) (apply_ws ws Model.Parsed.parsed_new) = true ->
  Model.Format.write_items (Model.Format.fa_of_date d) items [] = Model.Format.fok (List.concat texts) /\
  (let+ p := parse Model.Parsed.parsed_new (List.concat texts) items in pr_of (Model.Parsed.to_naive_date p)) = pok d.
Proof. exact general_date_roundtrip. Qed.
Print Assumptions C13_general_date_roundtrip_partial.

Theorem C13_general_time_roundtrip_partial : forall t on items texts ws,
  valid_time t -> (forall n, on = Some n -> 0 <= n <= 999999999) ->
  Forall2 (doc_item (sv_of_time t) on) items texts ->
  reader_takes (combine items texts) ws ->
  time_comb_b (apply_ws ws Model.Parsed.parsed_new) = true ->
  Model.Format.write_items (Model.Format.fa_of_time t) items [] = Model.Format.fok (List.concat texts) /\
  (let+ p := parse Model.Parsed.parsed_new (List.concat texts) items in pr_of (Model.Parsed.to_naive_time p))
    = pok (time_kept (apply_ws ws Model.Parsed.parsed_new) t) /\
  (forall v, Model.Parsed.p_second (apply_ws ws Model.Parsed.parsed_new) = Some v -> v = ss t) /\
  (forall n, Model.Parsed.p_nanosecond (apply_ws ws Model.Parsed.parsed_new) = Some n -> on = Some n).
Proof. exact general_time_roundtrip. Qed.
Print Assumptions C13_general_time_roundtrip_partial.

Theorem C13_general_ndt_roundtrip_partial : forall y o d t on items texts ws,
  Proofs.C08Sweeps.repr y o d -> valid_time t -> (forall n, on = Some n -> 0 <= n <= 999999999) ->
  Forall2 (doc_item (sv_of_ndt (Spec.Gregorian.dn_of_yo y o) t) on) items texts ->
  reader_takes (combine items texts) ws ->
  date_comb_b y (fst (Spec.Gregorian.iso_of_dn (Spec.Gregorian.dn_of_yo y o))) (apply_ws ws Model.Parsed.parsed_new) = true ->
  time_comb_b (apply_ws ws Model.Parsed.parsed_new) = true ->
  Model.Format.write_items (Model.Format.fa_of_ndt (Model.DateTime.mk_ndt d t)) items [] = Model.Format.fok (List.concat texts) /\
  (let+ p := parse Model.Parsed.parsed_new (List.concat texts) items in
   pr_of (Model.Parsed.to_naive_datetime_with_offset p 0)) =
    pok (Model.DateTime.mk_ndt d (time_kept (apply_ws ws Model.Parsed.parsed_new) t)) /\
  (forall v, Model.Parsed.p_second (apply_ws ws Model.Parsed.parsed_new) = Some v -> v = ss t) /\
  (forall n, Model.Parsed.p_nanosecond (apply_ws ws Model.Parsed.parsed_new) = Some n -> on = Some n).
Proof. exact general_ndt_roundtrip. Qed.
Print Assumptions C13_general_ndt_roundtrip_partial.

(* with the seconds printed, [time_kept] is the value with its fraction cut to the printed digits *)
Theorem C13_time_kept_with_seconds : forall p t, valid_time t -> Model.Parsed.p_second p = Some (ss t) ->
  time_kept p t = Model.Time.mk_time (Model.Time.tsecs t) (leap_part t + Model.Parsed.unwrap_or (Model.Parsed.p_nanosecond p) 0).
Proof. exact time_kept_seconds. Qed.
Print Assumptions C13_time_kept_with_seconds.

(* all hypotheses of the general theorem are decided by computation for a given value and item list *)
Theorem C13_general_ndt_check_sound : forall y o d t on items,
  Proofs.C08Sweeps.repr y o d -> valid_time t -> general_ndt_check (Spec.Gregorian.dn_of_yo y o) t on items = true ->
  exists text t',
    Model.Format.write_items (Model.Format.fa_of_ndt (Model.DateTime.mk_ndt d t)) items [] = Model.Format.fok text /\
    (let+ p := parse Model.Parsed.parsed_new text items in pr_of (Model.Parsed.to_naive_datetime_with_offset p 0))
      = pok (Model.DateTime.mk_ndt d t').
Proof. exact general_ndt_check_sound. Qed.
Print Assumptions C13_general_ndt_check_sound.

(* inhabited: "%A, %d %B %Y %I:%M:%S%.3f %p", a form without seconds, adjacent full-width fields;
   an unpadded month in front of the day is rejected; the two-digit year alone inside / outside the pivot window *)
Example C13_general_members :
  general_ndt_check (Spec.Gregorian.dn_of_yo 2015 365) (Model.Time.mk_time 86399 987654321) (Some 987000000) ex_general_items = true /\
  general_ndt_check (Spec.Gregorian.dn_of_yo 2015 365) (Model.Time.mk_time 86399 987654321) None
    [num0 N_Year; Literal [45]; num0 N_Month; Literal [45]; num0 N_Day; Space [32]; num0 N_Hour; Literal [58]; num0 N_Minute] = true /\
  general_ndt_check (Spec.Gregorian.dn_of_yo 2015 365) (Model.Time.mk_time 0 0) None
    [num0 N_Year; num0 N_Month; num0 N_Day; num0 N_Hour; num0 N_Minute] = true /\
  general_ndt_check (Spec.Gregorian.dn_of_yo 2015 36) (Model.Time.mk_time 0 0) None
    [num0 N_Year; Literal [45]; num N_Month; num0 N_Day; Space [32]; num0 N_Hour; Literal [58]; num0 N_Minute] = false /\
  general_ndt_check (Spec.Gregorian.dn_of_yo 2015 36) (Model.Time.mk_time 0 0) None
    [num0 N_YearMod100; Literal [45]; num0 N_Month; Literal [45]; num0 N_Day; Space [32]; num0 N_Hour; Literal [58]; num0 N_Minute] = true /\
  general_ndt_check (Spec.Gregorian.dn_of_yo 1969 36) (Model.Time.mk_time 0 0) None
    [num0 N_YearMod100; Literal [45]; num0 N_Month; Literal [45]; num0 N_Day; Space [32]; num0 N_Hour; Literal [58]; num0 N_Minute] = false.
Proof. exact ex_general_member. Qed.
Print Assumptions C13_general_members.

(** ** The same with premises on the ITEM LIST ONLY, for EVERY value.  [static_ok items] decides a class
    of item lists whose documented renderings the reader takes back whatever the value: every Numeric
    item (supported kinds except %C, and %y %g which are in the larger class [static_ok2] below) either fills the reader's width (zero padded two-digit fields, %j, %f; the
    one-digit fields) or is followed by text that cannot start with a digit -- a year always needs
    that; a white-space item is followed by text that cannot start with white space or by a space-padded
    number (%e %k %l ...: the white space takes the padding with it, [unambiguous_ws_b]), not by another
    white-space item; %.f %.3f %.6f %.9f are followed by neither a digit nor, for %.f, a dot; literals
    are well-formed UTF-8 (ASCII or not: C13_class_contains_ascii_class and the examples after it).  [it_kind_ok] says
    the value has the fields the items print; [static_date_ok] / [static_time_ok] decide the
    sufficient combination on the fields the items write ([sfields]); [frac_class_ok k] that all
    fraction items print the same precision [k].  The class is a decidable under-approximation of
    "unambiguous and sufficient": the C13_general_*_partial theorems remain for lists outside it. *)
Theorem C13_class_accepted_for_every_value : forall sv on, sv_bounds sv ->
  (forall o, Spec.StrftimeDoc.sv_off sv = Some o -> o mod 60 = 0) -> forall items texts,
  static_ok2 items = true -> Forall2 (doc_item sv on) items texts ->
  exists ws, unambiguous_ws_b (combine items texts) [] = Some ws.
Proof. exact static_accept_ws. Qed.
Print Assumptions C13_class_accepted_for_every_value.

Theorem C13_class_date_roundtrip : forall items,
  static_ok items = true -> forallb (it_kind_ok true false false) items = true -> static_date_ok items = true ->
  forall y o d, Proofs.C08Sweeps.repr y o d ->
  exists text,
    Model.Format.write_items (Model.Format.fa_of_date d) items [] = Model.Format.fok text /\
    (let+ p := parse Model.Parsed.parsed_new text items in pr_of (Model.Parsed.to_naive_date p)) = pok d.
Proof. exact static_date_roundtrip. Qed.
Print Assumptions C13_class_date_roundtrip.

(* [static_time_value items k t]: [t] with the second (and leap flag) kept iff an item prints it, else
   the whole minute; the fraction cut to [k] digits iff a fraction item is present, else dropped *)
Theorem C13_class_time_roundtrip : forall items k,
  static_ok items = true -> forallb (it_kind_ok false true false) items = true -> static_time_ok items = true ->
  frac_class_ok k items = true -> k = 3 \/ k = 6 \/ k = 9 ->
  forall t, valid_time t ->
  exists text,
    Model.Format.write_items (Model.Format.fa_of_time t) items [] = Model.Format.fok text /\
    (let+ q := parse Model.Parsed.parsed_new text items in pr_of (Model.Parsed.to_naive_time q))
      = pok (static_time_value items k t).
Proof. exact static_time_roundtrip. Qed.
Print Assumptions C13_class_time_roundtrip.

Theorem C13_class_ndt_roundtrip : forall items k,
  static_ok items = true -> forallb (it_kind_ok true true false) items = true ->
  static_date_ok items = true -> static_time_ok items = true ->
  frac_class_ok k items = true -> k = 3 \/ k = 6 \/ k = 9 ->
  forall y o d t, Proofs.C08Sweeps.repr y o d -> valid_time t ->
  exists text,
    Model.Format.write_items (Model.Format.fa_of_ndt (Model.DateTime.mk_ndt d t)) items [] = Model.Format.fok text /\
    (let+ q := parse Model.Parsed.parsed_new text items in pr_of (Model.Parsed.to_naive_datetime_with_offset q 0)) =
      pok (Model.DateTime.mk_ndt d (static_time_value items k t)).
Proof. exact static_ndt_roundtrip. Qed.
Print Assumptions C13_class_ndt_roundtrip.

(* members by computation on the item list alone: the families above, "%A, %d %B %Y %I:%M:%S%.3f %p",
   "%d/%m/%Y %H:%M", "%j of %Y,%k:%M:%S%.f", "%G-W%V-%a %H:%M"; non-members: "%Y%m%dT%H%M%S" (a digit
   after the year), "%Y-%m-%d %H:%M%.3f" (a fraction without the seconds) *)
Example C13_class_members :
  ndt_static 9 NDT_T_FMT = true /\ ndt_static 9 NDT_SP_FMT = true /\
  ndt_static 3 ex_general_items = true /\
  ndt_static 9 [num0 N_Year; num0 N_Month; num0 N_Day; Literal [84]; num0 N_Hour; num0 N_Minute; num0 N_Second] = false /\
  ndt_static 9 [num0 N_Day; Literal [47]; num0 N_Month; Literal [47]; num0 N_Year; Space [32]; num0 N_Hour; Literal [58]; num0 N_Minute] = true /\
  ndt_static 9 [num0 N_Ordinal; Literal [32; 111; 102; 32]; num0 N_Year; Literal [44]; nums N_Hour; Literal [58]; num0 N_Minute;
                Literal [58]; num0 N_Second; IFixed F_Nanosecond] = true /\
  ndt_static 9 [num0 N_IsoYear; Literal [45; 87]; num0 N_IsoWeek; Literal [45]; IFixed F_ShortWeekdayName; Space [32];
                num0 N_Hour; Literal [58]; num0 N_Minute] = true /\
  ndt_static 3 (YMD_FMT ++ [Space [32]; num0 N_Hour; Literal [58]; num0 N_Minute; IFixed F_Nanosecond3]) = false /\
  (static_ok YMD_FMT && forallb (it_kind_ok true false false) YMD_FMT && static_date_ok YMD_FMT) = true /\
  (static_ok YJ_FMT && forallb (it_kind_ok true false false) YJ_FMT && static_date_ok YJ_FMT) = true /\
  (static_ok ISOW_FMT && forallb (it_kind_ok true false false) ISOW_FMT && static_date_ok ISOW_FMT) = true /\
  (static_ok IMSP_FMT && forallb (it_kind_ok false true false) IMSP_FMT && static_time_ok IMSP_FMT) = true /\
  (static_ok (HMSF F_Nanosecond) && forallb (it_kind_ok false true false) (HMSF F_Nanosecond) && static_time_ok (HMSF F_Nanosecond)
   && frac_class_ok 9 (HMSF F_Nanosecond)) = true.
Proof. exact static_members. Qed.
Print Assumptions C13_class_members.

(* ... and over format STRINGS: [items_of fmt] is what StrftimeItems::new(fmt) yields; whenever that list is
   of the class, X::parse_from_str(&v.format(fmt).to_string(), fmt) = Ok(v with the printed fields) for
   every value v *)
Theorem C13_class_date_parse_from_str : forall fmt items,
  items_of fmt = Val (Some items) ->
  static_ok items = true -> forallb (it_kind_ok true false false) items = true -> static_date_ok items = true ->
  forall y o d, Proofs.C08Sweeps.repr y o d ->
  exists text,
    Model.Format.delayed_display (Model.Format.fa_of_date d) (Model.Strftime.sf_new fmt) = Model.Format.fok text /\
    date_parse_from_str text fmt = pok d.
Proof. exact class_date_parse_from_str. Qed.
Print Assumptions C13_class_date_parse_from_str.

Theorem C13_class_time_parse_from_str : forall fmt items k,
  items_of fmt = Val (Some items) ->
  static_ok items = true -> forallb (it_kind_ok false true false) items = true -> static_time_ok items = true ->
  frac_class_ok k items = true -> k = 3 \/ k = 6 \/ k = 9 ->
  forall t, valid_time t ->
  exists text,
    Model.Format.delayed_display (Model.Format.fa_of_time t) (Model.Strftime.sf_new fmt) = Model.Format.fok text /\
    time_parse_from_str text fmt = pok (static_time_value items k t).
Proof. exact class_time_parse_from_str. Qed.
Print Assumptions C13_class_time_parse_from_str.

Theorem C13_class_ndt_parse_from_str : forall fmt items k,
  items_of fmt = Val (Some items) ->
  static_ok items = true -> forallb (it_kind_ok true true false) items = true ->
  static_date_ok items = true -> static_time_ok items = true ->
  frac_class_ok k items = true -> k = 3 \/ k = 6 \/ k = 9 ->
  forall y o d t, Proofs.C08Sweeps.repr y o d -> valid_time t ->
  exists text,
    Model.Format.delayed_display (Model.Format.fa_of_ndt (Model.DateTime.mk_ndt d t)) (Model.Strftime.sf_new fmt) = Model.Format.fok text /\
    ndt_parse_from_str text fmt = pok (Model.DateTime.mk_ndt d (static_time_value items k t)).
Proof. exact class_ndt_parse_from_str. Qed.
Print Assumptions C13_class_ndt_parse_from_str.

(* "%A, %d %B %Y %I:%M:%S%.3f %p", "%d/%m/%Y %H:%M", "%FT%T%.f" are of the class; "%D %R" (two-digit year) is not;
   %c (= "%a %b %e %H:%M:%S %Y"), "%e %B %Y, %l:%M %p" and "%v %T" are: for every NaiveDateTime v,
   NaiveDateTime::parse_from_str(&v.format("%c").to_string(), "%c") = Ok(v to the second) *)
Example C13_class_format_strings :
  fmt_ndt_class 3 [37;65;44;32;37;100;32;37;66;32;37;89;32;37;73;58;37;77;58;37;83;37;46;51;102;32;37;112] = true /\
  fmt_ndt_class 9 [37;100;47;37;109;47;37;89;32;37;72;58;37;77] = true /\
  fmt_ndt_class 9 [37;70;84;37;84;37;46;102] = true /\
  fmt_ndt_class 9 [37;68;32;37;82] = false /\
  fmt_ndt_class 9 [37;99] = true /\
  fmt_ndt_class 9 [37;101;32;37;66;32;37;89;44;32;37;108;58;37;77;32;37;112] = true /\
  fmt_ndt_class 9 [37;118;32;37;84] = true.
Proof. exact class_format_strings. Qed.
Print Assumptions C13_class_format_strings.

(** ** DateTime<FixedOffset> in the general composition and in the item-list class: the fields are those
    of the wall clock ([sv_of_dtz]: local day number and local time) plus the offset; the result is the
    instant whose wall clock has the printed fields, [back_time off] taking a wall-clock time back to UTC *)
Theorem C13_general_dtz_roundtrip_partial : forall yu ou du su fu off on items texts ws,
  let z := Model.DateTime.mk_dtz (Model.DateTime.mk_ndt du (Model.Time.mk_time su fu)) off in
  let n := Spec.Gregorian.dn_of_yo yu ou + (su + off) / 86400 in
  let yl := fst (Spec.Gregorian.yo_of_dn n) in let ol := snd (Spec.Gregorian.yo_of_dn n) in
  let tl := Model.Time.mk_time ((su + off) mod 86400) fu in
  let sv := sv_of_dtz (Spec.Gregorian.dn_of_yo yl ol) tl off in
  valid_dtz yu ou z -> (forall k, on = Some k -> 0 <= k <= 999999999) ->
  Forall2 (doc_item sv on) items texts ->
  reader_takes (combine items texts) ws ->
  date_comb_b yl (fst (Spec.Gregorian.iso_of_dn (Spec.Gregorian.dn_of_yo yl ol))) (apply_ws ws Model.Parsed.parsed_new) = true ->
  time_comb_b (apply_ws ws Model.Parsed.parsed_new) = true ->
  some_b (Model.Parsed.p_offset (apply_ws ws Model.Parsed.parsed_new)) = true ->
  exists a,
    Model.Format.fa_of_dtz z = Val a /\
    Model.Format.write_items a items [] = Model.Format.fok (List.concat texts) /\
    (let+ q := parse Model.Parsed.parsed_new (List.concat texts) items in pr_of (Model.Parsed.to_datetime q)) =
      pok (Model.DateTime.mk_dtz (Model.DateTime.mk_ndt du (back_time off (time_kept (apply_ws ws Model.Parsed.parsed_new) tl))) off) /\
    (forall v, Model.Parsed.p_second (apply_ws ws Model.Parsed.parsed_new) = Some v -> v = ss tl) /\
    (forall k, Model.Parsed.p_nanosecond (apply_ws ws Model.Parsed.parsed_new) = Some k -> on = Some k).
Proof. exact general_dtz_roundtrip. Qed.
Print Assumptions C13_general_dtz_roundtrip_partial.

(* premises on the item list only ([dtz_static]: the class, the three kinds of fields available, sufficient
   date and time combinations, an offset item, one fraction precision), for every value of [valid_dtz]:
   the UTC date-time with the printed fields of the time, same offset *)
Theorem C13_class_dtz_roundtrip : forall items k,
  dtz_static k items = true -> k = 3 \/ k = 6 \/ k = 9 ->
  forall yu ou z, valid_dtz yu ou z ->
  exists a text,
    Model.Format.fa_of_dtz z = Val a /\
    Model.Format.write_items a items [] = Model.Format.fok text /\
    (let+ q := parse Model.Parsed.parsed_new text items in pr_of (Model.Parsed.to_datetime q)) =
      pok (Model.DateTime.mk_dtz
             (Model.DateTime.mk_ndt (Model.DateTime.nd_date (Model.DateTime.dz_utc z))
                (static_time_value items k (Model.DateTime.nd_time (Model.DateTime.dz_utc z))))
             (Model.DateTime.dz_off z)).
Proof. exact static_dtz_roundtrip. Qed.
Print Assumptions C13_class_dtz_roundtrip.

Theorem C13_class_dtz_parse_from_str : forall fmt items k,
  items_of fmt = Val (Some items) -> dtz_static k items = true -> k = 3 \/ k = 6 \/ k = 9 ->
  forall yu ou z, valid_dtz yu ou z ->
  exists a text,
    Model.Format.fa_of_dtz z = Val a /\
    Model.Format.delayed_display a (Model.Strftime.sf_new fmt) = Model.Format.fok text /\
    dt_parse_from_str text fmt =
      pok (Model.DateTime.mk_dtz
             (Model.DateTime.mk_ndt (Model.DateTime.nd_date (Model.DateTime.dz_utc z))
                (static_time_value items k (Model.DateTime.nd_time (Model.DateTime.dz_utc z))))
             (Model.DateTime.dz_off z)).
Proof. exact class_dtz_parse_from_str. Qed.
Print Assumptions C13_class_dtz_parse_from_str.

(* "%Y-%m-%dT%H:%M:%S%z" / "%:z", "%Y-%m-%d %H:%M:%S%.3f %:z", "%a, %d %b %Y %H:%M:%S %z" (the RFC 2822 shape)
   are members; a list without an offset item is not *)
Example C13_class_dtz_members :
  dtz_static 9 (DTZ_FMT false) = true /\ dtz_static 9 (DTZ_FMT true) = true /\
  dtz_static 3 (YMD_FMT ++ Space [32] :: Gen.Strftime.SF_T_FMT ++ [IFixed F_Nanosecond3; Space [32]; IFixed F_TimezoneOffsetColon]) = true /\
  dtz_static 9 [IFixed F_ShortWeekdayName; Literal [44]; Space [32]; num0 N_Day; Space [32]; IFixed F_ShortMonthName; Space [32];
                num0 N_Year; Space [32]; num0 N_Hour; Literal [58]; num0 N_Minute; Literal [58]; num0 N_Second; Space [32];
                IFixed F_TimezoneOffset] = true /\
  dtz_static 9 NDT_T_FMT = false.
Proof. exact dtz_static_members. Qed.
Print Assumptions C13_class_dtz_members.

(** ** the class with the two-digit years %y %g ([static_ok2]; [static_ok] is [static_ok2] without them).  They
    are printed for (ISO) years >= 0 only ([two_digit_ok]) and, alone, are sufficient only in the pivot window:
    the sufficiency premise is on the fields of the items FOR THE YEAR of the value. *)
Theorem C13_class2_date_parse_from_str : forall fmt items,
  items_of fmt = Val (Some items) ->
  static_ok2 items = true -> forallb (it_kind_ok true false false) items = true ->
  forall y o d, Proofs.C08Sweeps.repr y o d ->
  two_digit_ok items y (fst (Spec.Gregorian.iso_of_dn (Spec.Gregorian.dn_of_yo y o))) ->
  date_comb_b y (fst (Spec.Gregorian.iso_of_dn (Spec.Gregorian.dn_of_yo y o))) (shape_parsed (sfields items)) = true ->
  exists text,
    Model.Format.delayed_display (Model.Format.fa_of_date d) (Model.Strftime.sf_new fmt) = Model.Format.fok text /\
    date_parse_from_str text fmt = pok d.
Proof. exact class2_date_parse_from_str. Qed.
Print Assumptions C13_class2_date_parse_from_str.

Theorem C13_class2_ndt_parse_from_str : forall fmt items k,
  items_of fmt = Val (Some items) ->
  static_ok2 items = true -> forallb (it_kind_ok true true false) items = true -> static_time_ok items = true ->
  frac_class_ok k items = true -> k = 3 \/ k = 6 \/ k = 9 ->
  forall y o d t, Proofs.C08Sweeps.repr y o d -> valid_time t ->
  two_digit_ok items y (fst (Spec.Gregorian.iso_of_dn (Spec.Gregorian.dn_of_yo y o))) ->
  date_comb_b y (fst (Spec.Gregorian.iso_of_dn (Spec.Gregorian.dn_of_yo y o))) (shape_parsed (sfields items)) = true ->
  exists text,
    Model.Format.delayed_display (Model.Format.fa_of_ndt (Model.DateTime.mk_ndt d t)) (Model.Strftime.sf_new fmt) = Model.Format.fok text /\
    ndt_parse_from_str text fmt = pok (Model.DateTime.mk_ndt d (static_time_value items k t)).
Proof. exact class2_ndt_parse_from_str. Qed.
Print Assumptions C13_class2_ndt_parse_from_str.

(* %D and %x (both "%m/%d/%y"): every NaiveDate of the years 1970..=2069 comes back; outside the window the
   fields are not sufficient (C13_two_digit_members) *)
Theorem C13_date_D_roundtrip : forall y o d fmt, Proofs.C08Sweeps.repr y o d -> 1970 <= y <= 2069 ->
  fmt = [37; 68] \/ fmt = [37; 120] ->
  exists text,
    Model.Format.delayed_display (Model.Format.fa_of_date d) (Model.Strftime.sf_new fmt) = Model.Format.fok text /\
    date_parse_from_str text fmt = pok d.
Proof. exact date_D_roundtrip. Qed.
Print Assumptions C13_date_D_roundtrip.

Example C13_two_digit_members :
  items_of [37; 68] = Val (Some D_ITEMS) /\ items_of [37; 120] = Val (Some D_ITEMS) /\
  static_ok2 D_ITEMS = true /\ static_ok D_ITEMS = false /\ forallb (it_kind_ok true false false) D_ITEMS = true /\
  date_comb_b 1970 1970 (shape_parsed (sfields D_ITEMS)) = true /\ date_comb_b 2069 2069 (shape_parsed (sfields D_ITEMS)) = true /\
  date_comb_b 1969 1969 (shape_parsed (sfields D_ITEMS)) = false /\ date_comb_b 2070 2070 (shape_parsed (sfields D_ITEMS)) = false.
Proof. exact two_digit_members. Qed.
Print Assumptions C13_two_digit_members.

(* the entry points' lazily driven loops coincide with the loops over the yielded item list *)
Theorem C13_parse_sf_loop_is_parse_items : forall items fuel p s st, yields st items -> (List.length items < fuel)%nat ->
  parse_sf_loop fuel p s st = parse_items parse_rfc3339_relaxed p s items.
Proof. exact parse_sf_loop_items. Qed.
Print Assumptions C13_parse_sf_loop_is_parse_items.

(* family membership is decided by computation and certifies the round trip of that member *)
Theorem C13_family_member_sound : forall a items ws p, family_member a items [] = Some ws ->
  exists text, Model.Format.write_items a items [] = Model.Format.fok text /\
               parse p text items = run_writes ws p.
Proof. exact family_member_sound. Qed.
Print Assumptions C13_family_member_sound.

(** ** never-Panic (slice safety): for EVERY well-formed UTF-8 input and every item list whose
    literals are well-formed strings, parse_internal / parse / parse_and_remainder return a value or
    a ParseError -- no slice off a char boundary, no index out of bounds, no arithmetic trap -- and the
    remainder handed on is well-formed again.  PARTIAL: item lists containing the Fixed::RFC2822 item
    are excluded ([item_ok]); its reader (parse_rfc2822, comment_2822, timezone_offset_2822) is covered
    by the correspondence run only (C11 owns its theorems). *)
Theorem C13_parse_internal_safe_partial : forall items p s, forallb item_ok items = true -> wf s ->
  safe (parse_internal p s items) good.
Proof. exact parse_internal_safe. Qed.
Print Assumptions C13_parse_internal_safe_partial.

Theorem C13_parse_never_panics_partial : forall items p s,
  forallb item_ok items = true -> utf8_valid s = true ->
  parse p s items <> Panic /\ parse p s items <> OutOfFuel /\
  parse_and_remainder p s items <> Panic /\ parse_and_remainder p s items <> OutOfFuel.
Proof. exact parse_never_panics. Qed.
Print Assumptions C13_parse_never_panics_partial.

(* the relaxed RFC 3339 reader behind %+ and FromStr for DateTime<FixedOffset>, on every input *)
Theorem C13_rfc3339_relaxed_never_panics : forall p s, wf s -> safe (parse_rfc3339_relaxed p s) good.
Proof. exact parse_rfc3339_relaxed_safe. Qed.
Print Assumptions C13_rfc3339_relaxed_never_panics.

(* the offset scanner with any safe colon-consumer, all flag combinations, every input *)
Theorem C13_timezone_offset_never_panics : forall s cc az am ams,
  (forall t, wf t -> safe (cc t) wf) -> wf s -> safe (timezone_offset s cc az am ams) (fun x => wf (fst x)).
Proof. exact timezone_offset_safe. Qed.
Print Assumptions C13_timezone_offset_never_panics.

(* on a member of the family the reader does not trap (slice safety on the formatted text) *)
Theorem C13_family_never_panics_partial : forall l tail ws p, unambiguous_b l tail = Some ws ->
  run_writes ws p <> Panic -> run_writes ws p <> OutOfFuel ->
  parse_and_remainder p (text_of l ++ tail) (map fst l) <> Panic /\
  parse_and_remainder p (text_of l ++ tail) (map fst l) <> OutOfFuel.
Proof. exact unambiguous_never_panics. Qed.
Print Assumptions C13_family_never_panics_partial.

(** ** the one-directional items (exercised separately, as the property's quantifier says):
    %Z is print-only (the reader skips the word, sets no field), %::z / %:::z are print-only (the
    seconds are left in the input; hours alone are refused), %#z is read-only (never formats; reads
    hours without minutes) *)
Theorem C13_timezone_name_print_only : forall relaxed p word rest,
  Forall (fun c => 0 <= c <= 127 /\ is_whitespace c = false) word ->
  first_cp_fails (fun c => negb (is_whitespace c)) rest ->
  parse_item relaxed p (word ++ rest) (IFixed F_TimezoneName) = pok (p, rest).
Proof. exact timezone_name_skips. Qed.
Print Assumptions C13_timezone_name_print_only.

Theorem C13_double_colon_offset_print_only : forall p sg h1 h2 m1 m2 s1 s2 rest,
  (sg = 43 \/ sg = 45) -> is_ascii_digit h1 = true -> is_ascii_digit h2 = true ->
  48 <= m1 <= 53 -> is_ascii_digit m2 = true -> is_ascii_digit s1 = true -> is_ascii_digit s2 = true ->
  utf8_valid rest = true ->
  parse_tz_item p ([sg; h1; h2; 58; m1; m2; 58; s1; s2] ++ rest) (fixed_idx F_TimezoneOffsetDoubleColon) =
  (let+ p' := setq (Model.Parsed.set_offset p (off_value (sg =? 45) h1 h2 m1 m2)) in pok (p', 58 :: s1 :: s2 :: rest)).
Proof. exact double_colon_offset_leaves_seconds. Qed.
Print Assumptions C13_double_colon_offset_print_only.

Theorem C13_triple_colon_offset_print_only : forall p sg h1 h2,
  (sg = 43 \/ sg = 45) -> is_ascii_digit h1 = true -> is_ascii_digit h2 = true ->
  parse_tz_item p [sg; h1; h2] (fixed_idx F_TimezoneOffsetTripleColon) = perr_ TooShort.
Proof. exact triple_colon_offset_refused. Qed.
Print Assumptions C13_triple_colon_offset_print_only.

Theorem C13_permissive_offset_read_only : forall a,
  Model.Format.format_item a (IFixed (F_Internal I_TimezoneOffsetPermissive)) = Model.Format.ferr.
Proof. exact permissive_offset_not_printed. Qed.
Print Assumptions C13_permissive_offset_read_only.

Theorem C13_permissive_offset_reads_hours : forall p sg h1 h2,
  (sg = 43 \/ sg = 45) -> is_ascii_digit h1 = true -> is_ascii_digit h2 = true ->
  parse_tz_item p [sg; h1; h2] (fixed_idx (F_Internal I_TimezoneOffsetPermissive)) =
  (let+ p' := setq (Model.Parsed.set_offset p (off_value (sg =? 45) h1 h2 48 48)) in pok (p', [])).
Proof. exact permissive_offset_reads_hours. Qed.
Print Assumptions C13_permissive_offset_reads_hours.

(** ** hypotheses are inhabited: members certified by computation, non-members rejected, complete
    round trips (formatter, reader, resolution) on boundary values incl. negative and six-digit
    years, leap seconds, pivot years, ISO weeks, negative timestamps *)
Example C13_members_certified : forallb ex_member members = true.
Proof. exact members_certified. Qed.
Print Assumptions C13_members_certified.
Example C13_non_members_rejected : forallb (fun c => negb (ex_member c)) non_members = true.
Proof. exact non_members_rejected. Qed.
Print Assumptions C13_non_members_rejected.
Example C13_roundtrips_hold : forallb ex_roundtrip roundtrips = true.
Proof. exact roundtrips_hold. Qed.
Print Assumptions C13_roundtrips_hold.

(** ** format_parse_roundtrip END TO END for the timestamp item "%s" (Proofs/C13Stamp.v; resolution by the
    timestamp arm of Parsed, C14_to_naive_datetime_of_timestamp / C14_utc_datetime_of_timestamp): for
    EVERY NaiveDateTime and EVERY DateTime<Utc> -- every supported date, years before 1970 (negative
    timestamps, printed with "-") included, every time of day -- parsing the formatted text returns
    the value at whole seconds ([floor_ndt]: fraction and leap-second flag dropped, which a count of
    non-leap seconds cannot carry; the identity on whole-second values). *)
From V Require Proofs.C13Stamp.
Theorem C13_stamp_ndt_roundtrip : forall y o v,
  Proofs.C08Sweeps.repr y o (Model.DateTime.nd_date v) -> valid_time (Model.DateTime.nd_time v) ->
  exists text,
    Model.Format.write_items (Model.Format.fa_of_ndt v) Proofs.C13Stamp.STAMP_FMT [] = Model.Format.fok text /\
    (let+ p := parse Model.Parsed.parsed_new text Proofs.C13Stamp.STAMP_FMT in
     pr_of (Model.Parsed.to_naive_datetime_with_offset p 0)) = pok (Proofs.C13Stamp.floor_ndt v).
Proof. exact Proofs.C13Stamp.ndt_stamp_roundtrip. Qed.
Print Assumptions C13_stamp_ndt_roundtrip.

Theorem C13_stamp_utc_roundtrip : forall y o v,
  Proofs.C08Sweeps.repr y o (Model.DateTime.nd_date v) -> valid_time (Model.DateTime.nd_time v) ->
  exists a text,
    Model.Format.fa_of_utc v = Val a /\
    Model.Format.write_items a Proofs.C13Stamp.STAMP_FMT [] = Model.Format.fok text /\
    (let+ p := parse Model.Parsed.parsed_new text Proofs.C13Stamp.STAMP_FMT in pr_of (Model.Parsed.to_datetime p))
      = pok (Model.DateTime.mk_dtz (Proofs.C13Stamp.floor_ndt v) 0).
Proof. exact Proofs.C13Stamp.utc_stamp_roundtrip. Qed.
Print Assumptions C13_stamp_utc_roundtrip.

(* ... over the format string "%s" (lazily driven StrftimeItems, as parse_from_str does) *)
Theorem C13_stamp_ndt_parse_from_str : forall y o v,
  Proofs.C08Sweeps.repr y o (Model.DateTime.nd_date v) -> valid_time (Model.DateTime.nd_time v) ->
  exists text,
    Model.Format.delayed_display (Model.Format.fa_of_ndt v) (Model.Strftime.sf_new Proofs.C13Stamp.stamp_format) = Model.Format.fok text /\
    ndt_parse_from_str text Proofs.C13Stamp.stamp_format = pok (Proofs.C13Stamp.floor_ndt v).
Proof. exact Proofs.C13Stamp.ndt_stamp_parse_from_str. Qed.
Print Assumptions C13_stamp_ndt_parse_from_str.

Theorem C13_stamp_utc_parse_from_str : forall y o v,
  Proofs.C08Sweeps.repr y o (Model.DateTime.nd_date v) -> valid_time (Model.DateTime.nd_time v) ->
  exists a text,
    Model.Format.fa_of_utc v = Val a /\
    Model.Format.delayed_display a (Model.Strftime.sf_new Proofs.C13Stamp.stamp_format) = Model.Format.fok text /\
    dt_parse_from_str text Proofs.C13Stamp.stamp_format = pok (Model.DateTime.mk_dtz (Proofs.C13Stamp.floor_ndt v) 0).
Proof. exact Proofs.C13Stamp.utc_stamp_parse_from_str. Qed.
Print Assumptions C13_stamp_utc_parse_from_str.

Example C13_stamp_roundtrip_inhabited :
  Proofs.C08Sweeps.repr 1969 365 (Proofs.C08Sweeps.mkdate 1969 365) /\ valid_time (Model.Time.mk_time 86399 0) /\
  Proofs.C08Sweeps.repr (-262143) 1 (Proofs.C08Sweeps.mkdate (-262143) 1) /\ valid_time (Model.Time.mk_time 0 0) /\
  Proofs.C13Stamp.stamp_text (-1) = [45; 49] /\
  ndt_parse_from_str [45; 49] Proofs.C13Stamp.stamp_format =
    pok (Model.DateTime.mk_ndt (Proofs.C08Sweeps.mkdate 1969 365) (Model.Time.mk_time 86399 0)).
Proof. exact Proofs.C13Stamp.stamp_roundtrip_inhabited. Qed.
Print Assumptions C13_stamp_roundtrip_inhabited.

(** ** "%s%.9f" and "%s%.f" (Proofs/C13StampFrac.v; [frac_spec_ok spec]: spec is the %.9f or the %.f item): the
    reader admits them (the timestamp stops at the dot; the fraction counts forward from the floor, also
    for negative timestamps).  For EVERY NaiveDateTime / DateTime<Utc> parsing the formatted text returns
    [drop_leap v]: the value itself (C13_drop_leap_is_identity), a leap second read back as the non-leap
    :59.fff of the same count of seconds. *)
From V Require Proofs.C13StampFrac.
Theorem C13_stamp_frac_ndt_roundtrip : forall y o v spec, Proofs.C13StampFrac.frac_spec_ok spec ->
  Proofs.C08Sweeps.repr y o (Model.DateTime.nd_date v) -> valid_time (Model.DateTime.nd_time v) ->
  exists text,
    Model.Format.write_items (Model.Format.fa_of_ndt v) (Proofs.C13StampFrac.STAMP_FRAC_FMT spec) [] = Model.Format.fok text /\
    (let+ p := parse Model.Parsed.parsed_new text (Proofs.C13StampFrac.STAMP_FRAC_FMT spec) in
     pr_of (Model.Parsed.to_naive_datetime_with_offset p 0)) = pok (Proofs.C13StampFrac.drop_leap v).
Proof. exact Proofs.C13StampFrac.ndt_stamp_frac_roundtrip. Qed.
Print Assumptions C13_stamp_frac_ndt_roundtrip.

Theorem C13_stamp_frac_utc_roundtrip : forall y o v spec, Proofs.C13StampFrac.frac_spec_ok spec ->
  Proofs.C08Sweeps.repr y o (Model.DateTime.nd_date v) -> valid_time (Model.DateTime.nd_time v) ->
  exists a text,
    Model.Format.fa_of_utc v = Val a /\
    Model.Format.write_items a (Proofs.C13StampFrac.STAMP_FRAC_FMT spec) [] = Model.Format.fok text /\
    (let+ p := parse Model.Parsed.parsed_new text (Proofs.C13StampFrac.STAMP_FRAC_FMT spec) in pr_of (Model.Parsed.to_datetime p))
      = pok (Model.DateTime.mk_dtz (Proofs.C13StampFrac.drop_leap v) 0).
Proof. exact Proofs.C13StampFrac.utc_stamp_frac_roundtrip. Qed.
Print Assumptions C13_stamp_frac_utc_roundtrip.

Theorem C13_stamp_frac_ndt_parse_from_str : forall y o v spec, Proofs.C13StampFrac.frac_spec_ok spec ->
  Proofs.C08Sweeps.repr y o (Model.DateTime.nd_date v) -> valid_time (Model.DateTime.nd_time v) ->
  exists text,
    Model.Format.delayed_display (Model.Format.fa_of_ndt v) (Model.Strftime.sf_new (Proofs.C13StampFrac.stamp_frac_format spec))
      = Model.Format.fok text /\
    ndt_parse_from_str text (Proofs.C13StampFrac.stamp_frac_format spec) = pok (Proofs.C13StampFrac.drop_leap v).
Proof. exact Proofs.C13StampFrac.ndt_stamp_frac_parse_from_str. Qed.
Print Assumptions C13_stamp_frac_ndt_parse_from_str.

Theorem C13_stamp_frac_utc_parse_from_str : forall y o v spec, Proofs.C13StampFrac.frac_spec_ok spec ->
  Proofs.C08Sweeps.repr y o (Model.DateTime.nd_date v) -> valid_time (Model.DateTime.nd_time v) ->
  exists a text,
    Model.Format.fa_of_utc v = Val a /\
    Model.Format.delayed_display a (Model.Strftime.sf_new (Proofs.C13StampFrac.stamp_frac_format spec)) = Model.Format.fok text /\
    dt_parse_from_str text (Proofs.C13StampFrac.stamp_frac_format spec)
      = pok (Model.DateTime.mk_dtz (Proofs.C13StampFrac.drop_leap v) 0).
Proof. exact Proofs.C13StampFrac.utc_stamp_frac_parse_from_str. Qed.
Print Assumptions C13_stamp_frac_utc_parse_from_str.

Theorem C13_drop_leap_is_identity : forall v,
  Model.Time.tfrac (Model.DateTime.nd_time v) < 1000000000 -> 0 <= Model.Time.tfrac (Model.DateTime.nd_time v) ->
  Proofs.C13StampFrac.drop_leap v = v.
Proof. exact Proofs.C13StampFrac.drop_leap_id. Qed.
Print Assumptions C13_drop_leap_is_identity.

Example C13_stamp_frac_inhabited :
  Proofs.C13StampFrac.frac_spec_ok F_Nanosecond9 /\ Proofs.C13StampFrac.frac_spec_ok F_Nanosecond /\
  ndt_parse_from_str [45; 50; 46; 53; 48; 48; 48; 48; 48; 48; 48; 48] (Proofs.C13StampFrac.stamp_frac_format F_Nanosecond9) =
    pok (Model.DateTime.mk_ndt (Proofs.C08Sweeps.mkdate 1969 365) (Model.Time.mk_time 86398 500000000)) /\
  ndt_parse_from_str [45; 50; 46; 53; 48; 48] (Proofs.C13StampFrac.stamp_frac_format F_Nanosecond) =
    pok (Model.DateTime.mk_ndt (Proofs.C08Sweeps.mkdate 1969 365) (Model.Time.mk_time 86398 500000000)).
Proof. exact Proofs.C13StampFrac.stamp_frac_inhabited. Qed.
Print Assumptions C13_stamp_frac_inhabited.

(** ** %v (= "%e-%b-%Y"), %h (= %b), %n and %t (white space): StrftimeItems expands them to items of the class
    above (Proofs/C13MoreForms.v).  [fmt_date_class fmt] / [fmt_ndt_class k fmt] decide membership on the
    format STRING; for a member, X::parse_from_str(&v.format(fmt).to_string(), fmt) = Ok(v with the printed
    fields) for EVERY value.  (The %C + %y pair, %Z / %::z / %:::z, "%s" with an offset and non-ASCII literals
    have end-to-end theorems at the end of this file.) *)
From V Require Proofs.C13MoreForms.
Theorem C13_fmt_date_class_roundtrip : forall fmt, Proofs.C13MoreForms.fmt_date_class fmt = true ->
  forall y o d, Proofs.C08Sweeps.repr y o d ->
  exists text,
    Model.Format.delayed_display (Model.Format.fa_of_date d) (Model.Strftime.sf_new fmt) = Model.Format.fok text /\
    date_parse_from_str text fmt = pok d.
Proof. exact Proofs.C13MoreForms.fmt_date_class_roundtrip. Qed.
Print Assumptions C13_fmt_date_class_roundtrip.

Theorem C13_fmt_ndt_class_roundtrip : forall fmt k, fmt_ndt_class k fmt = true -> k = 3 \/ k = 6 \/ k = 9 ->
  exists items, items_of fmt = Val (Some items) /\
  forall y o d t, Proofs.C08Sweeps.repr y o d -> valid_time t ->
  exists text,
    Model.Format.delayed_display (Model.Format.fa_of_ndt (Model.DateTime.mk_ndt d t)) (Model.Strftime.sf_new fmt) = Model.Format.fok text /\
    ndt_parse_from_str text fmt = pok (Model.DateTime.mk_ndt d (static_time_value items k t)).
Proof. exact Proofs.C13MoreForms.fmt_ndt_class_roundtrip. Qed.
Print Assumptions C13_fmt_ndt_class_roundtrip.

(* "%v", "%d %h %Y", "%e%t%h%n%Y"; "%F%n%T", "%F%t%T", "%v%n%T", "%d %h %Y%t%H:%M:%S"; %h is the item of %b *)
Example C13_more_format_strings :
  Proofs.C13MoreForms.fmt_date_class [37;118] = true /\
  Proofs.C13MoreForms.fmt_date_class [37;100;32;37;104;32;37;89] = true /\
  Proofs.C13MoreForms.fmt_date_class [37;101;37;116;37;104;37;110;37;89] = true /\
  fmt_ndt_class 9 [37;70;37;110;37;84] = true /\
  fmt_ndt_class 9 [37;70;37;116;37;84] = true /\
  fmt_ndt_class 9 [37;118;37;110;37;84] = true /\
  fmt_ndt_class 9 [37;100;32;37;104;32;37;89;37;116;37;72;58;37;77;58;37;83] = true /\
  items_of [37;104] = items_of [37;98] /\
  items_of [37;110;37;116] = Val (Some [Space [10]; Space [9]]).
Proof. exact Proofs.C13MoreForms.more_format_strings. Qed.
Print Assumptions C13_more_format_strings.

(** ** never-Panic (slice safety) for EVERY item list, the Fixed::RFC2822 item included
    (Proofs/C13Total.v; the older forms above, which exclude that item, are kept under their names).
    [Proofs.C13Total.item_wf]: the only condition on an item is that a literal is a string (what
    [Item::Literal(&str)] guarantees); [blen s <= u64_max]: the input has a length a Rust string can
    have (the RFC 2822 reader does usize arithmetic on lengths). *)
From V Require Proofs.C13Total.

(* the RFC 2822 item on its own: value or ParseError, remainder well-formed and not longer *)
Theorem C13_rfc2822_item_never_panics : forall p s, wf s -> blen s <= u64_max ->
  safe (parse_rfc2822 p s) (fun x => wf (snd x) /\ blen (snd x) <= blen s).
Proof. exact Proofs.C13Total.parse_rfc2822_copy_safe. Qed.
Print Assumptions C13_rfc2822_item_never_panics.

(* no arm of parse_internal hands on a remainder longer than its input (all arms but RFC 2822, whose
   statement is the theorem above) *)
Theorem C13_items_do_not_lengthen : forall items p s p' s',
  forallb Proofs.C13Total.item_not2822 items = true ->
  parse_internal p s items = Val (POk (p', s')) -> blen s' <= blen s.
Proof.
  exact (fun items p s p' s' H E =>
           Proofs.C13Total.parse_items_len parse_rfc3339_relaxed Proofs.C13Total.relaxed_len items p s H (p', s') E).
Qed.
Print Assumptions C13_items_do_not_lengthen.

Theorem C13_parse_internal_safe : forall items p s,
  forallb Proofs.C13Total.item_wf items = true -> wf s -> blen s <= u64_max ->
  safe (parse_internal p s items) good.
Proof. exact Proofs.C13Total.parse_internal_safe_all. Qed.
Print Assumptions C13_parse_internal_safe.

Theorem C13_parse_never_panics : forall items p s,
  forallb Proofs.C13Total.item_wf items = true -> utf8_valid s = true -> blen s <= u64_max ->
  parse p s items <> Panic /\ parse p s items <> OutOfFuel /\
  parse_and_remainder p s items <> Panic /\ parse_and_remainder p s items <> OutOfFuel.
Proof. exact Proofs.C13Total.parse_never_panics_all. Qed.
Print Assumptions C13_parse_never_panics.

Example C13_parse_never_panics_inhabited :
  forallb Proofs.C13Total.item_wf Proofs.C13Total.ex_items = true /\
  (exists p, parse Model.Parsed.parsed_new Proofs.C13Total.ex_input_closed Proofs.C13Total.ex_items = Val (POk p)) /\
  parse Model.Parsed.parsed_new Proofs.C13Total.ex_input_open Proofs.C13Total.ex_items = Val (PErr TooLong).
Proof. exact Proofs.C13Total.ex_total. Qed.
Print Assumptions C13_parse_never_panics_inhabited.

(** ** literals of a format need not be ASCII.  The class [static_ok2] / [static_ok] of the theorems above
    asks of a literal only that it is well-formed UTF-8 ([it_static (Literal l) r = utf8_valid l]); its
    first byte decides "may start with a digit / a dot" (a byte >= 128 is neither), its first CODE POINT
    "may start with white space" ([starts_ws]: a literal starting with U+00A0, U+2003, U+3000 ... after a
    white-space item is outside the class, because the reader's trim_start would eat into it).  So
    every class theorem above holds for formats such as "%Y年%m月%d日 %H時%M分%S秒".  The class with ASCII
    literals only ([static_ok2_ascii]: the earlier definition) is contained in it. *)
Theorem C13_class_contains_ascii_class : forall items,
  Proofs.C13Static.static_ok2_ascii items = true -> static_ok2 items = true.
Proof. exact Proofs.C13Static.static_class_grows. Qed.
Print Assumptions C13_class_contains_ascii_class.

(* the item-level statement: any well-formed literal is rendered as itself and taken back exactly *)
Theorem C13_literal_utf8_roundtrip : forall a l rest, utf8_valid l = true -> utf8_valid rest = true ->
  Proofs.C13View.item_rt a (Literal l) l W_none rest.
Proof. exact Proofs.C13Utf8Lit.item_lit_utf8. Qed.
Print Assumptions C13_literal_utf8_roundtrip.

Example C13_class_utf8_literal_members :
  (* the item list and the format string of "%Y年%m月%d日 %H時%M分%S秒"; StrftimeItems yields these items *)
  ndt_static 9 Proofs.C13MoreForms.CJK_ITEMS = true /\
  items_of Proofs.C13MoreForms.CJK_FMT = Val (Some Proofs.C13MoreForms.CJK_ITEMS) /\
  fmt_ndt_class 9 Proofs.C13MoreForms.CJK_FMT = true /\
  (* "%Y年%m月%d日" as a date format; a space-padded hour in front of a non-ASCII literal *)
  Proofs.C13MoreForms.fmt_date_class [37;89;229;185;180; 37;109;230;156;136; 37;100;230;151;165] = true /\
  static_ok [nums N_Hour; Literal [230;153;130]; num N_Minute; Literal [229;136;134]] = true /\
  (* U+2212 MINUS SIGN, U+00B7 MIDDLE DOT, a four-byte emoji as separators *)
  static_ok [num0 N_Year; Literal [226;136;146]; num0 N_Month; Literal [194;183]; num0 N_Day; Literal [240;159;149;146]; num0 N_Hour] = true /\
  (* a literal that starts with NO-BREAK SPACE / IDEOGRAPHIC SPACE: fine after a number or a literal ... *)
  static_ok [num0 N_Day; Literal [194;160]; num0 N_Month; Literal [227;128;128]; num0 N_Year] = true /\
  (* ... but not after a white-space item (the reader's trim_start would take it), also through an empty literal *)
  static_ok2 [num0 N_Day; Space [32]; Literal [194;160]; num0 N_Month] = false /\
  static_ok2 [num0 N_Day; Space [32]; Literal []; Literal [227;128;128; 65]; num0 N_Month] = false /\
  static_ok2 [num0 N_Day; Space [32]; Literal [195;160]; num0 N_Month] = true /\
  (* the flags of an ASCII first byte are what they were: digit / white space / dot *)
  static_ok2 [num N_Day; Literal [49;229;185;180]] = false /\ static_ok2 [num N_Day; Literal [229;185;180;49]] = true /\
  static_ok2 [Space [32]; Literal [9;65]] = false /\ static_ok2 [IFixed F_Nanosecond; Literal [46]] = false /\
  (* ill-formed literals (a lone continuation byte, a truncated sequence, a surrogate) stay outside; white
     space of the FORMAT that is not ASCII is a Space item of StrftimeItems and stays outside *)
  static_ok2 [Literal [185;180]] = false /\ static_ok2 [Literal [229;185]] = false /\ static_ok2 [Literal [237;160;128]] = false /\
  items_of [37;100;194;160;37;72] = Val (Some [num0 N_Day; Space [194;160]; num0 N_Hour]) /\
  fmt_ndt_class 9 [37;70;194;160;37;84] = false.
Proof. exact Proofs.C13MoreForms.class_utf8_literal_members. Qed.
Print Assumptions C13_class_utf8_literal_members.

(* instance of C13_fmt_ndt_class_roundtrip: every NaiveDateTime written with "%Y年%m月%d日 %H時%M分%S秒" is
   parsed back by NaiveDateTime::parse_from_str with the same format to the value truncated to the
   second (the leap-second marker is kept) *)
Theorem C13_cjk_ndt_parse_from_str : forall y o d t, Proofs.C08Sweeps.repr y o d -> valid_time t ->
  exists text,
    Model.Format.delayed_display (Model.Format.fa_of_ndt (Model.DateTime.mk_ndt d t))
      (Model.Strftime.sf_new Proofs.C13MoreForms.CJK_FMT) = Model.Format.fok text /\
    ndt_parse_from_str text Proofs.C13MoreForms.CJK_FMT =
      pok (Model.DateTime.mk_ndt d (Model.Time.mk_time (Model.Time.tsecs t) (leap_part t))).
Proof. exact Proofs.C13MoreForms.cjk_ndt_parse_from_str. Qed.
Print Assumptions C13_cjk_ndt_parse_from_str.

(** ** the %C + %y pair END TO END (Proofs/C13Century.v; through the general composition above, which
    resolves a year from century + two-digit year).  [century_items]: the item lists of "%C%y-%m-%d",
    "%C%y-%j", "%C%y-W%W-%u", "%C%y-U%U-%w" ([century_formats] the format strings).  For EVERY NaiveDate of
    the years 0..=9999 -- year 0 included -- parsing the formatted text returns the date; likewise
    NaiveDateTime with "%C%y-%m-%dT%H:%M:%S" (to the second).  The bound is exact: for EVERY negative year
    the formatter prints a signed century ("-1" "99" for year -1) which the reader's unsigned two-digit
    field refuses (Invalid); from year 10000 on the century has three digits, one more than the reader's
    field takes: %C reads two of them, %y the next two, the "-" that follows meets a digit: Invalid for EVERY
    such date (C13_date_century_wide_refused). *)
From V Require Proofs.C13Century.
Theorem C13_date_century_roundtrip : forall y o d items,
  Proofs.C08Sweeps.repr y o d -> 0 <= y <= 9999 -> In items Proofs.C13Century.century_items ->
  exists text,
    Model.Format.write_items (Model.Format.fa_of_date d) items [] = Model.Format.fok text /\
    (let+ p := parse Model.Parsed.parsed_new text items in pr_of (Model.Parsed.to_naive_date p)) = pok d.
Proof. exact Proofs.C13Century.date_century_roundtrip. Qed.
Print Assumptions C13_date_century_roundtrip.

Theorem C13_date_century_parse_from_str : forall y o d fmt,
  Proofs.C08Sweeps.repr y o d -> 0 <= y <= 9999 -> In fmt Proofs.C13Century.century_formats ->
  exists text,
    Model.Format.delayed_display (Model.Format.fa_of_date d) (Model.Strftime.sf_new fmt) = Model.Format.fok text /\
    date_parse_from_str text fmt = pok d.
Proof. exact Proofs.C13Century.date_century_parse_from_str. Qed.
Print Assumptions C13_date_century_parse_from_str.

Example C13_date_century_inhabited :
  (Proofs.C08Sweeps.repr 0 1 (Proofs.C08Sweeps.mkdate 0 1) /\ 0 <= 0 <= 9999) /\
  (Proofs.C08Sweeps.repr 9999 365 (Proofs.C08Sweeps.mkdate 9999 365) /\ 0 <= 9999 <= 9999) /\
  (Proofs.C08Sweeps.repr 2000 366 (Proofs.C08Sweeps.mkdate 2000 366) /\ 0 <= 2000 <= 9999) /\
  In Proofs.C13Century.CYW_ITEMS Proofs.C13Century.century_items.
Proof. exact Proofs.C13Century.date_century_roundtrip_inhabited. Qed.
Print Assumptions C13_date_century_inhabited.

Theorem C13_ndt_century_roundtrip : forall y o v,
  Proofs.C08Sweeps.repr y o (Model.DateTime.nd_date v) -> 0 <= y <= 9999 -> valid_time (Model.DateTime.nd_time v) ->
  exists text,
    Model.Format.write_items (Model.Format.fa_of_ndt v) Proofs.C13Century.CNDT_ITEMS [] = Model.Format.fok text /\
    (let+ p := parse Model.Parsed.parsed_new text Proofs.C13Century.CNDT_ITEMS in
     pr_of (Model.Parsed.to_naive_datetime_with_offset p 0)) = pok (trunc_ndt v).
Proof. exact Proofs.C13Century.ndt_century_roundtrip. Qed.
Print Assumptions C13_ndt_century_roundtrip.

Theorem C13_ndt_century_parse_from_str : forall y o v,
  Proofs.C08Sweeps.repr y o (Model.DateTime.nd_date v) -> 0 <= y <= 9999 -> valid_time (Model.DateTime.nd_time v) ->
  exists text,
    Model.Format.delayed_display (Model.Format.fa_of_ndt v) (Model.Strftime.sf_new Proofs.C13Century.cndt_format) = Model.Format.fok text /\
    ndt_parse_from_str text Proofs.C13Century.cndt_format = pok (trunc_ndt v).
Proof. exact Proofs.C13Century.ndt_century_parse_from_str. Qed.
Print Assumptions C13_ndt_century_parse_from_str.

Theorem C13_date_century_negative_refused : forall y o d items,
  Proofs.C08Sweeps.repr y o d -> y < 0 -> In items Proofs.C13Century.century_items ->
  exists text,
    Model.Format.write_items (Model.Format.fa_of_date d) items [] = Model.Format.fok text /\
    (let+ p := parse Model.Parsed.parsed_new text items in pr_of (Model.Parsed.to_naive_date p)) = Val (PErr Invalid).
Proof. exact Proofs.C13Century.date_century_negative_refused. Qed.
Print Assumptions C13_date_century_negative_refused.

(* PARTIAL: the formatter's side for every year >= 10000 (a century of at least three digits against the
   reader's width 2).  Missing here: the failure of the whole parse for a symbolic year >= 10000.
   SUPERSEDED by C13_date_century_wide_refused below, which proves it for every such date. *)
Theorem C13_date_century_wide_partial : forall y o d, Proofs.C08Sweeps.repr y o d -> 10000 <= y ->
  exists t, renders (Model.Format.fa_of_date d) (num0 N_YearDiv100) t /\
    forallb is_ascii_digit t = true /\ 3 <= blen t /\ digits_value t 0 = y / 100 /\
    numeric_entry N_YearDiv100 = Some (2, false, 1).
Proof. exact Proofs.C13Century.date_century_wide_partial. Qed.
Print Assumptions C13_date_century_wide_partial.

Example C13_century_boundary_refuted :
  Proofs.C08Sweeps.repr 10000 1 (Proofs.C08Sweeps.mkdate 10000 1) /\
  Proofs.C13Century.century_text 10000 1 Proofs.C13Century.cymd_format = Model.Format.fok Proofs.C13Century.text_10000 /\
  date_parse_from_str Proofs.C13Century.text_10000 Proofs.C13Century.cymd_format = Val (PErr Invalid) /\
  Proofs.C13Century.century_text 10000 1 Proofs.C13Century.cyj_format = Model.Format.fok Proofs.C13Century.text_10000_j /\
  date_parse_from_str Proofs.C13Century.text_10000_j Proofs.C13Century.cyj_format = Val (PErr Invalid) /\
  Proofs.C08Sweeps.repr (-1) 1 (Proofs.C08Sweeps.mkdate (-1) 1) /\
  Proofs.C13Century.century_text (-1) 1 Proofs.C13Century.cymd_format = Model.Format.fok Proofs.C13Century.text_m1 /\
  date_parse_from_str Proofs.C13Century.text_m1 Proofs.C13Century.cymd_format = Val (PErr Invalid) /\
  Proofs.C13Century.century_text (-1) 1 Proofs.C13Century.cyj_format = Model.Format.fok Proofs.C13Century.text_m1_j /\
  date_parse_from_str Proofs.C13Century.text_m1_j Proofs.C13Century.cyj_format = Val (PErr Invalid).
Proof. exact Proofs.C13Century.century_boundary_refuted. Qed.
Print Assumptions C13_century_boundary_refuted.

(** ** DateTime<FixedOffset> and the items that do not carry the offset back, END TO END (Proofs/C13Offsets.v;
    the value domain is [valid_dtz] above).  [wall_trunc yu ou z] is the wall clock of z at whole seconds.
    "%s": the instant comes back at whole seconds, the offset is lost (the result has offset 0).
    "%Y-%m-%dT%H:%M:%S%::z" ([DTZ_CC_FMT]): %::z prints +hh:mm:ss, the reader stops after the minutes, so
    DateTime::parse_from_str is Err(TooLong) for EVERY value; DateTime::parse_and_remainder returns the value
    (to the second) and the remainder ":00".  An offset that has seconds is printed with them but NOT read back
    (C13_offsets_inhabited: +01:01:01 comes back as +01:01, the instant one second later, ":01" left over).
    "...%:::z" ([DTZ_CCC_FMT]): prints +hh, the reader insists on minutes: Err(TooShort) for EVERY value, also
    through parse_and_remainder -- the set of values that round-trip is empty.
    "%Z": the formatter prints the offset's Display name (+hh:mm), the reader skips the run of non-white-space and
    sets no field: "...%z %Z" / "...%:z %Z" ([DTZ_NAME_FMT]) return the value; "... %Z" without an offset item
    ([NDT_NAME_FMT]) is Err(NotEnough) for EVERY DateTime<FixedOffset> while NaiveDateTime::parse_from_str on the
    same text returns the wall clock.  (%#z never formats: C13_permissive_offset_read_only.) *)
From V Require Proofs.C13Offsets.
Theorem C13_dtz_stamp_roundtrip : forall yu ou z, valid_dtz yu ou z ->
  exists a text,
    Model.Format.fa_of_dtz z = Val a /\
    Model.Format.write_items a Proofs.C13Stamp.STAMP_FMT [] = Model.Format.fok text /\
    (let+ p := parse Model.Parsed.parsed_new text Proofs.C13Stamp.STAMP_FMT in pr_of (Model.Parsed.to_datetime p)) =
      pok (Model.DateTime.mk_dtz (Proofs.C13Stamp.floor_ndt (Model.DateTime.dz_utc z)) 0).
Proof. exact Proofs.C13Offsets.dtz_stamp_roundtrip. Qed.
Print Assumptions C13_dtz_stamp_roundtrip.

Theorem C13_dtz_stamp_parse_from_str : forall yu ou z, valid_dtz yu ou z ->
  exists a text,
    Model.Format.fa_of_dtz z = Val a /\
    Model.Format.delayed_display a (Model.Strftime.sf_new Proofs.C13Stamp.stamp_format) = Model.Format.fok text /\
    dt_parse_from_str text Proofs.C13Stamp.stamp_format =
      pok (Model.DateTime.mk_dtz (Proofs.C13Stamp.floor_ndt (Model.DateTime.dz_utc z)) 0).
Proof. exact Proofs.C13Offsets.dtz_stamp_parse_from_str. Qed.
Print Assumptions C13_dtz_stamp_parse_from_str.

Theorem C13_dtz_double_colon_refused : forall yu ou z, valid_dtz yu ou z ->
  exists a text,
    Model.Format.fa_of_dtz z = Val a /\
    Model.Format.write_items a Proofs.C13Offsets.DTZ_CC_FMT [] = Model.Format.fok text /\
    parse Model.Parsed.parsed_new text Proofs.C13Offsets.DTZ_CC_FMT = perr_ TooLong /\
    (let+ '(p, r) := parse_and_remainder Model.Parsed.parsed_new text Proofs.C13Offsets.DTZ_CC_FMT in
     let+ d := pr_of (Model.Parsed.to_datetime p) in pok (d, r)) = pok (trunc_dtz z, [58; 48; 48]).
Proof. exact Proofs.C13Offsets.dtz_double_colon_refused. Qed.
Print Assumptions C13_dtz_double_colon_refused.

Theorem C13_dtz_double_colon_parse_from_str : forall yu ou z, valid_dtz yu ou z ->
  exists a text,
    Model.Format.fa_of_dtz z = Val a /\
    Model.Format.delayed_display a (Model.Strftime.sf_new Proofs.C13Offsets.dtz_cc_format) = Model.Format.fok text /\
    dt_parse_from_str text Proofs.C13Offsets.dtz_cc_format = perr_ TooLong /\
    dt_parse_and_remainder text Proofs.C13Offsets.dtz_cc_format = pok (trunc_dtz z, [58; 48; 48]).
Proof. exact Proofs.C13Offsets.dtz_double_colon_parse_from_str. Qed.
Print Assumptions C13_dtz_double_colon_parse_from_str.

Theorem C13_dtz_triple_colon_refused : forall yu ou z, valid_dtz yu ou z ->
  exists a text,
    Model.Format.fa_of_dtz z = Val a /\
    Model.Format.write_items a Proofs.C13Offsets.DTZ_CCC_FMT [] = Model.Format.fok text /\
    parse Model.Parsed.parsed_new text Proofs.C13Offsets.DTZ_CCC_FMT = perr_ TooShort /\
    parse_and_remainder Model.Parsed.parsed_new text Proofs.C13Offsets.DTZ_CCC_FMT = perr_ TooShort.
Proof. exact Proofs.C13Offsets.dtz_triple_colon_refused. Qed.
Print Assumptions C13_dtz_triple_colon_refused.

Theorem C13_dtz_triple_colon_parse_from_str : forall yu ou z, valid_dtz yu ou z ->
  exists a text,
    Model.Format.fa_of_dtz z = Val a /\
    Model.Format.delayed_display a (Model.Strftime.sf_new Proofs.C13Offsets.dtz_ccc_format) = Model.Format.fok text /\
    dt_parse_from_str text Proofs.C13Offsets.dtz_ccc_format = perr_ TooShort /\
    dt_parse_and_remainder text Proofs.C13Offsets.dtz_ccc_format = perr_ TooShort.
Proof. exact Proofs.C13Offsets.dtz_triple_colon_parse_from_str. Qed.
Print Assumptions C13_dtz_triple_colon_parse_from_str.

Theorem C13_dtz_name_roundtrip : forall yu ou z colon, valid_dtz yu ou z ->
  exists a text,
    Model.Format.fa_of_dtz z = Val a /\
    Model.Format.write_items a (Proofs.C13Offsets.DTZ_NAME_FMT colon) [] = Model.Format.fok text /\
    (let+ p := parse Model.Parsed.parsed_new text (Proofs.C13Offsets.DTZ_NAME_FMT colon) in pr_of (Model.Parsed.to_datetime p)) =
      pok (trunc_dtz z).
Proof. exact Proofs.C13Offsets.dtz_name_roundtrip. Qed.
Print Assumptions C13_dtz_name_roundtrip.

Theorem C13_dtz_name_parse_from_str : forall yu ou z colon, valid_dtz yu ou z ->
  exists a text,
    Model.Format.fa_of_dtz z = Val a /\
    Model.Format.delayed_display a (Model.Strftime.sf_new (Proofs.C13Offsets.dtz_name_format colon)) = Model.Format.fok text /\
    dt_parse_from_str text (Proofs.C13Offsets.dtz_name_format colon) = pok (trunc_dtz z).
Proof. exact Proofs.C13Offsets.dtz_name_parse_from_str. Qed.
Print Assumptions C13_dtz_name_parse_from_str.

Theorem C13_dtz_name_alone : forall yu ou z, valid_dtz yu ou z ->
  exists a text,
    Model.Format.fa_of_dtz z = Val a /\
    Model.Format.write_items a Proofs.C13Offsets.NDT_NAME_FMT [] = Model.Format.fok text /\
    (let+ p := parse Model.Parsed.parsed_new text Proofs.C13Offsets.NDT_NAME_FMT in pr_of (Model.Parsed.to_datetime p)) = perr_ NotEnough /\
    (let+ p := parse Model.Parsed.parsed_new text Proofs.C13Offsets.NDT_NAME_FMT in
     pr_of (Model.Parsed.to_naive_datetime_with_offset p 0)) = pok (Proofs.C13Offsets.wall_trunc yu ou z).
Proof. exact Proofs.C13Offsets.dtz_name_alone. Qed.
Print Assumptions C13_dtz_name_alone.

Theorem C13_dtz_name_alone_parse_from_str : forall yu ou z, valid_dtz yu ou z ->
  exists a text,
    Model.Format.fa_of_dtz z = Val a /\
    Model.Format.delayed_display a (Model.Strftime.sf_new Proofs.C13Offsets.ndt_name_format) = Model.Format.fok text /\
    dt_parse_from_str text Proofs.C13Offsets.ndt_name_format = perr_ NotEnough /\
    ndt_parse_from_str text Proofs.C13Offsets.ndt_name_format = pok (Proofs.C13Offsets.wall_trunc yu ou z).
Proof. exact Proofs.C13Offsets.dtz_name_alone_parse_from_str. Qed.
Print Assumptions C13_dtz_name_alone_parse_from_str.

Example C13_offsets_inhabited :
  valid_dtz 2016 366 Proofs.C13Offsets.ex_z /\
  Model.DateTime.dz_off Proofs.C13Offsets.ex_zs mod 60 <> 0 /\
  Proofs.C13Offsets.ex_zs_text = [50;48;49;53;45;48;54;45;51;48;84;49;51;58;48;49;58;48;49;43;48;49;58;48;49;58;48;49] /\
  dt_parse_from_str Proofs.C13Offsets.ex_zs_text Proofs.C13Offsets.dtz_cc_format = perr_ TooLong /\
  dt_parse_and_remainder Proofs.C13Offsets.ex_zs_text Proofs.C13Offsets.dtz_cc_format =
    pok (Model.DateTime.mk_dtz (Model.DateTime.mk_ndt (Proofs.C08Sweeps.mkdate 2015 181) (Model.Time.mk_time 43201 0)) 3660, [58; 48; 49]).
Proof. exact Proofs.C13Offsets.offsets_inhabited. Qed.
Print Assumptions C13_offsets_inhabited.

(* the upper bound is exact (Proofs/C13CenturyWide.v): EVERY date of a year >= 10000, the four forms *)
From V Require Proofs.C13CenturyWide.
Theorem C13_date_century_wide_refused : forall y o d items,
  Proofs.C08Sweeps.repr y o d -> 10000 <= y -> In items Proofs.C13Century.century_items ->
  exists text,
    Model.Format.write_items (Model.Format.fa_of_date d) items [] = Model.Format.fok text /\
    (let+ p := parse Model.Parsed.parsed_new text items in pr_of (Model.Parsed.to_naive_date p)) = Val (PErr Invalid).
Proof. exact Proofs.C13CenturyWide.date_century_wide_refused. Qed.
Print Assumptions C13_date_century_wide_refused.

Example C13_date_century_wide_refused_inhabited :
  Proofs.C08Sweeps.repr 10000 1 (Proofs.C08Sweeps.mkdate 10000 1) /\ 10000 <= 10000 /\
  Proofs.C08Sweeps.repr 262142 365 (Proofs.C08Sweeps.mkdate 262142 365) /\ 10000 <= 262142 /\
  In Proofs.C13Century.CYU_ITEMS Proofs.C13Century.century_items.
Proof. exact Proofs.C13CenturyWide.date_century_wide_refused_inhabited. Qed.
Print Assumptions C13_date_century_wide_refused_inhabited.

(** ** the composite item Fixed::RFC3339 / the format string "%+" through parse_internal END TO END
    (Proofs/C13Rfc.v).  The formatter arm is write_rfc3339 with SecondsFormat::AutoSi; the reader arm is
    parse_rfc3339_relaxed (not the strict reader of C10).  For EVERY value of [valid_dtz] -- every year of
    the range (the writer prints a sign outside 0..=9999, the relaxed reader's %Y takes it), every time of
    day, leap second on :59 included -- the value comes back EXACTLY: AutoSi prints 0 / 3 / 6 / 9 fraction
    digits, whichever loses nothing, and second 60 is read back with its flag.
    Fixed::RFC2822 inside parse_internal has no end-to-end theorem: its arm is a second transcription
    (Model.Parse.parse_rfc2822) of the function C11's theorems are about (Model.Rfc2822.parse_rfc2822);
    Proofs/C13Rfc2822.v has the glue lemmas, the equality of the two and the writer equation are open.
    It is covered by the never-Panic theorem above and by the correspondence run. *)
From V Require Proofs.C13Rfc.
Theorem C13_rfc3339_item_roundtrip : forall yu ou z, valid_dtz yu ou z ->
  exists a text,
    Model.Format.fa_of_dtz z = Val a /\
    Model.Format.write_items a [IFixed F_RFC3339] [] = Model.Format.fok text /\
    (let+ p := parse Model.Parsed.parsed_new text [IFixed F_RFC3339] in pr_of (Model.Parsed.to_datetime p)) = pok z.
Proof. exact Proofs.C13Rfc.rfc3339_item_roundtrip. Qed.
Print Assumptions C13_rfc3339_item_roundtrip.

Theorem C13_rfc3339_parse_from_str : forall yu ou z, valid_dtz yu ou z ->
  exists a text,
    Model.Format.fa_of_dtz z = Val a /\
    Model.Format.delayed_display a (Model.Strftime.sf_new Proofs.C13Rfc.rfc3339_format) = Model.Format.fok text /\
    dt_parse_from_str text Proofs.C13Rfc.rfc3339_format = pok z.
Proof. exact Proofs.C13Rfc.rfc3339_parse_from_str. Qed.
Print Assumptions C13_rfc3339_parse_from_str.

Example C13_rfc3339_roundtrip_inhabited :
  valid_dtz 2016 366 (Model.DateTime.mk_dtz (Model.DateTime.mk_ndt (Proofs.C08Sweeps.mkdate 2016 366) (Model.Time.mk_time 86399 1500000000)) (-34200)) /\
  dt_parse_from_str [50;48;49;54;45;49;50;45;51;49;84;49;52;58;50;57;58;54;48;46;53;48;48;45;48;57;58;51;48] Proofs.C13Rfc.rfc3339_format =
    pok (Model.DateTime.mk_dtz (Model.DateTime.mk_ndt (Proofs.C08Sweeps.mkdate 2016 366) (Model.Time.mk_time 86399 1500000000)) (-34200)) /\
  valid_dtz (-1) 1 (Model.DateTime.mk_dtz (Model.DateTime.mk_ndt (Proofs.C08Sweeps.mkdate (-1) 1) (Model.Time.mk_time 0 123456000)) 3600).
Proof.
  exact (conj (proj1 Proofs.C13Rfc.rfc3339_roundtrip_inhabited)
          (conj (proj1 (proj2 Proofs.C13Rfc.rfc3339_roundtrip_inhabited))
                (proj1 (proj2 (proj2 Proofs.C13Rfc.rfc3339_roundtrip_inhabited))))).
Qed.
Print Assumptions C13_rfc3339_roundtrip_inhabited.
