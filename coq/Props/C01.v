(** C01 — calendar, ordinal, ISO-week and day-count forms of a date agree.
    Property theorems only: each is closed by [exact] of a lemma from Proofs/Date.v (which builds
    on Proofs/C08*.v) or Proofs/Gregorian.v and followed by [Print Assumptions].  The model
    functions are the line-by-line transcription of src/naive/internals.rs, src/naive/date/mod.rs
    and src/naive/isoweek.rs in Model/Date.v; the oracle is the proleptic Gregorian calendar of
    Spec/Gregorian.v (leap rule, month lengths, ISO week rule).
    [repr y o d]: the word [d] is the packed date of year [y] (in -262143..=262142) and ordinal [o]
    (1..=length of year y) with that year's flags, [mkdate y o].  [date_if b d] is [Some d] when
    [b] holds and [None] otherwise; [date_of_dn n] is the packed date of day number [n]. *)
From Coq Require Import ZArith List Bool.
From V Require Import Base.Int Base.Table Gen.DateTables Model.Date Spec.Gregorian Proofs.Date.
Open Scope Z_scope.

(* 1. year-month-day constructor, every i32/u32 argument: the date exactly when the fields denote one in range *)
Theorem C01_from_ymd_opt : forall y m dd, in_i32 y = true -> in_u32 m = true -> in_u32 dd = true ->
  from_ymd_opt y m dd = Val (date_if (year_in_range y && valid_ymd y m dd) (mk_ymd y m dd)).
Proof. exact from_ymd_opt_spec. Qed.
Print Assumptions C01_from_ymd_opt.

(* 2. year-ordinal constructor *)
Theorem C01_from_yo_opt : forall y o, in_i32 y = true -> in_u32 o = true ->
  from_yo_opt y o = Val (date_if (year_in_range y && valid_yo y o) (mkdate y o)).
Proof. exact from_yo_opt_spec. Qed.
Print Assumptions C01_from_yo_opt.

(* 4. day-number constructor, every i32 argument *)
Theorem C01_from_num_days_from_ce_opt : forall n, in_i32 n = true ->
  from_num_days_from_ce_opt n = Val (date_if (dn_in_range n) (date_of_dn n)).
Proof. exact from_num_days_from_ce_opt_spec. Qed.
Print Assumptions C01_from_num_days_from_ce_opt.

Theorem C01_date_of_dn_repr : forall n, dn_in_range n = true ->
  repr (fst (yo_of_dn n)) (snd (yo_of_dn n)) (date_of_dn n).
Proof. exact date_of_dn_repr. Qed.
Print Assumptions C01_date_of_dn_repr.

(* 5. accessors *)
Theorem C01_num_days_from_ce : forall y o d, repr y o d -> num_days_from_ce d = Val (dn_of_yo y o).
Proof. exact num_days_from_ce_spec. Qed.
Print Assumptions C01_num_days_from_ce.

Theorem C01_weekday : forall y o d, repr y o d -> d_weekday d = Val (weekday_of_dn (dn_of_yo y o)).
Proof. exact d_weekday_spec. Qed.
Print Assumptions C01_weekday.

(* 8. successor / predecessor: the neighbouring day number, refused exactly at the range ends *)
Theorem C01_succ_opt : forall y o d, repr y o d ->
  succ_opt d = Val (date_if (dn_in_range (dn_of_yo y o + 1)) (date_of_dn (dn_of_yo y o + 1))).
Proof. exact succ_opt_spec. Qed.
Print Assumptions C01_succ_opt.

Theorem C01_pred_opt : forall y o d, repr y o d ->
  pred_opt d = Val (date_if (dn_in_range (dn_of_yo y o - 1)) (date_of_dn (dn_of_yo y o - 1))).
Proof. exact pred_opt_spec. Qed.
Print Assumptions C01_pred_opt.
