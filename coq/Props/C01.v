(** C01 — calendar, ordinal, ISO-week and day-count forms of a date agree.
    Property theorems only: each is closed by [exact] of a lemma from Proofs/ (Proofs/C01.v,
    Proofs/Date.v, Proofs/DateIso.v, Proofs/Gregorian*.v, which build on Proofs/C08*.v) and followed
    by [Print Assumptions].  The model functions are the line-by-line transcription of
    src/naive/internals.rs, src/naive/date/mod.rs, src/naive/isoweek.rs and the provided method
    [Datelike::num_days_from_ce] of src/traits.rs (Model/Date.v, Model/C01.v), with trapping integer
    arithmetic ([Val] / [Panic]); the oracle is the proleptic Gregorian calendar of Spec/Gregorian.v
    (leap rule, month lengths, ISO week rule: the week's Thursday decides the year).

    Vocabulary.  [repr y o d]: the word [d] is the packed date [mkdate y o] of a year [y] in
    -262143..=262142 and an ordinal [o] in 1..=length of year [y], carrying that year's flags (the
    "valid date" of DESIGN.md 5 C01; the canonical case encoding of a date is exactly (y, o)).
    [date_if b d] = [Some d] if [b] else [None].  [date_of_dn n] = the packed date of day number
    [n].  [mk_ymd y m dd] = [mkdate y (ordinal_of_md (is_leap y) m dd)].  Every theorem is stated
    for ALL arguments of the Rust types; each says [= Val ...], so no operation traps. *)
From Coq Require Import ZArith List Bool.
From V Require Import Base.Int Base.IO Base.Table Gen.DateTables Model.Date Model.C01 Judge.C01 Spec.Gregorian Proofs.C01 Proofs.C01Holds.
From V Require Model.C01b Judge.C01b Model.Time Proofs.C01b.
Import ListNotations.
Open Scope Z_scope.

(** ** 1-4. The four constructors: the date exactly when the fields denote one inside the range *)
Theorem C01_from_ymd_opt : forall y m dd, in_i32 y = true -> in_u32 m = true -> in_u32 dd = true ->
  from_ymd_opt y m dd = Val (date_if (year_in_range y && valid_ymd y m dd) (mk_ymd y m dd)).
Proof. exact from_ymd_opt_spec. Qed.
Print Assumptions C01_from_ymd_opt.

Theorem C01_from_yo_opt : forall y o, in_i32 y = true -> in_u32 o = true ->
  from_yo_opt y o = Val (date_if (year_in_range y && valid_yo y o) (mkdate y o)).
Proof. exact from_yo_opt_spec. Qed.
Print Assumptions C01_from_yo_opt.

(* all seven weekdays, every i32 year (the year - 1 / year + 1 spill included), every u32 week *)
Theorem C01_from_isoywd_opt : forall y w wd, in_i32 y = true -> in_u32 w = true -> 0 <= wd <= 6 ->
  from_isoywd_opt y w wd =
    Val (date_if (valid_isoywd y w wd && dn_in_range (dn_of_isoywd y w wd)) (date_of_dn (dn_of_isoywd y w wd))).
Proof. exact from_isoywd_opt_spec. Qed.
Print Assumptions C01_from_isoywd_opt.

Theorem C01_from_num_days_from_ce_opt : forall n, in_i32 n = true ->
  from_num_days_from_ce_opt n = Val (date_if (dn_in_range n) (date_of_dn n)).
Proof. exact from_num_days_from_ce_opt_spec. Qed.
Print Assumptions C01_from_num_days_from_ce_opt.

(* the words the constructors return are valid dates with the right fields *)
Theorem C01_date_of_dn_repr : forall n, dn_in_range n = true ->
  repr (fst (yo_of_dn n)) (snd (yo_of_dn n)) (date_of_dn n).
Proof. exact date_of_dn_repr. Qed.
Print Assumptions C01_date_of_dn_repr.

Theorem C01_mk_ymd_repr : forall y m dd, year_in_range y = true -> valid_ymd y m dd = true ->
  repr y (ordinal_of_md (is_leap y) m dd) (mk_ymd y m dd) /\
  md_of_ordinal (is_leap y) (ordinal_of_md (is_leap y) m dd) = (m, dd).
Proof. exact mk_ymd_repr. Qed.
Print Assumptions C01_mk_ymd_repr.

(** ** 5. Accessors of a valid date equal the calendar's functions of its day number *)
Theorem C01_accessors : forall y o d, repr y o d -> d_acc d = Val (spec_acc y o).
Proof. exact accessors_spec. Qed.
Print Assumptions C01_accessors.

Theorem C01_num_days_from_ce : forall y o d, repr y o d -> num_days_from_ce d = Val (dn_of_yo y o).
Proof. exact num_days_from_ce_spec. Qed.
Print Assumptions C01_num_days_from_ce.

Theorem C01_datelike_num_days_from_ce : forall y o, year_in_range y = true -> 1 <= o <= 366 ->
  datelike_num_days_from_ce y o = Val (dn_of_yo y o).
Proof. exact datelike_num_days_from_ce_spec. Qed.
Print Assumptions C01_datelike_num_days_from_ce.

Theorem C01_weekday : forall y o d, repr y o d -> d_weekday d = Val (weekday_of_dn (dn_of_yo y o)).
Proof. exact d_weekday_spec. Qed.
Print Assumptions C01_weekday.

Theorem C01_iso_week : forall y o d, repr y o d ->
  let iw := iso_of_dn (dn_of_yo y o) in
  d_iso_week d = Val (mkweek (fst iw) (snd iw)) /\
  iw_year (mkweek (fst iw) (snd iw)) = fst iw /\ iw_week (mkweek (fst iw) (snd iw)) = snd iw.
Proof. exact d_iso_week_spec. Qed.
Print Assumptions C01_iso_week.

(** ** 6. The forms are in bijection with the day numbers DN_MIN..DN_MAX (191,491,529 of them) *)
Theorem C01_dn_onto : forall n, dn_in_range n = true ->
  exists y o d, repr y o d /\ dn_of_yo y o = n /\ from_num_days_from_ce_opt n = Val (Some d).
Proof. exact dn_onto. Qed.
Print Assumptions C01_dn_onto.

Theorem C01_dn_injective : forall y1 o1 d1 y2 o2 d2, repr y1 o1 d1 -> repr y2 o2 d2 ->
  dn_of_yo y1 o1 = dn_of_yo y2 o2 -> d1 = d2.
Proof. exact date_word_inj. Qed.
Print Assumptions C01_dn_injective.

Theorem C01_dn_in_range : forall y o d, repr y o d -> dn_in_range (dn_of_yo y o) = true.
Proof. exact repr_dn_in_range. Qed.
Print Assumptions C01_dn_in_range.

Theorem C01_count : DN_MAX - DN_MIN + 1 = 191491529.
Proof. exact dn_count. Qed.
Print Assumptions C01_count.

(* year-ordinal form: exactly one per day number *)
Theorem C01_yo_form : forall n,
  valid_yo (fst (yo_of_dn n)) (snd (yo_of_dn n)) = true /\ dn_of_yo (fst (yo_of_dn n)) (snd (yo_of_dn n)) = n.
Proof. exact yo_of_dn_valid. Qed.
Print Assumptions C01_yo_form.
Theorem C01_yo_unique : forall y o y' o', valid_yo y o = true -> valid_yo y' o' = true ->
  dn_of_yo y o = dn_of_yo y' o' -> y = y' /\ o = o'.
Proof. exact dn_inj. Qed.
Print Assumptions C01_yo_unique.

(* year-month-day form *)
Theorem C01_ymd_form : forall n,
  let '(y, m, d) := ymd_of_dn n in valid_ymd y m d = true /\ dn_of_ymd y m d = n.
Proof. exact ymd_of_dn_valid. Qed.
Print Assumptions C01_ymd_form.
Theorem C01_ymd_unique : forall y m d y' m' d', valid_ymd y m d = true -> valid_ymd y' m' d' = true ->
  dn_of_ymd y m d = dn_of_ymd y' m' d' -> (y, m, d) = (y', m', d').
Proof. exact dn_of_ymd_inj. Qed.
Print Assumptions C01_ymd_unique.

(* ISO week-date form *)
Theorem C01_iso_form : forall n,
  valid_isoywd (fst (iso_of_dn n)) (snd (iso_of_dn n)) (weekday_of_dn n) = true /\
  dn_of_isoywd (fst (iso_of_dn n)) (snd (iso_of_dn n)) (weekday_of_dn n) = n.
Proof. exact isoywd_of_dn. Qed.
Print Assumptions C01_iso_form.
Theorem C01_iso_unique : forall y w wd y' w' wd', valid_isoywd y w wd = true -> valid_isoywd y' w' wd' = true ->
  dn_of_isoywd y w wd = dn_of_isoywd y' w' wd' -> (y, w, wd) = (y', w', wd').
Proof. exact dn_of_isoywd_inj. Qed.
Print Assumptions C01_iso_unique.
Theorem C01_iso_of_isoywd : forall y w wd, valid_isoywd y w wd = true ->
  iso_of_dn (dn_of_isoywd y w wd) = (y, w) /\ weekday_of_dn (dn_of_isoywd y w wd) = wd.
Proof. exact iso_of_isoywd. Qed.
Print Assumptions C01_iso_of_isoywd.

(** ** 7. Date order is day-number order; ISO weeks compare chronologically *)
Theorem C01_order : forall y1 o1 d1 y2 o2 d2, repr y1 o1 d1 -> repr y2 o2 d2 ->
  d_cmp d1 d2 = cmpZ (dn_of_yo y1 o1) (dn_of_yo y2 o2).
Proof. exact order_spec. Qed.
Print Assumptions C01_order.
Theorem C01_order_lt : forall y1 o1 d1 y2 o2 d2, repr y1 o1 d1 -> repr y2 o2 d2 ->
  (d1 < d2 <-> dn_of_yo y1 o1 < dn_of_yo y2 o2).
Proof. exact order_lt_iff. Qed.
Print Assumptions C01_order_lt.
Theorem C01_iso_week_order : forall y1 o1 d1 y2 o2 d2 w1 w2, repr y1 o1 d1 -> repr y2 o2 d2 ->
  d_iso_week d1 = Val w1 -> d_iso_week d2 = Val w2 ->
  iw_cmp w1 w2 = cmp_lex [fst (iso_of_dn (dn_of_yo y1 o1)); snd (iso_of_dn (dn_of_yo y1 o1))]
                         [fst (iso_of_dn (dn_of_yo y2 o2)); snd (iso_of_dn (dn_of_yo y2 o2))] /\
  (dn_of_yo y1 o1 <= dn_of_yo y2 o2 -> iw_cmp w1 w2 <> 1).
Proof. exact iso_week_order. Qed.
Print Assumptions C01_iso_week_order.

(** ** 8. Successor / predecessor: the neighbouring day number (hence the next / previous
    weekday), refused exactly at the ends of the range *)
Theorem C01_succ_opt : forall y o d, repr y o d ->
  succ_opt d = Val (date_if (dn_in_range (dn_of_yo y o + 1)) (date_of_dn (dn_of_yo y o + 1))).
Proof. exact succ_opt_spec. Qed.
Print Assumptions C01_succ_opt.
Theorem C01_pred_opt : forall y o d, repr y o d ->
  pred_opt d = Val (date_if (dn_in_range (dn_of_yo y o - 1)) (date_of_dn (dn_of_yo y o - 1))).
Proof. exact pred_opt_spec. Qed.
Print Assumptions C01_pred_opt.
Theorem C01_weekday_succ : forall n, weekday_of_dn (n + 1) = (weekday_of_dn n + 1) mod 7.
Proof. exact weekday_succ. Qed.
Print Assumptions C01_weekday_succ.
Theorem C01_succ_none_iff_max : forall y o d, repr y o d ->
  (succ_opt d = Val None <-> d = D_MAX) /\ (pred_opt d = Val None <-> d = D_MIN).
Proof. exact succ_pred_none_iff. Qed.
Print Assumptions C01_succ_none_iff_max.

(** ** The property as the independent judge states it (Judge/C01.v, written from the calendar
    rules only) holds of the model on EVERY case line: whenever the judge has an opinion (the case is
    in the property's domain: arguments of the Rust types, date arguments valid), it accepts the
    model's output.  This covers all ten ops, including the checksummed ranges of the exhaustive tier. *)
Theorem C01_holds : forall op args,
  Judge.C01.judge op args (Model.C01.run op args) <> JSkip ->
  Judge.C01.judge op args (Model.C01.run op args) = JOk.
Proof. exact C01_holds. Qed.
Print Assumptions C01_holds.

Theorem C01_range_checksum : forall lo hi, i32_min < lo -> lo <= hi -> hi < i32_max ->
  Model.C01.d_range lo hi = Val (Judge.C01.exp_range lo hi).
Proof. exact d_range_spec. Qed.
Print Assumptions C01_range_checksum.

(** ** 9. The surface added next to the frozen dispatcher (Model/C01b.v, Judge/C01b.v: ops d.pymd d.pyo
    d.pisoywd d.pdays d.psucc d.ppred d.acc2).  The deprecated panicking twins [from_ymd], [from_yo],
    [from_isoywd], [from_num_days_from_ce], [succ], [pred] are [expect] of the checked forms
    ([unwrap_r] = the Rust [expect]): for ALL arguments of the Rust types they return the value of the
    checked form and panic exactly where it is [None] ([date_or_panic b d] = [Val d] if [b], else
    [Panic]; the conditions are those of theorems 1-4 and 8). *)
Theorem C01_from_ymd_panicking : forall y m dd, in_i32 y = true -> in_u32 m = true -> in_u32 dd = true ->
  unwrap_r (from_ymd_opt y m dd) =
    Proofs.C01b.date_or_panic (year_in_range y && valid_ymd y m dd) (mk_ymd y m dd).
Proof. exact Proofs.C01b.pymd_spec. Qed.
Print Assumptions C01_from_ymd_panicking.
Theorem C01_from_yo_panicking : forall y o, in_i32 y = true -> in_u32 o = true ->
  unwrap_r (from_yo_opt y o) = Proofs.C01b.date_or_panic (year_in_range y && valid_yo y o) (mkdate y o).
Proof. exact Proofs.C01b.pyo_spec. Qed.
Print Assumptions C01_from_yo_panicking.
Theorem C01_from_isoywd_panicking : forall y w wd, in_i32 y = true -> in_u32 w = true -> 0 <= wd <= 6 ->
  unwrap_r (from_isoywd_opt y w wd) =
    Proofs.C01b.date_or_panic (valid_isoywd y w wd && dn_in_range (dn_of_isoywd y w wd))
                              (date_of_dn (dn_of_isoywd y w wd)).
Proof. exact Proofs.C01b.pisoywd_spec. Qed.
Print Assumptions C01_from_isoywd_panicking.
Theorem C01_from_num_days_from_ce_panicking : forall n, in_i32 n = true ->
  unwrap_r (from_num_days_from_ce_opt n) = Proofs.C01b.date_or_panic (dn_in_range n) (date_of_dn n).
Proof. exact Proofs.C01b.pdays_spec. Qed.
Print Assumptions C01_from_num_days_from_ce_panicking.
Theorem C01_succ_panicking : forall y o d, repr y o d ->
  unwrap_r (succ_opt d) =
    Proofs.C01b.date_or_panic (dn_in_range (dn_of_yo y o + 1)) (date_of_dn (dn_of_yo y o + 1)).
Proof. exact Proofs.C01b.psucc_spec. Qed.
Print Assumptions C01_succ_panicking.
Theorem C01_pred_panicking : forall y o d, repr y o d ->
  unwrap_r (pred_opt d) =
    Proofs.C01b.date_or_panic (dn_in_range (dn_of_yo y o - 1)) (date_of_dn (dn_of_yo y o - 1)).
Proof. exact Proofs.C01b.ppred_spec. Qed.
Print Assumptions C01_pred_panicking.
(* ... so succ panics exactly on NaiveDate::MAX and pred exactly on NaiveDate::MIN *)
Theorem C01_succ_pred_panic_iff_end : forall y o d, repr y o d ->
  (unwrap_r (succ_opt d) = Panic <-> d = D_MAX) /\ (unwrap_r (pred_opt d) = Panic <-> d = D_MIN).
Proof. exact Proofs.C01b.psucc_panics_iff_max. Qed.
Print Assumptions C01_succ_pred_panic_iff_end.

(* [d.acc2]: leap_year() is the Gregorian leap rule of the date's year; iso_week().week0() is the ISO
   week minus one (no u32 underflow: weeks start at 1); the provided [Datelike::num_days_from_ce]
   called on [NaiveDateTime::from(date)] (date at midnight: from_hms_opt(0,0,0) never fails) is the
   date's day number, and [NaiveDate::from] of that date-time is the date itself *)
Theorem C01_leap_year : forall y o d, repr y o d -> d_leap_year d = is_leap y.
Proof. exact Proofs.C01b.leap_year_spec. Qed.
Print Assumptions C01_leap_year.
Theorem C01_week0 : forall y o d, repr y o d ->
  (let* iw := d_iso_week d in iw_week0 iw) = Val (snd (iso_of_dn (dn_of_yo y o)) - 1).
Proof. exact Proofs.C01b.week0_spec. Qed.
Print Assumptions C01_week0.
Theorem C01_from_conversions : forall y o d, repr y o d ->
  unwrap_r (Model.Time.from_hms_opt 0 0 0) = Val (Model.Time.mk_time 0 0) /\
  datelike_num_days_from_ce (d_year d) (d_ordinal d) = Val (dn_of_yo y o) /\
  num_days_from_ce d = Val (dn_of_yo y o).
Proof. exact Proofs.C01b.from_conversions_spec. Qed.
Print Assumptions C01_from_conversions.
Theorem C01_acc2 : forall y o d, repr y o d ->
  Model.C01b.d_acc2 d =
    Val (VTup [val_of_bool (is_leap y); VInt (snd (iso_of_dn (dn_of_yo y o)) - 1); VInt (dn_of_yo y o);
               Model.C01.enc_date d]).
Proof. exact Proofs.C01b.acc2_spec. Qed.
Print Assumptions C01_acc2.

(* C01_holds for the dispatchers the check actually runs (Extract/C01.v uses the wrappers): on every
   case line of the wrapper judge's domain - the ten ops of C01_holds and the seven ops above - the
   judge accepts the model's output *)
Theorem C01_holds_all_ops : forall op args,
  Judge.C01b.judge op args (Model.C01b.run op args) <> JSkip ->
  Judge.C01b.judge op args (Model.C01b.run op args) = JOk.
Proof. exact Proofs.C01b.C01b_holds. Qed.
Print Assumptions C01_holds_all_ops.

Example C01_surface_example :
  repr 2024 60 (mkdate 2024 60) /\
  Model.C01b.d_acc2 (mkdate 2024 60) = Val (VTup [VInt 1; VInt 8; VInt 738945; VTup [VInt 2024; VInt 60]]) /\
  unwrap_r (from_ymd_opt 2024 2 30) = Panic /\ unwrap_r (from_ymd_opt 2024 2 29) = Val (mkdate 2024 60) /\
  repr MAX_YEAR 365 D_MAX /\ unwrap_r (succ_opt D_MAX) = Panic /\
  repr MIN_YEAR 1 D_MIN /\ unwrap_r (pred_opt D_MIN) = Panic.
Proof. exact Proofs.C01b.example_acc2. Qed.
Print Assumptions C01_surface_example.

(** ** The hypotheses are inhabited: 2024-02-29 *)
Example C01_example : repr 2024 60 (mkdate 2024 60) /\
  from_ymd_opt 2024 2 29 = Val (Some (mkdate 2024 60)) /\ dn_of_yo 2024 60 = 738945 /\
  from_isoywd_opt 2024 9 3 = Val (Some (mkdate 2024 60)).
Proof. exact example_2024_02_29. Qed.
Print Assumptions C01_example.
