(** C01 — calendar, ordinal, ISO-week and day-count forms of a date agree.
    Property theorems only: each is closed by [exact] of a lemma from Proofs/Date.v or
    Proofs/Gregorian.v and followed by [Print Assumptions].  The model functions are the
    line-by-line transcription of src/naive/internals.rs, src/naive/date/mod.rs and
    src/naive/isoweek.rs in Model/Date.v; the oracle is the proleptic Gregorian calendar of
    Spec/Gregorian.v (leap rule, month lengths, ISO week rule). *)
From Coq Require Import ZArith List Bool.
From V Require Import Base.Int Base.Table Gen.DateTables Model.Date Spec.Gregorian Proofs.Date.
Open Scope Z_scope.

(* generated tables, characterised cell by cell against the calendar rules (complete enumeration) *)
Theorem C01_year_flags_table : forall r, 0 <= r < 400 ->
  exists f, tfind YEAR_TO_FLAGS r = Some f /\ 0 < f < 16 /\ f mod 8 <> 0 /\
            (f / 8 = 0 <-> is_leap r = true) /\ (f mod 8) mod 7 = (days_before_year r - 1) mod 7.
Proof. exact yf_table_spec. Qed.
Print Assumptions C01_year_flags_table.

Theorem C01_year_deltas_table : forall r, 0 <= r <= 400 ->
  tfind YEAR_DELTAS r = Some (days_before_year r + 366 - 365 * r).
Proof. exact yd_table_spec. Qed.
Print Assumptions C01_year_deltas_table.

Theorem C01_cycle_to_yo : forall c, 0 <= c < 146097 ->
  exists ym o, cycle_to_yo c = Val (ym, o) /\ 0 <= ym < 400 /\ 1 <= o <= days_in_year ym /\
               dn_of_yo ym o = c - 365.
Proof. exact cycle_to_yo_spec. Qed.
Print Assumptions C01_cycle_to_yo.
