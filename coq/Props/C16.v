(** C16 — The TZif and TZ-rule readers accept well-formed data and survive everything else.
    Property theorems only: each is closed by [exact] of a lemma from Proofs/ and followed by
    [Print Assumptions].  Model functions are the line-by-line transcriptions of
    src/offset/local/tz_info/{parser,timezone,rule}.rs in Model/Tz*.v, with trapping integer
    arithmetic, slicing and indexing ([Val] / [Panic] / [OutOfFuel]); no function of the model uses
    fuel, every recursion is structural in the input.

    [data_ok d]    : d is a byte string (every element 0..255) shorter than isize::MAX.
    [postr x Q]    : x = Val r for some r (no trap), and Q holds of the value when r = Ok _.
    [zone_wf z]    : at least one type; every type has an offset inside i32 other than i32::MIN and a
                     name that is absent or 3..7 characters of [0-9A-Za-z+-]; every transition time
                     is an i64, points at an existing type, times increase strictly; leap records
                     have i64 times, i32 corrections, increasing times; the footer rule is [rule_ok].
    [rule_ok r]    : types as above, rule days in range (J 1..365, n 0..365, M 1..12 . 1..5 . 0..6),
                     switch times strictly below one week in absolute value.
    [hdr_layout h d] : the six counts of header h are the big-endian words at offsets 20..43 of d. *)
From Coq Require Import ZArith List Bool String.
From V Require Import Base.Int Base.IO Model.TzParser Model.TzRule Model.TzLookup.
From V Require Import Spec.TzWriter.
From V Require Import Proofs.TzCommon Proofs.TzEval Proofs.TzGrammar Proofs.TzRoundtrip Proofs.TzWriterRoundtrip Proofs.TzWriterFull Proofs.TzWriterBytes Proofs.C16.
From V Require Import Proofs.TzFooterSpec.
From V Require Import Model.C16 Proofs.C16Ops Proofs.TzAcceptSpec Proofs.TzAccept Proofs.TzAcceptFile.
From V Require Import Proofs.TzStrSpec Proofs.TzStr Proofs.TzStrFile.
Import ListNotations.
Open Scope Z_scope.

(** *** Readers are total: a zone or an error value, for every byte string *)

(* the bounds-checked cursor: exactly the next [count] bytes or an error value, never a trap *)
Theorem C16_read_exact : forall N c count, cur_ok N c ->
  postr (read_exact c count)
        (fun '(b, c') => cur_ok N c' /\ zlen b = count /\ Forall byte b /\
                         remaining c = b ++ remaining c' /\ read_count c' = read_count c + count).
Proof. exact read_exact_spec. Qed.
Print Assumptions C16_read_exact.

Theorem C16_parse_total : forall data, data_ok data -> exists r, parse data = Val r.
Proof. exact parse_total. Qed.
Print Assumptions C16_parse_total.

Theorem C16_rule_total : forall s ext, data_ok s -> exists r, from_tz_string s ext = Val r.
Proof. exact rule_total. Qed.
Print Assumptions C16_rule_total.

(** *** Acceptance is sound *)

(* magic, and a well-formed zone: indices in bounds, strictly increasing transitions, valid
   names, valid footer rule *)
Theorem C16_accept_sound : forall data z, data_ok data -> parse data = Val (Ok z) ->
  zone_wf z /\ exists rest, data = 84 :: 90 :: 105 :: 102 :: rest.
Proof. exact accept_sound. Qed.
Print Assumptions C16_accept_sound.

(* counts agree with the data: the block the first header announces lies inside the file (exactly
   the file for version 1), so truncated data is rejected *)
Theorem C16_accept_counts : forall data z, data_ok data -> parse data = Val (Ok z) ->
  exists h, hdr_ok h /\ hdr_layout h data /\ block_size h 4 <= zlen data /\
            (h_version h = V1 -> block_size h 4 = zlen data).
Proof. exact accept_counts. Qed.
Print Assumptions C16_accept_counts.

(* semantic validation on its own, for any constructor arguments *)
Theorem C16_tz_new_sound : forall tr ty lp rule z, tz_new tr ty lp rule = Val (Ok z) ->
  z = mk_tz tr ty lp rule /\ ty <> [] /\
  Forall (fun t => tr_idx t < zlen ty) tr /\ increasing (map tr_time tr).
Proof. exact tz_new_sound. Qed.
Print Assumptions C16_tz_new_sound.

Theorem C16_rule_accept_sound : forall s ext r, data_ok s -> from_tz_string s ext = Val (Ok r) -> rule_ok r.
Proof. exact rule_accept_sound. Qed.
Print Assumptions C16_rule_accept_sound.

(** *** An accepted zone answers every query without trapping *)

(* every i64 instant; every wall-clock reading (year as wide as i32, any timestamp) *)
Theorem C16_lookup_total : forall data z, data_ok data -> parse data = Val (Ok z) ->
  (forall t, in_i64 t = true -> exists r, find_local_time_type z t = Val r) /\
  (forall y lt, -2147483650 <= y <= 2147483650 -> exists r, find_local_time_type_from_local z y lt = Val r).
Proof. exact lookup_total. Qed.
Print Assumptions C16_lookup_total.

(* the same for any well-formed zone, however it was built (e.g. from a TZ string) *)
Theorem C16_lookup_total_wf : forall z t, zone_wf z -> in_i64 t = true ->
  postr (find_local_time_type z t) (fun _ => True).
Proof. exact find_local_time_type_total. Qed.
Print Assumptions C16_lookup_total_wf.
Theorem C16_lookup_local_total_wf : forall z y lt, zone_wf z -> -2147483650 <= y <= 2147483650 ->
  postr (find_local_time_type_from_local z y lt) (fun _ => True).
Proof. exact find_local_time_type_from_local_total. Qed.
Print Assumptions C16_lookup_local_total_wf.

(* rule evaluation: the answer is one of the two types of the rule *)
Theorem C16_rule_lookup_total : forall a t, alt_ok a -> in_i64 t = true ->
  postr (alt_find_local_time_type a t) (fun l => l = a_std a \/ l = a_dst a).
Proof. exact alt_find_local_time_type_total. Qed.
Print Assumptions C16_rule_lookup_total.
Theorem C16_rule_lookup_local_total : forall r y lt, rule_ok r -> -2147483650 <= y <= 2147483650 ->
  postr (rule_find_local_time_type_from_local r y lt) (fun _ => True).
Proof. exact rule_find_local_time_type_from_local_total. Qed.
Print Assumptions C16_rule_lookup_local_total.

(* the repaired wall-clock scan never traps, whatever the transition times and offsets *)
Theorem C16_local_loop_total : forall types trs prev t,
  Forall (fun tr => 0 <= tr_idx tr < zlen types) trs ->
  exists r, local_loop types trs prev t = Val r.
Proof. exact local_loop_total. Qed.
Print Assumptions C16_local_loop_total.

(* calendar pieces of the rule evaluation stay in range for every i32 year *)
Theorem C16_from_timespec_total : forall t, in_i64 t = true ->
  postr (from_timespec t) (fun '(y, _, _, _, _, _) => in_i32 y = true).
Proof. exact from_timespec_spec. Qed.
Print Assumptions C16_from_timespec_total.
Theorem C16_transition_date_range : forall d year, day_ok d -> -2147483650 <= year <= 2147483650 ->
  post (transition_date d year) (fun '(m, md) => 1 <= m <= 12 /\ 1 <= md <= 32).
Proof. exact transition_date_spec. Qed.
Print Assumptions C16_transition_date_range.

(** *** What a conforming writer emits is read back exactly *)

(* every rule of the two documented forms ([std offset] / [std offset dst offset,start/time,end/time]),
   printed by the specification writer Spec/TzWriter.v (quoted names of 3..7 permitted characters,
   offsets up to 24:59:59, rule times 0..24:59:59, or -167:59:59..167:59:59 with the v3 extension) *)
Theorem C16_rule_roundtrip : forall r ext, rule_printable r ext ->
  from_tz_string (print_rule r ext) ext = Val (Ok r).
Proof. exact rule_roundtrip. Qed.
Print Assumptions C16_rule_roundtrip.
Example C16_rule_roundtrip_inhabited :
  rule_printable (Fixed (mk_ltt (-36000) false (Some [72; 83; 84]))) false /\
  rule_printable (Alternate (mk_alt (mk_ltt (-10800) false (Some [45; 48; 51])) (mk_ltt (-7200) true (Some [45; 48; 50]))
                                    (MonthWeekday 3 5 0) (-7200) (MonthWeekday 10 5 0) (-3600))) true.
Proof. exact rule_printable_examples. Qed.
Print Assumptions C16_rule_roundtrip_inhabited.

(* TZif files of the specification writer Spec/TzWriter.v are accepted and yield exactly the
   transitions and types that were written: version 1 (32-bit times), and the version 2 / 3 layout
   (minimal 32-bit block, 64-bit block with times over the whole i64 range, empty footer).
   PARTIAL with respect to the property text: the writer emits no leap-second records, no
   standard/wall or UT/local indicator bytes and no footer rule (a non-empty footer needs the
   consistency of the rule with the last transition, i.e. rule evaluation, in the round trip);
   those parts are covered by the differential run against the Python writer of gen/C16.py and
   the system zoneinfo files only. *)
Theorem C16_writer_roundtrip_v1_partial : forall z, zone_writable 4 z -> parse (write_tzif_v1 z) = Val (Ok z).
Proof. exact writer_roundtrip_v1. Qed.
Print Assumptions C16_writer_roundtrip_v1_partial.
Theorem C16_writer_roundtrip_v23_partial : forall ver z, (ver = 50 \/ ver = 51) -> zone_writable 8 z ->
  parse (write_tzif_v23 ver z) = Val (Ok z).
Proof. exact writer_roundtrip_v23. Qed.
Print Assumptions C16_writer_roundtrip_v23_partial.
Example C16_writer_roundtrip_inhabited : zone_writable 4 example_zone_v1 /\ zone_writable 8 example_zone_v2.
Proof. exact example_zones_writable. Qed.
Print Assumptions C16_writer_roundtrip_inhabited.

(* The complete layout of RFC 8536 section 3 (Spec/TzWriter.v, second half): leap-second records
   (32-bit in version 1, 64-bit in version 2 / 3), the standard/wall and UT/local indicator arrays
   (each absent or one flag per type, a UT flag only together with the standard flag; they are not
   part of the zone value, the writer takes them as extra arguments and the reader validates and
   drops them) and, for version 2 / 3, the footer with the rule printed by [print_rule]; the 32-bit
   block of a version 2 / 3 file may be that of any zone [z32] the layout can lay out (the reader
   skips it; [slim_zone] gives the minimal file).
   [zone_writable_full ts z std ut]: at least one type, offsets inside i32 other than i32::MIN, names
     absent or 3..7 permitted characters, designation table of at most 256 bytes, transition times in
     the i32 (ts = 4) / i64 (ts = 8) range and strictly increasing, type indices in range, at most
     2^32 - 1 transitions and leap records (the count fields are 32 bits wide); leap table as in
     RFC 8536 3.2 = exactly what TimeZoneRef::validate accepts: first occurrence >= 0 with
     correction +1 or -1, every later occurrence at least 2419199 s after the previous one with the
     correction changed by exactly one; [indicators_ok].
   [footer_writable ver z]: no rule, or a rule printable in the grammar of the version (extended
     rule times only in version 3) with [footer_consistent z = true]: the decidable check of
     TimeZoneRef::validate that the rule, evaluated by the reader's own rule evaluation at the last
     transition time (after the leap-second correction), yields the last transition's type (offset,
     DST flag and designation); vacuous when there is no transition.
   REMAINING GAP with respect to the property text: the writer is one conforming writer (every type
   has its own designation entry, names quoted, fixed-width numbers), not every conforming writer;
   [footer_consistent] refers to the reader's rule evaluation; [C16_writer_roundtrip_v23_spec] below
   replaces it by [footer_agrees], stated against the oracles of Spec/Zone.v, for the rules and
   instants inside the premise of property C05. *)
Theorem C16_writer_roundtrip_v1 : forall z std ut, zone_writable_full 4 z std ut -> extra_rule z = None ->
  parse (write_tzif_v1_full z std ut) = Val (Ok z).
Proof. exact writer_roundtrip_v1_full. Qed.
Print Assumptions C16_writer_roundtrip_v1.
Theorem C16_writer_roundtrip_v23 : forall ver z32 std32 ut32 z std ut,
  (ver = 50 \/ ver = 51) -> block_layout 4 z32 std32 ut32 ->
  zone_writable_full 8 z std ut -> footer_writable ver z ->
  parse (write_tzif_v23_full ver z32 std32 ut32 z std ut) = Val (Ok z).
Proof. exact writer_roundtrip_v23_full. Qed.
Print Assumptions C16_writer_roundtrip_v23.
(* the writers of the two partial theorems above are the instances without indicator arrays *)
Theorem C16_writer_full_extends : forall z,
  write_tzif_v1_full z [] [] = write_tzif_v1 z /\
  (forall ver, extra_rule z = None -> write_tzif_v23_full ver slim_zone [] [] z [] [] = write_tzif_v23 ver z).
Proof. exact (fun z => conj (write_v1_full_extends z) (fun ver => write_v23_full_extends ver z)). Qed.
Print Assumptions C16_writer_full_extends.
(* what the writer emits is a byte string of admissible size: the hypothesis [data_ok] of the
   totality and soundness theorems above (here the 32-bit block is that of a writable zone, e.g.
   [slim_zone]) *)
Theorem C16_writer_output_ok_v1 : forall z std ut, zone_writable_full 4 z std ut -> data_ok (write_tzif_v1_full z std ut).
Proof. exact writer_output_ok_v1. Qed.
Print Assumptions C16_writer_output_ok_v1.
Theorem C16_writer_output_ok_v23 : forall ver z32 std32 ut32 z std ut, (ver = 50 \/ ver = 51) ->
  zone_writable_full 4 z32 std32 ut32 -> zone_writable_full 8 z std ut -> footer_writable ver z ->
  data_ok (write_tzif_v23_full ver z32 std32 ut32 z std ut).
Proof. exact writer_output_ok_v23. Qed.
Print Assumptions C16_writer_output_ok_v23.
Example C16_slim_zone_writable : zone_writable_full 4 slim_zone [] [].
Proof. exact slim_writable. Qed.
Print Assumptions C16_slim_zone_writable.
Theorem C16_footer_consistent_fixed : forall z l, extra_rule z = Some (Fixed l) -> leap_seconds z = [] ->
  (forall last, last_of (transitions z) = Some last ->
     -9223372036854775808 < tr_time last <= 9223372036854775807 /\
     index (local_time_types z) (tr_idx last) = Val l) ->
  footer_consistent z = true.
Proof. exact footer_consistent_fixed. Qed.
Print Assumptions C16_footer_consistent_fixed.
(* The footer hypothesis against the oracles instead of the reader's code.  [footer_agrees z]: when
   the zone has a rule and a last transition (time t, an i64 above i64::MIN), let u = t less the
   correction of the last leap record before t ([corr_before], u an i64); then the last
   transition's type is the rule's type at u: the type of a rule without daylight saving time, or,
   for an alternating rule satisfying the premise of property C05 around u ([rule_hyps]: |u| <= 10^15,
   offsets below a day, both switches more than a day inside the years y-2..y+1 and in the same
   order in y-1 and y), the daylight type exactly when the calendar oracle [rule_is_dst] says so
   (Spec/Zone.v; tied to AlternateTime::find_local_time_type by C05_rule_offset_spec). *)
Theorem C16_footer_agrees_consistent : forall z, leaps_spaced (leap_seconds z) ->
  zlen (leap_seconds z) <= 4294967295 -> footer_agrees z -> footer_consistent z = true.
Proof. exact footer_agrees_consistent. Qed.
Print Assumptions C16_footer_agrees_consistent.
Theorem C16_writer_roundtrip_v23_spec : forall ver z32 std32 ut32 z std ut,
  (ver = 50 \/ ver = 51) -> block_layout 4 z32 std32 ut32 -> zone_writable_full 8 z std ut ->
  match extra_rule z with Some r => rule_printable r (footer_ext ver) | None => True end ->
  footer_agrees z ->
  parse (write_tzif_v23_full ver z32 std32 ut32 z std ut) = Val (Ok z).
Proof. exact writer_roundtrip_v23_spec. Qed.
Print Assumptions C16_writer_roundtrip_v23_spec.
Example C16_footer_agrees_inhabited : footer_agrees example_berlin.
Proof. exact example_berlin_agrees. Qed.
Print Assumptions C16_footer_agrees_inhabited.
(* inhabited: a version-1 zone with leap records and one indicator array; a Berlin-like zone in
   leap-second time with both arrays and the footer <CET>-01:00:00<CEST>-02:00:00,M03.5.0/02:00:00,M10.5.0/03:00:00
   (version 2 and version 3), consistent with its last transition; the admissible first blocks *)
Example C16_writer_roundtrip_full_inhabited :
  (zone_writable_full 4 example_full_v1 example_full_v1_std [] /\ extra_rule example_full_v1 = None) /\
  (zone_writable_full 8 example_berlin example_berlin_std example_berlin_ut /\
   footer_writable 50 example_berlin /\ footer_writable 51 example_berlin) /\
  block_layout 4 slim_zone [] [] /\ block_layout 4 example_full_v1 example_full_v1_std [].
Proof. exact example_full_zones_writable. Qed.
Print Assumptions C16_writer_roundtrip_full_inhabited.

(** *** Witnesses *)
Example C16_example_file_accepted :
  data_ok example_v1_file /\
  parse example_v1_file =
    Val (Ok (mk_tz [mk_tr (-1230749160) 1]
                   [mk_ltt (-18840) false (Some [81; 77; 84]); mk_ltt (-18000) false (Some [69; 67; 84])]
                   [] None)).
Proof. exact example_v1_file_accepted. Qed.
Print Assumptions C16_example_file_accepted.
Example C16_example_rule_accepted :
  data_ok example_tz_string /\
  from_tz_string example_tz_string false =
    Val (Ok (Alternate (mk_alt (mk_ltt (-18000) false (Some [69; 83; 84])) (mk_ltt (-14400) true (Some [69; 68; 84]))
                               (MonthWeekday 3 2 0) 7200 (MonthWeekday 11 1 0) 7200))).
Proof. exact example_tz_string_accepted. Qed.
Print Assumptions C16_example_rule_accepted.
Example C16_example_damaged_rejected :
  parse (removelast example_v1_file) = Val (Err EIo) /\
  parse (0 :: tl example_v1_file) = Val (Err EInvalidTzFile).
Proof. exact example_truncated_rejected. Qed.
Print Assumptions C16_example_damaged_rejected.
(* what the repair removed: the plain addition traps on a transition time a file may carry *)
Example C16_unrepaired_addition_traps :
  add_i64 (i64_max - 10) 3600 = Panic /\ saturating_add_i64 (i64_max - 10) 3600 = i64_max.
Proof. exact example_unrepaired_add_traps. Qed.
Print Assumptions C16_unrepaired_addition_traps.

(** *** Every op of the dispatcher Model/C16.v [run] (table: coverage/OPS_THEOREMS_C16.md) *)

(* which model function answers which op; [sh_*] are the argument decoders of Proofs/C16Ops.v (an
   argument list of another shape is BADARGS), [at_val] / [atlocal_val] encode the answer of
   [find_local_time_type] / [find_local_time_type_from_local], [rule_val] the rule of the zone *)
Theorem C16_dispatch : forall args,
  run (B"tz.parse") args = sh_bytes (fun b => val_of_rr enc_zone (parse b)) args /\
  run (B"tz.rule") args = sh_rule (fun s ext => val_of_rr rule_val (zone_of_tz_string s ext)) args /\
  run (B"tz.at") args = sh_bytes_list arg_i64 (fun b ts => lookups (parse b) ts at_val) args /\
  run (B"tz.rat") args = sh_rule_list arg_i64 (fun s ext ts => lookups (zone_of_tz_string s ext) ts at_val) args /\
  run (B"tz.atlocal") args = sh_bytes_list arg_ndt (fun b ns => lookups (parse b) ns atlocal_val) args /\
  run (B"tz.ratlocal") args = sh_rule_list arg_ndt (fun s ext ns => lookups (zone_of_tz_string s ext) ns atlocal_val) args.
Proof. exact dispatch. Qed.
Print Assumptions C16_dispatch.

(* tz.parse: the encoded zone of [parse], well formed, or the name of [parse]'s error; never PANIC *)
Theorem C16_op_parse : forall b, data_ok b ->
  (exists z, parse b = Val (Ok z) /\ zone_wf z /\ run (B"tz.parse") [VStr b] = enc_zone z) \/
  (exists e, parse b = Val (Err e) /\ run (B"tz.parse") [VStr b] = enc_err e).
Proof. exact op_parse. Qed.
Print Assumptions C16_op_parse.

(* Zone::from_tz_string of the hook (the function behind tz.rule, tz.rat, tz.ratlocal): never traps;
   the accepted zone is well formed, has no transition and no leap record, its types are the types
   of the rule [from_tz_string] returned and that rule is its footer rule *)
Theorem C16_zone_of_tz_string : forall s ext, data_ok s ->
  postr (zone_of_tz_string s ext)
        (fun z => zone_wf z /\ exists r, from_tz_string s ext = Val (Ok r) /\ rule_ok r /\
                                         z = mk_tz [] (rule_types r) [] (Some r)).
Proof. exact zone_of_tz_string_spec. Qed.
Print Assumptions C16_zone_of_tz_string.
Theorem C16_op_rule : forall s e ext, data_ok s -> arg_flag e = Some ext ->
  (exists r, from_tz_string s ext = Val (Ok r) /\ rule_ok r /\
             zone_of_tz_string s ext = Val (Ok (mk_tz [] (rule_types r) [] (Some r))) /\
             run (B"tz.rule") [VStr s; e] = enc_rule r) \/
  (exists err, zone_of_tz_string s ext = Val (Err err) /\ run (B"tz.rule") [VStr s; e] = enc_err err).
Proof. exact op_rule. Qed.
Print Assumptions C16_op_rule.

(* the four lookup ops ([lookup_answers]): the reader's error name, or, on the accepted well-formed
   zone, one answer per decoded query, each the encoded value or the error name of the lookup
   function ([at_answered] / [atlocal_answered]: the lookup returned, it did not trap) *)
Theorem C16_op_at : forall b vs ts, data_ok b -> all_some arg_i64 vs = Some ts ->
  lookup_answers (parse b) ts at_val at_answered (run (B"tz.at") [VStr b; VTup vs]).
Proof. exact op_at. Qed.
Print Assumptions C16_op_at.
Theorem C16_op_rat : forall s e ext vs ts, data_ok s -> arg_flag e = Some ext -> all_some arg_i64 vs = Some ts ->
  lookup_answers (zone_of_tz_string s ext) ts at_val at_answered (run (B"tz.rat") [VStr s; e; VTup vs]).
Proof. exact op_rat. Qed.
Print Assumptions C16_op_rat.
Theorem C16_op_atlocal : forall b vs ns, data_ok b -> all_some arg_ndt vs = Some ns ->
  lookup_answers (parse b) ns atlocal_val atlocal_answered (run (B"tz.atlocal") [VStr b; VTup vs]).
Proof. exact op_atlocal. Qed.
Print Assumptions C16_op_atlocal.
Theorem C16_op_ratlocal : forall s e ext vs ns, data_ok s -> arg_flag e = Some ext -> all_some arg_ndt vs = Some ns ->
  lookup_answers (zone_of_tz_string s ext) ns atlocal_val atlocal_answered (run (B"tz.ratlocal") [VStr s; e; VTup vs]).
Proof. exact op_ratlocal. Qed.
Print Assumptions C16_op_ratlocal.

(** *** Acceptance is complete: the reader accepts exactly the grammar Proofs/TzAcceptSpec.v

    The grammar is a decidable predicate on the bytes, written by offsets and plain recursion on
    byte lists, not with the reader's cursor code.  [parse] = [select] (headers and section
    lengths, C16_parse_select) followed by [finish] (the decoder of the selected block). *)
Theorem C16_parse_select : forall data,
  parse data = let+ '(st, footer) := select data in finish st footer.
Proof. exact parse_select. Qed.
Print Assumptions C16_parse_select.

(* one record of the local time type table, for ANY 6 bytes and ANY designation table: the answer
   of the reader's record decoder is [ltt_res] (error included), and it is a value exactly when
   [ltt_rec_ok]: offset other than i32::MIN, isdst byte 0 or 1, designation index inside the table,
   a NUL at or after the index inside the table, designation empty or 3..7 characters of [0-9A-Za-z+-] *)
Theorem C16_ltt_record : forall names r, List.length r = 6%nat -> Forall byte r -> zlen names <= u32_max ->
  parse_ltt names (zlen names) r = Val (ltt_res names r) /\
  (forall l, ltt_res names r = Ok l <-> ltt_rec_ok names r = true /\ l = ltt_of_rec names r).
Proof. exact (fun names r H1 H2 H3 => conj (parse_ltt_val names r H1 H2 H3) (ltt_res_ok names r)). Qed.
Print Assumptions C16_ltt_record.

(* TimeZone::new for any tables with i64 / i32 leap fields: accepted exactly when there is a type,
   every transition points at a type, transition times increase strictly, the first leap record is
   at a non-negative time with correction +1 or -1, later records are at least 2419199 s apart
   with corrections differing by exactly one, and the footer rule agrees with the last transition *)
Theorem C16_tz_new_iff : forall trs tys lps rule z, Forall leap_ok lps ->
  tz_new trs tys lps rule = Val (Ok z) <->
  tys <> [] /\ tables_ok (zlen tys) trs lps = true /\
  footer_consistent (mk_tz trs tys lps rule) = true /\ z = mk_tz trs tys lps rule.
Proof. exact tz_new_iff. Qed.
Print Assumptions C16_tz_new_iff.

(* the decoder of a data block, for every block the header stage can hand over ([blk_hyps]: section
   lengths as announced by the counts, 4-byte times with a version-1 header or 8-byte times with a
   version-2/3 header): accepted exactly when [block_ok] (every type record [ltt_rec_ok], every UT
   indicator 1 beside a standard indicator that is present and not 0, [tables_ok]), the footer
   stage accepts, and the footer rule agrees with the last transition; the zone is the one cut out
   of the sections.
   PARTIAL: the footer stage is the reader's own [footer_step] (text checks + from_tz_string) and
   [footer_consistent] is the reader's own rule evaluation; C16_tzif_v1_accepts_iff below has
   neither (version 1 has no footer), C16_tzif_v23_accepts_iff_partial spells out the text checks. *)
Theorem C16_block_accepts_iff_partial : forall st ts footer z, blk_hyps st ts ->
  finish st footer = Val (Ok z) <->
  block_ok st = true /\
  exists rule, footer_step (h_version (st_header st)) footer = Val (Ok rule) /\
               footer_consistent (st_zone st rule) = true /\ z = st_zone st rule.
Proof. exact finish_accepts. Qed.
Print Assumptions C16_block_accepts_iff_partial.

(* the two rejections, for every block: a type record with offset i32::MIN, or a designation index
   with no NUL after it inside the table, makes the reader answer an error: the error of the first
   refused record in file order (C16_block_first_bad_record), always InvalidTzFile or
   LocalTimeType; the offset gives LocalTimeType (C16_ltt_record_min_offset), the missing NUL
   InvalidTzFile (C16_ltt_record_unterminated) *)
Theorem C16_block_rejects_min_offset : forall st ts footer r, blk_hyps st ts ->
  In r (blk_ltt_recs (st_local_time_types st)) -> rec_utoff r = -2147483648 ->
  exists e, finish st footer = Val (Err e) /\ (e = EInvalidTzFile \/ e = ELocalTimeType).
Proof. exact finish_rejects_min_offset. Qed.
Print Assumptions C16_block_rejects_min_offset.
Theorem C16_block_rejects_unterminated : forall st ts footer r, blk_hyps st ts ->
  In r (blk_ltt_recs (st_local_time_types st)) ->
  has_nul (skipn (Z.to_nat (rec_idx r)) (st_names st)) = false ->
  exists e, finish st footer = Val (Err e) /\ (e = EInvalidTzFile \/ e = ELocalTimeType).
Proof. exact finish_rejects_unterminated. Qed.
Print Assumptions C16_block_rejects_unterminated.
Theorem C16_block_first_bad_record : forall st ts footer pre r post e, blk_hyps st ts ->
  blk_ltt_recs (st_local_time_types st) = pre ++ r :: post ->
  forallb (ltt_rec_ok (st_names st)) pre = true -> ltt_res (st_names st) r = Err e ->
  finish st footer = Val (Err e).
Proof. exact finish_first_bad_record. Qed.
Print Assumptions C16_block_first_bad_record.
Theorem C16_ltt_record_min_offset : forall names r, rec_utoff r = -2147483648 ->
  (rec_dst r =? 0) || (rec_dst r =? 1) = true -> rec_idx r < zlen names ->
  has_nul (skipn (Z.to_nat (rec_idx r)) names) = true -> ltt_res names r = Err ELocalTimeType.
Proof. exact ltt_res_min_exact. Qed.
Print Assumptions C16_ltt_record_min_offset.
Theorem C16_ltt_record_unterminated : forall names r,
  has_nul (skipn (Z.to_nat (rec_idx r)) names) = false -> ltt_res names r = Err EInvalidTzFile.
Proof. exact ltt_res_no_nul. Qed.
Print Assumptions C16_ltt_record_unterminated.

(** *** Whole files *)

(* which block is decoded: a version-1 file is exactly one header (version byte 0, counts fine) and
   the block it announces, nothing after it; a version-2/3 file is a header with version byte '2'
   or '3', its 32-bit block (only the lengths matter), a second header with version byte '2' or
   '3' and the 64-bit block it announces inside the file; everything after it is the footer *)
Theorem C16_select_iff : forall d st footer, data_ok d ->
  select d = Val (Ok (st, footer)) <->
  (v1_layout_ok d = true /\ st = state_at d 0 4 /\ footer = None) \/
  (v23_layout_ok d = true /\ st = state_at d (off2 d) 8 /\ footer = Some (footer_of d)).
Proof. exact select_iff. Qed.
Print Assumptions C16_select_iff.

(* version 1, COMPLETE: for every byte string, the reader accepts it as a version-1 file exactly
   when the decidable grammar [tzif_v1_accepts] holds (magic, version byte 0, counts, exact file
   length, every type record [ltt_rec_ok], indicators, type indices, strictly increasing
   transition times, leap table), and the zone is [tzif_v1_zone]; no function of the reader occurs
   in the predicate *)
Theorem C16_tzif_v1_accepts_iff : forall d z, data_ok d ->
  (parse d = Val (Ok z) /\ byte_at d 4 = 0) <-> (tzif_v1_accepts d = true /\ z = tzif_v1_zone d).
Proof. exact v1_accepts_iff. Qed.
Print Assumptions C16_tzif_v1_accepts_iff.

(* version 2 / 3: layout, records, tables and footer text ([footer_text_ok]: valid UTF-8, first and
   last byte a newline, trimmed text without leading ':' and without NUL) are explicit.
   PARTIAL: for a non-blank footer the TZ string is judged by the reader's own [from_tz_string]
   ([footer_rule_res]) and its agreement with the last transition by [footer_consistent] (the
   reader's rule evaluation); a grammar of the accepted TZ strings as an independent predicate,
   and the agreement check against the calendar oracle, are what is missing
   (C16_footer_agrees_consistent gives the latter inside the premise of C05).
   The TZ-string half is now supplied: C16_tz_string_accepts_iff, and
   C16_tzif_v23_accepts_iff_grammar_partial below supersedes this statement (same shape, the
   footer string judged by the grammar Proofs/TzStrSpec.v; only [footer_consistent] remains) *)
Theorem C16_tzif_v23_accepts_iff_partial : forall d z, data_ok d ->
  (parse d = Val (Ok z) /\ byte_at d 4 <> 0) <-> (tzif_v23_accepts d = true /\ z = tzif_v23_zone d).
Proof. exact v23_accepts_iff. Qed.
Print Assumptions C16_tzif_v23_accepts_iff_partial.

(* all files: [parse] accepts exactly [tzif_accepts] and returns [tzif_zone]; partial only through
   the version-2/3 footer rule as said above; superseded by C16_tzif_accepts_iff_grammar_partial *)
Theorem C16_tzif_accepts_iff_partial : forall d z, data_ok d ->
  parse d = Val (Ok z) <-> tzif_accepts d = true /\ z = tzif_zone d.
Proof. exact accepts_iff. Qed.
Print Assumptions C16_tzif_accepts_iff_partial.

(* the two rejections over all files: when the layout is fine ([selected]: the type records of the
   block [st] are reached) and some type record of that block has utoff = i32::MIN, or a
   designation index with no NUL after it inside the designation table, the file is outside the
   grammar and [parse] answers an error, InvalidTzFile or LocalTimeType: the answer [ltt_res] of
   the first refused record in file order (C16_tzif_first_bad_record; LocalTimeType for the offset
   by C16_ltt_record_min_offset, InvalidTzFile for the missing NUL by C16_ltt_record_unterminated) *)
Theorem C16_tzif_rejects_min_offset : forall d st r, data_ok d -> selected d st ->
  In r (blk_ltt_recs (st_local_time_types st)) -> rec_utoff r = -2147483648 ->
  tzif_accepts d = false /\ exists e, parse d = Val (Err e) /\ (e = EInvalidTzFile \/ e = ELocalTimeType).
Proof. exact rejects_min_offset. Qed.
Print Assumptions C16_tzif_rejects_min_offset.
Theorem C16_tzif_rejects_unterminated : forall d st r, data_ok d -> selected d st ->
  In r (blk_ltt_recs (st_local_time_types st)) ->
  has_nul (skipn (Z.to_nat (rec_idx r)) (st_names st)) = false ->
  tzif_accepts d = false /\ exists e, parse d = Val (Err e) /\ (e = EInvalidTzFile \/ e = ELocalTimeType).
Proof. exact rejects_unterminated. Qed.
Print Assumptions C16_tzif_rejects_unterminated.
Theorem C16_tzif_first_bad_record : forall d st pre r post e, data_ok d -> selected d st ->
  blk_ltt_recs (st_local_time_types st) = pre ++ r :: post ->
  forallb (ltt_rec_ok (st_names st)) pre = true -> ltt_res (st_names st) r = Err e ->
  parse d = Val (Err e).
Proof. exact first_bad_record. Qed.
Print Assumptions C16_tzif_first_bad_record.

(* inhabited: the Guayaquil version-1 file and a version-2 file with leap records, both indicator
   arrays and the footer <CET>-01:00:00<CEST>-02:00:00,M03.5.0/02:00:00,M10.5.0/03:00:00 satisfy the
   grammar and are read as [tzif_zone]; a type with utoff = i32::MIN + 1 and an empty designation
   is accepted *)
Example C16_tzif_accept_examples :
  (data_ok example_v1_file /\ tzif_v1_accepts example_v1_file = true /\ tzif_accepts example_v1_file = true /\
   parse example_v1_file = Val (Ok (tzif_zone example_v1_file))) /\
  (data_ok file_berlin_v2 /\ tzif_v23_accepts file_berlin_v2 = true /\ tzif_accepts file_berlin_v2 = true /\
   parse file_berlin_v2 = Val (Ok (tzif_zone file_berlin_v2)) /\ tzif_zone file_berlin_v2 = example_berlin) /\
  (data_ok file_min_plus_one_v1 /\ tzif_accepts file_min_plus_one_v1 = true /\
   tzif_zone file_min_plus_one_v1 = mk_tz [] [mk_ltt (-2147483647) false None] [] None).
Proof. exact accept_examples. Qed.
Print Assumptions C16_tzif_accept_examples.
(* the two rejections on concrete files (version 1, and in the 64-bit block of a version-2 file):
   utoff = i32::MIN on a type whose designation index points at a NUL -> LocalTimeType;
   designation table LMT\0EST\0EDT without final NUL, index 8 -> InvalidTzFile *)
Example C16_tzif_reject_examples :
  (data_ok file_min_offset_v1 /\ selected file_min_offset_v1 (state_at file_min_offset_v1 0 4) /\
   tzif_accepts file_min_offset_v1 = false /\ parse file_min_offset_v1 = Val (Err ELocalTimeType)) /\
  (data_ok file_min_offset_v2 /\ selected file_min_offset_v2 (state_at file_min_offset_v2 (off2 file_min_offset_v2) 8) /\
   tzif_accepts file_min_offset_v2 = false /\ parse file_min_offset_v2 = Val (Err ELocalTimeType)) /\
  (data_ok file_unterminated_v1 /\ selected file_unterminated_v1 (state_at file_unterminated_v1 0 4) /\
   tzif_accepts file_unterminated_v1 = false /\ parse file_unterminated_v1 = Val (Err EInvalidTzFile)) /\
  (data_ok file_unterminated_v2 /\ selected file_unterminated_v2 (state_at file_unterminated_v2 (off2 file_unterminated_v2) 8) /\
   tzif_accepts file_unterminated_v2 = false /\ parse file_unterminated_v2 = Val (Err EInvalidTzFile)).
Proof. exact reject_examples. Qed.
Print Assumptions C16_tzif_reject_examples.

(** *** The POSIX TZ strings the reader accepts: an independent grammar on bytes *)

(* Proofs/TzStrSpec.v (definitions only, no reader code; shared: the rule data types and the three
   character classes) states the accepted language on bytes:
     name offset                                                         -> Fixed
     name offset name [offset] ',' day ['/' time] ',' day ['/' time]     -> Alternate
   name = maximal run of ASCII letters, or '<' bytes-other-than-'>' '>', and 3..7 bytes of
   [0-9A-Za-z+-]; offset = [+-]hh[:mm[:ss]], hh <= 24, mm, ss <= 59 (each a maximal digit run of any
   length); time = hh[:mm[:ss]] with hh <= 24, or with [ext] (version 3) [+-]hh[:mm[:ss]] with
   hh <= 167; day = Mm.w.d (1..12, 1..5, 0..6) | Jn (1..365) | n (0..365); UT offset = -offset,
   missing DST offset = std - 3600 s, missing time = 7200 s.
   For EVERY byte string s (length below 2^64) and both values of the version-3 flag the reader
   answers Ok r exactly when the grammar accepts s, and r is the rule the grammar denotes;
   outside the grammar the reader answers an error value (it never traps). *)
Theorem C16_tz_string_accepts_iff : forall s ext r, zlen s <= u64_max ->
  from_tz_string s ext = Val (Ok r) <-> tzstr_accepts ext s = true /\ r = tzstr_value ext s.
Proof. exact from_tz_string_iff. Qed.
Print Assumptions C16_tz_string_accepts_iff.
Theorem C16_tz_string_rejects : forall s ext, zlen s <= u64_max ->
  tzstr_accepts ext s = false -> exists e, from_tz_string s ext = Val (Err e).
Proof. exact from_tz_string_rejects. Qed.
Print Assumptions C16_tz_string_rejects.
(* inhabited on both sides: HST10; EST5EDT,M3.2.0,M11.1.0 with the default DST offset and times; the
   negative and the above-24 rule times are in the grammar exactly with the version-3 flag;
   J1/167:59:59 and 365/-167:59:59 are the extreme times; refused: J0, hour 168, a 2-letter
   name, offset hour 25, a DST name without rule, month 13, trailing blank, an unclosed quote,
   the empty string; an hour with 22 leading zeros is accepted *)
Example C16_tz_string_examples :
  tzstr_parse false (B"HST10") = Some (Fixed (mk_ltt (-36000) false (Some (B"HST")))) /\
  tzstr_parse false (B"EST5EDT,M3.2.0,M11.1.0") =
    Some (Alternate (mk_alt (mk_ltt (-18000) false (Some (B"EST"))) (mk_ltt (-14400) true (Some (B"EDT")))
                            (MonthWeekday 3 2 0) 7200 (MonthWeekday 11 1 0) 7200)) /\
  tzstr_parse false (B"<-03>3<-02>,M3.5.0/-2,M10.5.0/-1") = None /\
  tzstr_parse true (B"<-03>3<-02>,M3.5.0/-2,M10.5.0/-1") =
    Some (Alternate (mk_alt (mk_ltt (-10800) false (Some (B"-03"))) (mk_ltt (-7200) true (Some (B"-02")))
                            (MonthWeekday 3 5 0) (-7200) (MonthWeekday 10 5 0) (-3600))) /\
  tzstr_parse true (B"IST-2IDT,M3.4.4/26,M10.5.0") =
    Some (Alternate (mk_alt (mk_ltt 7200 false (Some (B"IST"))) (mk_ltt 10800 true (Some (B"IDT")))
                            (MonthWeekday 3 4 4) 93600 (MonthWeekday 10 5 0) 7200)) /\
  tzstr_parse false (B"IST-2IDT,M3.4.4/26,M10.5.0") = None /\
  tzstr_parse true (B"AAA0BBB,J1/167:59:59,365/-167:59:59") =
    Some (Alternate (mk_alt (mk_ltt 0 false (Some (B"AAA"))) (mk_ltt 3600 true (Some (B"BBB")))
                            (Julian1WithoutLeap 1) 604799 (Julian0WithLeap 365) (-604799))) /\
  tzstr_accepts true (B"AAA0BBB,J0,365") = false /\
  tzstr_accepts true (B"AAA0BBB,J1/168,365") = false /\
  tzstr_accepts true (B"AB0") = false /\
  tzstr_accepts true (B"EST25") = false /\
  tzstr_accepts true (B"EST5EDT") = false /\
  tzstr_accepts true (B"EST5EDT,M13.1.0,M11.1.0") = false /\
  tzstr_accepts true (B"EST5EDT,M3.2.0,M11.1.0 ") = false /\
  tzstr_accepts true (B"EST0000000000000000000005") = true /\
  tzstr_accepts true (B"<EST5") = false /\
  tzstr_accepts true [] = false.
Proof. exact tzstr_examples. Qed.
Print Assumptions C16_tz_string_examples.

(* the footer of a version 2 / 3 file: the reader's answer on the footer text is the grammar's *)
Theorem C16_footer_rule_iff : forall d r, data_ok d ->
  footer_rule_res d = Val (Ok r) <-> footer_rule_g d = Some r.
Proof. exact footer_rule_iff. Qed.
Print Assumptions C16_footer_rule_iff.

(* version 2 / 3 files with the footer string judged by the grammar: [tzif_v23_accepts_g]
   (Proofs/TzStrFile.v) = layout, records, tables, footer text as in C16_tzif_v23_accepts_iff_partial,
   the trimmed footer text blank or in the TZ-string grammar ([footer_rule_g], extended times
   exactly when the second header says version 3), and [footer_consistent].
   PARTIAL: [footer_consistent] (Proofs/TzWriterFull.v) is still the reader's own evaluation:
   the local time type the rule yields at the last transition time (leap-second corrected),
   computed with the reader's find_local_time_type, must equal the type of the last transition.
   An independent statement of that condition exists only as a sufficient one:
   C16_footer_agrees_consistent ([footer_agrees], calendar oracle of Spec/Zone.v) under the
   year-range premise of property C05; the converse, and the reader's behaviour where that
   premise fails (its error OutOfRange near the i32 year limits), are what is missing for a
   predicate free of reader code. *)
Theorem C16_tzif_v23_accepts_iff_grammar_partial : forall d z, data_ok d ->
  (parse d = Val (Ok z) /\ byte_at d 4 <> 0) <-> (tzif_v23_accepts_g d = true /\ z = tzif_v23_zone_g d).
Proof. exact v23_accepts_iff_g. Qed.
Print Assumptions C16_tzif_v23_accepts_iff_grammar_partial.
Theorem C16_tzif_accepts_iff_grammar_partial : forall d z, data_ok d ->
  parse d = Val (Ok z) <-> tzif_accepts_g d = true /\ z = tzif_zone_g d.
Proof. exact accepts_iff_g. Qed.
Print Assumptions C16_tzif_accepts_iff_grammar_partial.
Example C16_tzif_accept_examples_grammar :
  tzif_v23_accepts_g file_berlin_v2 = true /\ tzif_zone_g file_berlin_v2 = example_berlin /\
  footer_rule_g file_berlin_v2 = Some (extra_rule example_berlin).
Proof. exact accept_examples_g. Qed.
Print Assumptions C16_tzif_accept_examples_grammar.

(** the footer check of the reader against the calendar oracle, BOTH directions: inside the premise
    [footer_dom] (the last transition time and its leap-corrected value are i64 values and, for an
    alternating rule, C05's premise [rule_hyps] holds there) [footer_consistent] is true exactly when
    the last transition's local time type is the type the rule has by the oracle of Spec/Zone.v.
    Together with C16_tzif_v23_accepts_iff_grammar_partial this leaves reader code in the v2/3
    acceptance statement only outside [footer_dom]. *)
From V Require Import Proofs.TzFooterIff.
Theorem C16_footer_consistent_iff : forall z,
  leaps_spaced (leap_seconds z) -> zlen (leap_seconds z) <= 4294967295 ->
  footer_dom z -> (footer_consistent z = true <-> footer_matches z).
Proof. exact footer_consistent_iff. Qed.
Print Assumptions C16_footer_consistent_iff.
Theorem C16_footer_agrees_split : forall z, footer_agrees z <-> footer_dom z /\ footer_matches z.
Proof. exact footer_agrees_split. Qed.
Print Assumptions C16_footer_agrees_split.
