(** C16 — The TZif and TZ-rule readers accept well-formed data and survive everything else.
    Property theorems only: each is closed by [exact] of a lemma from Proofs/C16.v and followed by
    [Print Assumptions].  Model functions are the line-by-line transcriptions of
    src/offset/local/tz_info/{parser,timezone,rule}.rs in Model/Tz*.v, with trapping integer
    arithmetic, slicing and indexing ([Val] / [Panic]). *)
From Coq Require Import ZArith List Bool.
From V Require Import Base.Int Base.IO Model.TzParser Model.TzRule Model.TzLookup Proofs.C16.
Import ListNotations.
Open Scope Z_scope.

(* the bounds-checked cursor: exactly the next [count] bytes or an error value, never a trap *)
Theorem C16_read_exact : forall N c count, cur_ok N c ->
  postr (read_exact c count)
        (fun '(b, c') => cur_ok N c' /\ zlen b = count /\ Forall byte b /\
                         remaining c = b ++ remaining c' /\ read_count c' = read_count c + count).
Proof. exact read_exact_spec. Qed.
Print Assumptions C16_read_exact.

(* semantic validation: an accepted zone has a type, in-range type indices, increasing times *)
Theorem C16_tz_new_sound : forall tr ty lp rule z, tz_new tr ty lp rule = Val (Ok z) ->
  z = mk_tz tr ty lp rule /\ ty <> [] /\
  Forall (fun t => tr_idx t < zlen ty) tr /\ increasing (map tr_time tr).
Proof. exact tz_new_sound. Qed.
Print Assumptions C16_tz_new_sound.

(* the repaired wall-clock scan never traps, whatever the transition times and offsets *)
Theorem C16_local_loop_total : forall types trs prev t,
  Forall (fun tr => 0 <= tr_idx tr < zlen types) trs ->
  exists r, local_loop types trs prev t = Val r.
Proof. exact local_loop_total. Qed.
Print Assumptions C16_local_loop_total.
