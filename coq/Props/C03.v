(** C03 — Adding and subtracting elapsed time is exact or refused, never wrapped.
    Property theorems only: each is closed by [exact] of a lemma from Proofs/C03.v and followed by
    [Print Assumptions].  Model functions are the line-by-line transcriptions of the Rust in
    Model/Date.v, Model/Time.v, Model/DateTime.v, Model/C03.v (trapping arithmetic: [Val]/[Panic]). *)
From Coq Require Import ZArith List Bool.
From V Require Import Base.Int Base.IO Spec.Gregorian Model.TimeDelta Model.DateTime Model.C03 Proofs.C06 Proofs.C03.
From V Require Model.Date Model.Time Proofs.C03Headroom Proofs.C03Zone Proofs.C03Nth.
Open Scope Z_scope.

(** Vocabulary (Proofs/C03.v, Proofs/C06.v, Spec/Gregorian.v):
    [vdate d]  d is the packed word the public constructor from_yo_opt returns for its own (year, ordinal),
               the year in [MIN_YEAR, MAX_YEAR] and the ordinal valid for that year;
    [dn d]     its proleptic Gregorian day number (Spec/Gregorian.v);  [DN_MIN, DN_MAX] the date range;
    [tvalid t] a non-leap time of day: 0 <= secs < 86400, 0 <= frac < 10^9;
    [nvalid a] date valid and time non-leap;  [inst a] its instant in ns since 1970-01-01 (unix_nanos);
    [valid x], [ns x]  a TimeDelta inside its range and the integer number of nanoseconds it denotes (C06).
    The specifications of Date.add_days, Date.signed_duration_since, succ_opt, pred_opt and of the derived
    order on packed dates that these theorems rest on are C03_add_days_spec ... C03_date_order_spec below
    (obtained from the shared calendar lemmas of Proofs/Date.v and Proofs/C08AddDays.v). *)

(* operator forms: the checked form's value where it succeeds, panic exactly where it refuses *)
Theorem C03_ops_agree_ndt : forall a d,
  agrees (op_nadd_td a d) (ndt_checked_add_signed a d) /\ agrees (op_nsub_td a d) (ndt_checked_sub_signed a d).
Proof. exact ops_agree_ndt. Qed.
Print Assumptions C03_ops_agree_ndt.
Theorem C03_ops_agree_ndt_days : forall a n,
  agrees (op_nadd_days a n) (ndt_checked_add_days a n) /\ agrees (op_nsub_days a n) (ndt_checked_sub_days a n).
Proof. exact ops_agree_ndt_days. Qed.
Print Assumptions C03_ops_agree_ndt_days.
Theorem C03_ops_agree_date : forall d x n,
  agrees (op_dadd_td d x) (Date.checked_add_signed d x) /\ agrees (op_dsub_td d x) (Date.checked_sub_signed d x) /\
  agrees (op_dadd_days d n) (Date.checked_add_days d n) /\ agrees (op_dsub_days d n) (Date.checked_sub_days d n).
Proof. exact ops_agree_date. Qed.
Print Assumptions C03_ops_agree_date.
Theorem C03_ops_agree_dtz : forall a d n,
  agrees (op_zadd_td a d) (dz_checked_add_signed a d) /\ agrees (op_zsub_td a d) (dz_checked_sub_signed a d) /\
  agrees (op_zadd_days a n) (dz_checked_add_days a n) /\ agrees (op_zsub_days a n) (dz_checked_sub_days a n).
Proof. exact ops_agree_dtz. Qed.
Print Assumptions C03_ops_agree_dtz.
Theorem C03_ops_assign_agree : forall a d,
  op_zadd_assign a d = op_zadd_td a d /\ op_zsub_assign a d = op_zsub_td a d.
Proof. exact ops_assign_agree. Qed.
Print Assumptions C03_ops_assign_agree.
Theorem C03_ops_std_agree : forall a s n,
  match from_std s n with
  | Some d => op_nadd_std a s n = op_nadd_td a d /\ op_nsub_std a s n = op_nsub_td a d
  | None => op_nadd_std a s n = Panic /\ op_nsub_std a s n = Panic
  end.
Proof. exact ops_std_agree. Qed.
Print Assumptions C03_ops_std_agree.

(* zone-aware values: same UTC result whatever the offset; the offset is carried along *)
Theorem C03_zone_add_sub : forall u off d,
  dz_checked_add_signed (mk_dtz u off) d = zmap off (ndt_checked_add_signed u d) /\
  dz_checked_sub_signed (mk_dtz u off) d = zmap off (ndt_checked_sub_signed u d).
Proof. exact zone_add_sub. Qed.
Print Assumptions C03_zone_add_sub.
Theorem C03_zone_diff : forall u1 o1 u2 o2,
  dz_signed_duration_since (mk_dtz u1 o1) (mk_dtz u2 o2) = ndt_signed_duration_since u1 u2.
Proof. exact zone_diff. Qed.
Print Assumptions C03_zone_diff.

(* known finding C03-iter-rev-size-hint: driven backwards from MIN + 2 days the day iterator yields
   2 items while its length hint says 191491526 (the forward count); same for weeks *)
Theorem C03_hint_backward_refuted :
  let d := -2147475398 in
  Date.from_yo_opt (-262143) 3 = Val (Some d) /\
  it_hint days_next_back days_size_hint d 0 = Val (191491526, Some 191491526) /\
  it_observe days_next_back d 0 10 = Val (Some d, Some 2).
Proof. exact hint_backward_refuted. Qed.
Print Assumptions C03_hint_backward_refuted.
Theorem C03_hint_backward_weeks_refuted :
  let d := -2147475206 in
  Date.from_yo_opt (-262143) 15 = Val (Some d) /\
  it_hint weeks_next_back weeks_size_hint d 0 = Val (27355930, Some 27355930) /\
  it_observe weeks_next_back d 0 10 = Val (Some d, Some 2).
Proof. exact hint_backward_weeks_refuted. Qed.
Print Assumptions C03_hint_backward_weeks_refuted.

(* ---- time of day: exact mod-86400 arithmetic with a whole-day carry (closed) ---- *)
Theorem C03_time_add_carry : forall t d, tvalid t -> valid d ->
  exists t' r, Time.overflowing_add_signed t d = Val (t', r) /\ tvalid t' /\
    tns t' + r * G = tns t + ns d /\ r mod 86400 = 0 /\ Z.abs r <= 9223372036954776.
Proof. exact oas_spec. Qed.
Print Assumptions C03_time_add_carry.
Theorem C03_time_sub_carry : forall t d, tvalid t -> valid d ->
  exists t' r, Time.overflowing_sub_signed t d = Val (t', r) /\ tvalid t' /\
    tns t' - r * G = tns t - ns d /\ r mod 86400 = 0 /\ Z.abs r <= 9223372036954776.
Proof. exact osub_spec. Qed.
Print Assumptions C03_time_sub_carry.
Theorem C03_time_diff : forall a b, tvalid a -> tvalid b ->
  exists d, Time.signed_duration_since a b = Val d /\ valid d /\ ns d = tns a - tns b.
Proof. exact tsds_spec. Qed.
Print Assumptions C03_time_diff.

(* ---- valid dates: day numbers are inside the range and determine the date (closed) ---- *)
Theorem C03_vdate_range : forall d, vdate d -> DN_MIN <= dn d <= DN_MAX.
Proof. exact vdate_range. Qed.
Print Assumptions C03_vdate_range.
Theorem C03_vdate_inj : forall a b, vdate a -> vdate b -> dn a = dn b -> a = b.
Proof. exact vdate_inj. Qed.
Print Assumptions C03_vdate_inj.

Theorem C03_vdate_constructed : forall d,
  vdate d <-> exists y o, year_in_range y = true /\ valid_yo y o = true /\ Date.from_yo_opt y o = Val (Some d).
Proof. exact vdate_constructed. Qed.
Print Assumptions C03_vdate_constructed.

(* ---- the day shift itself: for every i32 count the same-year fast path and the 400-year cycle path
        together are addition on day numbers, refused exactly when the sum leaves the date range ---- *)
Theorem C03_add_days_spec : forall d n, vdate d -> in_i32 n = true ->
  exists r, Date.add_days d n = Val r /\
    match r with Some d' => vdate d' /\ dn d' = dn d + n | None => dn_in_range (dn d + n) = false end.
Proof. exact add_days_holds. Qed.
Print Assumptions C03_add_days_spec.
Theorem C03_date_diff_spec : forall a b, vdate a -> vdate b ->
  Date.signed_duration_since a b = Val (mk_td ((dn a - dn b) * 86400) 0).
Proof. exact date_diff_holds. Qed.
Print Assumptions C03_date_diff_spec.
Theorem C03_succ_spec : forall d, vdate d ->
  exists r, Date.succ_opt d = Val r /\
    match r with Some d' => vdate d' /\ dn d' = dn d + 1 | None => dn d = DN_MAX end.
Proof. exact succ_holds. Qed.
Print Assumptions C03_succ_spec.
Theorem C03_pred_spec : forall d, vdate d ->
  exists r, Date.pred_opt d = Val r /\
    match r with Some d' => vdate d' /\ dn d' = dn d - 1 | None => dn d = DN_MIN end.
Proof. exact pred_holds. Qed.
Print Assumptions C03_pred_spec.
Theorem C03_date_order_spec : forall a b, vdate a -> vdate b -> cmpZ a b = cmpZ (dn a) (dn b).
Proof. exact date_ord_holds. Qed.
Print Assumptions C03_date_order_spec.

(* ---- date-time +- duration: exact, refused exactly when the instant is not representable ---- *)
Theorem C03_ndt_add_exact : forall a d, nvalid a -> valid d ->
  exists r, ndt_checked_add_signed a d = Val r /\
    match r with
    | Some b => nvalid b /\ inst b = inst a + ns d
    | None => ~ (NS_MIN <= inst a + ns d <= NS_MAX)
    end.
Proof. exact ndt_add_exact_u. Qed.
Print Assumptions C03_ndt_add_exact.
Theorem C03_ndt_sub_exact : forall a d, nvalid a -> valid d ->
  exists r, ndt_checked_sub_signed a d = Val r /\
    match r with
    | Some b => nvalid b /\ inst b = inst a - ns d
    | None => ~ (NS_MIN <= inst a - ns d <= NS_MAX)
    end.
Proof. exact ndt_sub_exact_u. Qed.
Print Assumptions C03_ndt_sub_exact.
(* both range ends are reached exactly; one nanosecond beyond is refused (hypotheses inhabited) *)
Example C03_range_ends_reachable :
  ndt_checked_add_signed NDT_MAX_m1 ns1 = Val (Some NDT_MAX) /\
  ndt_checked_add_signed NDT_MAX ns1 = Val None /\
  ndt_checked_sub_signed NDT_MIN_p1 ns1 = Val (Some NDT_MIN) /\
  ndt_checked_sub_signed NDT_MIN ns1 = Val None /\
  inst NDT_MAX = NS_MAX /\ inst NDT_MIN = NS_MIN /\
  nvalid NDT_MAX /\ nvalid NDT_MIN /\ valid ns1.
Proof. exact range_ends_reachable. Qed.
Print Assumptions C03_range_ends_reachable.

(* ---- difference: exact signed distance, never panics; b + (a - b) = a; order follows the distance ---- *)
Theorem C03_ndt_diff_exact : forall a b, nvalid a -> nvalid b ->
  exists d, ndt_signed_duration_since a b = Val d /\ valid d /\ ns d = inst a - inst b.
Proof. exact ndt_diff_exact_u. Qed.
Print Assumptions C03_ndt_diff_exact.
Theorem C03_ndt_roundtrip : forall a b, nvalid a -> nvalid b ->
  exists d, ndt_signed_duration_since a b = Val d /\ ndt_checked_add_signed b d = Val (Some a).
Proof. exact ndt_roundtrip_u. Qed.
Print Assumptions C03_ndt_roundtrip.
Theorem C03_ndt_order : forall a b, nvalid a -> nvalid b ->
  exists d, ndt_signed_duration_since a b = Val d /\
    td_cmp d (mk_td 0 0) = cmpZ (inst a) (inst b) /\ ndt_cmp a b = cmpZ (inst a) (inst b).
Proof. exact ndt_order_u. Qed.
Print Assumptions C03_ndt_order.

(* ---- plain dates: Days for every u64 count; TimeDelta truncated toward zero to whole days ---- *)
Theorem C03_date_add_days_exact : forall d n, vdate d -> in_u64 n = true ->
  exists r, Date.checked_add_days d n = Val r /\
    match r with Some d' => vdate d' /\ dn d' = dn d + n | None => dn_in_range (dn d + n) = false end.
Proof. exact date_add_days_exact_u. Qed.
Print Assumptions C03_date_add_days_exact.
Theorem C03_date_sub_days_exact : forall d n, vdate d -> in_u64 n = true ->
  exists r, Date.checked_sub_days d n = Val r /\
    match r with Some d' => vdate d' /\ dn d' = dn d - n | None => dn_in_range (dn d - n) = false end.
Proof. exact date_sub_days_exact_u. Qed.
Print Assumptions C03_date_sub_days_exact.
Theorem C03_date_add_signed_trunc : forall d x, vdate d -> valid x ->
  exists r, Date.checked_add_signed d x = Val r /\
    match r with
    | Some d' => vdate d' /\ dn d' = dn d + Z.quot (ns x) 86400000000000
    | None => dn_in_range (dn d + Z.quot (ns x) 86400000000000) = false
    end.
Proof. exact date_add_signed_trunc_u. Qed.
Print Assumptions C03_date_add_signed_trunc.
Theorem C03_date_sub_signed_trunc : forall d x, vdate d -> valid x ->
  exists r, Date.checked_sub_signed d x = Val r /\
    match r with
    | Some d' => vdate d' /\ dn d' = dn d - Z.quot (ns x) 86400000000000
    | None => dn_in_range (dn d - Z.quot (ns x) 86400000000000) = false
    end.
Proof. exact date_sub_signed_trunc_u. Qed.
Print Assumptions C03_date_sub_signed_trunc.
Theorem C03_ndt_days_exact : forall a n, nvalid a -> in_u64 n = true ->
  (exists r, ndt_checked_add_days a n = Val r /\
     match r with Some b => nvalid b /\ inst b = inst a + n * 86400000000000
                | None => ~ (NS_MIN <= inst a + n * 86400000000000 <= NS_MAX) end) /\
  (exists r, ndt_checked_sub_days a n = Val r /\
     match r with Some b => nvalid b /\ inst b = inst a - n * 86400000000000
                | None => ~ (NS_MIN <= inst a - n * 86400000000000 <= NS_MAX) end).
Proof. exact ndt_days_exact_u. Qed.
Print Assumptions C03_ndt_days_exact.

(* ---- iterators: item k = start +- k*stride, the sequence ends exactly when the cursor cannot
        advance, the number of remaining items is exact; forwards the length hint equals it ---- *)
Theorem C03_iter_days_forward : forall (start : Z) (k : nat), vdate start ->
  let av := (DN_MAX - dn start) / 1 in
  let left := Z.max 0 (av - Z.of_nat k) in
  exists v, it_drive days_next k start = Val v /\ vdate v /\
    (Z.of_nat k < av -> dn v = dn start + 1 * Z.of_nat k /\ exists v', days_next v = Val (Some v, v')) /\
    (av <= Z.of_nat k -> days_next v = Val (None, v)) /\
    days_size_hint v = Val (left, Some left) /\
    forall fuel acc, left < Z.of_nat fuel -> it_count days_next fuel v acc = Val (Some (acc + left)).
Proof. exact iter_days_forward_u. Qed.
Print Assumptions C03_iter_days_forward.
Theorem C03_iter_weeks_forward : forall (start : Z) (k : nat), vdate start ->
  let av := (DN_MAX - dn start) / 7 in
  let left := Z.max 0 (av - Z.of_nat k) in
  exists v, it_drive weeks_next k start = Val v /\ vdate v /\
    (Z.of_nat k < av -> dn v = dn start + 7 * Z.of_nat k /\ exists v', weeks_next v = Val (Some v, v')) /\
    (av <= Z.of_nat k -> weeks_next v = Val (None, v)) /\
    weeks_size_hint v = Val (left, Some left) /\
    forall fuel acc, left < Z.of_nat fuel -> it_count weeks_next fuel v acc = Val (Some (acc + left)).
Proof. exact iter_weeks_forward_u. Qed.
Print Assumptions C03_iter_weeks_forward.
Theorem C03_iter_days_backward : forall (start : Z) (k : nat), vdate start ->
  let av := (dn start - DN_MIN) / 1 in
  let left := Z.max 0 (av - Z.of_nat k) in
  exists v, it_drive days_next_back k start = Val v /\ vdate v /\
    (Z.of_nat k < av -> dn v = dn start - 1 * Z.of_nat k /\ exists v', days_next_back v = Val (Some v, v')) /\
    (av <= Z.of_nat k -> days_next_back v = Val (None, v)) /\
    forall fuel acc, left < Z.of_nat fuel -> it_count days_next_back fuel v acc = Val (Some (acc + left)).
Proof. exact iter_days_backward_u. Qed.
Print Assumptions C03_iter_days_backward.
Theorem C03_iter_weeks_backward : forall (start : Z) (k : nat), vdate start ->
  let av := (dn start - DN_MIN) / 7 in
  let left := Z.max 0 (av - Z.of_nat k) in
  exists v, it_drive weeks_next_back k start = Val v /\ vdate v /\
    (Z.of_nat k < av -> dn v = dn start - 7 * Z.of_nat k /\ exists v', weeks_next_back v = Val (Some v, v')) /\
    (av <= Z.of_nat k -> weeks_next_back v = Val (None, v)) /\
    forall fuel acc, left < Z.of_nat fuel -> it_count weeks_next_back fuel v acc = Val (Some (acc + left)).
Proof. exact iter_weeks_backward_u. Qed.
Print Assumptions C03_iter_weeks_backward.

(* ---- operator forms: exact value where the instant is representable, panic exactly elsewhere ---- *)
Theorem C03_op_nadd_exact : forall a d, nvalid a -> valid d ->
  if in_ns_range (inst a + ns d)
  then exists b, op_nadd_td a d = Val b /\ nvalid b /\ inst b = inst a + ns d
  else op_nadd_td a d = Panic.
Proof. exact op_nadd_exact. Qed.
Print Assumptions C03_op_nadd_exact.
Theorem C03_op_nsub_exact : forall a d, nvalid a -> valid d ->
  if in_ns_range (inst a - ns d)
  then exists b, op_nsub_td a d = Val b /\ nvalid b /\ inst b = inst a - ns d
  else op_nsub_td a d = Panic.
Proof. exact op_nsub_exact. Qed.
Print Assumptions C03_op_nsub_exact.

(* ---- zone-aware date-times: the same instants whatever the offset ---- *)
Theorem C03_zone_add_exact : forall u off d, nvalid u -> valid d ->
  exists r, dz_checked_add_signed (mk_dtz u off) d = Val r /\
    match r with
    | Some z => dz_off z = off /\ nvalid (dz_utc z) /\ inst (dz_utc z) = inst u + ns d
    | None => ~ (NS_MIN <= inst u + ns d <= NS_MAX)
    end.
Proof. exact zone_add_exact. Qed.
Print Assumptions C03_zone_add_exact.
Theorem C03_zone_sub_exact : forall u off d, nvalid u -> valid d ->
  exists r, dz_checked_sub_signed (mk_dtz u off) d = Val r /\
    match r with
    | Some z => dz_off z = off /\ nvalid (dz_utc z) /\ inst (dz_utc z) = inst u - ns d
    | None => ~ (NS_MIN <= inst u - ns d <= NS_MAX)
    end.
Proof. exact zone_sub_exact. Qed.
Print Assumptions C03_zone_sub_exact.
Theorem C03_zone_diff_exact : forall u1 o1 u2 o2, nvalid u1 -> nvalid u2 ->
  exists d, dz_signed_duration_since (mk_dtz u1 o1) (mk_dtz u2 o2) = Val d /\ valid d /\ ns d = inst u1 - inst u2.
Proof. exact zone_diff_exact. Qed.
Print Assumptions C03_zone_diff_exact.

(* ---- Days on a zone-aware value move the date of the local reading.  PARTIAL: proved for values whose
        local reading is itself representable (NS_MIN <= inst u + off*10^9 <= NS_MAX, i.e. everything
        except instants within one day of a range end seen through a non-zero offset; there the code goes
        through the out-of-range sentinel dates BEFORE_MIN/AFTER_MAX, covered by the correspondence run
        and the judge only).  Result: the instant moved by n whole days with the offset kept, refused
        exactly when the target instant or its local reading is not representable. ---- *)
Theorem C03_zone_days_exact_partial : forall u off n, nvalid u -> -86400 < off < 86400 -> in_u64 n = true ->
  NS_MIN <= inst u + off * G <= NS_MAX ->
  (exists r, dz_checked_add_days (mk_dtz u off) n = Val r /\
     match r with
     | Some z => dz_off z = off /\ nvalid (dz_utc z) /\ inst (dz_utc z) = inst u + n * 86400000000000
     | None => ~ (NS_MIN <= inst u + n * 86400000000000 <= NS_MAX /\
                  NS_MIN <= inst u + n * 86400000000000 + off * G <= NS_MAX)
     end) /\
  (exists r, dz_checked_sub_days (mk_dtz u off) n = Val r /\
     match r with
     | Some z => dz_off z = off /\ nvalid (dz_utc z) /\ inst (dz_utc z) = inst u - n * 86400000000000
     | None => ~ (NS_MIN <= inst u - n * 86400000000000 <= NS_MAX /\
                  NS_MIN <= inst u - n * 86400000000000 + off * G <= NS_MAX)
     end).
Proof. exact zone_days_exact_partial. Qed.
Print Assumptions C03_zone_days_exact_partial.

(* ---- the same for EVERY zone-aware value (no premise on the local reading): when the local reading
        lies in the one-day headroom the code goes through the sentinel date words BEFORE_MIN /
        AFTER_MAX; there the day shift is computed on the two literal words (Proofs/C03Headroom.v: the
        same-year fast path swept over its 365 / 364 cases, the 400-year-cycle path by the argument of
        C08AddDays.add_days_spec for the years MIN_YEAR-1 / MAX_YEAR+1) and the re-resolution in the zone
        followed through the range filter (Proofs/C03Zone.v).  Result: the instant moved by n whole days
        with the offset kept; refused exactly when the target instant or its local reading is not
        representable. ---- *)
Theorem C03_zone_days_exact : forall u off n, nvalid u -> -86400 < off < 86400 -> in_u64 n = true ->
  (exists r, dz_checked_add_days (mk_dtz u off) n = Val r /\
     match r with
     | Some z => dz_off z = off /\ nvalid (dz_utc z) /\ inst (dz_utc z) = inst u + n * 86400000000000
     | None => ~ (NS_MIN <= inst u + n * 86400000000000 <= NS_MAX /\
                  NS_MIN <= inst u + n * 86400000000000 + off * G <= NS_MAX)
     end) /\
  (exists r, dz_checked_sub_days (mk_dtz u off) n = Val r /\
     match r with
     | Some z => dz_off z = off /\ nvalid (dz_utc z) /\ inst (dz_utc z) = inst u - n * 86400000000000
     | None => ~ (NS_MIN <= inst u - n * 86400000000000 <= NS_MAX /\
                  NS_MIN <= inst u - n * 86400000000000 + off * G <= NS_MAX)
     end).
Proof. exact V.Proofs.C03Zone.zone_days_exact. Qed.
Print Assumptions C03_zone_days_exact.
(* the day shift on the two sentinel words where it leaves their (out-of-range) year *)
Theorem C03_headroom_add_days : forall k, in_i32 k = true ->
  ((0 <? 366 + k) && (k <=? 0) = false ->
   Date.add_days Date.D_BEFORE_MIN k =
     Val (if dn_in_range (DN_MIN - 1 + k) then Some (V.Proofs.C08AddDays.date_of_dn (DN_MIN - 1 + k)) else None)) /\
  ((0 <? 1 + k) && (k <=? 364) = false ->
   Date.add_days Date.D_AFTER_MAX k =
     Val (if dn_in_range (DN_MAX + 1 + k) then Some (V.Proofs.C08AddDays.date_of_dn (DN_MAX + 1 + k)) else None)).
Proof. exact (fun k Hk => conj (V.Proofs.C03Headroom.add_days_BEFORE_MIN_slow k Hk) (V.Proofs.C03Headroom.add_days_AFTER_MAX_slow k Hk)). Qed.
Print Assumptions C03_headroom_add_days.
(* the headroom case is inhabited: MAX_UTC seen from +02:00 and MIN_UTC seen from -02:00 have a local
   reading outside the range; one day inwards is exact, one day outwards is refused *)
Example C03_zone_days_headroom_examples :
  (inst NDT_MAX + 7200 * G >? NS_MAX) = true /\ (inst NDT_MIN + (-7200) * G <? NS_MIN) = true /\
  V.Proofs.C03Zone.inst_of (dz_checked_sub_days (mk_dtz NDT_MAX 7200) 1) = Some (NS_MAX - DAYNS) /\
  V.Proofs.C03Zone.inst_of (dz_checked_add_days (mk_dtz NDT_MIN (-7200)) 1) = Some (NS_MIN + DAYNS) /\
  dz_checked_add_days (mk_dtz NDT_MAX 7200) 1 = Val None /\ dz_checked_sub_days (mk_dtz NDT_MIN (-7200)) 1 = Val None.
Proof. exact V.Proofs.C03Zone.zone_days_headroom_examples. Qed.
Print Assumptions C03_zone_days_headroom_examples.

(* the provided adaptors nth / nth_back (ops it.dnth / it.wnth) are repeated next / next_back *)
Theorem C03_nth_is_repeated_next : forall step k fuel v vk,
  Proofs.C03Nth.drive_some step k v = Some vk -> (k < fuel)%nat ->
  it_nth step fuel (Z.of_nat k) v = step vk.
Proof. exact Proofs.C03Nth.it_nth_jump. Qed.
Print Assumptions C03_nth_is_repeated_next.
Theorem C03_nth_past_the_end : forall step j k fuel v vj v',
  Proofs.C03Nth.drive_some step j v = Some vj -> step vj = Val (None, v') -> (j <= k)%nat -> (j < fuel)%nat ->
  it_nth step fuel (Z.of_nat k) v = Val (None, v').
Proof. exact Proofs.C03Nth.it_nth_past_end. Qed.
Print Assumptions C03_nth_past_the_end.
