(** C03 — Adding and subtracting elapsed time is exact or refused, never wrapped.
    Property theorems only: each is closed by [exact] of a lemma from Proofs/C03.v and followed by
    [Print Assumptions].  Model functions are the line-by-line transcriptions of the Rust in
    Model/Date.v, Model/Time.v, Model/DateTime.v, Model/C03.v (trapping arithmetic: [Val]/[Panic]). *)
From Coq Require Import ZArith List Bool.
From V Require Import Base.Int Base.IO Model.TimeDelta Model.DateTime Model.C03 Proofs.C03.
From V Require Model.Date Model.Time.
Open Scope Z_scope.

(* operator forms: the checked form's value where it succeeds, panic exactly where it refuses *)
Theorem C03_ops_agree_ndt : forall a d,
  agrees (op_nadd_td a d) (ndt_checked_add_signed a d) /\ agrees (op_nsub_td a d) (ndt_checked_sub_signed a d).
Proof. exact ops_agree_ndt. Qed.
Print Assumptions C03_ops_agree_ndt.
Theorem C03_ops_agree_ndt_days : forall a n,
  agrees (op_nadd_days a n) (ndt_checked_add_days a n) /\ agrees (op_nsub_days a n) (ndt_checked_sub_days a n).
Proof. exact ops_agree_ndt_days. Qed.
Print Assumptions C03_ops_agree_ndt_days.
Theorem C03_ops_agree_date : forall d x n,
  agrees (op_dadd_td d x) (Date.checked_add_signed d x) /\ agrees (op_dsub_td d x) (Date.checked_sub_signed d x) /\
  agrees (op_dadd_days d n) (Date.checked_add_days d n) /\ agrees (op_dsub_days d n) (Date.checked_sub_days d n).
Proof. exact ops_agree_date. Qed.
Print Assumptions C03_ops_agree_date.
Theorem C03_ops_agree_dtz : forall a d n,
  agrees (op_zadd_td a d) (dz_checked_add_signed a d) /\ agrees (op_zsub_td a d) (dz_checked_sub_signed a d) /\
  agrees (op_zadd_days a n) (dz_checked_add_days a n) /\ agrees (op_zsub_days a n) (dz_checked_sub_days a n).
Proof. exact ops_agree_dtz. Qed.
Print Assumptions C03_ops_agree_dtz.
Theorem C03_ops_assign_agree : forall a d,
  op_zadd_assign a d = op_zadd_td a d /\ op_zsub_assign a d = op_zsub_td a d.
Proof. exact ops_assign_agree. Qed.
Print Assumptions C03_ops_assign_agree.
Theorem C03_ops_std_agree : forall a s n,
  match from_std s n with
  | Some d => op_nadd_std a s n = op_nadd_td a d /\ op_nsub_std a s n = op_nsub_td a d
  | None => op_nadd_std a s n = Panic /\ op_nsub_std a s n = Panic
  end.
Proof. exact ops_std_agree. Qed.
Print Assumptions C03_ops_std_agree.

(* zone-aware values: same UTC result whatever the offset; the offset is carried along *)
Theorem C03_zone_add_sub : forall u off d,
  dz_checked_add_signed (mk_dtz u off) d = zmap off (ndt_checked_add_signed u d) /\
  dz_checked_sub_signed (mk_dtz u off) d = zmap off (ndt_checked_sub_signed u d).
Proof. exact zone_add_sub. Qed.
Print Assumptions C03_zone_add_sub.
Theorem C03_zone_diff : forall u1 o1 u2 o2,
  dz_signed_duration_since (mk_dtz u1 o1) (mk_dtz u2 o2) = ndt_signed_duration_since u1 u2.
Proof. exact zone_diff. Qed.
Print Assumptions C03_zone_diff.

(* known finding C03-iter-rev-size-hint: driven backwards from MIN + 2 days the day iterator yields
   2 items while its length hint says 191491526 (the forward count); same for weeks *)
Theorem C03_hint_backward_refuted :
  let d := -2147475398 in
  Date.from_yo_opt (-262143) 3 = Val (Some d) /\
  it_hint days_next_back days_size_hint d 0 = Val (191491526, Some 191491526) /\
  it_observe days_next_back d 0 10 = Val (Some d, Some 2).
Proof. exact hint_backward_refuted. Qed.
Print Assumptions C03_hint_backward_refuted.
Theorem C03_hint_backward_weeks_refuted :
  let d := -2147475206 in
  Date.from_yo_opt (-262143) 15 = Val (Some d) /\
  it_hint weeks_next_back weeks_size_hint d 0 = Val (27355930, Some 27355930) /\
  it_observe weeks_next_back d 0 10 = Val (Some d, Some 2).
Proof. exact hint_backward_weeks_refuted. Qed.
Print Assumptions C03_hint_backward_weeks_refuted.
