(** C03 — Adding and subtracting elapsed time is exact or refused, never wrapped.
    Property theorems only: each is closed by [exact] of a lemma from Proofs/C03.v and followed by
    [Print Assumptions].  Model functions are the line-by-line transcriptions of the Rust in
    Model/Date.v, Model/Time.v, Model/DateTime.v, Model/C03.v (trapping arithmetic: [Val]/[Panic]). *)
From Coq Require Import String ZArith List Bool.
From V Require Import Base.Int Base.IO Spec.Gregorian Model.TimeDelta Model.DateTime Model.C03 Proofs.C06 Proofs.C03.
From V Require Model.Date Model.Time Proofs.C03Headroom Proofs.C03Zone Proofs.C03Nth.
From V Require Import Proofs.C03Ops Proofs.C03Adapt.
From V Require Judge.C03 Proofs.C03Holds Proofs.C03HoldsAr Proofs.C03HoldsNth Proofs.C03HoldsZdays Proofs.C03Zord.
Import ListNotations.
Open Scope Z_scope.

(** Vocabulary (Proofs/C03.v, Proofs/C06.v, Spec/Gregorian.v):
    [vdate d]  d is the packed word the public constructor from_yo_opt returns for its own (year, ordinal),
               the year in [MIN_YEAR, MAX_YEAR] and the ordinal valid for that year;
    [dn d]     its proleptic Gregorian day number (Spec/Gregorian.v);  [DN_MIN, DN_MAX] the date range;
    [tvalid t] a non-leap time of day: 0 <= secs < 86400, 0 <= frac < 10^9;
    [nvalid a] date valid and time non-leap;  [inst a] its instant in ns since 1970-01-01 (unix_nanos);
    [valid x], [ns x]  a TimeDelta inside its range and the integer number of nanoseconds it denotes (C06).
    The specifications of Date.add_days, Date.signed_duration_since, succ_opt, pred_opt and of the derived
    order on packed dates that these theorems rest on are C03_add_days_spec ... C03_date_order_spec below
    (obtained from the shared calendar lemmas of Proofs/Date.v and Proofs/C08AddDays.v). *)

(* operator forms: the checked form's value where it succeeds, panic exactly where it refuses *)
Theorem C03_ops_agree_ndt : forall a d,
  agrees (op_nadd_td a d) (ndt_checked_add_signed a d) /\ agrees (op_nsub_td a d) (ndt_checked_sub_signed a d).
Proof. exact ops_agree_ndt. Qed.
Print Assumptions C03_ops_agree_ndt.
Theorem C03_ops_agree_ndt_days : forall a n,
  agrees (op_nadd_days a n) (ndt_checked_add_days a n) /\ agrees (op_nsub_days a n) (ndt_checked_sub_days a n).
Proof. exact ops_agree_ndt_days. Qed.
Print Assumptions C03_ops_agree_ndt_days.
Theorem C03_ops_agree_date : forall d x n,
  agrees (op_dadd_td d x) (Date.checked_add_signed d x) /\ agrees (op_dsub_td d x) (Date.checked_sub_signed d x) /\
  agrees (op_dadd_days d n) (Date.checked_add_days d n) /\ agrees (op_dsub_days d n) (Date.checked_sub_days d n).
Proof. exact ops_agree_date. Qed.
Print Assumptions C03_ops_agree_date.
Theorem C03_ops_agree_dtz : forall a d n,
  agrees (op_zadd_td a d) (dz_checked_add_signed a d) /\ agrees (op_zsub_td a d) (dz_checked_sub_signed a d) /\
  agrees (op_zadd_days a n) (dz_checked_add_days a n) /\ agrees (op_zsub_days a n) (dz_checked_sub_days a n).
Proof. exact ops_agree_dtz. Qed.
Print Assumptions C03_ops_agree_dtz.
Theorem C03_ops_assign_agree : forall a d,
  op_zadd_assign a d = op_zadd_td a d /\ op_zsub_assign a d = op_zsub_td a d.
Proof. exact ops_assign_agree. Qed.
Print Assumptions C03_ops_assign_agree.
Theorem C03_ops_std_agree : forall a s n,
  match from_std s n with
  | Some d => op_nadd_std a s n = op_nadd_td a d /\ op_nsub_std a s n = op_nsub_td a d
  | None => op_nadd_std a s n = Panic /\ op_nsub_std a s n = Panic
  end.
Proof. exact ops_std_agree. Qed.
Print Assumptions C03_ops_std_agree.

(* zone-aware values: same UTC result whatever the offset; the offset is carried along *)
Theorem C03_zone_add_sub : forall u off d,
  dz_checked_add_signed (mk_dtz u off) d = zmap off (ndt_checked_add_signed u d) /\
  dz_checked_sub_signed (mk_dtz u off) d = zmap off (ndt_checked_sub_signed u d).
Proof. exact zone_add_sub. Qed.
Print Assumptions C03_zone_add_sub.
Theorem C03_zone_diff : forall u1 o1 u2 o2,
  dz_signed_duration_since (mk_dtz u1 o1) (mk_dtz u2 o2) = ndt_signed_duration_since u1 u2.
Proof. exact zone_diff. Qed.
Print Assumptions C03_zone_diff.

(* known finding C03-iter-rev-size-hint: driven backwards from MIN + 2 days the day iterator yields
   2 items while its length hint says 191491526 (the forward count); same for weeks *)
Theorem C03_hint_backward_refuted :
  let d := -2147475398 in
  Date.from_yo_opt (-262143) 3 = Val (Some d) /\
  it_hint days_next_back days_size_hint d 0 = Val (191491526, Some 191491526) /\
  it_observe days_next_back d 0 10 = Val (Some d, Some 2).
Proof. exact hint_backward_refuted. Qed.
Print Assumptions C03_hint_backward_refuted.
Theorem C03_hint_backward_weeks_refuted :
  let d := -2147475206 in
  Date.from_yo_opt (-262143) 15 = Val (Some d) /\
  it_hint weeks_next_back weeks_size_hint d 0 = Val (27355930, Some 27355930) /\
  it_observe weeks_next_back d 0 10 = Val (Some d, Some 2).
Proof. exact hint_backward_weeks_refuted. Qed.
Print Assumptions C03_hint_backward_weeks_refuted.

(* ---- time of day: exact mod-86400 arithmetic with a whole-day carry (closed) ---- *)
Theorem C03_time_add_carry : forall t d, tvalid t -> valid d ->
  exists t' r, Time.overflowing_add_signed t d = Val (t', r) /\ tvalid t' /\
    tns t' + r * G = tns t + ns d /\ r mod 86400 = 0 /\ Z.abs r <= 9223372036954776.
Proof. exact oas_spec. Qed.
Print Assumptions C03_time_add_carry.
Theorem C03_time_sub_carry : forall t d, tvalid t -> valid d ->
  exists t' r, Time.overflowing_sub_signed t d = Val (t', r) /\ tvalid t' /\
    tns t' - r * G = tns t - ns d /\ r mod 86400 = 0 /\ Z.abs r <= 9223372036954776.
Proof. exact osub_spec. Qed.
Print Assumptions C03_time_sub_carry.
Theorem C03_time_diff : forall a b, tvalid a -> tvalid b ->
  exists d, Time.signed_duration_since a b = Val d /\ valid d /\ ns d = tns a - tns b.
Proof. exact tsds_spec. Qed.
Print Assumptions C03_time_diff.

(* ---- valid dates: day numbers are inside the range and determine the date (closed) ---- *)
Theorem C03_vdate_range : forall d, vdate d -> DN_MIN <= dn d <= DN_MAX.
Proof. exact vdate_range. Qed.
Print Assumptions C03_vdate_range.
Theorem C03_vdate_inj : forall a b, vdate a -> vdate b -> dn a = dn b -> a = b.
Proof. exact vdate_inj. Qed.
Print Assumptions C03_vdate_inj.

Theorem C03_vdate_constructed : forall d,
  vdate d <-> exists y o, year_in_range y = true /\ valid_yo y o = true /\ Date.from_yo_opt y o = Val (Some d).
Proof. exact vdate_constructed. Qed.
Print Assumptions C03_vdate_constructed.

(* ---- the day shift itself: for every i32 count the same-year fast path and the 400-year cycle path
        together are addition on day numbers, refused exactly when the sum leaves the date range ---- *)
Theorem C03_add_days_spec : forall d n, vdate d -> in_i32 n = true ->
  exists r, Date.add_days d n = Val r /\
    match r with Some d' => vdate d' /\ dn d' = dn d + n | None => dn_in_range (dn d + n) = false end.
Proof. exact add_days_holds. Qed.
Print Assumptions C03_add_days_spec.
Theorem C03_date_diff_spec : forall a b, vdate a -> vdate b ->
  Date.signed_duration_since a b = Val (mk_td ((dn a - dn b) * 86400) 0).
Proof. exact date_diff_holds. Qed.
Print Assumptions C03_date_diff_spec.
Theorem C03_succ_spec : forall d, vdate d ->
  exists r, Date.succ_opt d = Val r /\
    match r with Some d' => vdate d' /\ dn d' = dn d + 1 | None => dn d = DN_MAX end.
Proof. exact succ_holds. Qed.
Print Assumptions C03_succ_spec.
Theorem C03_pred_spec : forall d, vdate d ->
  exists r, Date.pred_opt d = Val r /\
    match r with Some d' => vdate d' /\ dn d' = dn d - 1 | None => dn d = DN_MIN end.
Proof. exact pred_holds. Qed.
Print Assumptions C03_pred_spec.
Theorem C03_date_order_spec : forall a b, vdate a -> vdate b -> cmpZ a b = cmpZ (dn a) (dn b).
Proof. exact date_ord_holds. Qed.
Print Assumptions C03_date_order_spec.

(* ---- date-time +- duration: exact, refused exactly when the instant is not representable ---- *)
Theorem C03_ndt_add_exact : forall a d, nvalid a -> valid d ->
  exists r, ndt_checked_add_signed a d = Val r /\
    match r with
    | Some b => nvalid b /\ inst b = inst a + ns d
    | None => ~ (NS_MIN <= inst a + ns d <= NS_MAX)
    end.
Proof. exact ndt_add_exact_u. Qed.
Print Assumptions C03_ndt_add_exact.
Theorem C03_ndt_sub_exact : forall a d, nvalid a -> valid d ->
  exists r, ndt_checked_sub_signed a d = Val r /\
    match r with
    | Some b => nvalid b /\ inst b = inst a - ns d
    | None => ~ (NS_MIN <= inst a - ns d <= NS_MAX)
    end.
Proof. exact ndt_sub_exact_u. Qed.
Print Assumptions C03_ndt_sub_exact.
(* both range ends are reached exactly; one nanosecond beyond is refused (hypotheses inhabited) *)
Example C03_range_ends_reachable :
  ndt_checked_add_signed NDT_MAX_m1 ns1 = Val (Some NDT_MAX) /\
  ndt_checked_add_signed NDT_MAX ns1 = Val None /\
  ndt_checked_sub_signed NDT_MIN_p1 ns1 = Val (Some NDT_MIN) /\
  ndt_checked_sub_signed NDT_MIN ns1 = Val None /\
  inst NDT_MAX = NS_MAX /\ inst NDT_MIN = NS_MIN /\
  nvalid NDT_MAX /\ nvalid NDT_MIN /\ valid ns1.
Proof. exact range_ends_reachable. Qed.
Print Assumptions C03_range_ends_reachable.

(* ---- difference: exact signed distance, never panics; b + (a - b) = a; order follows the distance ---- *)
Theorem C03_ndt_diff_exact : forall a b, nvalid a -> nvalid b ->
  exists d, ndt_signed_duration_since a b = Val d /\ valid d /\ ns d = inst a - inst b.
Proof. exact ndt_diff_exact_u. Qed.
Print Assumptions C03_ndt_diff_exact.
Theorem C03_ndt_roundtrip : forall a b, nvalid a -> nvalid b ->
  exists d, ndt_signed_duration_since a b = Val d /\ ndt_checked_add_signed b d = Val (Some a).
Proof. exact ndt_roundtrip_u. Qed.
Print Assumptions C03_ndt_roundtrip.
Theorem C03_ndt_order : forall a b, nvalid a -> nvalid b ->
  exists d, ndt_signed_duration_since a b = Val d /\
    td_cmp d (mk_td 0 0) = cmpZ (inst a) (inst b) /\ ndt_cmp a b = cmpZ (inst a) (inst b).
Proof. exact ndt_order_u. Qed.
Print Assumptions C03_ndt_order.

(* ---- plain dates: Days for every u64 count; TimeDelta truncated toward zero to whole days ---- *)
Theorem C03_date_add_days_exact : forall d n, vdate d -> in_u64 n = true ->
  exists r, Date.checked_add_days d n = Val r /\
    match r with Some d' => vdate d' /\ dn d' = dn d + n | None => dn_in_range (dn d + n) = false end.
Proof. exact date_add_days_exact_u. Qed.
Print Assumptions C03_date_add_days_exact.
Theorem C03_date_sub_days_exact : forall d n, vdate d -> in_u64 n = true ->
  exists r, Date.checked_sub_days d n = Val r /\
    match r with Some d' => vdate d' /\ dn d' = dn d - n | None => dn_in_range (dn d - n) = false end.
Proof. exact date_sub_days_exact_u. Qed.
Print Assumptions C03_date_sub_days_exact.
Theorem C03_date_add_signed_trunc : forall d x, vdate d -> valid x ->
  exists r, Date.checked_add_signed d x = Val r /\
    match r with
    | Some d' => vdate d' /\ dn d' = dn d + Z.quot (ns x) 86400000000000
    | None => dn_in_range (dn d + Z.quot (ns x) 86400000000000) = false
    end.
Proof. exact date_add_signed_trunc_u. Qed.
Print Assumptions C03_date_add_signed_trunc.
Theorem C03_date_sub_signed_trunc : forall d x, vdate d -> valid x ->
  exists r, Date.checked_sub_signed d x = Val r /\
    match r with
    | Some d' => vdate d' /\ dn d' = dn d - Z.quot (ns x) 86400000000000
    | None => dn_in_range (dn d - Z.quot (ns x) 86400000000000) = false
    end.
Proof. exact date_sub_signed_trunc_u. Qed.
Print Assumptions C03_date_sub_signed_trunc.
Theorem C03_ndt_days_exact : forall a n, nvalid a -> in_u64 n = true ->
  (exists r, ndt_checked_add_days a n = Val r /\
     match r with Some b => nvalid b /\ inst b = inst a + n * 86400000000000
                | None => ~ (NS_MIN <= inst a + n * 86400000000000 <= NS_MAX) end) /\
  (exists r, ndt_checked_sub_days a n = Val r /\
     match r with Some b => nvalid b /\ inst b = inst a - n * 86400000000000
                | None => ~ (NS_MIN <= inst a - n * 86400000000000 <= NS_MAX) end).
Proof. exact ndt_days_exact_u. Qed.
Print Assumptions C03_ndt_days_exact.

(* ---- iterators: item k = start +- k*stride, the sequence ends exactly when the cursor cannot
        advance, the number of remaining items is exact; forwards the length hint equals it ---- *)
Theorem C03_iter_days_forward : forall (start : Z) (k : nat), vdate start ->
  let av := (DN_MAX - dn start) / 1 in
  let left := Z.max 0 (av - Z.of_nat k) in
  exists v, it_drive days_next k start = Val v /\ vdate v /\
    (Z.of_nat k < av -> dn v = dn start + 1 * Z.of_nat k /\ exists v', days_next v = Val (Some v, v')) /\
    (av <= Z.of_nat k -> days_next v = Val (None, v)) /\
    days_size_hint v = Val (left, Some left) /\
    forall fuel acc, left < Z.of_nat fuel -> it_count days_next fuel v acc = Val (Some (acc + left)).
Proof. exact iter_days_forward_u. Qed.
Print Assumptions C03_iter_days_forward.
Theorem C03_iter_weeks_forward : forall (start : Z) (k : nat), vdate start ->
  let av := (DN_MAX - dn start) / 7 in
  let left := Z.max 0 (av - Z.of_nat k) in
  exists v, it_drive weeks_next k start = Val v /\ vdate v /\
    (Z.of_nat k < av -> dn v = dn start + 7 * Z.of_nat k /\ exists v', weeks_next v = Val (Some v, v')) /\
    (av <= Z.of_nat k -> weeks_next v = Val (None, v)) /\
    weeks_size_hint v = Val (left, Some left) /\
    forall fuel acc, left < Z.of_nat fuel -> it_count weeks_next fuel v acc = Val (Some (acc + left)).
Proof. exact iter_weeks_forward_u. Qed.
Print Assumptions C03_iter_weeks_forward.
Theorem C03_iter_days_backward : forall (start : Z) (k : nat), vdate start ->
  let av := (dn start - DN_MIN) / 1 in
  let left := Z.max 0 (av - Z.of_nat k) in
  exists v, it_drive days_next_back k start = Val v /\ vdate v /\
    (Z.of_nat k < av -> dn v = dn start - 1 * Z.of_nat k /\ exists v', days_next_back v = Val (Some v, v')) /\
    (av <= Z.of_nat k -> days_next_back v = Val (None, v)) /\
    forall fuel acc, left < Z.of_nat fuel -> it_count days_next_back fuel v acc = Val (Some (acc + left)).
Proof. exact iter_days_backward_u. Qed.
Print Assumptions C03_iter_days_backward.
Theorem C03_iter_weeks_backward : forall (start : Z) (k : nat), vdate start ->
  let av := (dn start - DN_MIN) / 7 in
  let left := Z.max 0 (av - Z.of_nat k) in
  exists v, it_drive weeks_next_back k start = Val v /\ vdate v /\
    (Z.of_nat k < av -> dn v = dn start - 7 * Z.of_nat k /\ exists v', weeks_next_back v = Val (Some v, v')) /\
    (av <= Z.of_nat k -> weeks_next_back v = Val (None, v)) /\
    forall fuel acc, left < Z.of_nat fuel -> it_count weeks_next_back fuel v acc = Val (Some (acc + left)).
Proof. exact iter_weeks_backward_u. Qed.
Print Assumptions C03_iter_weeks_backward.

(* ---- operator forms: exact value where the instant is representable, panic exactly elsewhere ---- *)
Theorem C03_op_nadd_exact : forall a d, nvalid a -> valid d ->
  if in_ns_range (inst a + ns d)
  then exists b, op_nadd_td a d = Val b /\ nvalid b /\ inst b = inst a + ns d
  else op_nadd_td a d = Panic.
Proof. exact op_nadd_exact. Qed.
Print Assumptions C03_op_nadd_exact.
Theorem C03_op_nsub_exact : forall a d, nvalid a -> valid d ->
  if in_ns_range (inst a - ns d)
  then exists b, op_nsub_td a d = Val b /\ nvalid b /\ inst b = inst a - ns d
  else op_nsub_td a d = Panic.
Proof. exact op_nsub_exact. Qed.
Print Assumptions C03_op_nsub_exact.

(* ---- zone-aware date-times: the same instants whatever the offset ---- *)
Theorem C03_zone_add_exact : forall u off d, nvalid u -> valid d ->
  exists r, dz_checked_add_signed (mk_dtz u off) d = Val r /\
    match r with
    | Some z => dz_off z = off /\ nvalid (dz_utc z) /\ inst (dz_utc z) = inst u + ns d
    | None => ~ (NS_MIN <= inst u + ns d <= NS_MAX)
    end.
Proof. exact zone_add_exact. Qed.
Print Assumptions C03_zone_add_exact.
Theorem C03_zone_sub_exact : forall u off d, nvalid u -> valid d ->
  exists r, dz_checked_sub_signed (mk_dtz u off) d = Val r /\
    match r with
    | Some z => dz_off z = off /\ nvalid (dz_utc z) /\ inst (dz_utc z) = inst u - ns d
    | None => ~ (NS_MIN <= inst u - ns d <= NS_MAX)
    end.
Proof. exact zone_sub_exact. Qed.
Print Assumptions C03_zone_sub_exact.
Theorem C03_zone_diff_exact : forall u1 o1 u2 o2, nvalid u1 -> nvalid u2 ->
  exists d, dz_signed_duration_since (mk_dtz u1 o1) (mk_dtz u2 o2) = Val d /\ valid d /\ ns d = inst u1 - inst u2.
Proof. exact zone_diff_exact. Qed.
Print Assumptions C03_zone_diff_exact.

(* ---- Days on a zone-aware value move the date of the local reading.  PARTIAL: proved for values whose
        local reading is itself representable (NS_MIN <= inst u + off*10^9 <= NS_MAX, i.e. everything
        except instants within one day of a range end seen through a non-zero offset; there the code goes
        through the out-of-range sentinel dates BEFORE_MIN/AFTER_MAX, covered by the correspondence run
        and the judge only).  Result: the instant moved by n whole days with the offset kept, refused
        exactly when the target instant or its local reading is not representable. ---- *)
Theorem C03_zone_days_exact_partial : forall u off n, nvalid u -> -86400 < off < 86400 -> in_u64 n = true ->
  NS_MIN <= inst u + off * G <= NS_MAX ->
  (exists r, dz_checked_add_days (mk_dtz u off) n = Val r /\
     match r with
     | Some z => dz_off z = off /\ nvalid (dz_utc z) /\ inst (dz_utc z) = inst u + n * 86400000000000
     | None => ~ (NS_MIN <= inst u + n * 86400000000000 <= NS_MAX /\
                  NS_MIN <= inst u + n * 86400000000000 + off * G <= NS_MAX)
     end) /\
  (exists r, dz_checked_sub_days (mk_dtz u off) n = Val r /\
     match r with
     | Some z => dz_off z = off /\ nvalid (dz_utc z) /\ inst (dz_utc z) = inst u - n * 86400000000000
     | None => ~ (NS_MIN <= inst u - n * 86400000000000 <= NS_MAX /\
                  NS_MIN <= inst u - n * 86400000000000 + off * G <= NS_MAX)
     end).
Proof. exact zone_days_exact_partial. Qed.
Print Assumptions C03_zone_days_exact_partial.

(* ---- the same for EVERY zone-aware value (no premise on the local reading): when the local reading
        lies in the one-day headroom the code goes through the sentinel date words BEFORE_MIN /
        AFTER_MAX; there the day shift is computed on the two literal words (Proofs/C03Headroom.v: the
        same-year fast path swept over its 365 / 364 cases, the 400-year-cycle path by the argument of
        C08AddDays.add_days_spec for the years MIN_YEAR-1 / MAX_YEAR+1) and the re-resolution in the zone
        followed through the range filter (Proofs/C03Zone.v).  Result: the instant moved by n whole days
        with the offset kept; refused exactly when the target instant or its local reading is not
        representable. ---- *)
Theorem C03_zone_days_exact : forall u off n, nvalid u -> -86400 < off < 86400 -> in_u64 n = true ->
  (exists r, dz_checked_add_days (mk_dtz u off) n = Val r /\
     match r with
     | Some z => dz_off z = off /\ nvalid (dz_utc z) /\ inst (dz_utc z) = inst u + n * 86400000000000
     | None => ~ (NS_MIN <= inst u + n * 86400000000000 <= NS_MAX /\
                  NS_MIN <= inst u + n * 86400000000000 + off * G <= NS_MAX)
     end) /\
  (exists r, dz_checked_sub_days (mk_dtz u off) n = Val r /\
     match r with
     | Some z => dz_off z = off /\ nvalid (dz_utc z) /\ inst (dz_utc z) = inst u - n * 86400000000000
     | None => ~ (NS_MIN <= inst u - n * 86400000000000 <= NS_MAX /\
                  NS_MIN <= inst u - n * 86400000000000 + off * G <= NS_MAX)
     end).
Proof. exact V.Proofs.C03Zone.zone_days_exact. Qed.
Print Assumptions C03_zone_days_exact.
(* the day shift on the two sentinel words where it leaves their (out-of-range) year *)
Theorem C03_headroom_add_days : forall k, in_i32 k = true ->
  ((0 <? 366 + k) && (k <=? 0) = false ->
   Date.add_days Date.D_BEFORE_MIN k =
     Val (if dn_in_range (DN_MIN - 1 + k) then Some (V.Proofs.C08AddDays.date_of_dn (DN_MIN - 1 + k)) else None)) /\
  ((0 <? 1 + k) && (k <=? 364) = false ->
   Date.add_days Date.D_AFTER_MAX k =
     Val (if dn_in_range (DN_MAX + 1 + k) then Some (V.Proofs.C08AddDays.date_of_dn (DN_MAX + 1 + k)) else None)).
Proof. exact (fun k Hk => conj (V.Proofs.C03Headroom.add_days_BEFORE_MIN_slow k Hk) (V.Proofs.C03Headroom.add_days_AFTER_MAX_slow k Hk)). Qed.
Print Assumptions C03_headroom_add_days.
(* the headroom case is inhabited: MAX_UTC seen from +02:00 and MIN_UTC seen from -02:00 have a local
   reading outside the range; one day inwards is exact, one day outwards is refused *)
Example C03_zone_days_headroom_examples :
  (inst NDT_MAX + 7200 * G >? NS_MAX) = true /\ (inst NDT_MIN + (-7200) * G <? NS_MIN) = true /\
  V.Proofs.C03Zone.inst_of (dz_checked_sub_days (mk_dtz NDT_MAX 7200) 1) = Some (NS_MAX - DAYNS) /\
  V.Proofs.C03Zone.inst_of (dz_checked_add_days (mk_dtz NDT_MIN (-7200)) 1) = Some (NS_MIN + DAYNS) /\
  dz_checked_add_days (mk_dtz NDT_MAX 7200) 1 = Val None /\ dz_checked_sub_days (mk_dtz NDT_MIN (-7200)) 1 = Val None.
Proof. exact V.Proofs.C03Zone.zone_days_headroom_examples. Qed.
Print Assumptions C03_zone_days_headroom_examples.

(* the provided adaptors nth / nth_back (ops it.dnth / it.wnth) are repeated next / next_back *)
Theorem C03_nth_is_repeated_next : forall step k fuel v vk,
  Proofs.C03Nth.drive_some step k v = Some vk -> (k < fuel)%nat ->
  it_nth step fuel (Z.of_nat k) v = step vk.
Proof. exact Proofs.C03Nth.it_nth_jump. Qed.
Print Assumptions C03_nth_is_repeated_next.
Theorem C03_nth_past_the_end : forall step j k fuel v vj v',
  Proofs.C03Nth.drive_some step j v = Some vj -> step vj = Val (None, v') -> (j <= k)%nat -> (j < fuel)%nat ->
  it_nth step fuel (Z.of_nat k) v = Val (None, v').
Proof. exact Proofs.C03Nth.it_nth_past_end. Qed.
Print Assumptions C03_nth_past_the_end.

(* ================= the remaining operator surface (dispatcher run2, ops ar.opdasg ... ar.opzoff) ================= *)

(* ---- ar.opdasg: NaiveDate += / -= TimeDelta is the binary operator, hence the checked form's value
        and PANIC exactly where it refuses; on values: the date moves by the whole days of the
        duration (truncated toward zero), PANIC exactly when the target leaves the date range ---- *)
Theorem C03_ops_assign_date_agree : forall d x,
  op_dadd_assign d x = op_dadd_td d x /\ op_dsub_assign d x = op_dsub_td d x /\
  agrees (op_dadd_assign d x) (Date.checked_add_signed d x) /\
  agrees (op_dsub_assign d x) (Date.checked_sub_signed d x).
Proof. exact ops_assign_date_agree. Qed.
Print Assumptions C03_ops_assign_date_agree.
Theorem C03_ops_assign_date_exact : forall d x, vdate d -> valid x ->
  (if dn_in_range (dn d + Z.quot (ns x) 86400000000000)
   then exists d', op_dadd_assign d x = Val d' /\ vdate d' /\ dn d' = dn d + Z.quot (ns x) 86400000000000
   else op_dadd_assign d x = Panic) /\
  (if dn_in_range (dn d - Z.quot (ns x) 86400000000000)
   then exists d', op_dsub_assign d x = Val d' /\ vdate d' /\ dn d' = dn d - Z.quot (ns x) 86400000000000
   else op_dsub_assign d x = Panic).
Proof. exact ops_assign_date_exact. Qed.
Print Assumptions C03_ops_assign_date_exact.

(* ---- ar.opnasg: NaiveDateTime += / -= TimeDelta ---- *)
Theorem C03_ops_assign_ndt_agree : forall a d,
  op_nadd_assign a d = op_nadd_td a d /\ op_nsub_assign a d = op_nsub_td a d /\
  agrees (op_nadd_assign a d) (ndt_checked_add_signed a d) /\
  agrees (op_nsub_assign a d) (ndt_checked_sub_signed a d).
Proof. exact ops_assign_ndt_agree. Qed.
Print Assumptions C03_ops_assign_ndt_agree.
Theorem C03_ops_assign_ndt_exact : forall a d, nvalid a -> valid d ->
  (if in_ns_range (inst a + ns d)
   then exists b, op_nadd_assign a d = Val b /\ nvalid b /\ inst b = inst a + ns d
   else op_nadd_assign a d = Panic) /\
  (if in_ns_range (inst a - ns d)
   then exists b, op_nsub_assign a d = Val b /\ nvalid b /\ inst b = inst a - ns d
   else op_nsub_assign a d = Panic).
Proof. exact ops_assign_ndt_exact. Qed.
Print Assumptions C03_ops_assign_ndt_exact.

(* ---- ar.stdasg / ar.zstdasg: += / -= of a core::time::Duration (s seconds, n nanoseconds):
        conversion failure panics, else the TimeDelta operator; on values the instant moves by exactly
        s*10^9 + n ns, PANIC exactly when the Duration does not fit a TimeDelta ([in_td_range]) or the
        target instant is not representable; a zone-aware value keeps its offset.
        The same two value-level statements hold for ar.addstd / ar.zaddstd (op_nadd_std_assign is
        op_nadd_std; op_zadd_std_assign a s n = op_zadd_std a s n by C03_ops_assign_agree). ---- *)
Theorem C03_ops_std_assign_agree : forall a s n,
  match from_std s n with
  | Some d => op_nadd_std_assign a s n = op_nadd_td a d /\ op_nsub_std_assign a s n = op_nsub_td a d
  | None => op_nadd_std_assign a s n = Panic /\ op_nsub_std_assign a s n = Panic
  end.
Proof. exact ops_std_assign_agree. Qed.
Print Assumptions C03_ops_std_assign_agree.
Theorem C03_ops_zstd_assign_agree : forall a s n,
  match from_std s n with
  | Some d => op_zadd_std_assign a s n = op_zadd_td a d /\ op_zsub_std_assign a s n = op_zsub_td a d
  | None => op_zadd_std_assign a s n = Panic /\ op_zsub_std_assign a s n = Panic
  end.
Proof. exact ops_zstd_assign_agree. Qed.
Print Assumptions C03_ops_zstd_assign_agree.
Theorem C03_ops_std_assign_exact : forall a s n, nvalid a -> in_u64 s = true -> 0 <= n < G ->
  (if in_td_range (s * G + n) && in_ns_range (inst a + (s * G + n))
   then exists b, op_nadd_std_assign a s n = Val b /\ nvalid b /\ inst b = inst a + (s * G + n)
   else op_nadd_std_assign a s n = Panic) /\
  (if in_td_range (s * G + n) && in_ns_range (inst a - (s * G + n))
   then exists b, op_nsub_std_assign a s n = Val b /\ nvalid b /\ inst b = inst a - (s * G + n)
   else op_nsub_std_assign a s n = Panic).
Proof. exact ops_std_assign_exact. Qed.
Print Assumptions C03_ops_std_assign_exact.
Theorem C03_ops_zstd_assign_exact : forall u off s n, nvalid u -> in_u64 s = true -> 0 <= n < G ->
  (if in_td_range (s * G + n) && in_ns_range (inst u + (s * G + n))
   then exists b, op_zadd_std_assign (mk_dtz u off) s n = Val (mk_dtz b off) /\ nvalid b /\ inst b = inst u + (s * G + n)
   else op_zadd_std_assign (mk_dtz u off) s n = Panic) /\
  (if in_td_range (s * G + n) && in_ns_range (inst u - (s * G + n))
   then exists b, op_zsub_std_assign (mk_dtz u off) s n = Val (mk_dtz b off) /\ nvalid b /\ inst b = inst u - (s * G + n)
   else op_zsub_std_assign (mk_dtz u off) s n = Panic).
Proof. exact ops_zstd_assign_exact. Qed.
Print Assumptions C03_ops_zstd_assign_exact.
(* the zone-aware binary operators on values (ar.opzadd / ar.opzsub / ar.opzaddasg / ar.opzsubasg) *)
Theorem C03_op_zadd_exact : forall u off d, nvalid u -> valid d ->
  (if in_ns_range (inst u + ns d)
   then exists b, op_zadd_td (mk_dtz u off) d = Val (mk_dtz b off) /\ nvalid b /\ inst b = inst u + ns d
   else op_zadd_td (mk_dtz u off) d = Panic) /\
  (if in_ns_range (inst u - ns d)
   then exists b, op_zsub_td (mk_dtz u off) d = Val (mk_dtz b off) /\ nvalid b /\ inst b = inst u - ns d
   else op_zsub_td (mk_dtz u off) d = Panic).
Proof. exact op_zadd_exact. Qed.
Print Assumptions C03_op_zadd_exact.

(* ar.zaddstd: DateTime<Tz> + / - core::time::Duration reduces to the same TimeDelta operators *)
Theorem C03_ops_zstd_agree : forall a s n,
  match from_std s n with
  | Some d => op_zadd_std a s n = op_zadd_td a d /\ op_zsub_std a s n = op_zsub_td a d
  | None => op_zadd_std a s n = Panic /\ op_zsub_std a s n = Panic
  end.
Proof. exact ops_zstd_agree. Qed.
Print Assumptions C03_ops_zstd_agree.
(* ar.opndiff / ar.opzdiff / ar.opddiff: the difference operators are the method signed_duration_since *)
Theorem C03_ops_diff_agree : (forall a b, op_nsub_ndt a b = ndt_signed_duration_since a b) /\
  (forall a b, op_zsub_z a b = dz_signed_duration_since a b) /\ (forall a b, op_dsub_date a b = Date.signed_duration_since a b).
Proof. exact ops_diff_agree. Qed.
Print Assumptions C03_ops_diff_agree.

(* ---- ar.opzdiffref: DateTime - &DateTime is signed_duration_since: the exact distance of the instants ---- *)
Theorem C03_op_zsub_zref_agree : forall a b,
  op_zsub_zref a b = dz_signed_duration_since a b /\ op_zsub_zref a b = op_zsub_z a b.
Proof. exact op_zsub_zref_agree. Qed.
Print Assumptions C03_op_zsub_zref_agree.
Theorem C03_op_zsub_zref_exact : forall u1 o1 u2 o2, nvalid u1 -> nvalid u2 ->
  exists d, op_zsub_zref (mk_dtz u1 o1) (mk_dtz u2 o2) = Val d /\ valid d /\ ns d = inst u1 - inst u2.
Proof. exact op_zsub_zref_exact. Qed.
Print Assumptions C03_op_zsub_zref_exact.

(* ---- ar.noff: NaiveDateTime::checked_add_offset / checked_sub_offset for every FixedOffset
        (-86400 < off < 86400 s): the value off seconds later / earlier, refused exactly when that
        instant is not representable ---- *)
Theorem C03_ndt_offset_exact : forall a off, nvalid a -> -86400 < off < 86400 ->
  (exists r, ndt_checked_add_offset a off = Val r /\
     match r with Some b => nvalid b /\ inst b = inst a + off * G
                | None => ~ (NS_MIN <= inst a + off * G <= NS_MAX) end) /\
  (exists r, ndt_checked_sub_offset a off = Val r /\
     match r with Some b => nvalid b /\ inst b = inst a - off * G
                | None => ~ (NS_MIN <= inst a - off * G <= NS_MAX) end).
Proof. exact ndt_offset_exact. Qed.
Print Assumptions C03_ndt_offset_exact.
(* ---- ar.opnoff: NaiveDateTime + / - FixedOffset ---- *)
Theorem C03_ops_off_agree : forall a off,
  agrees (op_nadd_off a off) (ndt_checked_add_offset a off) /\
  agrees (op_nsub_off a off) (ndt_checked_sub_offset a off).
Proof. exact ops_off_agree. Qed.
Print Assumptions C03_ops_off_agree.
Theorem C03_ops_off_exact : forall a off, nvalid a -> -86400 < off < 86400 ->
  (if in_ns_range (inst a + off * G)
   then exists b, op_nadd_off a off = Val b /\ nvalid b /\ inst b = inst a + off * G
   else op_nadd_off a off = Panic) /\
  (if in_ns_range (inst a - off * G)
   then exists b, op_nsub_off a off = Val b /\ nvalid b /\ inst b = inst a - off * G
   else op_nsub_off a off = Panic).
Proof. exact ops_off_exact. Qed.
Print Assumptions C03_ops_off_exact.
(* ---- ar.opzoff: DateTime<Tz> + / - FixedOffset: the operator on the stored UTC value; the instant
        moves, the value's own offset is kept ---- *)
Theorem C03_ops_zoff_agree : forall a off,
  op_zadd_off a off = (let* u := op_nadd_off (dz_utc a) off in Val (mk_dtz u (dz_off a))) /\
  op_zsub_off a off = (let* u := op_nsub_off (dz_utc a) off in Val (mk_dtz u (dz_off a))).
Proof. exact ops_zoff_agree. Qed.
Print Assumptions C03_ops_zoff_agree.
Theorem C03_ops_zoff_exact : forall u zoff off, nvalid u -> -86400 < off < 86400 ->
  (if in_ns_range (inst u + off * G)
   then exists b, op_zadd_off (mk_dtz u zoff) off = Val (mk_dtz b zoff) /\ nvalid b /\ inst b = inst u + off * G
   else op_zadd_off (mk_dtz u zoff) off = Panic) /\
  (if in_ns_range (inst u - off * G)
   then exists b, op_zsub_off (mk_dtz u zoff) off = Val (mk_dtz b zoff) /\ nvalid b /\ inst b = inst u - off * G
   else op_zsub_off (mk_dtz u zoff) off = Panic).
Proof. exact ops_zoff_exact. Qed.
Print Assumptions C03_ops_zoff_exact.
(* hypotheses inhabited; both outcomes occur at the range ends *)
Example C03_ops_off_inhabited :
  nvalid NDT_MAX /\ nvalid NDT_MIN /\
  ndt_checked_add_offset NDT_MAX 1 = Val None /\ ndt_checked_sub_offset NDT_MAX 86399 <> Val None /\
  ndt_checked_sub_offset NDT_MIN 1 = Val None /\ ndt_checked_add_offset NDT_MIN 86399 <> Val None /\
  op_nadd_off NDT_MAX 1 = Panic /\ op_zsub_off (mk_dtz NDT_MIN 3600) 1 = Panic /\
  op_zadd_off (mk_dtz NDT_MIN 3600) 86399 = Val (mk_dtz (mk_ndt Date.D_MIN (Time.mk_time 86399 0)) 3600).
Proof. exact ops_off_examples. Qed.
Print Assumptions C03_ops_off_inhabited.

(* ================= provided iterator adaptors (ops it.dcount ... it.wrev, it.dnth / it.wnth) =================
   Vocabulary (Proofs/C03Adapt.v):
   [date_iter step stride fwd]  step is one of the four step functions: days_next (1, forward),
        days_next_back (1, backward), weeks_next (7, forward), weeks_next_back (7, backward);
   [seq_avail stride fwd start] = (DN_MAX - dn start) / stride forward, (dn start - DN_MIN) / stride
        backward: the number of items of the sequence from start;
   [seq_dn stride fwd start i]  = dn start + stride*i forward, dn start - stride*i backward: the day
        number of item i.  A valid date is determined by its day number (C03_vdate_inj). *)

(* it.days / it.weeks / it.drev / it.wrev: after k calls the next item is item k of the sequence
   (nothing from k = av on); the number of items still coming is max 0 (av - k), reported when <= cap *)
Theorem C03_iter_observe : forall step stride fwd, date_iter step stride fwd ->
  forall start k cap, vdate start -> 0 <= k -> 0 <= cap ->
  let a := seq_avail stride fwd start in
  let left := Z.max 0 (a - k) in
  exists v, vdate v /\ (k < a -> dn v = seq_dn stride fwd start k) /\
    it_observe step start k cap =
      Val (if k <? a then Some v else None, if left <=? cap then Some left else None).
Proof. exact adapt_observe. Qed.
Print Assumptions C03_iter_observe.
(* rev(): it.drev / it.wrev asked for one direction answer what it.days / it.weeks answer for the
   other (Rev::next = next_back and back), so C03_iter_observe with the other step function applies *)
Theorem C03_rev_is_swap : forall d k cap,
  run B"it.drev" [d; k; VInt 0; cap] = run B"it.days" [d; k; VInt 1; cap] /\
  run B"it.drev" [d; k; VInt 1; cap] = run B"it.days" [d; k; VInt 0; cap] /\
  run B"it.wrev" [d; k; VInt 0; cap] = run B"it.weeks" [d; k; VInt 1; cap] /\
  run B"it.wrev" [d; k; VInt 1; cap] = run B"it.weeks" [d; k; VInt 0; cap].
Proof. exact rev_is_swap. Qed.
Print Assumptions C03_rev_is_swap.

(* it.dcount / it.wcount: count() is the number of items of the sequence; the model's loop has fuel
   for 4000 steps (the op is only asked within ten years of the end it runs to), beyond that FUEL *)
Theorem C03_iter_count : forall step stride fwd, date_iter step stride fwd -> forall start, vdate start ->
  it_count_all step start =
    if seq_avail stride fwd start <? 4000 then Val (seq_avail stride fwd start) else OutOfFuel.
Proof. exact adapt_count. Qed.
Print Assumptions C03_iter_count.
(* it.dlast / it.wlast: last() is item av - 1, nothing for the empty sequence *)
Theorem C03_iter_last : forall step stride fwd, date_iter step stride fwd -> forall start, vdate start ->
  let a := seq_avail stride fwd start in
  if a <? 4000 then
    exists r, it_last step 4000 start None = Val r /\
      (a = 0 -> r = None) /\
      (0 < a -> exists x, r = Some x /\ vdate x /\ dn x = seq_dn stride fwd start (a - 1))
  else it_last step 4000 start None = OutOfFuel.
Proof. exact adapt_last. Qed.
Print Assumptions C03_iter_last.
(* it.dlen / it.wlen: ExactSizeIterator::len after k calls of next = the number of items still coming
   (the two bounds of size_hint agree, no panic).  Forward only: driven backwards the hint is the
   forward count, known finding C03-iter-rev-size-hint (C03_hint_backward_refuted). *)
Theorem C03_iter_len_days : forall start k, vdate start -> 0 <= k ->
  it_len days_next days_size_hint start k = Val (Z.max 0 ((DN_MAX - dn start) / 1 - k)).
Proof. exact adapt_len_days. Qed.
Print Assumptions C03_iter_len_days.
Theorem C03_iter_len_weeks : forall start k, vdate start -> 0 <= k ->
  it_len weeks_next weeks_size_hint start k = Val (Z.max 0 ((DN_MAX - dn start) / 7 - k)).
Proof. exact adapt_len_weeks. Qed.
Print Assumptions C03_iter_len_weeks.
(* it.dnth / it.wnth on values: nth(n) (n below the loop fuel) is item n, the cursor then stands on
   item n + 1 with av - n - 1 items left; from n = av on nothing, and the iterator stays exhausted *)
Theorem C03_iter_nth : forall step stride fwd, date_iter step stride fwd -> forall (fuel : nat) n start, vdate start ->
  0 <= n < Z.of_nat fuel ->
  let a := seq_avail stride fwd start in
  (n < a -> exists x v', it_nth step fuel n start = Val (Some x, v') /\ vdate x /\ dn x = seq_dn stride fwd start n /\
              vdate v' /\ dn v' = seq_dn stride fwd start (n + 1) /\ seq_avail stride fwd v' = a - n - 1) /\
  (a <= n -> exists v', it_nth step fuel n start = Val (None, v') /\ vdate v' /\ seq_avail stride fwd v' = 0).
Proof. exact adapt_nth. Qed.
Print Assumptions C03_iter_nth.
(* it.dstep / it.wstep: step_by(s) (first call next, later calls nth(s - 1); s within the fuel of the
   inner loop) yields the items 0, s, 2s, ... of the sequence: min(cap, ceil(av / s)) of them *)
Theorem C03_iter_step_by : forall step stride fwd, date_iter step stride fwd -> forall s (cap : nat) start, vdate start ->
  1 <= s <= 5001 ->
  exists l, it_step_by step s true cap start = Val l /\
    Z.of_nat (length l) = Z.min (Z.of_nat cap) ((seq_avail stride fwd start + s - 1) / s) /\
    forall i x, nth_error l i = Some x -> vdate x /\ dn x = seq_dn stride fwd start (s * Z.of_nat i).
Proof. exact adapt_step_by. Qed.
Print Assumptions C03_iter_step_by.
Example C03_iter_adaptors_inhabited :
  vdate Date.D_MAX /\ vdate Date.D_MIN /\
  seq_avail 1 true Date.D_MAX = 0 /\ seq_avail 7 false Date.D_MIN = 0 /\
  it_count_all days_next Date.D_MAX = Val 0 /\ it_last days_next 4000 Date.D_MAX None = Val None /\
  (seq_avail 1 true Date.D_MIN <? 4000) = false /\ it_count_all days_next Date.D_MIN = OutOfFuel /\
  it_step_by days_next_back 3 true 5 Date.D_MAX <> Val [].
Proof. exact adapt_examples. Qed.
Print Assumptions C03_iter_adaptors_inhabited.

(* ================= judge acceptance for the iterator ops =================
   The executable statement of the property (Judge/C03.v, applied by ./check to every implementation
   output) accepts the model's output on every in-domain case of these ops: together with the
   correspondence run (implementation = model) this closes  implementation ~ model |= judge.
   A date argument is the pair (year, ordinal) of a valid date ([vd y o] = VTup [VInt y; VInt o]); the
   direction is [dirv fwd] = 0 forward / 1 backward; k and cap range over the 0..5000 the ops accept. *)
Theorem C03_holds_observe : forall y o k fwd cap,
  year_in_range y = true -> valid_yo y o = true -> 0 <= k <= 5000 -> 0 <= cap <= 5000 ->
  let args := [Proofs.C03Holds.vd y o; VInt k; VInt (Proofs.C03Holds.dirv fwd); VInt cap] in
  Judge.C03.judge B"it.days" args (run B"it.days" args) = JOk /\
  Judge.C03.judge B"it.weeks" args (run B"it.weeks" args) = JOk /\
  Judge.C03.judge B"it.drev" args (run B"it.drev" args) = JOk /\
  Judge.C03.judge B"it.wrev" args (run B"it.wrev" args) = JOk.
Proof. exact Proofs.C03Holds.holds_observe. Qed.
Print Assumptions C03_holds_observe.
(* length hint and len: forward (direction 0); backward the judge rejects the hint: known finding
   C03-iter-rev-size-hint, C03_hint_backward_refuted *)
Theorem C03_holds_hint_len_forward : forall y o k,
  year_in_range y = true -> valid_yo y o = true -> 0 <= k <= 5000 ->
  let args := [Proofs.C03Holds.vd y o; VInt k; VInt 0] in
  let args2 := [Proofs.C03Holds.vd y o; VInt k] in
  Judge.C03.judge B"it.dhint" args (run B"it.dhint" args) = JOk /\
  Judge.C03.judge B"it.whint" args (run B"it.whint" args) = JOk /\
  Judge.C03.judge B"it.dlen" args2 (run B"it.dlen" args2) = JOk /\
  Judge.C03.judge B"it.wlen" args2 (run B"it.wlen" args2) = JOk.
Proof. exact Proofs.C03Holds.holds_hint_len. Qed.
Print Assumptions C03_holds_hint_len_forward.
(* count / last: asked (model, harness and judge alike) within ten years of the end they run to:
   [near_end_y y fwd] = 262133 <= y forward, y <= -262134 backward; there the loop fuel suffices *)
Theorem C03_holds_count_last : forall y o fwd,
  year_in_range y = true -> valid_yo y o = true -> Proofs.C03Holds.near_end_y y fwd = true ->
  let args := [Proofs.C03Holds.vd y o; VInt (Proofs.C03Holds.dirv fwd)] in
  Judge.C03.judge B"it.dcount" args (run B"it.dcount" args) = JOk /\
  Judge.C03.judge B"it.wcount" args (run B"it.wcount" args) = JOk /\
  Judge.C03.judge B"it.dlast" args (run B"it.dlast" args) = JOk /\
  Judge.C03.judge B"it.wlast" args (run B"it.wlast" args) = JOk.
Proof. exact Proofs.C03Holds.holds_end. Qed.
Print Assumptions C03_holds_count_last.
(* step_by(s), 1 <= s <= 5000, at most 60 items asked (the bounds of the op) *)
Theorem C03_holds_step_by : forall y o fwd s cap,
  year_in_range y = true -> valid_yo y o = true -> 1 <= s <= 5000 -> 0 <= cap <= 60 ->
  let args := [Proofs.C03Holds.vd y o; VInt (Proofs.C03Holds.dirv fwd); VInt s; VInt cap] in
  Judge.C03.judge B"it.dstep" args (run B"it.dstep" args) = JOk /\
  Judge.C03.judge B"it.wstep" args (run B"it.wstep" args) = JOk.
Proof. exact Proofs.C03Holds.holds_step. Qed.
Print Assumptions C03_holds_step_by.
Example C03_holds_inhabited :
  year_in_range 262142 = true /\ valid_yo 262142 100 = true /\ Proofs.C03Holds.near_end_y 262142 true = true /\
  year_in_range (-262143) = true /\ valid_yo (-262143) 100 = true /\ Proofs.C03Holds.near_end_y (-262143) false = true /\
  run B"it.dcount" [Proofs.C03Holds.vd 262142 100; VInt 0] = VInt 265 /\
  run B"it.wlast" [Proofs.C03Holds.vd (-262143) 100; VInt 1] = VSome (Proofs.C03Holds.vd (-262143) 9).
Proof. exact Proofs.C03Holds.holds_examples. Qed.
Print Assumptions C03_holds_inhabited.

(* ---- the arithmetic ops: on EVERY case line (arbitrary argument lists) of 38 of the 40 ar ops - every
        checked form, operator form, compound assignment, Duration / Days / FixedOffset operand, difference,
        round trip and order op of NaiveDate, NaiveDateTime and DateTime<FixedOffset>; all but ar.zdays /
        ar.opzdays, whose judge accepts two outcomes in the headroom class and whose value-level statement is
        C03_zone_days_exact - whenever the judge of Judge/C03.v has an opinion it accepts the model's output
        (Proofs/C03HoldsAr.v: bridges between the judge's instants / day numbers / nanosecond counts and the
        model's decoded values, one lemma per argument shape) ---- *)
Theorem C03_holds_arith : forall op args, In op Proofs.C03HoldsAr.arith_ops ->
  Judge.C03.judge op args (run op args) <> JSkip -> Judge.C03.judge op args (run op args) = JOk.
Proof. exact Proofs.C03HoldsAr.holds_arith. Qed.
Print Assumptions C03_holds_arith.
Theorem C03_holds_arith_ops : Proofs.C03HoldsAr.arith_ops =
  [B"ar.nadd"; B"ar.nsub"; B"ar.opnadd"; B"ar.opnsub"; B"ar.ndiff"; B"ar.opndiff"; B"ar.ndays"; B"ar.opndays";
   B"ar.addstd"; B"ar.stdasg"; B"ar.nrt"; B"ar.nord"; B"ar.dadd"; B"ar.dsub"; B"ar.opdadd"; B"ar.opdsub";
   B"ar.dadds"; B"ar.dsubs"; B"ar.opdadds"; B"ar.opdsubs"; B"ar.ddiff"; B"ar.opddiff";
   B"ar.zadd"; B"ar.zsub"; B"ar.opzadd"; B"ar.opzsub"; B"ar.opzaddasg"; B"ar.opzsubasg";
   B"ar.zdiff"; B"ar.opzdiff"; B"ar.opzdiffref"; B"ar.zaddstd"; B"ar.zstdasg"; B"ar.opdasg"; B"ar.opnasg";
   B"ar.noff"; B"ar.opnoff"; B"ar.opzoff"].
Proof. exact eq_refl. Qed.
Print Assumptions C03_holds_arith_ops.
Example C03_holds_arith_inhabited :
  Judge.C03.judge B"ar.opzoff" [VTup [VInt 262142; VInt 365; VInt 86399; VInt 999999999; VInt 3600]; VInt 1; VInt 1]
    (run B"ar.opzoff" [VTup [VInt 262142; VInt 365; VInt 86399; VInt 999999999; VInt 3600]; VInt 1; VInt 1]) = JOk /\
  Judge.C03.judge B"ar.stdasg" [VTup [VInt 2024; VInt 60; VInt 0; VInt 0]; VInt (-1); VInt 86400; VInt 1]
    (run B"ar.stdasg" [VTup [VInt 2024; VInt 60; VInt 0; VInt 0]; VInt (-1); VInt 86400; VInt 1]) = JOk /\
  Judge.C03.judge B"ar.opdasg" [VTup [VInt 2024; VInt 60]; VInt 1; VTup [VInt 86399; VInt 999999999]]
    (run B"ar.opdasg" [VTup [VInt 2024; VInt 60]; VInt 1; VTup [VInt 86399; VInt 999999999]]) = JOk.
Proof. exact Proofs.C03HoldsAr.arith_examples. Qed.
Print Assumptions C03_holds_arith_inhabited.

(* ---- nth / nth_back (ops it.dnth, it.wnth): accepted by the judge for every valid start date, both
        directions, every jump n : u64 the op is defined for - n <= 3000 anywhere, any n within ten years of
        the end the jump runs to (there fewer than 4000 items remain, so the model's loop of 4000 steps reaches
        the end of the sequence: Proofs/C03HoldsNth.v nth_past) - and every cap in 0..=5000.  With
        C03_holds_observe .. C03_holds_step_by this covers all 16 iterator ops. ---- *)
Theorem C03_holds_nth : forall y o n fwd cap,
  year_in_range y = true -> valid_yo y o = true -> in_u64 n = true ->
  n <= 3000 \/ Proofs.C03Holds.near_end_y y fwd = true -> 0 <= cap <= 5000 ->
  let args := [Proofs.C03Holds.vd y o; VInt n; VInt (Proofs.C03Holds.dirv fwd); VInt cap] in
  Judge.C03.judge B"it.dnth" args (run B"it.dnth" args) = JOk /\
  Judge.C03.judge B"it.wnth" args (run B"it.wnth" args) = JOk.
Proof. exact Proofs.C03HoldsNth.holds_nth. Qed.
Print Assumptions C03_holds_nth.
Example C03_holds_nth_inhabited :
  year_in_range 262142 = true /\ valid_yo 262142 100 = true /\ in_u64 18446744073709551615 = true /\
  Proofs.C03Holds.near_end_y 262142 true = true /\
  run B"it.dnth" [Proofs.C03Holds.vd 262142 100; VInt 18446744073709551615; VInt 0; VInt 10]
    = VTup [VNone; VNone; VSome (VInt 0)] /\
  run B"it.wnth" [Proofs.C03Holds.vd 2024 60; VInt 2; VInt 1; VInt 0]
    = VTup [VSome (Proofs.C03Holds.vd 2024 46); VSome (Proofs.C03Holds.vd 2024 39); VNone].
Proof. exact Proofs.C03HoldsNth.nth_examples. Qed.
Print Assumptions C03_holds_nth_inhabited.

(* ---- ... and the two remaining arithmetic ops, Days on a zone-aware value (ar.zdays, ar.opzdays): zero days is
        the value itself, a target instant outside the range is refused, a target whose local date is
        representable is exact, and in the headroom class the judge accepts both outcomes (C03_zone_days_exact says
        which one the model takes).  The case C03_zone_days_exact leaves open - subtracting zero days from a value
        whose local reading lies in the headroom: checked_sub_days has no zero guard - is the identity: ---- *)
Theorem C03_zone_sub_days_zero : forall u off, nvalid u -> -86400 < off < 86400 ->
  dz_checked_sub_days (mk_dtz u off) 0 = Val (Some (mk_dtz u off)).
Proof. exact Proofs.C03HoldsZdays.sub_days_zero. Qed.
Print Assumptions C03_zone_sub_days_zero.
(* all 40 ar ops, arbitrary argument lists (supersedes C03_holds_arith, kept under its name) *)
Theorem C03_holds_arith_all : forall op args,
  In op (Proofs.C03HoldsAr.arith_ops ++ [B"ar.zdays"; B"ar.opzdays"]) ->
  Judge.C03.judge op args (run op args) <> JSkip -> Judge.C03.judge op args (run op args) = JOk.
Proof. exact Proofs.C03HoldsZdays.holds_arith_all. Qed.
Print Assumptions C03_holds_arith_all.
Example C03_holds_zdays_inhabited :
  dz_checked_sub_days (mk_dtz NDT_MAX 7200) 0 = Val (Some (mk_dtz NDT_MAX 7200)) /\
  Judge.C03.judge B"ar.zdays" [VTup [VInt 262142; VInt 365; VInt 86399; VInt 999999999; VInt 7200]; VInt (-1); VInt 0]
    (run B"ar.zdays" [VTup [VInt 262142; VInt 365; VInt 86399; VInt 999999999; VInt 7200]; VInt (-1); VInt 0]) = JOk /\
  Judge.C03.judge B"ar.opzdays" [VTup [VInt 262142; VInt 365; VInt 86399; VInt 999999999; VInt 7200]; VInt 1; VInt 1]
    (run B"ar.opzdays" [VTup [VInt 262142; VInt 365; VInt 86399; VInt 999999999; VInt 7200]; VInt 1; VInt 1]) = JOk.
Proof. exact Proofs.C03HoldsZdays.zdays_examples. Qed.
Print Assumptions C03_holds_zdays_inhabited.

(* ---- order follows the distance, whatever the offsets (op ar.zord): Ord::cmp, partial_cmp, == and
        core::cmp::max of two zone-aware values with (possibly different) offsets are all functions of the sign
        c of (instant a - instant b): cmp = c, partial_cmp = Some c, a == b iff c = 0, max(a, b) == a iff c >= 0 ---- *)
Theorem C03_zone_order : forall u o1 v o2, nvalid u -> nvalid v ->
  let c := cmpZ (inst u) (inst v) in
  dz_cmp (mk_dtz u o1) (mk_dtz v o2) = c /\
  zord_obs (mk_dtz u o1) (mk_dtz v o2) = VTup [VInt c; VSome (VInt c); val_of_bool (c =? 0); val_of_bool (0 <=? c)].
Proof. exact Proofs.C03Zord.zord_spec. Qed.
Print Assumptions C03_zone_order.
Theorem C03_holds_zord : forall args,
  Judge.C03.judge B"ar.zord" args (run B"ar.zord" args) <> JSkip ->
  Judge.C03.judge B"ar.zord" args (run B"ar.zord" args) = JOk.
Proof. exact Proofs.C03Zord.h_zord. Qed.
Print Assumptions C03_holds_zord.
Example C03_zone_order_example :
  run B"ar.zord" [VTup [VInt 2024; VInt 60; VInt 32400; VInt 0; VInt 3600]; VTup [VInt 2024; VInt 60; VInt 32400; VInt 0; VInt 0]]
    = VTup [VInt 0; VSome (VInt 0); VInt 1; VInt 1] /\
  run B"ar.zord" [VTup [VInt 2024; VInt 60; VInt 32400; VInt 0; VInt 3600]; VTup [VInt 2024; VInt 60; VInt 34200; VInt 0; VInt 0]]
    = VTup [VInt (-1); VSome (VInt (-1)); VInt 0; VInt 0] /\
  Judge.C03.judge B"ar.zord" [VTup [VInt 2024; VInt 60; VInt 32400; VInt 0; VInt 3600]; VTup [VInt 2024; VInt 60; VInt 34200; VInt 0; VInt 0]]
    (VTup [VInt (-1); VSome (VInt (-1)); VInt 0; VInt 0]) = JOk.
Proof. exact Proofs.C03Zord.zord_examples. Qed.
Print Assumptions C03_zone_order_example.
