(** C20 -- Serialized forms deserialize to the same value (theorems only).
    Each theorem is closed by [exact] of a lemma of Proofs/C20*.v and followed by [Print Assumptions].

    Model/Serde.v: a serializer is a function into a value [sval] of a small serde data model, a
    deserializer / visitor a function from one; [carry fmt] is how serde_json (fmt 0) / bincode
    (fmt 1) hand a written value back to the reader (assumed, see trusted_base.json);
    [Val (SOk x)] = Ok(x), [Val (SErr e)] = Err(e), [Panic] = a trap. *)
From Coq Require Import ZArith List Bool String.
From V Require Import Base.Int Base.IO Model.TimeDelta Model.DateTime Model.Serde Proofs.C20Delta.
From V Require Proofs.C06.
Import ListNotations.
Open Scope Z_scope.

(** * TimeDelta: the (secs, nanos) pair *)
(* every duration of the documented range comes back, through both formats *)
Theorem C20_delta_roundtrip : forall fmt d, C06.valid d ->
  exists p, ser_td d = Val (SOk p) /\ de_td (carry fmt p) = Val (SOk d).
Proof. exact delta_roundtrip. Qed.
Print Assumptions C20_delta_roundtrip.
(* reading ANY written pair (secs : i64, nanos : i32): Ok exactly on the range, never a trap *)
Theorem C20_delta_read_spec : forall fmt s n, in_i64 s = true -> in_i32 n = true ->
  de_td (carry fmt (STup [SI64 s; SI32 n])) =
    Val (if (0 <=? n) && (n <? 1000000000) && (C06.RMIN <=? s * 1000000000 + n) && (s * 1000000000 + n <=? C06.RMAX)
         then SOk (mk_td s n) else SErr ETdBounds).
Proof. exact delta_read_spec. Qed.
Print Assumptions C20_delta_read_spec.
Theorem C20_delta_read_rejects : forall fmt s n, in_i64 s = true -> in_i32 n = true ->
  ~ (0 <= n < 1000000000 /\ C06.in_rng (s * 1000000000 + n)) ->
  de_td (carry fmt (STup [SI64 s; SI32 n])) = Val (SErr ETdBounds).
Proof. exact delta_read_rejects. Qed.
Print Assumptions C20_delta_read_rejects.
Example C20_delta_example : C06.valid (mk_td (-9223372036854776) 193000000) /\
  de_td (carry 0 (STup [SI64 9223372036854776; SI32 0])) = Val (SErr ETdBounds).
Proof. exact delta_example. Qed.
Print Assumptions C20_delta_example.
