(** C20 -- Serialized forms deserialize to the same value (theorems only).
    Each theorem is closed by [exact] of a lemma of Proofs/C20*.v and followed by [Print Assumptions].

    Model/Serde.v: a serializer is a function into a value [sval] of a small serde data model (what
    the impl hands to the Serializer), a deserializer / visitor a function from one; [carry fmt] is
    how serde_json (fmt 0) / bincode (fmt 1) hand a written value back to the reader -- serde's own
    dispatch and the two formats are ASSUMED faithful carriers (trusted_base.json) and exercised
    concretely by the correspondence run.  [Val (SOk x)] = Ok(x), [Val (SErr e)] = Err(e),
    [Panic] = a trap.
    Vocabulary: [repr y o d] the packed date d represents year y, ordinal o of the supported range;
    [time_dom t] a time of day whose leap-second fraction, if any, sits on second 59; [ndt_dom],
    [dtz_dom] their products with whole-minute offsets and the wall-clock date in the date range
    (Proofs/C09*.v); [valid_ndt], [nonleap], [instant] of Proofs/C02.v (instants through
    Spec/Gregorian.v); [C06.valid] a duration of the documented range.
    Modules: m = 8*z + 2*u + o (z: 0 NaiveDateTime, 1 DateTime<Utc>; u: 0 s, 1 ms, 2 us, 3 ns;
    o: 0 plain, 1 _option); [unit_ns m] = nanoseconds per unit; shapes and literals of the sixteen
    modules are re-read from the Rust source on every run (Gen/SerdeConsts.v).

    Recorded findings (known_findings.json), each with its witness here and the conditional theorem
    over the complement: offsets with seconds (C20_seconds_offset_refuted / C20_serde_roundtrip_dt_fixed),
    leap-second fraction off second 59 (C20_leap_off_minute_refuted / C20_serde_roundtrip_time, _ndt),
    wall clock outside the date range (C20_wall_clock_refuted / C20_serde_roundtrip_dt_fixed).
    Zone-aware values whose leap-second fraction is NOT on second 59 (the property asks for the same
    instant only): C20_serde_roundtrip_dt_leap_off_minute; C20_serde_roundtrip_dt_* are stated on
    [dtz_dom].  Every op of the dispatcher: C20_dispatch, C20_holds (coverage/OPS_THEOREMS_C20.md). *)
From Coq Require Import ZArith List Bool String.
From V Require Import Base.Int Base.IO Gen.SerdeConsts Model.Scan Model.TimeDelta Model.DateTime Model.Serde
  Proofs.C20Delta Proofs.C20Ts Proofs.C20Text Proofs.C20 Proofs.C20Holds Model.C20.
From V Require Judge.C20.
From V Require Proofs.C20HoldsTs Proofs.C20HoldsRt Proofs.C20HoldsAll Proofs.C20Ops Model.FromStr.
From V Require Model.Date Model.Time Proofs.C06 Proofs.C02 Proofs.C09Show Proofs.C09Time Proofs.C09DateTime Proofs.C09Zoned Proofs.C08Sweeps.
Import ListNotations.
Open Scope Z_scope.
Import Proofs.C02 Proofs.C08Sweeps Proofs.C09Show Proofs.C09Time Proofs.C09DateTime Proofs.C09Zoned.

(** * the string forms: serialize, carry through either format, deserialize = the value *)
Theorem C20_serde_roundtrip_date : forall fmt y o d, repr y o d ->
  exists s, ser_date d = Val (SOk (SStr s)) /\ de_date (carry fmt (SStr s)) = Val (SOk d).
Proof. exact serde_roundtrip_date. Qed.
Print Assumptions C20_serde_roundtrip_date.
Theorem C20_serde_roundtrip_time : forall fmt t, time_dom t ->
  exists s, ser_time t = Val (SOk (SStr s)) /\ de_time (carry fmt (SStr s)) = Val (SOk t).
Proof. exact serde_roundtrip_time. Qed.
Print Assumptions C20_serde_roundtrip_time.
Theorem C20_serde_roundtrip_ndt : forall fmt a, ndt_dom a ->
  exists s, ser_ndt a = Val (SOk (SStr s)) /\ de_ndt (carry fmt (SStr s)) = Val (SOk a).
Proof. exact serde_roundtrip_ndt. Qed.
Print Assumptions C20_serde_roundtrip_ndt.
(* DateTime<FixedOffset> -> DateTime<FixedOffset>: instant AND offset, whole-minute offsets *)
Theorem C20_serde_roundtrip_dt_fixed : forall fmt a, dtz_dom a ->
  exists s, ser_dtz a = Val (SOk (SStr s)) /\ de_dt_fixed (carry fmt (SStr s)) = Val (SOk a).
Proof. exact serde_roundtrip_dt_fixed. Qed.
Print Assumptions C20_serde_roundtrip_dt_fixed.
(* ... read back as DateTime<Utc> / DateTime<Local>: the same instant *)
Theorem C20_serde_roundtrip_dt_to_utc : forall fmt a, dtz_dom a ->
  exists s, ser_dtz a = Val (SOk (SStr s)) /\
            de_dt_utc (carry fmt (SStr s)) = Val (SOk (with_timezone a 0)) /\
            de_dt_local (carry fmt (SStr s)) = Val (SOk (with_timezone a 0)).
Proof. exact serde_roundtrip_dt_to_utc. Qed.
Print Assumptions C20_serde_roundtrip_dt_to_utc.
(* DateTime<Utc>: every date x every time of the domain, no side condition *)
Theorem C20_serde_roundtrip_dt_utc : forall fmt y o d t, repr y o d -> time_dom t ->
  let a := mk_dtz (mk_ndt d t) 0 in
  exists s, ser_dtz a = Val (SOk (SStr s)) /\ de_dt_utc (carry fmt (SStr s)) = Val (SOk a).
Proof. exact serde_roundtrip_dt_utc. Qed.
Print Assumptions C20_serde_roundtrip_dt_utc.
Theorem C20_serde_roundtrip_weekday : forall fmt w, 0 <= w < 7 ->
  exists s, ser_wd w = Val (SOk (SStr s)) /\ de_wd (carry fmt (SStr s)) = Val (SOk w).
Proof. exact serde_roundtrip_weekday. Qed.
Print Assumptions C20_serde_roundtrip_weekday.
Theorem C20_serde_roundtrip_month : forall fmt m, 0 <= m < 12 ->
  exists s, ser_mo m = Val (SOk (SStr s)) /\ de_mo (carry fmt (SStr s)) = Val (SOk m).
Proof. exact serde_roundtrip_month. Qed.
Print Assumptions C20_serde_roundtrip_month.
(* the serializer of DateTime<Tz> as read from the source: wall clock through
   overflowing_naive_local (the repaired code) and SecondsFormat::AutoSi (use_z may be either) *)
Theorem C20_serde_dt_shape : SD_DT_LOCAL_OVERFLOWING = 1 /\ SD_DT_SECFORM = 4.
Proof. exact serde_dt_shape. Qed.
Print Assumptions C20_serde_dt_shape.
(* the claim of the repair: serializing a representable DateTime<FixedOffset> never traps -- ANY
   offset (seconds included), ANY wall clock (also one day outside the date range) gives a text *)
Theorem C20_serialize_dt_never_traps : forall a,
  (exists y o, repr y o (nd_date (dz_utc a))) -> tvalid (nd_time (dz_utc a)) -> -86400 < dz_off a < 86400 ->
  exists s, ser_dtz a = Val (SOk (SStr s)).
Proof. exact ser_dtz_total. Qed.
Print Assumptions C20_serialize_dt_never_traps.

(** * the sixteen timestamp helper modules *)
(* serialize writes the exact timestamp floor(instant / unit); only the nanosecond modules can
   fail, with an error value, exactly when the count leaves i64 *)
Theorem C20_ts_serialize_spec : forall m a, In m plain_mods -> valid_ndt a -> nonleap a ->
  ts_serialize m a = Val (match written m a with SOk w => SOk (SI64 w) | SErr e => SErr e end).
Proof. exact ts_serialize_spec. Qed.
Print Assumptions C20_ts_serialize_spec.
Theorem C20_ts_serialize_option_spec : forall m a, In m option_mods -> valid_ndt a -> nonleap a ->
  ts_serialize_option m None = Val (SOk SNone) /\
  ts_serialize_option m (Some a) = Val (match written m a with SOk w => SOk (SSome (SI64 w)) | SErr e => SErr e end).
Proof. exact ts_serialize_option_spec. Qed.
Print Assumptions C20_ts_serialize_option_spec.
Theorem C20_ts_written : forall m a, In m (plain_mods ++ option_mods) -> valid_ndt a -> nonleap a ->
  written m a = if (unit_ns m =? 1) && negb (in_i64 (instant a)) then SErr ESerNanos else SOk (instant a / unit_ns m).
Proof. exact written_ok. Qed.
Print Assumptions C20_ts_written.
(* visit_i64 / visit_u64, for ALL i64 / u64: Ok(the date-time at integer * unit) iff that instant is
   representable, Err(invalid_ts(value)) otherwise -- never a trap *)
Theorem C20_ts_deserialize_spec : forall m n, In m plain_mods ->
  (in_i64 n = true -> exists r, ts_deserialize m (SI64 n) = Val r /\ read_spec (n * unit_ns m) n r) /\
  (in_u64 n = true -> exists r, ts_deserialize m (SU64 n) = Val r /\ read_spec (n * unit_ns m) n r).
Proof. exact ts_deserialize_spec. Qed.
Print Assumptions C20_ts_deserialize_spec.
Theorem C20_ts_deserialize_option_spec : forall m n, In m option_mods ->
  ts_deserialize_option m SNone = Val (SOk None) /\
  ts_deserialize_option m SUnit = Val (SOk None) /\
  (in_i64 n = true -> exists r, ts_deserialize_option m (SSome (SI64 n)) = Val (lift_some r) /\ read_spec (n * unit_ns m) n r) /\
  (in_u64 n = true -> exists r, ts_deserialize_option m (SSome (SU64 n)) = Val (lift_some r) /\ read_spec (n * unit_ns m) n r).
Proof. exact ts_deserialize_option_spec. Qed.
Print Assumptions C20_ts_deserialize_option_spec.
(* round trip through either format: the same instant at the module's precision *)
Theorem C20_ts_roundtrip : forall m fmt a w, In m plain_mods -> valid_ndt a -> nonleap a -> written m a = SOk w ->
  ts_serialize m a = Val (SOk (SI64 w)) /\ w = instant a / unit_ns m /\
  exists a', ts_deserialize m (carry fmt (SI64 w)) = Val (SOk a') /\
             valid_ndt a' /\ nonleap a' /\ instant a' = instant a / unit_ns m * unit_ns m.
Proof. exact ts_roundtrip. Qed.
Print Assumptions C20_ts_roundtrip.
Theorem C20_ts_roundtrip_option : forall m fmt a w, In m option_mods -> valid_ndt a -> nonleap a -> written m a = SOk w ->
  (ts_serialize_option m None = Val (SOk SNone) /\ ts_deserialize_option m (carry fmt SNone) = Val (SOk None)) /\
  ts_serialize_option m (Some a) = Val (SOk (SSome (SI64 w))) /\ w = instant a / unit_ns m /\
  exists a', ts_deserialize_option m (carry fmt (SSome (SI64 w))) = Val (SOk (Some a')) /\
             valid_ndt a' /\ nonleap a' /\ instant a' = instant a / unit_ns m * unit_ns m.
Proof. exact ts_roundtrip_option. Qed.
Print Assumptions C20_ts_roundtrip_option.
Example C20_ts_example : exists a, dt_from_timestamp (-1) 999999999 = Val (Some a) /\ valid_ndt a /\ nonleap a /\
  instant a = -1 /\ written 12 a = SOk (-1) /\
  ts_deserialize 12 (carry 1 (SI64 (-1))) = ts_deserialize 12 (carry 0 (SI64 (-1))).
Proof. exact ts_example. Qed.
Print Assumptions C20_ts_example.
Example C20_nanos_window_example :
  ts_serialize 14 ndt_2262 = Val (SErr ESerNanos) /\ ts_serialize 6 ndt_2262 = Val (SErr ESerNanos) /\
  ts_serialize_option 15 (Some ndt_2262) = Val (SErr ESerNanos) /\
  ts_serialize 12 ndt_2262 = Val (SOk (SI64 9223372036854775)) /\
  ts_deserialize 14 (SU64 9223372036854775808) = Val (SOk ndt_2262) /\
  ts_deserialize 8 (SU64 9223372036854775808) = Val (SErr (EInvalidTs 9223372036854775808)).
Proof. exact nanos_window_example. Qed.
Print Assumptions C20_nanos_window_example.

(** * TimeDelta: the (secs, nanos) pair *)
Theorem C20_delta_roundtrip : forall fmt d, C06.valid d ->
  exists p, ser_td d = Val (SOk p) /\ de_td (carry fmt p) = Val (SOk d).
Proof. exact delta_roundtrip. Qed.
Print Assumptions C20_delta_roundtrip.
(* reading ANY written pair (secs : i64, nanos : i32): Ok exactly on the range, never a trap *)
Theorem C20_delta_read_spec : forall fmt s n, in_i64 s = true -> in_i32 n = true ->
  de_td (carry fmt (STup [SI64 s; SI32 n])) =
    Val (if (0 <=? n) && (n <? 1000000000) && (C06.RMIN <=? s * 1000000000 + n) && (s * 1000000000 + n <=? C06.RMAX)
         then SOk (mk_td s n) else SErr ETdBounds).
Proof. exact delta_read_spec. Qed.
Print Assumptions C20_delta_read_spec.
Theorem C20_delta_read_rejects : forall fmt s n, in_i64 s = true -> in_i32 n = true ->
  ~ (0 <= n < 1000000000 /\ C06.in_rng (s * 1000000000 + n)) ->
  de_td (carry fmt (STup [SI64 s; SI32 n])) = Val (SErr ETdBounds).
Proof. exact delta_read_rejects. Qed.
Print Assumptions C20_delta_read_rejects.
Example C20_delta_example : C06.valid (mk_td (-9223372036854776) 193000000) /\
  de_td (carry 0 (STup [SI64 9223372036854776; SI32 0])) = Val (SErr ETdBounds).
Proof. exact delta_example. Qed.
Print Assumptions C20_delta_example.

(** * the executable property (Judge/C20.v, applied to the implementation's outputs) accepts the
      model's output on EVERY case of the reading operations: all sixteen modules x every i64 / u64 x
      every route an integer can take to a visitor, and every (secs, nanos) pair *)
Theorem C20_holds_tsread : forall m fmt kind n, 0 <= m <= 15 -> tsread_ok fmt kind n = true ->
  Judge.C20.judge B"sd.tsread" [VInt m; VInt fmt; VInt kind; VInt n]
    (run B"sd.tsread" [VInt m; VInt fmt; VInt kind; VInt n]) = JOk.
Proof. exact holds_tsread. Qed.
Print Assumptions C20_holds_tsread.
Theorem C20_holds_tdread : forall fmt s n, fmt = 0 \/ fmt = 1 -> in_i64 s = true -> in_i32 n = true ->
  Judge.C20.judge B"sd.tdread" [VInt fmt; VInt s; VInt n] (run B"sd.tdread" [VInt fmt; VInt s; VInt n]) = JOk.
Proof. exact holds_tdread. Qed.
Print Assumptions C20_holds_tdread.

(** * the recorded findings, as witnesses on the faithful model *)
(* +05:30:15: written with the offset rounded to +05:30, read back 15 s later *)
Theorem C20_seconds_offset_refuted :
  dec_dtz (enc_dtz dtz_secs) = Some dtz_secs /\
  ser_dtz dtz_secs = Val (SOk (SStr dtz_secs_text)) /\
  (forall fmt, de_dt_fixed (carry fmt (SStr dtz_secs_text)) = Val (SOk dtz_secs_back)) /\
  dz_utc dtz_secs_back <> dz_utc dtz_secs /\
  Time.tsecs (nd_time (dz_utc dtz_secs_back)) - Time.tsecs (nd_time (dz_utc dtz_secs)) = 15.
Proof. exact seconds_offset_refuted. Qed.
Print Assumptions C20_seconds_offset_refuted.
(* +23:59:45: written as "+24:00", refused by the reader *)
Theorem C20_seconds_offset_24_refuted :
  dec_dtz (enc_dtz dtz_24) = Some dtz_24 /\
  ser_dtz dtz_24 = Val (SOk (SStr dtz_24_text)) /\
  (forall fmt, de_dt_fixed (carry fmt (SStr dtz_24_text)) = Val (SErr (EParse OutOfRange))).
Proof. exact seconds_offset_24_refuted. Qed.
Print Assumptions C20_seconds_offset_24_refuted.
(* 12:34:30 + 1.5 s (leap fraction off second 59) reads back as 12:34:31.5 *)
Theorem C20_leap_off_minute_refuted :
  Time.dec_time (Time.enc_time time_leap) = Some time_leap /\
  ser_time time_leap = Val (SOk (SStr time_leap_text)) /\
  (forall fmt, de_time (carry fmt (SStr time_leap_text)) = Val (SOk (Time.mk_time 45271 500000000))) /\
  ser_ndt ndt_leap = Val (SOk (SStr ndt_leap_text)) /\
  de_ndt (SStr ndt_leap_text) = Val (SOk (mk_ndt (nd_date ndt_leap) (Time.mk_time 45271 500000000))).
Proof. exact leap_off_minute_refuted. Qed.
Print Assumptions C20_leap_off_minute_refuted.
(* 262142-12-31T23:59:59Z at +00:01: the written wall-clock date is refused by the reader; the
   serializer as found (naive_local) trapped on it *)
Theorem C20_wall_clock_refuted :
  dec_dtz (enc_dtz dtz_edge) = Some dtz_edge /\
  ser_dtz dtz_edge = Val (SOk (SStr dtz_edge_text)) /\
  (forall fmt, de_dt_fixed (carry fmt (SStr dtz_edge_text)) = Val (SErr (EParse OutOfRange))) /\
  ser_dtz_unrepaired dtz_edge = Panic.
Proof. exact wall_clock_refuted. Qed.
Print Assumptions C20_wall_clock_refuted.

(** * the value form of the timestamp round trip: serialize . deserialize returns the value itself with
      its fraction cut to the module's precision ([cut m a] = a with fraction f - f mod unit) -- the
      identity on every non-leap value that is a whole number of units; Option variants alike *)
Theorem C20_ts_roundtrip_value : forall m fmt a w, In m plain_mods -> valid_ndt a -> nonleap a -> written m a = SOk w ->
  ts_serialize m a = Val (SOk (SI64 w)) /\ ts_deserialize m (carry fmt (SI64 w)) = Val (SOk (C20HoldsTs.cut m a)).
Proof. exact C20HoldsTs.ts_roundtrip_value. Qed.
Print Assumptions C20_ts_roundtrip_value.
Theorem C20_ts_roundtrip_option_value : forall m fmt a w, In m option_mods -> valid_ndt a -> nonleap a -> written m a = SOk w ->
  ts_serialize_option m (Some a) = Val (SOk (SSome (SI64 w))) /\
  ts_deserialize_option m (carry fmt (SSome (SI64 w))) = Val (SOk (Some (C20HoldsTs.cut m a))) /\
  ts_serialize_option m None = Val (SOk SNone) /\ ts_deserialize_option m (carry fmt SNone) = Val (SOk None).
Proof. exact C20HoldsTs.ts_roundtrip_option_value. Qed.
Print Assumptions C20_ts_roundtrip_option_value.
Theorem C20_ts_cut_spec : forall m a, In m (plain_mods ++ option_mods) -> valid_ndt a -> nonleap a ->
  valid_ndt (C20HoldsTs.cut m a) /\ nonleap (C20HoldsTs.cut m a) /\
  instant (C20HoldsTs.cut m a) = instant a / unit_ns m * unit_ns m.
Proof. exact C20HoldsTs.cut_spec. Qed.
Print Assumptions C20_ts_cut_spec.
Theorem C20_ts_roundtrip_identity : forall m fmt a w, In m plain_mods -> valid_ndt a -> nonleap a -> written m a = SOk w ->
  dfrac a mod unit_ns m = 0 -> ts_deserialize m (carry fmt (SI64 w)) = Val (SOk a).
Proof. exact C20HoldsTs.ts_roundtrip_identity. Qed.
Print Assumptions C20_ts_roundtrip_identity.
Theorem C20_ts_roundtrip_option_identity : forall m fmt a w, In m option_mods -> valid_ndt a -> nonleap a -> written m a = SOk w ->
  dfrac a mod unit_ns m = 0 -> ts_deserialize_option m (carry fmt (SSome (SI64 w))) = Val (SOk (Some a)).
Proof. exact C20HoldsTs.ts_roundtrip_option_identity. Qed.
Print Assumptions C20_ts_roundtrip_option_identity.

(** * zone-aware values with a leap-second fraction NOT on second 59 (whole-minute offset, wall-clock
      date in range): the text written is the text of the value one second later without the leap
      fraction, which is what comes back -- the same instant (Spec/Gregorian.v [unix_nanos]); supersedes
      the gap named in earlier versions of this file *)
Theorem C20_serde_roundtrip_dt_leap_off_minute : forall fmt yu ou du su fu off, repr yu ou du -> 0 <= su < 86400 ->
  1000000000 <= fu < 2000000000 -> su mod 60 <> 59 -> -86400 < off < 86400 -> off mod 60 = 0 ->
  Spec.Gregorian.dn_in_range (Spec.Gregorian.dn_of_yo yu ou + (su + off) / 86400) = true ->
  exists p, ser_dtz (mk_dtz (mk_ndt du (Time.mk_time su fu)) off) = Val (SOk (SStr p)) /\
            de_dt_fixed (carry fmt (SStr p)) = Val (SOk (mk_dtz (mk_ndt du (Time.mk_time (su + 1) (fu - 1000000000))) off)) /\
            de_dt_utc (carry fmt (SStr p)) = Val (SOk (mk_dtz (mk_ndt du (Time.mk_time (su + 1) (fu - 1000000000))) 0)) /\
            Spec.Gregorian.unix_nanos (Spec.Gregorian.dn_of_yo yu ou) (su + 1) (fu - 1000000000) =
            Spec.Gregorian.unix_nanos (Spec.Gregorian.dn_of_yo yu ou) su fu.
Proof. exact C20HoldsRt.serde_roundtrip_dt_leap_off. Qed.
Print Assumptions C20_serde_roundtrip_dt_leap_off_minute.
Example C20_leap_off_minute_inhabited : exists du, repr 2020 1 du /\ 45270 mod 60 <> 59 /\
  Spec.Gregorian.dn_in_range (Spec.Gregorian.dn_of_yo 2020 1 + (45270 + 19800) / 86400) = true.
Proof. exact C20HoldsRt.leap_off_inhabited. Qed.
Print Assumptions C20_leap_off_minute_inhabited.
Theorem C20_serialize_dt_leap_next_second : forall yu ou du su fu off, repr yu ou du -> 0 <= su < 86400 ->
  1000000000 <= fu < 2000000000 -> su mod 60 <> 59 -> -86400 < off < 86400 -> off mod 60 = 0 ->
  Spec.Gregorian.dn_in_range (Spec.Gregorian.dn_of_yo yu ou + (su + off) / 86400) = true ->
  ser_dtz (mk_dtz (mk_ndt du (Time.mk_time su fu)) off) = ser_dtz (mk_dtz (mk_ndt du (Time.mk_time (su + 1) (fu - 1000000000))) off).
Proof. exact C20HoldsRt.ser_dtz_next. Qed.
Print Assumptions C20_serialize_dt_leap_next_second.

(** * TimeDelta extremes: MIN, MAX, zero, a negative duration with a sub-second part are in the range
      of C20_delta_roundtrip; one nanosecond beyond MIN / MAX is not a duration *)
Example C20_delta_extremes :
  C06.valid (mk_td (-9223372036854776) 193000000) /\ C06.valid (mk_td 9223372036854775 807000000) /\
  C06.valid (mk_td 0 0) /\ C06.valid (mk_td (-2) 500000000) /\
  td_new (-9223372036854776) 193000000 = Some (mk_td (-9223372036854776) 193000000) /\
  td_new 9223372036854775 807000000 = Some (mk_td 9223372036854775 807000000) /\
  td_new (-9223372036854776) 192999999 = None /\ td_new 9223372036854775 807000001 = None /\
  (forall fmt, de_td (carry fmt (STup [SI64 (-2); SI32 500000000])) = Val (SOk (mk_td (-2) 500000000))).
Proof. exact C20Ops.delta_extremes. Qed.
Print Assumptions C20_delta_extremes.

(** * the dispatcher: which model function answers each op *)
Theorem C20_dispatch :
  (forall fmt ty v, run B"sd.rt" [VInt fmt; VInt ty; v] = if fmt_ok fmt then rt fmt ty v else VBad) /\
  (forall fmt ty s, run B"sd.read" [VInt fmt; VInt ty; VStr s] = if fmt_ok fmt && Base.Utf8.utf8_valid s then read ty s else VBad) /\
  (forall m fmt v, run B"sd.ts" [VInt m; VInt fmt; v] = if mod_ok m && fmt_ok fmt then ts m fmt v else VBad) /\
  (forall m fmt kind n, run B"sd.tsread" [VInt m; VInt fmt; VInt kind; VInt n] = if mod_ok m then tsread m fmt kind n else VBad) /\
  (forall m fmt kind, run B"sd.tsnone" [VInt m; VInt fmt; VInt kind] = if mod_ok m then tsnone m fmt kind else VBad) /\
  (forall fmt s n, run B"sd.tdread" [VInt fmt; VInt s; VInt n] = tdread fmt s n) /\
  (forall op args, op_is op "sd.rt" = false -> op_is op "sd.read" = false -> op_is op "sd.ts" = false ->
     op_is op "sd.tsread" = false -> op_is op "sd.tsnone" = false -> op_is op "sd.tdread" = false ->
     run op args = VErr B"NOOP").
Proof. exact C20Ops.dispatch. Qed.
Print Assumptions C20_dispatch.
(* sd.read: a string handed to a string-form deserializer is answered by the type's FromStr parser
   (C09 / C13 / C19), its error wrapped; anything else is serde's `invalid type`, never a trap *)
Theorem C20_read_is_from_str : forall s,
  de_date (SStr s) = C20Ops.wrap_parse (FromStr.naive_date_from_str s) /\
  de_time (SStr s) = C20Ops.wrap_parse (FromStr.naive_time_from_str s) /\
  de_ndt (SStr s) = C20Ops.wrap_parse (FromStr.naive_datetime_from_str s) /\
  de_dt_fixed (SStr s) = C20Ops.wrap_parse (FromStr.datetime_fixed_from_str s) /\
  de_dt_utc (SStr s) = smap (fun dt => with_timezone dt 0) (C20Ops.wrap_parse (FromStr.datetime_fixed_from_str s)) /\
  de_dt_local (SStr s) = smap (fun dt => with_timezone dt 0) (C20Ops.wrap_parse (FromStr.datetime_fixed_from_str s)) /\
  de_wd (SStr s) = C20Ops.wrap_name EWeekday (Model.C19.wd_from_str s) /\
  de_mo (SStr s) = C20Ops.wrap_name EMonth (Model.C19.mo_from_str s).
Proof. exact C20Ops.read_is_from_str. Qed.
Print Assumptions C20_read_is_from_str.
Theorem C20_read_not_a_string : forall v, C20Ops.is_str v = false ->
  de_date v = Val (SErr EInvalidType) /\ de_time v = Val (SErr EInvalidType) /\ de_ndt v = Val (SErr EInvalidType) /\
  de_dt_fixed v = Val (SErr EInvalidType) /\ de_dt_utc v = Val (SErr EInvalidType) /\ de_dt_local v = Val (SErr EInvalidType) /\
  de_wd v = Val (SErr EInvalidType) /\ de_mo v = Val (SErr EInvalidType).
Proof. exact C20Ops.read_not_a_string. Qed.
Print Assumptions C20_read_not_a_string.

(** * the theorem over ALL ops: for every op name and every argument list outside the three recorded
      findings ([finding_free], a decidable predicate that restricts sd.rt only: naive types 1, 2 --
      leap-second fraction on second 59 or none; zone-aware types 3, 8, 9 -- whole-minute offset and
      wall-clock date inside the date range), whenever the judge does not skip the case (it is in the
      property's domain) the judge accepts the model's output.  Supersedes the per-op C20_holds_tsread /
      C20_holds_tdread (kept above).  The judge says JBad on the model's output for the excluded
      inputs: C20_*_refuted. *)
Theorem C20_holds : forall op args, C20HoldsAll.finding_free op args = true ->
  Judge.C20.judge op args (run op args) <> JSkip -> Judge.C20.judge op args (run op args) = JOk.
Proof. exact C20HoldsAll.holds_all. Qed.
Print Assumptions C20_holds.
Theorem C20_never_bad : forall op args, C20HoldsAll.finding_free op args = true ->
  HoldsLib.not_bad (Judge.C20.judge op args (run op args)).
Proof. exact C20HoldsAll.never_bad. Qed.
Print Assumptions C20_never_bad.
Theorem C20_finding_free_scope :
  (forall op args, op_is op "sd.rt" = false -> C20HoldsAll.finding_free op args = true) /\
  (forall fmt ty v, C20HoldsAll.finding_free B"sd.rt" [fmt; VInt ty; v] = C20HoldsAll.clean_rt ty v) /\
  (forall ty v, ty <> 1 -> ty <> 2 -> ty <> 3 -> ty <> 8 -> ty <> 9 -> C20HoldsAll.clean_rt ty v = true) /\
  (forall s f, C20HoldsAll.clean_rt 1 (VTup [VInt s; VInt f]) = Judge.C20.plain_leap s f) /\
  (forall y o s f, C20HoldsAll.clean_rt 2 (VTup [y; o; VInt s; VInt f]) = Judge.C20.plain_leap s f) /\
  (forall y o s f off, C20HoldsAll.clean_rt 3 (VTup [VInt y; VInt o; VInt s; VInt f; VInt off]) =
     (off mod 60 =? 0) && Spec.Gregorian.dn_in_range (Spec.Gregorian.dn_of_yo y o + (s + off) / 86400)).
Proof.
  exact (conj C20HoldsAll.finding_free_other (conj C20HoldsAll.finding_free_rt (conj C20HoldsAll.clean_rt_unrestricted
    (conj (fun s f => eq_refl) (conj (fun y o s f => eq_refl) (fun y o s f off => eq_refl)))))).
Qed.
Print Assumptions C20_finding_free_scope.
Example C20_holds_inhabited :
  let c1 := [VInt 0; VInt 3; VTup [VInt 2020; VInt 1; VInt 45270; VInt 1500000000; VInt 19800]] in
  let c2 := [VInt 14; VInt 0; VTup [VInt 2262; VInt 101; VInt 85636; VInt 854775807]] in
  let c3 := [VInt 15; VInt 1; VSome (VTup [VInt 2262; VInt 101; VInt 85636; VInt 854775808])] in
  let c4 := [VInt 1; VInt 5; VTup [VInt (-9223372036854776); VInt 193000000]] in
  C20HoldsAll.finding_free B"sd.rt" c1 = true /\ Judge.C20.judge B"sd.rt" c1 (run B"sd.rt" c1) = JOk /\
  Judge.C20.judge B"sd.ts" c2 (run B"sd.ts" c2) = JOk /\ Judge.C20.judge B"sd.ts" c3 (run B"sd.ts" c3) = JOk /\
  C20HoldsAll.finding_free B"sd.rt" c4 = true /\ Judge.C20.judge B"sd.rt" c4 (run B"sd.rt" c4) = JOk.
Proof. exact C20HoldsAll.holds_inhabited. Qed.
Print Assumptions C20_holds_inhabited.
