(** C20 -- Serialized forms deserialize to the same value (theorems only).
    Each theorem is closed by [exact] of a lemma of Proofs/C20*.v and followed by [Print Assumptions].

    Model/Serde.v: a serializer is a function into a value [sval] of a small serde data model (what
    the impl hands to the Serializer), a deserializer / visitor a function from one; [carry fmt] is
    how serde_json (fmt 0) / bincode (fmt 1) hand a written value back to the reader -- serde's own
    dispatch and the two formats are ASSUMED faithful carriers (trusted_base.json) and exercised
    concretely by the correspondence run.  [Val (SOk x)] = Ok(x), [Val (SErr e)] = Err(e),
    [Panic] = a trap.
    Vocabulary: [repr y o d] the packed date d represents year y, ordinal o of the supported range;
    [time_dom t] a time of day whose leap-second fraction, if any, sits on second 59; [ndt_dom],
    [dtz_dom] their products with whole-minute offsets and the wall-clock date in the date range
    (Proofs/C09*.v); [valid_ndt], [nonleap], [instant] of Proofs/C02.v (instants through
    Spec/Gregorian.v); [C06.valid] a duration of the documented range.
    Modules: m = 8*z + 2*u + o (z: 0 NaiveDateTime, 1 DateTime<Utc>; u: 0 s, 1 ms, 2 us, 3 ns;
    o: 0 plain, 1 _option); [unit_ns m] = nanoseconds per unit; shapes and literals of the sixteen
    modules are re-read from the Rust source on every run (Gen/SerdeConsts.v).

    Recorded findings (known_findings.json), each with its witness here and the conditional theorem
    over the complement: offsets with seconds (C20_seconds_offset_refuted / C20_serde_roundtrip_dt_fixed),
    leap-second fraction off second 59 (C20_leap_off_minute_refuted / C20_serde_roundtrip_time, _ndt),
    wall clock outside the date range (C20_wall_clock_refuted / C20_serde_roundtrip_dt_fixed).
    Gap (named): for zone-aware values whose leap-second fraction is NOT on second 59 the property
    asks for the same instant only; that case is covered by the correspondence run and the judge,
    not by a theorem (C20_serde_roundtrip_dt_* are stated on [dtz_dom]). *)
From Coq Require Import ZArith List Bool String.
From V Require Import Base.Int Base.IO Gen.SerdeConsts Model.Scan Model.TimeDelta Model.DateTime Model.Serde
  Proofs.C20Delta Proofs.C20Ts Proofs.C20Text Proofs.C20.
From V Require Model.Date Model.Time Proofs.C06 Proofs.C02 Proofs.C09Time Proofs.C09DateTime Proofs.C09Zoned Proofs.C08Sweeps.
Import ListNotations.
Open Scope Z_scope.
Import Proofs.C02 Proofs.C08Sweeps Proofs.C09Time Proofs.C09DateTime Proofs.C09Zoned.

(** * the string forms: serialize, carry through either format, deserialize = the value *)
Theorem C20_serde_roundtrip_date : forall fmt y o d, repr y o d ->
  exists s, ser_date d = Val (SOk (SStr s)) /\ de_date (carry fmt (SStr s)) = Val (SOk d).
Proof. exact serde_roundtrip_date. Qed.
Print Assumptions C20_serde_roundtrip_date.
Theorem C20_serde_roundtrip_time : forall fmt t, time_dom t ->
  exists s, ser_time t = Val (SOk (SStr s)) /\ de_time (carry fmt (SStr s)) = Val (SOk t).
Proof. exact serde_roundtrip_time. Qed.
Print Assumptions C20_serde_roundtrip_time.
Theorem C20_serde_roundtrip_ndt : forall fmt a, ndt_dom a ->
  exists s, ser_ndt a = Val (SOk (SStr s)) /\ de_ndt (carry fmt (SStr s)) = Val (SOk a).
Proof. exact serde_roundtrip_ndt. Qed.
Print Assumptions C20_serde_roundtrip_ndt.
(* DateTime<FixedOffset> -> DateTime<FixedOffset>: instant AND offset, whole-minute offsets *)
Theorem C20_serde_roundtrip_dt_fixed : forall fmt a, dtz_dom a ->
  exists s, ser_dtz a = Val (SOk (SStr s)) /\ de_dt_fixed (carry fmt (SStr s)) = Val (SOk a).
Proof. exact serde_roundtrip_dt_fixed. Qed.
Print Assumptions C20_serde_roundtrip_dt_fixed.
(* ... read back as DateTime<Utc> / DateTime<Local>: the same instant *)
Theorem C20_serde_roundtrip_dt_to_utc : forall fmt a, dtz_dom a ->
  exists s, ser_dtz a = Val (SOk (SStr s)) /\
            de_dt_utc (carry fmt (SStr s)) = Val (SOk (with_timezone a 0)) /\
            de_dt_local (carry fmt (SStr s)) = Val (SOk (with_timezone a 0)).
Proof. exact serde_roundtrip_dt_to_utc. Qed.
Print Assumptions C20_serde_roundtrip_dt_to_utc.
(* DateTime<Utc>: every date x every time of the domain, no side condition *)
Theorem C20_serde_roundtrip_dt_utc : forall fmt y o d t, repr y o d -> time_dom t ->
  let a := mk_dtz (mk_ndt d t) 0 in
  exists s, ser_dtz a = Val (SOk (SStr s)) /\ de_dt_utc (carry fmt (SStr s)) = Val (SOk a).
Proof. exact serde_roundtrip_dt_utc. Qed.
Print Assumptions C20_serde_roundtrip_dt_utc.
Theorem C20_serde_roundtrip_weekday : forall fmt w, 0 <= w < 7 ->
  exists s, ser_wd w = Val (SOk (SStr s)) /\ de_wd (carry fmt (SStr s)) = Val (SOk w).
Proof. exact serde_roundtrip_weekday. Qed.
Print Assumptions C20_serde_roundtrip_weekday.
Theorem C20_serde_roundtrip_month : forall fmt m, 0 <= m < 12 ->
  exists s, ser_mo m = Val (SOk (SStr s)) /\ de_mo (carry fmt (SStr s)) = Val (SOk m).
Proof. exact serde_roundtrip_month. Qed.
Print Assumptions C20_serde_roundtrip_month.
(* the serializer of DateTime<Tz> as read from the source: wall clock through
   overflowing_naive_local (the repaired code), AutoSi, use_z; and the text it writes *)
Theorem C20_serde_dt_shape : SD_DT_LOCAL_OVERFLOWING = 1 /\ SD_DT_SECFORM = 4 /\ SD_DT_USE_Z = 1.
Proof. exact serde_dt_shape. Qed.
Print Assumptions C20_serde_dt_shape.

(** * the sixteen timestamp helper modules *)
(* serialize writes the exact timestamp floor(instant / unit); only the nanosecond modules can
   fail, with an error value, exactly when the count leaves i64 *)
Theorem C20_ts_serialize_spec : forall m a, In m plain_mods -> valid_ndt a -> nonleap a ->
  ts_serialize m a = Val (match written m a with SOk w => SOk (SI64 w) | SErr e => SErr e end).
Proof. exact ts_serialize_spec. Qed.
Print Assumptions C20_ts_serialize_spec.
Theorem C20_ts_serialize_option_spec : forall m a, In m option_mods -> valid_ndt a -> nonleap a ->
  ts_serialize_option m None = Val (SOk SNone) /\
  ts_serialize_option m (Some a) = Val (match written m a with SOk w => SOk (SSome (SI64 w)) | SErr e => SErr e end).
Proof. exact ts_serialize_option_spec. Qed.
Print Assumptions C20_ts_serialize_option_spec.
Theorem C20_ts_written : forall m a, In m (plain_mods ++ option_mods) -> valid_ndt a -> nonleap a ->
  written m a = if (unit_ns m =? 1) && negb (in_i64 (instant a)) then SErr ESerNanos else SOk (instant a / unit_ns m).
Proof. exact written_ok. Qed.
Print Assumptions C20_ts_written.
(* visit_i64 / visit_u64, for ALL i64 / u64: Ok(the date-time at integer * unit) iff that instant is
   representable, Err(invalid_ts(value)) otherwise -- never a trap *)
Theorem C20_ts_deserialize_spec : forall m n, In m plain_mods ->
  (in_i64 n = true -> exists r, ts_deserialize m (SI64 n) = Val r /\ read_spec (n * unit_ns m) n r) /\
  (in_u64 n = true -> exists r, ts_deserialize m (SU64 n) = Val r /\ read_spec (n * unit_ns m) n r).
Proof. exact ts_deserialize_spec. Qed.
Print Assumptions C20_ts_deserialize_spec.
Theorem C20_ts_deserialize_option_spec : forall m n, In m option_mods ->
  ts_deserialize_option m SNone = Val (SOk None) /\
  ts_deserialize_option m SUnit = Val (SOk None) /\
  (in_i64 n = true -> exists r, ts_deserialize_option m (SSome (SI64 n)) = Val (lift_some r) /\ read_spec (n * unit_ns m) n r) /\
  (in_u64 n = true -> exists r, ts_deserialize_option m (SSome (SU64 n)) = Val (lift_some r) /\ read_spec (n * unit_ns m) n r).
Proof. exact ts_deserialize_option_spec. Qed.
Print Assumptions C20_ts_deserialize_option_spec.
(* round trip through either format: the same instant at the module's precision *)
Theorem C20_ts_roundtrip : forall m fmt a w, In m plain_mods -> valid_ndt a -> nonleap a -> written m a = SOk w ->
  ts_serialize m a = Val (SOk (SI64 w)) /\ w = instant a / unit_ns m /\
  exists a', ts_deserialize m (carry fmt (SI64 w)) = Val (SOk a') /\
             valid_ndt a' /\ nonleap a' /\ instant a' = instant a / unit_ns m * unit_ns m.
Proof. exact ts_roundtrip. Qed.
Print Assumptions C20_ts_roundtrip.
Theorem C20_ts_roundtrip_option : forall m fmt a w, In m option_mods -> valid_ndt a -> nonleap a -> written m a = SOk w ->
  (ts_serialize_option m None = Val (SOk SNone) /\ ts_deserialize_option m (carry fmt SNone) = Val (SOk None)) /\
  ts_serialize_option m (Some a) = Val (SOk (SSome (SI64 w))) /\ w = instant a / unit_ns m /\
  exists a', ts_deserialize_option m (carry fmt (SSome (SI64 w))) = Val (SOk (Some a')) /\
             valid_ndt a' /\ nonleap a' /\ instant a' = instant a / unit_ns m * unit_ns m.
Proof. exact ts_roundtrip_option. Qed.
Print Assumptions C20_ts_roundtrip_option.
Example C20_ts_example : exists a, dt_from_timestamp (-1) 999999999 = Val (Some a) /\ valid_ndt a /\ nonleap a /\
  instant a = -1 /\ written 12 a = SOk (-1) /\
  ts_deserialize 12 (carry 1 (SI64 (-1))) = ts_deserialize 12 (carry 0 (SI64 (-1))).
Proof. exact ts_example. Qed.
Print Assumptions C20_ts_example.
Example C20_nanos_window_example :
  ts_serialize 14 ndt_2262 = Val (SErr ESerNanos) /\ ts_serialize 6 ndt_2262 = Val (SErr ESerNanos) /\
  ts_serialize_option 15 (Some ndt_2262) = Val (SErr ESerNanos) /\
  ts_serialize 12 ndt_2262 = Val (SOk (SI64 9223372036854775)) /\
  ts_deserialize 14 (SU64 9223372036854775808) = Val (SOk ndt_2262) /\
  ts_deserialize 8 (SU64 9223372036854775808) = Val (SErr (EInvalidTs 9223372036854775808)).
Proof. exact nanos_window_example. Qed.
Print Assumptions C20_nanos_window_example.

(** * TimeDelta: the (secs, nanos) pair *)
Theorem C20_delta_roundtrip : forall fmt d, C06.valid d ->
  exists p, ser_td d = Val (SOk p) /\ de_td (carry fmt p) = Val (SOk d).
Proof. exact delta_roundtrip. Qed.
Print Assumptions C20_delta_roundtrip.
(* reading ANY written pair (secs : i64, nanos : i32): Ok exactly on the range, never a trap *)
Theorem C20_delta_read_spec : forall fmt s n, in_i64 s = true -> in_i32 n = true ->
  de_td (carry fmt (STup [SI64 s; SI32 n])) =
    Val (if (0 <=? n) && (n <? 1000000000) && (C06.RMIN <=? s * 1000000000 + n) && (s * 1000000000 + n <=? C06.RMAX)
         then SOk (mk_td s n) else SErr ETdBounds).
Proof. exact delta_read_spec. Qed.
Print Assumptions C20_delta_read_spec.
Theorem C20_delta_read_rejects : forall fmt s n, in_i64 s = true -> in_i32 n = true ->
  ~ (0 <= n < 1000000000 /\ C06.in_rng (s * 1000000000 + n)) ->
  de_td (carry fmt (STup [SI64 s; SI32 n])) = Val (SErr ETdBounds).
Proof. exact delta_read_rejects. Qed.
Print Assumptions C20_delta_read_rejects.
Example C20_delta_example : C06.valid (mk_td (-9223372036854776) 193000000) /\
  de_td (carry 0 (STup [SI64 9223372036854776; SI32 0])) = Val (SErr ETdBounds).
Proof. exact delta_example. Qed.
Print Assumptions C20_delta_example.

(** * the recorded findings, as witnesses on the faithful model *)
(* +05:30:15: written with the offset rounded to +05:30, read back 15 s later *)
Theorem C20_seconds_offset_refuted :
  dec_dtz (enc_dtz dtz_secs) = Some dtz_secs /\
  ser_dtz dtz_secs = Val (SOk (SStr dtz_secs_text)) /\
  (forall fmt, de_dt_fixed (carry fmt (SStr dtz_secs_text)) = Val (SOk dtz_secs_back)) /\
  dz_utc dtz_secs_back <> dz_utc dtz_secs /\
  Time.tsecs (nd_time (dz_utc dtz_secs_back)) - Time.tsecs (nd_time (dz_utc dtz_secs)) = 15.
Proof. exact seconds_offset_refuted. Qed.
Print Assumptions C20_seconds_offset_refuted.
(* +23:59:45: written as "+24:00", refused by the reader *)
Theorem C20_seconds_offset_24_refuted :
  dec_dtz (enc_dtz dtz_24) = Some dtz_24 /\
  ser_dtz dtz_24 = Val (SOk (SStr dtz_24_text)) /\
  (forall fmt, de_dt_fixed (carry fmt (SStr dtz_24_text)) = Val (SErr (EParse OutOfRange))).
Proof. exact seconds_offset_24_refuted. Qed.
Print Assumptions C20_seconds_offset_24_refuted.
(* 12:34:30 + 1.5 s (leap fraction off second 59) reads back as 12:34:31.5 *)
Theorem C20_leap_off_minute_refuted :
  Time.dec_time (Time.enc_time time_leap) = Some time_leap /\
  ser_time time_leap = Val (SOk (SStr time_leap_text)) /\
  (forall fmt, de_time (carry fmt (SStr time_leap_text)) = Val (SOk (Time.mk_time 45271 500000000))) /\
  ser_ndt ndt_leap = Val (SOk (SStr ndt_leap_text)) /\
  de_ndt (SStr ndt_leap_text) = Val (SOk (mk_ndt (nd_date ndt_leap) (Time.mk_time 45271 500000000))).
Proof. exact leap_off_minute_refuted. Qed.
Print Assumptions C20_leap_off_minute_refuted.
(* 262142-12-31T23:59:59Z at +00:01: the written wall-clock date is refused by the reader; the
   serializer as found (naive_local) trapped on it *)
Theorem C20_wall_clock_refuted :
  dec_dtz (enc_dtz dtz_edge) = Some dtz_edge /\
  ser_dtz dtz_edge = Val (SOk (SStr dtz_edge_text)) /\
  (forall fmt, de_dt_fixed (carry fmt (SStr dtz_edge_text)) = Val (SErr (EParse OutOfRange))) /\
  ser_dtz_unrepaired dtz_edge = Panic.
Proof. exact wall_clock_refuted. Qed.
Print Assumptions C20_wall_clock_refuted.
