(** C14 -- field resolution never returns a value that contradicts a supplied field.
    Theorem-only file: every statement is closed by [exact] of a lemma of Proofs/C14.v. *)
From Coq Require Import ZArith List Bool.
From V Require Import Base.Int Base.IO Model.Parsed Proofs.C14.
Import ListNotations.
Open Scope Z_scope.

Theorem C14_field_read_after_write : forall f v p, pget f (pput f v p) = v.
Proof. exact pget_pput_same. Qed.
Print Assumptions C14_field_read_after_write.

Theorem C14_field_write_is_local : forall f g v p, f <> g -> pget g (pput f v p) = pget g p.
Proof. exact pget_pput_other. Qed.
Print Assumptions C14_field_write_is_local.

Theorem C14_set_twice_iff_equal : forall f p v w,
  pget f p = None ->
  let p1 := fst (set_if_consistent f p v) in
  snd (set_if_consistent f p v) = Ok tt /\
  (snd (set_if_consistent f p1 w) = Ok tt <-> w = v) /\
  (w <> v -> snd (set_if_consistent f p1 w) = Err Impossible /\ fst (set_if_consistent f p1 w) = p1).
Proof. exact set_twice_iff_equal. Qed.
Print Assumptions C14_set_twice_iff_equal.
