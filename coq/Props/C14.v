(** C14 -- field resolution never returns a value that contradicts a supplied field.
    Theorem-only file: every statement is closed by [exact] of a lemma of Proofs/C14.v.
    The constructor facts the resolution proofs were developed against are all proved from the
    shared calendar lemmas: [Fact_from_ymd] (C14_fact_from_ymd) and the four facts about the ISO-week
    functions of Model/Date.v ([Fact_from_isoywd], [Fact_iso_week_total], [Fact_isoywd_total],
    [Fact_isoywd_roundtrip]: C14_fact_* below, from Proofs/DateIso.v / Proofs/Gregorian.v).  The
    soundness, completeness and absence-of-traps theorems are therefore premise-free; the older
    forms named [*_modulo_isoywd] / [*_modulo_iso], which carry the facts as visible premises, are
    kept under their names (they are implied by the premise-free ones). *)
From Coq Require Import ZArith List Bool.
From V Require Import Base.Int Base.IO Model.TimeDelta.
From V Require Model.Date Model.Time.
From V Require Import Spec.Gregorian Model.DateTime Model.Parsed Proofs.C08Sweeps Proofs.C14 Proofs.C14Date Proofs.C14Iso.
From V Require Proofs.C04.
From V Require Import Proofs.C14Zoned.
From V Require Import Proofs.C14Stamp.
Import ListNotations.
Open Scope Z_scope.

(** ** Setters *)
Theorem C14_field_read_after_write : forall f v p, pget f (pput f v p) = v.
Proof. exact pget_pput_same. Qed.
Print Assumptions C14_field_read_after_write.

Theorem C14_field_write_is_local : forall f g v p, f <> g -> pget g (pput f v p) = pget g p.
Proof. exact pget_pput_other. Qed.
Print Assumptions C14_field_write_is_local.

(** Setting a field twice is accepted exactly when the two values are equal; a refused call
    reports 'impossible' and leaves the fields unchanged. *)
Theorem C14_set_twice_iff_equal : forall f p v w,
  pget f p = None ->
  let p1 := fst (set_if_consistent f p v) in
  snd (set_if_consistent f p v) = Ok tt /\
  (snd (set_if_consistent f p1 w) = Ok tt <-> w = v) /\
  (w <> v -> snd (set_if_consistent f p1 w) = Err Impossible /\ fst (set_if_consistent f p1 w) = p1).
Proof. exact set_twice_iff_equal. Qed.
Print Assumptions C14_set_twice_iff_equal.

(** A range-checked setter: accepted iff in the documented range and consistent; the three outcomes. *)
Theorem C14_set_checked_ok : forall f lo hi cast p v,
  snd (set_checked f lo hi cast p v) = Ok tt <->
  (lo <= v <= hi /\ (pget f p = None \/ pget f p = Some (cast v))).
Proof. exact set_checked_ok. Qed.
Print Assumptions C14_set_checked_ok.

Theorem C14_set_checked_result : forall f lo hi cast p v,
  match snd (set_checked f lo hi cast p v) with
  | Ok _ => lo <= v <= hi /\ fst (set_checked f lo hi cast p v) = pput f (Some (cast v)) p
  | Err OutOfRange => ~ (lo <= v <= hi) /\ fst (set_checked f lo hi cast p v) = p
  | Err Impossible => lo <= v <= hi /\ (exists old, pget f p = Some old /\ old <> cast v)
                      /\ fst (set_checked f lo hi cast p v) = p
  | Err _ => False
  end.
Proof. exact set_checked_result. Qed.
Print Assumptions C14_set_checked_result.

(** The 24-hour setter for every integer argument: both hour fields, or 'out of range'. *)
Theorem C14_set_hour_value : forall p v,
  set_hour p v =
  Val (if contains 0 23 v then
         match set_if_consistent F_hour_div_12 p (v / 12) with
         | (p1, Err e) => (p1, Err e)
         | (p1, Ok _) => set_if_consistent F_hour_mod_12 p1 (v mod 12)
         end
       else (p, Err OutOfRange)).
Proof. exact set_hour_value. Qed.
Print Assumptions C14_set_hour_value.

(** No setter traps, for every argument. *)
Theorem C14_setters_never_panic : forall k p v r, apply_setter k p v = Some r -> r <> Panic /\ r <> OutOfFuel.
Proof. exact apply_setter_no_panic. Qed.
Print Assumptions C14_setters_never_panic.

(** ** Year groups *)
Theorem C14_resolve_year_never_panics : forall y q r, i32v y -> i32v q -> i32v r ->
  exists res, resolve_year y q r = Val res.
Proof. exact resolve_year_no_panic. Qed.
Print Assumptions C14_resolve_year_never_panics.

Theorem C14_resolve_year_sound : forall y q r Y, i32v y -> resolve_year y q r = Val (Ok (Some Y)) ->
  (forall v, y = Some v -> Y = v) /\
  (forall v, q = Some v -> 0 <= Y /\ Y / 100 = v) /\
  (forall v, r = Some v -> 0 <= Y /\ Y mod 100 = v) /\
  (y = None -> q = None -> exists v, r = Some v /\ Y = pivot v).
Proof. exact resolve_year_sound. Qed.
Print Assumptions C14_resolve_year_sound.

Theorem C14_resolve_year_complete : forall Y y q r, in_i32 Y = true -> group_of Y y q r -> determinate Y y q r ->
  resolve_year y q r = Val (Ok (Some Y)).
Proof. exact resolve_year_complete. Qed.
Print Assumptions C14_resolve_year_complete.

Theorem C14_resolve_year_absent : forall y q r,
  resolve_year y q r = Val (Ok None) <-> (y = None /\ q = None /\ r = None).
Proof. exact resolve_year_none. Qed.
Print Assumptions C14_resolve_year_absent.

Theorem C14_resolve_year_error_kinds : forall y q r e, resolve_year y q r = Val (Err e) ->
  (e = NotEnough /\ y = None /\ q <> None /\ r = None) \/
  ((e = Impossible \/ e = OutOfRange) /\ ~ (y = None /\ r = None)).
Proof. exact resolve_year_error. Qed.
Print Assumptions C14_resolve_year_error_kinds.

Example C14_year_group_examples :
  resolve_year None None (Some 69) = Val (Ok (Some 2069)) /\ resolve_year None None (Some 70) = Val (Ok (Some 1970)) /\
  resolve_year None (Some 19) (Some 84) = Val (Ok (Some 1984)) /\ resolve_year (Some (-5)) (Some 0) None = Val (Err Impossible) /\
  resolve_year None (Some 20) None = Val (Err NotEnough) /\
  resolve_year None (Some 21474836) (Some 48) = Val (Err OutOfRange).
Proof. exact ex_year_groups. Qed.
Print Assumptions C14_year_group_examples.

(** ** Time of day: value, error classes and absence of traps, for all field values of the types *)
Theorem C14_to_naive_time_spec : forall p,
  u32v (p_hour_div_12 p) -> u32v (p_hour_mod_12 p) -> u32v (p_minute p) -> u32v (p_second p) ->
  u32v (p_nanosecond p) ->
  exists r, to_naive_time p = Val r /\
  match r with
  | Ok t => exists hd hm mi, time_fields_ok p hd hm mi /\
            t = time_of_fields hd hm mi (unwrap_or (p_second p) 0) (unwrap_or (p_nanosecond p) 0)
  | Err NotEnough => time_missing p
  | Err OutOfRange => time_out_of_range p
  | Err _ => False
  end.
Proof. exact to_naive_time_spec. Qed.
Print Assumptions C14_to_naive_time_spec.

Theorem C14_to_naive_time_sound : forall p t,
  u32v (p_hour_div_12 p) -> u32v (p_hour_mod_12 p) -> u32v (p_minute p) -> u32v (p_second p) ->
  u32v (p_nanosecond p) ->
  to_naive_time p = Val (Ok t) ->
  (forall v, p_hour_div_12 p = Some v -> v = Time.hour t / 12) /\
  (forall v, p_hour_mod_12 p = Some v -> v = Time.hour t mod 12) /\
  (forall v, p_minute p = Some v -> v = Time.minute t) /\
  (forall v, p_second p = Some v -> v = Time.second t + (if Time.nanosecond t >=? 1000000000 then 1 else 0)) /\
  (forall v, p_nanosecond p = Some v -> v = Time.nanosecond t mod 1000000000) /\
  (p_second p = None -> Time.second t = 0 /\ Time.nanosecond t = 0) /\
  (p_nanosecond p = None -> Time.nanosecond t mod 1000000000 = 0).
Proof. exact to_naive_time_sound. Qed.
Print Assumptions C14_to_naive_time_sound.

Theorem C14_to_naive_time_complete : forall p hd hm mi,
  time_fields_ok p hd hm mi ->
  to_naive_time p = Val (Ok (time_of_fields hd hm mi (unwrap_or (p_second p) 0) (unwrap_or (p_nanosecond p) 0))).
Proof. exact to_naive_time_complete. Qed.
Print Assumptions C14_to_naive_time_complete.

(** ** Dates: which verifier compares which supplied field *)
Theorem C14_verify_ymd_checks : forall p d, verify_ymd p d = Val true ->
  year_parts_sound (p_year p) (p_year_div_100 p) (p_year_mod_100 p) (Date.d_year d) /\
  (forall v, p_month p = Some v -> Date.d_month d = Val v) /\
  (forall v, p_day p = Some v -> Date.d_day d = Val v).
Proof. exact verify_ymd_true. Qed.
Print Assumptions C14_verify_ymd_checks.

Theorem C14_verify_isoweekdate_checks : forall p d, verify_isoweekdate p d = Val true ->
  iso_sound p d /\ (forall v, p_weekday p = Some v -> Date.d_weekday d = Val v).
Proof. exact verify_isoweekdate_true. Qed.
Print Assumptions C14_verify_isoweekdate_checks.

Theorem C14_verify_ordinal_checks : forall p d, verify_ordinal p d = Val true ->
  (forall v, p_ordinal p = Some v -> Date.d_ordinal d = v) /\
  (forall v, p_week_from_sun p = Some v -> Date.weeks_from d WD_SUN = Val (as_i32 v)) /\
  (forall v, p_week_from_mon p = Some v -> Date.weeks_from d WD_MON = Val (as_i32 v)).
Proof. exact verify_ordinal_true. Qed.
Print Assumptions C14_verify_ordinal_checks.

(** the year-month-day constructor fact, proved from the shared calendar lemmas *)
Theorem C14_fact_from_ymd : forall y m d dt,
  in_i32 y = true -> 0 <= m <= u32_max -> 0 <= d <= u32_max ->
  Date.from_ymd_opt y m d = Val (Some dt) ->
  Date.d_year dt = y /\ Date.d_month dt = Val m /\ Date.d_day dt = Val d.
Proof. exact fact_from_ymd. Qed.
Print Assumptions C14_fact_from_ymd.

(** SOUNDNESS of to_naive_date: the returned date agrees with every supplied date field
    (year, century, two-digit year -- the latter two only exist for years >= 0 --, their ISO
    counterparts, quarter, month, both week numbers, ISO week, weekday, ordinal, day). *)
Theorem C14_to_naive_date_sound_modulo_isoywd : Fact_from_isoywd ->
  forall p d, date_fields_typed p -> to_naive_date p = Val (Ok d) -> date_sound p d.
Proof. exact to_naive_date_sound_modulo_isoywd. Qed.
Print Assumptions C14_to_naive_date_sound_modulo_isoywd.

(** SOUNDNESS of to_naive_datetime_with_offset, both paths (from date and time fields with the
    timestamp cross-check; from the timestamp with the fields cross-checked). *)
Theorem C14_to_naive_datetime_sound_modulo_isoywd : Fact_from_isoywd ->
  forall p off v, typed p -> in_i32 off = true ->
  to_naive_datetime_with_offset p off = Val (Ok v) ->
  date_sound p (nd_date v) /\ time_sound p (nd_time v) /\ ts_sound p v off.
Proof. exact to_naive_datetime_sound_modulo_isoywd. Qed.
Print Assumptions C14_to_naive_datetime_sound_modulo_isoywd.

(** SOUNDNESS of to_datetime and to_datetime_with_timezone (fixed-offset zone): local reading,
    timestamp and offset. *)
Theorem C14_to_datetime_sound_modulo_isoywd : Fact_from_isoywd ->
  forall p z, typed p -> to_datetime p = Val (Ok z) ->
  zoned_sound p z /\ (p_offset p = None -> dz_off z = 0 /\ p_timestamp p <> None).
Proof. exact to_datetime_sound_modulo_isoywd. Qed.
Print Assumptions C14_to_datetime_sound_modulo_isoywd.

Theorem C14_to_datetime_with_timezone_sound_modulo_isoywd : Fact_from_isoywd ->
  forall p tz z, typed p -> -86400 < tz < 86400 -> to_datetime_with_timezone p tz = Val (Ok z) ->
  zoned_sound p z /\ dz_off z = tz.
Proof. exact to_datetime_with_timezone_sound_modulo_isoywd. Qed.
Print Assumptions C14_to_datetime_with_timezone_sound_modulo_isoywd.

(** the ISO-week constructor fact, proved from the shared ISO-week lemmas (Proofs/DateIso.v) *)
Theorem C14_fact_from_isoywd : forall y w wd dt,
  in_i32 y = true -> 0 <= w <= u32_max -> 0 <= wd <= 6 ->
  Date.from_isoywd_opt y w wd = Val (Some dt) ->
  exists iw, Date.d_iso_week dt = Val iw /\ Date.iw_year iw = y /\ Date.iw_week iw = w /\
             Date.d_weekday dt = Val wd.
Proof. exact fact_from_isoywd. Qed.
Print Assumptions C14_fact_from_isoywd.

(** SOUNDNESS, premise-free: to_naive_date, to_naive_datetime_with_offset (both paths), to_datetime,
    to_datetime_with_timezone never return a value that contradicts a supplied field. *)
Theorem C14_to_naive_date_sound :
  forall p d, date_fields_typed p -> to_naive_date p = Val (Ok d) -> date_sound p d.
Proof. exact to_naive_date_sound. Qed.
Print Assumptions C14_to_naive_date_sound.

Theorem C14_to_naive_datetime_sound :
  forall p off v, typed p -> in_i32 off = true ->
  to_naive_datetime_with_offset p off = Val (Ok v) ->
  date_sound p (nd_date v) /\ time_sound p (nd_time v) /\ ts_sound p v off.
Proof. exact to_naive_datetime_sound. Qed.
Print Assumptions C14_to_naive_datetime_sound.

Theorem C14_to_datetime_sound :
  forall p z, typed p -> to_datetime p = Val (Ok z) ->
  zoned_sound p z /\ (p_offset p = None -> dz_off z = 0 /\ p_timestamp p <> None).
Proof. exact to_datetime_sound. Qed.
Print Assumptions C14_to_datetime_sound.

Theorem C14_to_datetime_with_timezone_sound :
  forall p tz z, typed p -> -86400 < tz < 86400 -> to_datetime_with_timezone p tz = Val (Ok z) ->
  zoned_sound p z /\ dz_off z = tz.
Proof. exact to_datetime_with_timezone_sound. Qed.
Print Assumptions C14_to_datetime_with_timezone_sound.

(** resolve_week_date (%U / %W forms) for all arguments: value or error kind, never a trap *)
Theorem C14_resolve_week_date_spec : forall y week wd start,
  in_i32 y = true -> 0 <= week <= u32_max -> 0 <= wd <= 6 -> 0 <= start <= 6 ->
  resolve_week_date y week wd start =
  Val (if week >? 53 then Err OutOfRange
       else if negb (year_in_range y) then Err OutOfRange
       else if week_ordinal y week wd start <=? 0 then Err Impossible
       else if valid_yo y (week_ordinal y week wd start) then Ok (mkdate y (week_ordinal y week wd start))
       else Err Impossible).
Proof. exact resolve_week_date_spec. Qed.
Print Assumptions C14_resolve_week_date_spec.

(** COMPLETENESS of to_naive_date: all supplied fields are those of the date d, each year group is
    absent or determinate (full year, or century plus two-digit year, or the two-digit year alone
    for 1970..2069), one documented sufficient combination is present: the result is exactly d. *)
Theorem C14_to_naive_date_complete_modulo_iso :
  Fact_iso_week_total -> Fact_isoywd_total -> Fact_isoywd_roundtrip ->
  forall y o d iw p,
  repr y o d -> Date.d_iso_week d = Val iw -> typed p -> date_sound p d ->
  group_ok y (p_year p) (p_year_div_100 p) (p_year_mod_100 p) ->
  group_ok (Date.iw_year iw) (p_isoyear p) (p_isoyear_div_100 p) (p_isoyear_mod_100 p) ->
  combination_present y (Date.iw_year iw) p ->
  to_naive_date p = Val (Ok d).
Proof. exact to_naive_date_complete_modulo_iso. Qed.
Print Assumptions C14_to_naive_date_complete_modulo_iso.

(** ABSENCE OF TRAPS in to_naive_date for every typed field state (in particular every state the
    setters can produce); a returned date is a valid date in range. *)
Theorem C14_to_naive_date_never_panics_modulo_iso :
  Fact_iso_week_total -> Fact_isoywd_total -> Fact_isoywd_roundtrip ->
  forall p, typed p -> exists r, to_naive_date p = Val r /\ forall d, r = Ok d -> is_repr d.
Proof. exact to_naive_date_total_modulo_iso. Qed.
Print Assumptions C14_to_naive_date_never_panics_modulo_iso.

(** ABSENCE OF TRAPS in to_naive_datetime_with_offset (the code with the leap-second repair) for
    every typed field state and every i32 offset: timestamp arithmetic, the leap-second step one
    second back, the re-resolution of the completed field set, the unreachable!() arm. *)
Theorem C14_to_naive_datetime_never_panics_modulo_iso :
  Fact_iso_week_total -> Fact_isoywd_total -> Fact_isoywd_roundtrip ->
  forall p off, typed p -> in_i32 off = true ->
  exists r, to_naive_datetime_with_offset p off = Val r.
Proof. exact to_naive_datetime_total_modulo_iso. Qed.
Print Assumptions C14_to_naive_datetime_never_panics_modulo_iso.

(** the three facts about the ISO-week accessor and constructor, proved (Proofs/C14Iso.v) *)
Theorem C14_fact_iso_week_total : forall y o d, repr y o d ->
  exists iw, Date.d_iso_week d = Val iw /\ in_i32 (Date.iw_year iw) = true.
Proof. exact fact_iso_week_total. Qed.
Print Assumptions C14_fact_iso_week_total.
Theorem C14_fact_isoywd_total : forall y w wd, in_i32 y = true -> 0 <= w <= u32_max -> 0 <= wd <= 6 ->
  exists r, Date.from_isoywd_opt y w wd = Val r /\ (forall d, r = Some d -> exists y' o', repr y' o' d).
Proof. exact fact_isoywd_total. Qed.
Print Assumptions C14_fact_isoywd_total.
Theorem C14_fact_isoywd_roundtrip : forall y o d iw, repr y o d -> Date.d_iso_week d = Val iw ->
  Date.from_isoywd_opt (Date.iw_year iw) (Date.iw_week iw) (weekday_of_dn (dn_of_yo y o)) = Val (Some d).
Proof. exact fact_isoywd_roundtrip. Qed.
Print Assumptions C14_fact_isoywd_roundtrip.

(** COMPLETENESS of to_naive_date, premise-free (statement as above) *)
Theorem C14_to_naive_date_complete :
  forall y o d iw p,
  repr y o d -> Date.d_iso_week d = Val iw -> typed p -> date_sound p d ->
  group_ok y (p_year p) (p_year_div_100 p) (p_year_mod_100 p) ->
  group_ok (Date.iw_year iw) (p_isoyear p) (p_isoyear_div_100 p) (p_isoyear_mod_100 p) ->
  combination_present y (Date.iw_year iw) p ->
  to_naive_date p = Val (Ok d).
Proof. exact to_naive_date_complete. Qed.
Print Assumptions C14_to_naive_date_complete.

(** the same with the ISO year of the date given by the calendar (Spec/Gregorian.v [iso_of_dn]) *)
Theorem C14_to_naive_date_complete_iso :
  forall y o d p,
  repr y o d -> typed p -> date_sound p d ->
  group_ok y (p_year p) (p_year_div_100 p) (p_year_mod_100 p) ->
  group_ok (fst (iso_of_dn (dn_of_yo y o))) (p_isoyear p) (p_isoyear_div_100 p) (p_isoyear_mod_100 p) ->
  combination_present y (fst (iso_of_dn (dn_of_yo y o))) p ->
  to_naive_date p = Val (Ok d).
Proof. exact to_naive_date_complete_iso. Qed.
Print Assumptions C14_to_naive_date_complete_iso.

(** ABSENCE OF TRAPS, premise-free: to_naive_date and to_naive_datetime_with_offset (repaired code)
    return by value for every typed field state (and every i32 offset) *)
Theorem C14_to_naive_date_never_panics :
  forall p, typed p -> exists r, to_naive_date p = Val r /\ forall d, r = Ok d -> is_repr d.
Proof. exact to_naive_date_never_panics. Qed.
Print Assumptions C14_to_naive_date_never_panics.

Theorem C14_to_naive_datetime_never_panics :
  forall p off, typed p -> in_i32 off = true ->
  exists r, to_naive_datetime_with_offset p off = Val r.
Proof. exact to_naive_datetime_never_panics. Qed.
Print Assumptions C14_to_naive_datetime_never_panics.

Example C14_completeness_hypotheses_inhabited :
  repr 2014 365 (mkdate 2014 365) /\ typed ex_date_fields /\
  group_ok 2014 (p_year ex_date_fields) (p_year_div_100 ex_date_fields) (p_year_mod_100 ex_date_fields) /\
  group_ok 2015 (p_isoyear ex_date_fields) (p_isoyear_div_100 ex_date_fields) (p_isoyear_mod_100 ex_date_fields) /\
  combination_present 2014 2015 ex_date_fields /\
  to_naive_date ex_date_fields = Val (Ok (mkdate 2014 365)).
Proof. exact ex_complete_inhabited. Qed.
Print Assumptions C14_completeness_hypotheses_inhabited.

Theorem C14_to_fixed_offset_spec : forall p,
  to_fixed_offset p =
  Val (match p_offset p with
       | None => Err NotEnough
       | Some o => if (-86400 <? o) && (o <? 86400) then Ok o else Err OutOfRange
       end).
Proof. exact to_fixed_offset_spec. Qed.
Print Assumptions C14_to_fixed_offset_spec.

(** ** The hypotheses are inhabited: the documentation example, a leap second, the repaired defect *)
Example C14_doc_example_resolves : typed (ex_fields 2) /\
  to_datetime (ex_fields 2) =
  Val (Ok (mk_dtz (mk_ndt (match Date.from_ymd_opt 2014 12 31 with Val (Some d) => d | _ => 0 end)
                          (Time.mk_time 16000 0)) 0)) /\
  to_datetime (ex_fields 3) = Val (Err Impossible).
Proof. exact (conj ex_typed (conj ex_doc_ok ex_doc_wrong_weekday)). Qed.
Print Assumptions C14_doc_example_resolves.

Example C14_leap_second_from_timestamp : exists v,
  to_naive_datetime_with_offset (pput F_second (Some 60) (pput F_timestamp (Some 1341100800) parsed_new)) 0 = Val (Ok v)
  /\ Time.tsecs (nd_time v) = 86399 /\ Time.tfrac (nd_time v) = 1000000000.
Proof. exact ex_leap_second. Qed.
Print Assumptions C14_leap_second_from_timestamp.

(** the repaired defect (known_findings C14-timestamp-leap-underflow): by value, not by panic *)
Example C14_min_timestamp_leap_second_is_out_of_range :
  to_naive_datetime_with_offset ex_min_leap 0 = Val (Err OutOfRange).
Proof. exact ex_min_leap_out_of_range. Qed.
Print Assumptions C14_min_timestamp_leap_second_is_out_of_range.

(** ** Date-time level: absence of traps in the last step, and completeness (Proofs/C14Zoned.v).
    [Proofs.C04.ndt_ok] / [dtz_ok] / [off_ok] are the well-formedness predicates of the C04 theorems
    (a supported date, seconds of day < 86400, fraction < 2*10^9, offset strictly inside +-24 h). *)

(** a value returned by to_naive_datetime_with_offset is a supported date with a time of day *)
Theorem C14_to_naive_datetime_never_panics_wellformed :
  forall p off, typed p -> in_i32 off = true ->
  exists r, to_naive_datetime_with_offset p off = Val r /\ forall v, r = Ok v -> Proofs.C04.ndt_ok v.
Proof. exact to_naive_datetime_never_panics_ok. Qed.
Print Assumptions C14_to_naive_datetime_never_panics_wellformed.

(** ABSENCE OF TRAPS in to_datetime for EVERY typed field state (in particular every state the
    setters can produce, C14_setters_keep_typed): the offset choice, to_naive_datetime_with_offset,
    the FixedOffset range check and the final from_local_datetime (C04_from_local_fails_iff) return
    by value; a returned date-time is well formed *)
Theorem C14_to_datetime_never_panics :
  forall p, typed p -> exists r, to_datetime p = Val r /\ forall z, r = Ok z -> Proofs.C04.dtz_ok z.
Proof. exact to_datetime_never_panics. Qed.
Print Assumptions C14_to_datetime_never_panics.

(** ... and in to_datetime_with_timezone for every FixedOffset zone (every offset a FixedOffset
    can hold): the early from_timestamp range check with any nanosecond field, the resolution with
    the guessed offset, from_local_datetime, the offset comparison *)
Theorem C14_to_datetime_with_timezone_never_panics :
  forall p tz, typed p -> -86400 < tz < 86400 ->
  exists r, to_datetime_with_timezone p tz = Val r /\ forall z, r = Ok z -> Proofs.C04.dtz_ok z /\ dz_off z = tz.
Proof. exact to_datetime_with_timezone_never_panics. Qed.
Print Assumptions C14_to_datetime_with_timezone_never_panics.

(** every accepted setter call keeps the field state typed: the states reachable from Parsed::new()
    by the setters are typed *)
Theorem C14_setters_keep_typed : forall k p v q u,
  typed p -> apply_setter k p v = Some (Val (q, Ok u)) -> typed q.
Proof. exact apply_setter_typed. Qed.
Print Assumptions C14_setters_keep_typed.
Theorem C14_new_is_typed : typed parsed_new.
Proof. exact typed_new. Qed.
Print Assumptions C14_new_is_typed.

(** COMPLETENESS of to_naive_datetime_with_offset: date fields of the supported date [d] in a
    documented sufficient combination (as in C14_to_naive_date_complete_iso), hour (am/pm flag and
    12-hour value), minute [, second [, nanosecond]] in range, the timestamp field absent or the
    value's own timestamp (one more for a leap-second value): the result is exactly [d] with the
    time of day of those fields *)
Theorem C14_to_naive_datetime_complete : forall y o d p hd hm mi off,
  repr y o d -> typed p -> date_sound p d ->
  group_ok y (p_year p) (p_year_div_100 p) (p_year_mod_100 p) ->
  group_ok (fst (iso_of_dn (dn_of_yo y o))) (p_isoyear p) (p_isoyear_div_100 p) (p_isoyear_mod_100 p) ->
  combination_present y (fst (iso_of_dn (dn_of_yo y o))) p ->
  time_fields_ok p hd hm mi -> in_i32 off = true ->
  ts_direct p (mk_ndt d (time_of_fields hd hm mi (unwrap_or (p_second p) 0) (unwrap_or (p_nanosecond p) 0))) off ->
  to_naive_datetime_with_offset p off =
  Val (Ok (mk_ndt d (time_of_fields hd hm mi (unwrap_or (p_second p) 0) (unwrap_or (p_nanosecond p) 0)))).
Proof. exact to_naive_datetime_complete. Qed.
Print Assumptions C14_to_naive_datetime_complete.

(** COMPLETENESS of to_datetime: [z] is a well-formed DateTime<FixedOffset> whose wall clock [l]
    lies on a supported date; the fields are those of [l] (as above), the offset field is the
    offset of [z], the timestamp field is absent or the timestamp of [z]: to_datetime returns
    exactly [z] *)
Theorem C14_to_datetime_complete : forall z l y o p hd hm mi,
  Proofs.C04.dtz_ok z -> overflowing_naive_local z = Val l -> repr y o (nd_date l) ->
  typed p -> date_sound p (nd_date l) ->
  group_ok y (p_year p) (p_year_div_100 p) (p_year_mod_100 p) ->
  group_ok (fst (iso_of_dn (dn_of_yo y o))) (p_isoyear p) (p_isoyear_div_100 p) (p_isoyear_mod_100 p) ->
  combination_present y (fst (iso_of_dn (dn_of_yo y o))) p ->
  time_fields_ok p hd hm mi ->
  nd_time l = time_of_fields hd hm mi (unwrap_or (p_second p) 0) (unwrap_or (p_nanosecond p) 0) ->
  p_offset p = Some (dz_off z) -> ts_direct p l (dz_off z) ->
  to_datetime p = Val (Ok z).
Proof. exact to_datetime_complete. Qed.
Print Assumptions C14_to_datetime_complete.

(** ... and of to_datetime_with_timezone with the zone of [z] (offset field absent or equal; no
    timestamp field) *)
Theorem C14_to_datetime_with_timezone_complete : forall z l y o p hd hm mi,
  Proofs.C04.dtz_ok z -> overflowing_naive_local z = Val l -> repr y o (nd_date l) ->
  typed p -> date_sound p (nd_date l) ->
  group_ok y (p_year p) (p_year_div_100 p) (p_year_mod_100 p) ->
  group_ok (fst (iso_of_dn (dn_of_yo y o))) (p_isoyear p) (p_isoyear_div_100 p) (p_isoyear_mod_100 p) ->
  combination_present y (fst (iso_of_dn (dn_of_yo y o))) p ->
  time_fields_ok p hd hm mi ->
  nd_time l = time_of_fields hd hm mi (unwrap_or (p_second p) 0) (unwrap_or (p_nanosecond p) 0) ->
  (p_offset p = None \/ p_offset p = Some (dz_off z)) -> p_timestamp p = None ->
  to_datetime_with_timezone p (dz_off z) = Val (Ok z).
Proof. exact to_datetime_with_timezone_complete. Qed.
Print Assumptions C14_to_datetime_with_timezone_complete.

(** the corollary without hypotheses about field states: year, month, day, hour, minute, second (60
    for a leap second, which must sit on second 59), nanosecond, offset and optionally the
    timestamp, read off the wall clock of a well-formed date-time, resolve to that date-time *)
Theorem C14_to_datetime_of_fields : forall z l y o ts,
  Proofs.C04.dtz_ok z -> overflowing_naive_local z = Val l -> repr y o (nd_date l) ->
  (Time.tfrac (nd_time l) < 1000000000 \/ Time.tsecs (nd_time l) mod 60 = 59) ->
  (forall g, ts = Some g -> in_i64 g = true /\ exists t0, dt_timestamp l = Val t0 /\ g = t0 - dz_off z) ->
  to_datetime (fields_of_local y o (nd_time l) (dz_off z) ts) = Val (Ok z).
Proof. exact to_datetime_of_fields. Qed.
Print Assumptions C14_to_datetime_of_fields.

Example C14_datetime_completeness_inhabited :
  Proofs.C04.dtz_ok ex_zoned /\
  overflowing_naive_local ex_zoned = Val (mk_ndt (mkdate 2014 365) (Time.mk_time 16000 0)) /\
  repr 2014 365 (mkdate 2014 365) /\
  to_datetime (fields_of_local 2014 365 (Time.mk_time 16000 0) 34200 (Some 1419965800)) = Val (Ok ex_zoned).
Proof. exact ex_zoned_complete. Qed.
Print Assumptions C14_datetime_completeness_inhabited.

(** ** The timestamp arm of to_naive_datetime_with_offset: COMPLETENESS (Proofs/C14Stamp.v).
    The arm is taken when date and time do not both resolve from the fields alone and neither
    reports 'out of range' / 'impossible' ([soft rd rt]); the value is rebuilt from the timestamp
    plus the offset argument, the leap-second step, and the fields it adds (second, year, ordinal,
    hour, minute) are cross-checked by the setters. *)

(** reduction form: every supplied field is that of the value [v] (a supported date, a time of day
    whose leap-second form sits on second 59 and then has [second = 60]; the nanosecond field,
    absent = 0, is the fraction), the ISO year group is absent or determinate, the timestamp field is
    v's own count of non-leap seconds less the offset argument -- or one more for a leap-second
    value (not the last second of the range): the result is exactly [v], for EVERY offset argument *)
Theorem C14_timestamp_arm_complete : forall y o v p off rd rt,
  repr y o (nd_date v) -> typed p ->
  to_naive_date p = Val rd -> to_naive_time p = Val rt -> soft rd rt = true ->
  date_sound p (nd_date v) -> time_sound p (nd_time v) -> stamp_time_ok p (nd_time v) ->
  group_ok (fst (iso_of_dn (dn_of_yo y o))) (p_isoyear p) (p_isoyear_div_100 p) (p_isoyear_mod_100 p) ->
  ts_of_value p y o v off ->
  to_naive_datetime_with_offset p off = Val (Ok v).
Proof. exact naive_datetime_by_timestamp. Qed.
Print Assumptions C14_timestamp_arm_complete.

(** a state holding just the timestamp [, second [, nanosecond]] [, offset] always takes the arm *)
Theorem C14_timestamp_only_takes_arm : forall g sec nano ofs,
  to_naive_date (stamp_fields g sec nano ofs) = Val (Err NotEnough) /\
  to_naive_time (stamp_fields g sec nano ofs) = Val (Err NotEnough) /\
  soft (Err NotEnough) (Err NotEnough) = true.
Proof. exact (fun g sec nano ofs => conj (proj1 (stamp_fields_first_try g sec nano ofs))
                                     (conj (proj2 (stamp_fields_first_try g sec nano ofs)) eq_refl)). Qed.
Print Assumptions C14_timestamp_only_takes_arm.

(** THE EXACT OUTCOME for such a state, every i64 timestamp, every offset argument, second and
    nanosecond anywhere in their setters' ranges ([stamp_outcome], with L = timestamp + offset):
    'out of range' when L leaves i64 or the supported dates; otherwise the date-time of L with the
    nanosecond field, provided a second field other than 60 equals L mod 60 (else 'impossible').
    [second = 60] together with a timestamp is accepted exactly when L mod 60 = 59 (the result is
    second :59 of L with the leap flag) or L mod 60 = 0 (the result is the second before L with the
    leap flag; 'out of range' when that second lies before the first supported date -- the repaired
    defect); any other L mod 60 is 'impossible' *)
Theorem C14_timestamp_only_outcome : forall g sec nano ofs off, in_i64 g = true ->
  (forall v, sec = Some v -> 0 <= v <= 60) -> (forall n, nano = Some n -> 0 <= n <= 999999999) ->
  (forall v, ofs = Some v -> in_i32 v = true) ->
  to_naive_datetime_with_offset (stamp_fields g sec nano ofs) off = Val (stamp_outcome (g + off) sec nano).
Proof. exact stamp_fields_spec. Qed.
Print Assumptions C14_timestamp_only_outcome.

(** EVERY supported NaiveDateTime [v] -- whole seconds, with a fraction, the leap-second form on
    :59 -- and every offset argument: timestamp = v's timestamp less the offset [, second: 60 for the
    leap form, else absent or v's second] [, nanosecond: v's fraction, absent when 0] resolves to [v] *)
Theorem C14_to_naive_datetime_of_timestamp : forall y o v off g sec nano ofs,
  repr y o (nd_date v) -> Proofs.C04.time_ok (nd_time v) -> leap_on_59 (nd_time v) ->
  dt_timestamp v = Val (g + off) -> in_i64 g = true ->
  second_field_ok sec (nd_time v) -> nano_field_ok nano (nd_time v) ->
  (forall x, ofs = Some x -> in_i32 x = true) ->
  to_naive_datetime_with_offset (stamp_fields g sec nano ofs) off = Val (Ok v).
Proof. exact naive_datetime_of_stamp. Qed.
Print Assumptions C14_to_naive_datetime_of_timestamp.

(** COMPLETENESS of to_datetime / to_datetime_with_timezone through the timestamp arm: [z] a
    well-formed DateTime<FixedOffset> whose wall clock [l] lies on a supported date; the fields are
    those of [l] as above, the timestamp field is the timestamp of [z], the offset field is the
    offset of [z] (to_datetime: may be absent for offset 0; with_timezone: may be absent) *)
Theorem C14_to_datetime_by_timestamp : forall z l y o p rd rt g,
  Proofs.C04.dtz_ok z -> overflowing_naive_local z = Val l -> repr y o (nd_date l) -> typed p ->
  to_naive_date p = Val rd -> to_naive_time p = Val rt -> soft rd rt = true ->
  date_sound p (nd_date l) -> time_sound p (nd_time l) -> stamp_time_ok p (nd_time l) ->
  group_ok (fst (iso_of_dn (dn_of_yo y o))) (p_isoyear p) (p_isoyear_div_100 p) (p_isoyear_mod_100 p) ->
  p_timestamp p = Some g -> dt_timestamp (dz_utc z) = Val g ->
  offset_field_ok (p_offset p) (dz_off z) ->
  to_datetime p = Val (Ok z).
Proof. exact datetime_by_timestamp. Qed.
Print Assumptions C14_to_datetime_by_timestamp.

Theorem C14_to_datetime_with_timezone_by_timestamp : forall z l y o p rd rt g,
  Proofs.C04.dtz_ok z -> overflowing_naive_local z = Val l -> repr y o (nd_date l) -> typed p ->
  to_naive_date p = Val rd -> to_naive_time p = Val rt -> soft rd rt = true ->
  date_sound p (nd_date l) -> time_sound p (nd_time l) -> stamp_time_ok p (nd_time l) ->
  group_ok (fst (iso_of_dn (dn_of_yo y o))) (p_isoyear p) (p_isoyear_div_100 p) (p_isoyear_mod_100 p) ->
  p_timestamp p = Some g -> dt_timestamp (dz_utc z) = Val g ->
  (p_offset p = None \/ p_offset p = Some (dz_off z)) ->
  to_datetime_with_timezone p (dz_off z) = Val (Ok z).
Proof. exact datetime_with_timezone_by_timestamp. Qed.
Print Assumptions C14_to_datetime_with_timezone_by_timestamp.

(** ... for the state holding just the timestamp of [z] [, second [, nanosecond]] and the offset; the
    second is that of the WALL CLOCK (an offset need not be a whole minute) *)
Theorem C14_to_datetime_of_timestamp : forall z l y o g sec nano ofs,
  Proofs.C04.dtz_ok z -> overflowing_naive_local z = Val l -> repr y o (nd_date l) -> leap_on_59 (nd_time l) ->
  dt_timestamp (dz_utc z) = Val g ->
  second_field_ok sec (nd_time l) -> nano_field_ok nano (nd_time l) -> offset_field_ok ofs (dz_off z) ->
  to_datetime (stamp_fields g sec nano ofs) = Val (Ok z).
Proof. exact datetime_of_stamp. Qed.
Print Assumptions C14_to_datetime_of_timestamp.

Theorem C14_to_datetime_with_timezone_of_timestamp : forall z l y o g sec nano ofs,
  Proofs.C04.dtz_ok z -> overflowing_naive_local z = Val l -> repr y o (nd_date l) -> leap_on_59 (nd_time l) ->
  dt_timestamp (dz_utc z) = Val g ->
  second_field_ok sec (nd_time l) -> nano_field_ok nano (nd_time l) -> (ofs = None \/ ofs = Some (dz_off z)) ->
  to_datetime_with_timezone (stamp_fields g sec nano ofs) (dz_off z) = Val (Ok z).
Proof. exact datetime_with_timezone_of_stamp. Qed.
Print Assumptions C14_to_datetime_with_timezone_of_timestamp.

(** EVERY DateTime<Utc> (negative timestamps included): its timestamp alone resolves to it *)
Theorem C14_utc_datetime_of_timestamp : forall y o v g sec nano ofs,
  repr y o (nd_date v) -> Proofs.C04.time_ok (nd_time v) -> leap_on_59 (nd_time v) ->
  dt_timestamp v = Val g ->
  second_field_ok sec (nd_time v) -> nano_field_ok nano (nd_time v) -> (ofs = None \/ ofs = Some 0) ->
  to_datetime (stamp_fields g sec nano ofs) = Val (Ok (mk_dtz v 0)) /\
  to_datetime_with_timezone (stamp_fields g sec nano ofs) 0 = Val (Ok (mk_dtz v 0)).
Proof. exact utc_datetime_of_stamp. Qed.
Print Assumptions C14_utc_datetime_of_timestamp.

(** inhabited: timestamp -1; the leap second 2012-06-30T23:59:60.5 from either neighbouring
    timestamp and refused from the one after; an offset of +05:30:15 (wall-clock second 55) *)
Example C14_timestamp_arm_inhabited :
  repr 1969 365 (nd_date ex_neg) /\ Proofs.C04.time_ok (nd_time ex_neg) /\ leap_on_59 (nd_time ex_neg) /\
  dt_timestamp ex_neg = Val (-1) /\ second_field_ok None (nd_time ex_neg) /\ nano_field_ok None (nd_time ex_neg) /\
  to_datetime (stamp_fields (-1) None None None) = Val (Ok (mk_dtz ex_neg 0)) /\
  repr 2012 182 (nd_date ex_leap) /\ Proofs.C04.time_ok (nd_time ex_leap) /\ leap_on_59 (nd_time ex_leap) /\
  second_field_ok (Some 60) (nd_time ex_leap) /\ nano_field_ok (Some 500000000) (nd_time ex_leap) /\
  to_naive_datetime_with_offset (stamp_fields 1341100799 (Some 60) (Some 500000000) None) 0 = Val (Ok ex_leap) /\
  to_naive_datetime_with_offset (stamp_fields 1341100800 (Some 60) (Some 500000000) None) 0 = Val (Ok ex_leap) /\
  to_naive_datetime_with_offset (stamp_fields 1341100801 (Some 60) None None) 0 = Val (Err Impossible) /\
  Proofs.C04.dtz_ok ex_odd_zone /\
  to_datetime (stamp_fields 1419965800 (Some 55) None (Some 19815)) = Val (Ok ex_odd_zone).
Proof. exact ex_stamp_inhabited. Qed.
Print Assumptions C14_timestamp_arm_inhabited.

(** ---- a zone that is NOT a fixed offset: to_datetime_with_timezone on a zone with one transition
    (offset a before instant t, b from then on; Model/C14.v, the harness's StepZone).  SOUNDNESS: a
    successful result is a date-time of the zone for the resolved wall clock, agrees with every
    supplied date / time field and with the offset field, and - since the repair /repo 56dedf6 - its
    offset is the one the zone has at the timestamp's instant whenever a timestamp is supplied, so the
    result is that instant (C14_stepzone_timestamp_instant).  The unrepaired body returned the other
    candidate of a repeated local time (C14_stepzone_unrepaired_refuted: the recorded, fixed finding
    C14-timezone-timestamp-candidate). ---- *)
From V Require Import Model.C14 Proofs.C14Zone.
Theorem C14_stepzone_sound : forall p t a b z,
  typed p -> -86400 < a < 86400 -> -86400 < b < 86400 ->
  to_datetime_with_stepzone p t a b = Val (Ok z) ->
  exists g local,
    guessed_of p t a b g /\
    to_naive_datetime_with_offset p g = Val (Ok local) /\
    is_cand t a b local z /\
    date_sound p (nd_date local) /\ time_sound p (nd_time local) /\ ts_sound p local g /\
    (forall o, p_offset p = Some o -> dz_off z = o) /\
    (p_timestamp p <> None -> dz_off z = g).
Proof. exact stepzone_sound. Qed.
Print Assumptions C14_stepzone_sound.
Theorem C14_stepzone_timestamp_instant : forall p t a b z,
  typed p -> -86400 < a < 86400 -> -86400 < b < 86400 -> p_timestamp p <> None ->
  to_datetime_with_stepzone p t a b = Val (Ok z) ->
  exists g local, guessed_of p t a b g /\ to_naive_datetime_with_offset p g = Val (Ok local) /\
                  ts_sound p local g /\ dz_off z = g /\
                  ndt_checked_sub_offset local g = Val (Some (dz_utc z)).
Proof. exact stepzone_timestamp_instant. Qed.
Print Assumptions C14_stepzone_timestamp_instant.
Example C14_stepzone_examples :
  res_off (to_datetime_with_stepzone (ex_zone_fields None (Some 7200)) 1635642000 7200 3600) = Some 7200 /\
  res_off (to_datetime_with_stepzone (ex_zone_fields None (Some 3600)) 1635642000 7200 3600) = Some 3600 /\
  to_datetime_with_stepzone (ex_zone_fields None None) 1635642000 7200 3600 = Val (Err NotEnough) /\
  res_off (to_datetime_with_stepzone (ex_zone_fields (Some 1635640200) None) 1635642000 7200 3600) = Some 7200 /\
  res_off (to_datetime_with_stepzone (ex_zone_fields (Some 1635643800) None) 1635642000 7200 3600) = Some 3600 /\
  to_datetime_with_stepzone (ex_zone_fields (Some 1635640200) (Some 3600)) 1635642000 7200 3600 = Val (Err Impossible).
Proof. exact stepzone_examples. Qed.
Print Assumptions C14_stepzone_examples.
Theorem C14_stepzone_unrepaired_refuted :
  exists p z, to_datetime_with_stepzone_unrepaired p 1635642000 7200 3600 = Val (Ok z) /\
              p_timestamp p = Some 1635640200 /\
              (let* ts := dt_timestamp (dz_utc z) in Val ts) = Val 1635643800.
Proof. exact stepzone_unrepaired_refuted. Qed.
Print Assumptions C14_stepzone_unrepaired_refuted.
