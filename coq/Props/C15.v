(** C15 -- fallible operations fail by value, not by panic or hang.
    Theorem-only file: each theorem is closed by [exact] of a lemma of Proofs/C15.v and followed by
    [Print Assumptions].

    C15 is cross-cutting: its model is the union of all properties' models (Model/C15.v) and its
    theorems are corollaries of the owners' theorems (Props/C01.v ... Props/C19.v), restated in the one
    form the property speaks about:

        for ALL arguments of the Rust argument types, the modelled entry point RETURNS
        ([returns r]: r is neither [Panic] -- an arithmetic overflow, a slice off a character boundary,
        an index out of bounds, an unwrap of None -- nor [OutOfFuel] -- a loop that did not end within
        its proved bound), and a returned value is a VALID value of its type.

    Which inventory entries (gen/C15_inventory.json, printed in the evidence) have such a theorem and
    which are covered by correspondence + judge only is recorded per entry in that table and summarised
    in trusted_base.json ("assumptions_C15"). *)
From Coq Require Import ZArith List Bool String.
From V Require Import Base.Int Base.IO Base.Utf8 Proofs.C15.
From V Require Model.Date Model.Time Model.DateTime Model.Rfc3339 Model.Strftime Model.C15 Gen.Strftime.
Import ListNotations.
Open Scope Z_scope.

(** ** NaiveDate constructors: every i32 / u32 argument; never a trap; the date returned is valid *)
Theorem C15_from_ymd_opt_total : forall y m dd, in_i32 y = true -> in_u32 m = true -> in_u32 dd = true ->
  returns (Model.Date.from_ymd_opt y m dd) /\
  forall d, Model.Date.from_ymd_opt y m dd = Val (Some d) -> date_valid d.
Proof. exact from_ymd_opt_total. Qed.
Print Assumptions C15_from_ymd_opt_total.
Theorem C15_from_yo_opt_total : forall y o, in_i32 y = true -> in_u32 o = true ->
  returns (Model.Date.from_yo_opt y o) /\ forall d, Model.Date.from_yo_opt y o = Val (Some d) -> date_valid d.
Proof. exact from_yo_opt_total. Qed.
Print Assumptions C15_from_yo_opt_total.
(* includes year = i32::MIN / i32::MAX (the year - 1 / year + 1 spill repaired by f8bab14) *)
Theorem C15_from_isoywd_opt_total : forall y w wd, in_i32 y = true -> in_u32 w = true -> 0 <= wd <= 6 ->
  returns (Model.Date.from_isoywd_opt y w wd) /\ forall d, Model.Date.from_isoywd_opt y w wd = Val (Some d) -> date_valid d.
Proof. exact from_isoywd_opt_total. Qed.
Print Assumptions C15_from_isoywd_opt_total.
Theorem C15_from_num_days_from_ce_opt_total : forall n, in_i32 n = true ->
  returns (Model.Date.from_num_days_from_ce_opt n) /\
  forall d, Model.Date.from_num_days_from_ce_opt n = Val (Some d) -> date_valid d.
Proof. exact from_num_days_from_ce_opt_total. Qed.
Print Assumptions C15_from_num_days_from_ce_opt_total.
Theorem C15_succ_pred_total : forall d, date_valid d ->
  returns (Model.Date.succ_opt d) /\ returns (Model.Date.pred_opt d) /\
  (forall x, Model.Date.succ_opt d = Val (Some x) -> date_valid x) /\
  (forall x, Model.Date.pred_opt d = Val (Some x) -> date_valid x).
Proof. exact succ_pred_total. Qed.
Print Assumptions C15_succ_pred_total.

(** ** NaiveTime constructors: every u32 argument (u32::MAX in every position included) *)
Theorem C15_time_ctor_total : forall h m s x,
  in_u32 h = true -> in_u32 m = true -> in_u32 s = true -> in_u32 x = true ->
  (returns (Model.Time.from_hms_opt h m s) /\ forall t, Model.Time.from_hms_opt h m s = Val (Some t) -> time_valid t) /\
  (returns (Model.Time.from_hms_milli_opt h m s x) /\ forall t, Model.Time.from_hms_milli_opt h m s x = Val (Some t) -> time_valid t) /\
  (returns (Model.Time.from_hms_micro_opt h m s x) /\ forall t, Model.Time.from_hms_micro_opt h m s x = Val (Some t) -> time_valid t) /\
  (returns (Model.Time.from_hms_nano_opt h m s x) /\ forall t, Model.Time.from_hms_nano_opt h m s x = Val (Some t) -> time_valid t).
Proof. exact time_ctor_total. Qed.
Print Assumptions C15_time_ctor_total.

(** ** NaiveDate::and_hms_opt / _milli / _micro / _nano (ops c15.d.hms, hmsm, hmsu, hmsn) *)
Theorem C15_and_hms_total : forall d h m s x, date_valid d ->
  in_u32 h = true -> in_u32 m = true -> in_u32 s = true -> in_u32 x = true ->
  (returns (Model.C15.d_and_hms_opt d h m s) /\ forall a, Model.C15.d_and_hms_opt d h m s = Val (Some a) -> ndt_valid a) /\
  (returns (Model.C15.d_and_hms_milli_opt d h m s x) /\ forall a, Model.C15.d_and_hms_milli_opt d h m s x = Val (Some a) -> ndt_valid a) /\
  (returns (Model.C15.d_and_hms_micro_opt d h m s x) /\ forall a, Model.C15.d_and_hms_micro_opt d h m s x = Val (Some a) -> ndt_valid a) /\
  (returns (Model.C15.d_and_hms_nano_opt d h m s x) /\ forall a, Model.C15.d_and_hms_nano_opt d h m s x = Val (Some a) -> ndt_valid a).
Proof. exact and_hms_all_total. Qed.
Print Assumptions C15_and_hms_total.

(** ** RFC 3339 reader: every well-formed UTF-8 string *)
Theorem C15_parse_from_rfc3339_total : forall s, utf8_valid s = true -> returns (Model.Rfc3339.parse_from_rfc3339 s).
Proof. exact parse_from_rfc3339_total. Qed.
Print Assumptions C15_parse_from_rfc3339_total.

(** ** Format-string items: iteration ends (the fuel of the drain, 16*len+32 calls, is never exhausted)
    after at most 13 items per input byte; strict mode on the repaired code (SF_ERROR_CONSUMES is read
    from src/format/strftime.rs by the translator: d664290), lenient mode always *)
Theorem C15_strftime_items_bounded : forall s lenient, Gen.Strftime.SF_ERROR_CONSUMES = true \/ lenient = true ->
  Model.C15.sf_items s lenient <> OutOfFuel /\ Model.C15.sf_items s lenient <> Val None /\
  forall l, Model.C15.sf_items s lenient = Val (Some l) -> Z.of_nat (List.length l) <= 13 * Z.of_nat (List.length s).
Proof. exact strftime_items_bounded. Qed.
Print Assumptions C15_strftime_items_bounded.
Theorem C15_item_count_bounded : forall s lenient, Gen.Strftime.SF_ERROR_CONSUMES = true \/ lenient = true ->
  Model.C15.item_count s lenient <> VFuel /\
  forall n, Model.C15.item_count s lenient = VInt n -> n <= 13 * Z.of_nat (List.length s).
Proof. exact item_count_bounded. Qed.
Print Assumptions C15_item_count_bounded.
Theorem C15_strftime_parse_ends : forall s lenient, Gen.Strftime.SF_ERROR_CONSUMES = true \/ lenient = true ->
  Model.C15.sf_parse s lenient <> VFuel.
Proof. exact sf_parse_no_fuel. Qed.
Print Assumptions C15_strftime_parse_ends.

Example C15_hypotheses_inhabited :
  date_valid (Model.Date.D_MAX) /\ Gen.Strftime.SF_ERROR_CONSUMES = true /\
  Model.C15.item_count (B"%c%c") false = VInt 26 /\ Model.C15.sf_parse (B"%Q") false = VErr B"BadFormat".
Proof. exact hypotheses_inhabited. Qed.
Print Assumptions C15_hypotheses_inhabited.
